#!/usr/bin/env python3
"""audit_classes.py <dir>: minimum population of every required class over the evidence files of a soak."""
import glob, json, sys, collections
mins = collections.defaultdict(lambda: (10**12, None))
for f in glob.glob(sys.argv[1] + "/*.json"):
    d = json.load(open(f))
    for k, v in d["coverage"].get("required_classes", {}).items():
        key = d["property_id"] + " " + k
        if v < mins[key][0]:
            mins[key] = (v, d["seed"])
for k, (v, seed) in sorted(mins.items(), key=lambda x: x[1][0]):
    if v < int(sys.argv[2]) if len(sys.argv) > 2 else 30:
        print("%6d  (seed %s)  %s" % (v, seed, k))
