#!/bin/bash
# Soak: run every check's quick (or $TIER) tier at several seeds, $PAR checks in parallel, and report anything that is not OK.
# usage: ./soak.sh <first-seed> <last-seed> [ids...]
cd "$(dirname "$0")"
first=${1:-1}; last=${2:-3}; shift 2
ids=${@:-C01 C02 C03 C04 C05 C06 C07 C08 C09 C10 C11 C12 C13 C14 C15 C16 C17 C18 C19 C20}
tier=${TIER:-quick}
par=${PAR:-6}
export VERIF_NO_EVIDENCE=1
export VERIF_EVIDENCE_DIR=${VERIF_EVIDENCE_DIR:-/tmp/soak-evidence}
out=$(mktemp -d)
for s in $(seq $first $last); do
  for id in $ids; do
    echo "$s $id"
  done
done | xargs -P $par -L 1 bash -c 'VERIF_SEED=$0 ./check $1 '"$tier"' > '"$out"'/$1-$0.log 2>&1; echo "seed=$0 $1 rc=$? $(tail -1 '"$out"'/$1-$0.log | cut -c1-200)"'
echo "--- not OK:"
grep -L "^OK property" $out/*.log | while read f; do echo "== $f"; tail -40 $f | cut -c1-300; done
