#!/opt/veriftools/pyvenv/bin/python3
"""Validates MANIFEST.json and every evidence file against the schemas."""
import json, sys, glob, jsonschema
ok = True
try:
    jsonschema.validate(json.load(open('/verif/MANIFEST.json')), json.load(open('/root/.vp/MANIFEST.schema.json')))
    print('MANIFEST ok')
except Exception as e:
    ok = False; print('MANIFEST INVALID', str(e)[:500])
sch = json.load(open('/root/.vp/EVIDENCE.schema.json'))
for f in sorted(glob.glob('/verif/evidence/*.json')):
    try:
        jsonschema.validate(json.load(open(f)), sch); print(f, 'ok')
    except Exception as e:
        ok = False; print(f, 'INVALID', str(e)[:500])
sys.exit(0 if ok else 1)
