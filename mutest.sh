#!/bin/bash
# mutest.sh <name> <patch-file> [--suite] [--demo <demo_test.go>] <ids...>
# Applies a seeded change in a scratch worktree of /repo (never in /repo itself), optionally runs the
# repository's own suite and the demonstration, runs the given checks against that tree, removes the worktree.
set -u
name=$1; patch=$2; shift 2
suite=0; demo=""; tier=${TIER:-quick}
while [ $# -gt 0 ]; do
  case "$1" in
    --suite) suite=1; shift;;
    --demo) demo=$2; shift 2;;
    *) break;;
  esac
done
export GOFLAGS=-mod=mod GOPROXY=off GOSUMDB=off GOTOOLCHAIN=local
wt=/tmp/mt/$name
rm -rf $wt; mkdir -p /tmp/mt
flock /tmp/mt/.wtlock git -C /repo worktree add -q --detach $wt ${MUT_BASE:-HEAD} || exit 2
cleanup() { flock /tmp/mt/.wtlock git -C /repo worktree remove --force $wt 2>/dev/null; rm -rf $wt; }
trap cleanup EXIT
if [ -n "$demo" ]; then
  place=$(head -1 "$demo" | sed -n 's/^\/\/ place at: *//p')
  [ -z "$place" ] && { echo "demo has no place-at line"; exit 2; }
  mkdir -p "$(dirname "$wt/$place")"; cp "$demo" "$wt/$place"
  pkg=$(dirname "$place")
  tname=$(basename "$place")
  echo "== demo WITHOUT change:"; (cd $wt && go test -vet=off -count=1 -run '(?i)verifdemo' ${DEMOFLAGS:-} ./$pkg 2>&1 | tail -3)
fi
if ! git -C $wt apply "$patch" && ! git -C $wt apply -3 "$patch"; then echo "PATCH DOES NOT APPLY"; exit 2; fi
if [ -n "$demo" ]; then
  echo "== demo WITH change:"; (cd $wt && go test -vet=off -count=1 -run '(?i)verifdemo' ${DEMOFLAGS:-} ./$pkg 2>&1 | tail -4)
  rm -f "$wt/$place"
fi
if [ $suite = 1 ]; then
  echo "== repository suite with the change:"; (cd $wt && go build ./... && go test -vet=off -count=1 ./... 2>&1 | grep -v "^ok\|no test files" | tail -5; echo "suite done")
  git -C $wt checkout go.sum 2>/dev/null
fi
cd /verif
for id in "$@"; do
  VERIF_REPO=$wt VERIF_NO_EVIDENCE=1 VERIF_NO_REPLAY=1 ./check $id $tier > /tmp/mt/$name.$id.log 2>&1
  rc=$?
  echo "== check $id on $name: rc=$rc $(grep -E '^(VIOLATION|OK|BROKEN)' /tmp/mt/$name.$id.log | tail -1 | cut -c1-150)"
done
