#!/bin/bash
# usage: mt_all.sh "<ID> <letter> <checks...>" lines on stdin
cd /verif
run_one() {
  id=$1; l=$2; shift 2
  flags=""
  [ "$id" = "C15" ] && export DEMOFLAGS=-race
  ./mutest.sh $id$l ${SEED_SRC:-/tmp/wt}/$id.$l.patch --demo ${SEED_SRC:-/tmp/wt}/$id.$l.demo_test.go "$@" > /tmp/mt/$id$l.out 2>&1
  echo "$id$l: $(grep -c 'demo WITH' /tmp/mt/$id$l.out) $(grep '== check' /tmp/mt/$id$l.out | sed 's/== check //' | tr '\n' ';' | cut -c1-300)"
}
export -f run_one
mkdir -p /tmp/mt
xargs -P 4 -L 1 bash -c 'run_one $0 "$@"'
