"""Per-property configuration of the driver (package, test selection, tiers)."""

GENREG = ["go", "run", "./cmd/genregistry", "-repo", "{repo}", "-out", "{rundir}/registry_gen.go",
          "-overlay", "{rundir}/overlay.json", "-target", "{harness}/msg/registry_gen.go",
          "-structs", "{structs}", "-seed", "{seed}"]


def _msg(run):
    return {"pkg": "msg", "run": run, "pre": [GENREG], "overlay": True, "structs": {"quick": 200, "thorough": 1200},
            "quick": {"shards": 1, "timeout": 900}, "thorough": {"shards": 16, "timeout": 3000}}


def _node(run, quick_shards=1, **kw):
    d = {"pkg": "node", "run": run,
         "quick": {"shards": quick_shards, "timeout": 1200, "shrinktime": 45},
         "thorough": {"shards": 16, "timeout": 3600, "shrinktime": 90, "GOMAXPROCS": "vary"}}
    d.update(kw)
    return d


CHECKS = {
    "C10": _node("^TestC10"),
    "C11": _node("^TestC11"),
    # the long-lived scenario (half a minute of real time) is a part of its own: parts run concurrently
    "C12": _node("^TestC12", parts=[{"pkg": "node", "run": "^TestC12(Close|InitFailure|Lives|CloseWithUnsentData|CloseWithManyChannels|CloseRightAfterInitialize)$"},
                                    {"pkg": "node", "run": "^TestC12LongLived$"}]),
    "C13": _node("^TestC13"),
    "C14": _node("^TestC14"),
    "C15": _node("^TestC15", race=True),
    # the sender that keeps heartbeating for 28 s of real time is a part of its own (parts run concurrently)
    "C16": _node("^TestC16", parts=[{"pkg": "node", "run": "^TestC16(Automatic|HeartbeatsForWhoeverIsLeft|RepeatInterval)$"},
                                    {"pkg": "node", "run": "^TestC16LongLivedSender$"}]),
    "C03": _msg("^TestC03"),
    "C04": dict(_msg("^(Test|Fuzz)C04"), fuzz=[{"pkg": "msg", "target": "FuzzC04Read", "time": "150s"}]),
    "C17": _msg("^TestC17"),
    "C19": dict(_msg("^TestC19"), parts=[{"pkg": "msg", "run": "^TestC19"}, {"pkg": "dgen", "run": "^TestC19"}]),
    "C18": {"pkg": "dgen", "run": "^TestC18",
            "quick": {"shards": 1, "timeout": 1200, "shrinktime": 60}, "thorough": {"shards": 16, "timeout": 3600, "shrinktime": 120}},
    "C01": {"pkg": "wire", "run": "^TestC01",
            "quick": {"shards": 1, "timeout": 600}, "thorough": {"shards": 16, "timeout": 2400}},
    "C02": {"parts": [{"pkg": "wire", "run": "^TestC02"}, {"pkg": "node", "run": "^TestC02"}],
            "quick": {"shards": 1, "timeout": 600}, "thorough": {"shards": 16, "timeout": 2400}},
    "C05": {"pkg": "wire", "run": "^(Test|Fuzz)C05", "fuzz": [{"pkg": "wire", "target": "FuzzC05Reader", "time": "150s"}],
            "quick": {"shards": 1, "timeout": 600}, "thorough": {"shards": 16, "timeout": 2400}},
    "C06": {"parts": [{"pkg": "wire", "run": "^TestC06"}, {"pkg": "node", "run": "^TestC06"}],
            "quick": {"shards": 1, "timeout": 600}, "thorough": {"shards": 16, "timeout": 2400}},
    "C07": {"parts": [{"pkg": "wire", "run": "^TestC07"}, {"pkg": "node", "run": "^TestC07"}],
            "quick": {"shards": 1, "timeout": 600}, "thorough": {"shards": 16, "timeout": 2400}},
    "C08": {"parts": [{"pkg": "wire", "run": "^TestC08"}, {"pkg": "node", "run": "^TestC08"}],
            "quick": {"shards": 1, "timeout": 600}, "thorough": {"shards": 16, "timeout": 2400}},
    "C09": {"parts": [{"pkg": "wire", "run": "^TestC09"}, {"pkg": "node", "run": "^TestC09"}],
            "quick": {"shards": 1, "timeout": 600}, "thorough": {"shards": 16, "timeout": 2400}},
    "C20": {"pkg": "wire", "run": "^(Test|Fuzz)C20", "fuzz": [{"pkg": "wire", "target": "FuzzC20Tlog", "time": "120s"}],
            "quick": {"shards": 1, "timeout": 600}, "thorough": {"shards": 16, "timeout": 2400}},
}

ASSUMPTIONS = {
    "*": [
        "the independent reference in harness/ref (bitwise CRC-16/MCRF4XX, flat frame layout, SHA-256 signature, struct-tag layout/encoder/decoder) is a correct reading of the MAVLink serialization guide; it is self-tested against the catalogue check value and published CRC_EXTRA numbers",
        "Go standard library, rapid v1.3.0 and the Go toolchain are trusted",
        "exploration, not proof: generated-input search finds violations, it does not establish absence",
    ],
}

# Crash signatures of listed known findings (key -> regex over the test output). Only active while
# known_findings.txt lists a `known:` entry with that key for the property being checked.
KNOWN_CRASH_SIGNATURES = {
    # the process dies (WaitGroup panic) or, under the race detector, the same misuse is reported as a race
    # between listener.Accept (connWG.Add) and the goroutine started by Listen (connWG.Wait)
    "pion-udp-accept-close-race": r"(sync: (WaitGroup is reused before previous Wait has returned|negative WaitGroup counter|WaitGroup misuse)[\s\S]{0,600}pion/transport/v2/udp|DATA RACE[\s\S]{0,1200}pion/transport/v2/udp\.\(\*listener\)\.Accept\(\)[\s\S]{0,2500}pion/transport/v2/udp\.\(\*ListenConfig\)\.Listen\.func1|DATA RACE[\s\S]{0,1200}pion/transport/v2/udp\.\(\*ListenConfig\)\.Listen\.func1[\s\S]{0,2500}pion/transport/v2/udp\.\(\*listener\)\.Accept\(\))",
}
