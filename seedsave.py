#!/usr/bin/env python3
"""seedsave.py <ID> <letter>: store a confirmed seeded change under /verif/seeded/<ID>-<letter>/ from the
agent's deliverables in /tmp/wt and the mutest output in /tmp/mt."""
import json, os, re, shutil, sys
pid, letter = sys.argv[1], sys.argv[2]
src = "%s/%s.%s" % (os.environ.get("SEED_SRC", "/tmp/wt"), pid, letter)
out = open("/tmp/mt/%s%s.out" % (pid, letter)).read()
d = "/verif/seeded/%s-%s" % (pid, letter)
os.makedirs(d, exist_ok=True)
shutil.copy(src + ".patch", d + "/patch.diff")
demo = open(src + ".demo_test.go").read()
place = re.match(r"// place at: *(\S+)", demo).group(1)
shutil.copy(src + ".demo_test.go", d + "/" + os.path.basename(place) + ".txt")  # .txt: must not be compiled inside /verif
desc = open(src + ".txt").read()
m = re.search(r"== demo WITHOUT change:\n(.*?)== demo WITH change:\n(.*?)(== repository|== check|$)", out, re.S)
without, with_ = (m.group(1).strip(), m.group(2).strip()) if m else ("", "")
checks = re.findall(r"== check (\S+) on \S+: rc=(\d+) ?(.*)", out)
meta = {
    "property": pid,
    "origin": "independent sub-agent given only the property text and a scratch worktree",
    "what_it_needs_to_manifest": desc,
    "demonstration": {"file": os.path.basename(place) + ".txt", "place_at": place,
                      "without_change": without[-300:], "with_change": with_[-600:],
                      "confirmed_by_me": ("ok" in without and "FAIL" in with_)},
    "suite_passes_with_change": "confirmed by the sub-agent (see description); re-confirmed by me where noted in DESIGN.md",
    "what_i_ran": "./mutest.sh %s%s /tmp/wt/%s.%s.patch --demo ... %s  (scratch worktree of /repo HEAD + patch; checks run with VERIF_REPO=<worktree>)" % (pid, letter, pid, letter, " ".join(c[0] for c in checks)),
    "checks": [{"check": c[0], "tier": "quick", "exit": int(c[1]), "verdict": c[2].strip()[:200]} for c in checks],
    "caught_by": [c[0] for c in checks if c[1] == "1"],
}
json.dump(meta, open(d + "/meta.json", "w"), indent=1)
print(pid, letter, "caught by", meta["caught_by"], "demo confirmed", meta["demonstration"]["confirmed_by_me"])
