#!/bin/sh
# Offline setup: warm the build cache for the harness (everything is rebuilt per check anyway).
set -e
cd "$(dirname "$0")/harness"
export GOFLAGS=-mod=mod GOPROXY=off GOSUMDB=off GOTOOLCHAIN=local
go build ./ref ./evid ./gen ./cmd/... 
go vet ./ref >/dev/null 2>&1 || true
echo setup ok
