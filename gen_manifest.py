#!/usr/bin/env python3
"""Writes MANIFEST.json from checks_conf.py and manifest_texts.py (single source of truth)."""
import json, os, sys
ROOT = os.path.dirname(os.path.abspath(__file__))
sys.path.insert(0, ROOT)
from checks_conf import CHECKS
from manifest_texts import TEXTS, HOOK_COMMITS, NOT_APPLICABLE

ids = [json.loads(l)["id"] for l in open(os.path.join(ROOT, "properties.jsonl"))]
checks = []
for pid in ids:
    if pid not in CHECKS or pid not in TEXTS:
        continue
    t = TEXTS[pid]
    checks.append({
        "property_id": pid,
        "quick_cmd": "./check %s quick" % pid,
        "thorough_cmd": "./check %s thorough" % pid,
        "evidence_file": "/verif/evidence/%s.json" % pid,
        "replay_cmd_template": "./check %s --replay {path}" % pid,
        "engine": "rapid-harness",
        "level_claimed": {"category": CHECKS[pid].get("level", "exploration"), "text": t["level_text"], "design_ref": t["design_ref"]},
        "level_note": t["level_note"],
        "technique": t["technique"],
    })
na = [{"property_id": pid, "reason": NOT_APPLICABLE.get(pid, "check not built yet in this session; will be claimed once its generator and oracle exist")}
      for pid in ids if pid not in [c["property_id"] for c in checks]]
man = {
    "version": 1,
    "setup_cmd": "./setup.sh",
    "hooks": {
        "guard": "verif",
        "enable": "go build tag: the driver builds every harness test binary with `go test -c -tags verif` against /repo (replace directive), so /repo/verif_hooks.go is compiled in",
        "baseline_off_cmd": "cd /repo && GOFLAGS=-mod=mod GOPROXY=off GOSUMDB=off GOTOOLCHAIN=local go test -vet=off -count=1 ./...",
        "source_commits": HOOK_COMMITS,
        "add_only": True,
    },
    "engines": [{
        "name": "rapid-harness",
        "path": "/verif/harness",
        "serves_properties": [c["property_id"] for c in checks],
        "kind_free_text": "property-based testing (pgregory.net/rapid v1.3.0: value generators, state-machine histories, shrinking, fail files) plus complete enumeration of finite sub-spaces and native go fuzzing in the thorough tier; oracles are an independent reference implementation (harness/ref), round trips, metamorphic relations and history invariants; driver ./check shards, merges statistics and writes evidence",
    }],
    "checks": checks,
    "notes": "Driver: ./check <ID> <quick|thorough> [--replay <path>]; exit 0 held, 1 violation (VIOLATION line), 2 the check could not do its job. VERIF_SEED selects the rapid seed (remapped so that 0 never means random). See DESIGN.md.",
    "not_applicable": na,
}
json.dump(man, open(os.path.join(ROOT, "MANIFEST.json"), "w"), indent=1)
print("claimed:", [c["property_id"] for c in checks], "not claimed:", [n["property_id"] for n in na])
