package msg

import (
	"fmt"
	"reflect"
	"sort"
	"strings"
	"testing"

	"github.com/bluenviron/gomavlib/v3/pkg/dialect"
	"github.com/bluenviron/gomavlib/v3/pkg/message"
	"pgregory.net/rapid"

	"verifharness/evid"
	"verifharness/gen"
	"verifharness/ref"
)

func TestC17Shipped(t *testing.T) {
	rec := evid.New(t, "C17", "finite part, enumerated completely from the repository tree: every shipped dialect initializes; ids unique; GetMessage(id) returns the codec of the message with that id and nil for absent ids (neighbours, boundaries, 2^16 pseudo-random ids); every message <= 255 bytes; CRC_EXTRA == reference (== published golden values where listed, == the value pinned for the definition for every shipped message whose definition is the pinned one up to letter case of names); a message listed under another shipped dialect's definition group is the identical Go type there and values pass between the two codecs unchanged; an enum constant has the same value in every package defining it; each (dialect,message) and (dialect,constant) pair is a case")
	tys := types(t)
	_ = tys
	byName := map[string]*DialectReg{}
	for i := range Shipped {
		byName[Shipped[i].Name] = &Shipped[i]
	}
	typeByName := func(d *DialectReg) map[string]message.Message {
		m := map[string]message.Message{}
		for _, x := range d.Dialect.Messages {
			m[reflect.TypeOf(x).Elem().Name()] = x
		}
		return m
	}
	nAlias, nGolden, nPinned := 0, 0, 0
	for i := range Shipped {
		d := &Shipped[i]
		fail := func(format string, a ...interface{}) {
			msg := fmt.Sprintf(format, a...)
			evid.ReplayNote("C17", "TestC17Shipped", d.Name+": "+msg)
			t.Fatalf("dialect %s: %s", d.Name, msg)
		}
		rw := &dialect.ReadWriter{Dialect: d.Dialect}
		if evid.HashS(d.Name)%2 == 0 {
			// every other dialect codec comes from the older constructor: it must be the same codec
			rw2, err := dialect.NewReadWriter(d.Dialect) //nolint:staticcheck
			if err != nil {
				fail("NewReadWriter: %v", err)
			}
			rw = rw2
		} else if err := rw.Initialize(); err != nil {
			fail("Initialize: %v", err)
		}
		ids := map[uint32]message.Message{}
		var idList []uint32
		for _, m := range d.Dialect.Messages {
			id := m.GetID()
			if prev, dup := ids[id]; dup {
				fail("id %d used by %T and %T", id, prev, m)
			}
			ids[id] = m
			idList = append(idList, id)
			lay, err := ref.LayoutOf(reflect.TypeOf(m).Elem())
			if err != nil {
				fail("BROKEN: %v", err)
			}
			if lay.ExtSize > 255 {
				fail("%T has %d payload bytes (> 255)", m, lay.ExtSize)
			}
			mrw := rw.GetMessage(id)
			if mrw == nil {
				fail("GetMessage(%d) = nil although %T is in the dialect", id, m)
			}
			if mrw.Message.GetID() != id || reflect.TypeOf(mrw.Message) != reflect.TypeOf(m) {
				fail("GetMessage(%d) returned the codec of %T (id %d), want %T", id, mrw.Message, mrw.Message.GetID(), m)
			}
			if mrw.CRCExtra() != lay.CRCExtra {
				fail("%T: CRC_EXTRA %d, spec %d", m, mrw.CRCExtra(), lay.CRCExtra)
			}
			if want, ok := goldenCRC[lay.MsgName]; ok && want == lay.CRCExtra {
				nGolden++
				if mrw.CRCExtra() != want {
					fail("%T: CRC_EXTRA %d, published %d", m, mrw.CRCExtra(), want)
				}
			}
			// the value pinned for this definition (see pins_test.go)
			if pin, ok := pinnedCRC[fmt.Sprintf("%s/%d", d.Name, id)]; ok {
				if pin.sig != pinSignature(lay) {
					rec.Class("message-redefined-since-the-pins-were-taken", 1)
				} else {
					nPinned++
					if mrw.CRCExtra() != pin.crc {
						fail("%T (id %d): CRC_EXTRA %d; the value published for this definition (same name, same fields and types, names compared without letter case) is %d - a name in the struct no longer spells what the definition file says", m, id, mrw.CRCExtra(), pin.crc)
					}
				}
			} else {
				rec.Class("message-without-pin", 1)
			}
			rec.Case(true, evid.HashS(d.Name, "msg", fmt.Sprint(id)), "dialect-message")
		}
		// absent ids
		absent := func(id uint32) {
			if _, ok := ids[id]; ok {
				return
			}
			if got := rw.GetMessage(id); got != nil {
				fail("GetMessage(%d) returned a codec (%T) for an id that is not in the dialect", id, got.Message)
			}
			rec.Class("absent-id-lookup", 1)
		}
		for _, id := range idList {
			absent(id - 1)
			absent(id + 1)
			absent(id + 256)
			absent(id | 1<<24)
		}
		for _, id := range []uint32{0, 1, 255, 256, 65535, 65536, 1<<24 - 1, 1 << 24, 1<<32 - 1} {
			absent(id)
		}
		x := uint32(2463534242)
		for k := 0; k < 1<<16; k++ {
			x ^= x << 13
			x ^= x >> 17
			x ^= x << 5
			absent(x & (1<<24 - 1))
		}
		rec.Evals(1 << 16)
		// lookups in the order a router makes them: the same id several times in a row, present and absent ids
		// alternating - the answer depends on the id alone, not on what was asked before
		if len(idList) >= 2 {
			var prevID uint32
			y := uint32(88172645 + len(idList))
			for k := 0; k < 4000; k++ {
				y ^= y << 13
				y ^= y >> 17
				y ^= y << 5
				var id uint32
				switch y % 5 {
				case 0:
					id = prevID // once more
				case 1, 2:
					id = idList[int(y>>8)%len(idList)]
				case 3:
					id = idList[int(y>>8)%len(idList)] + 1
				default:
					id = (y >> 4) & (1<<24 - 1)
				}
				got := rw.GetMessage(id)
				if m, present := ids[id]; present {
					if got == nil || reflect.TypeOf(got.Message) != reflect.TypeOf(m) {
						fail("lookup %d of a sequence: GetMessage(%d) = %v, want the codec of %T (the lookup before it asked for id %d)", k, id, got, m, prevID)
					}
				} else if got != nil {
					fail("lookup %d of a sequence: GetMessage(%d) returned the codec of %T for an id that is not in the dialect (the lookup before it asked for id %d)", k, id, got.Message, prevID)
				}
				prevID = id
			}
			rec.Class("lookup-sequences-with-repeats", 1)
		}
		// groups: messages included from another shipped dialect are the same Go type there
		own := typeByName(d)
		for _, g := range d.Groups {
			src, ok := byName[g.Def]
			if !ok || src.Name == d.Name {
				continue
			}
			srcTypes := typeByName(src)
			for _, name := range g.Msgs {
				a, okA := own[name]
				b, okB := srcTypes[name]
				if !okA {
					fail("BROKEN: %s listed in dialect.go but not in Messages", name)
				}
				if !okB {
					fail("message %s is listed under definition group %q but dialect %s does not contain it", name, g.Def, src.Name)
				}
				if reflect.TypeOf(a) != reflect.TypeOf(b) {
					fail("message %s included from %s is a different Go type (%T vs %T)", name, src.Name, a, b)
				}
				if a.GetID() != b.GetID() {
					fail("message %s has id %d here and %d in %s", name, a.GetID(), b.GetID(), src.Name)
				}
				nAlias++
				rec.Case(true, evid.HashS(d.Name, "alias", name), "included-message-same-type")
			}
		}
	}
	// values pass between codecs of two dialects unchanged
	evid.Check(t, rec, evid.N(8000, 40000), func(t *rapid.T) {
		d := &Shipped[rapid.IntRange(0, len(Shipped)-1).Draw(t, "dialect")]
		var cands []struct {
			src  *DialectReg
			name string
		}
		for _, g := range d.Groups {
			if src, ok := byName[g.Def]; ok && src.Name != d.Name {
				for _, n := range g.Msgs {
					cands = append(cands, struct {
						src  *DialectReg
						name string
					}{src, n})
				}
			}
		}
		if len(cands) == 0 {
			return
		}
		c := cands[rapid.IntRange(0, len(cands)-1).Draw(t, "msg")]
		a := typeByName(d)[c.name]
		b := typeByName(c.src)[c.name]
		lay, _ := ref.LayoutOf(reflect.TypeOf(a).Elem())
		val := gen.Value(t, lay).(message.Message)
		v2 := rapid.Bool().Draw(t, "v2")
		rwA := &message.ReadWriter{Message: a}
		rwB := &message.ReadWriter{Message: b}
		if rwA.Initialize() != nil || rwB.Initialize() != nil {
			t.Fatalf("codec init failed for %s", c.name)
		}
		raw := rwA.Write(val, v2)
		got, err := rwB.Read(raw, v2)
		if err != nil || !ref.EqualMsg(got, lay.Canonical(val, v2)) {
			t.Fatalf("%s encoded through %s does not decode equal through %s (err=%v)", c.name, d.Name, c.src.Name, err)
		}
		if rwA.CRCExtra() != rwB.CRCExtra() {
			t.Fatalf("%s: CRC_EXTRA differs between %s and %s", c.name, d.Name, c.src.Name)
		}
		rec.Case(true, evid.Hash([]byte(d.Name+c.src.Name+c.name), raw.Payload), "cross-dialect-value")
	})
	// enum constants: same value wherever defined
	values := map[string]map[uint64][]string{}
	nconst := 0
	for _, d := range Shipped {
		for _, e := range d.Enums {
			for _, c := range e.Consts {
				if values[c.Name] == nil {
					values[c.Name] = map[uint64][]string{}
				}
				values[c.Name][c.Value] = append(values[c.Name][c.Value], d.Name)
				nconst++
				rec.Case(true, evid.HashS(d.Name, "const", c.Name), "dialect-constant")
			}
		}
	}
	var names []string
	for n := range values {
		names = append(names, n)
	}
	sort.Strings(names)
	for _, n := range names {
		if len(values[n]) > 1 {
			evid.ReplayNote("C17", "TestC17Shipped", fmt.Sprintf("constant %s: %v", n, values[n]))
			t.Fatalf("enum constant %s has different values in different dialects: %v", n, values[n])
		}
	}
	// a message that was in a dialect's list when the pins were taken and is not any more, while another shipped dialect
	// still has it unchanged (a dialect that includes another one lists every message of it): it was dropped from
	// that list, not withdrawn upstream
	{
		have := map[string]uint64{}
		for i := range Shipped {
			for _, m := range Shipped[i].Dialect.Messages {
				if l, err := ref.LayoutOf(reflect.TypeOf(m).Elem()); err == nil {
					have[fmt.Sprintf("%s/%d", Shipped[i].Name, m.GetID())] = pinSignature(l)
				}
			}
		}
		var keys []string
		for k := range pinnedCRC {
			keys = append(keys, k)
		}
		sort.Strings(keys)
		for _, k := range keys {
			if _, ok := have[k]; ok {
				continue
			}
			slash := strings.Index(k, "/")
			if byName[k[:slash]] == nil {
				continue // the whole dialect is gone
			}
			for other, sig := range have {
				if strings.HasSuffix(other, k[slash:]) && sig == pinnedCRC[k].sig {
					msg := fmt.Sprintf("message id %s was in the list of dialect %s and is not any more, while dialect %s still has it, unchanged: lookups of that id in %s find nothing", k[slash+1:], k[:slash], other[:strings.Index(other, "/")], k[:slash])
					evid.ReplayNote("C17", "TestC17Shipped", msg)
					t.Fatalf("%s", msg)
				}
			}
			rec.Class("pinned-message-withdrawn-everywhere", 1)
		}
	}
	rec.Exhaustive(fmt.Sprintf("all %d dialect packages x all their messages (ids, lookup, size, CRC_EXTRA; %d golden pins, %d values pinned per definition); %d included-message type identities; %d (dialect, constant) pairs over %d constant names", len(Shipped), nGolden, nPinned, nAlias, nconst, len(names)))
	rec.Sample("dialect-message", "ardupilotmega: GetMessage(0) -> *minimal.MessageHeartbeat, CRC_EXTRA 50, same Go type as in minimal/common/all")
}

// ---- malformed message structs (each must be refused by Initialize) ----

type NoPrefixStruct struct{ A uint8 }

func (*NoPrefixStruct) GetID() uint32 { return 900001 }

type MessageBadEnumNotUint64 struct {
	A uint32 `mavenum:"uint8"`
}

func (*MessageBadEnumNotUint64) GetID() uint32 { return 900002 }

type MessageBadEnumWireFloat struct {
	A UEnum `mavenum:"float32"`
}

func (*MessageBadEnumWireFloat) GetID() uint32 { return 900003 }

type MessageBadEnumWireUnknown struct {
	A UEnum `mavenum:"banana"`
}

func (*MessageBadEnumWireUnknown) GetID() uint32 { return 900004 }

type MessageBadEnumWireInt16 struct {
	A UEnum `mavenum:"int16"`
}

func (*MessageBadEnumWireInt16) GetID() uint32 { return 900005 }

type MessageBadInt struct{ A int }

func (*MessageBadInt) GetID() uint32 { return 900006 }

type MessageBadBool struct {
	X uint8
	A bool
}

func (*MessageBadBool) GetID() uint32 { return 900007 }

type MessageBadSlice struct{ A []uint8 }

func (*MessageBadSlice) GetID() uint32 { return 900008 }

type MessageBadPointer struct{ A *uint8 }

func (*MessageBadPointer) GetID() uint32 { return 900009 }

type MessageBadStruct struct{ A struct{ B uint8 } }

func (*MessageBadStruct) GetID() uint32 { return 900010 }

type MessageBadMavlen struct {
	A string `mavlen:"ten"`
}

func (*MessageBadMavlen) GetID() uint32 { return 900011 }

type MessageBadArrayOfBool struct{ A [3]bool }

func (*MessageBadArrayOfBool) GetID() uint32 { return 900012 }

type MessageBadUint struct{ A uint }

func (*MessageBadUint) GetID() uint32 { return 900013 }

// the two classes found by probing: they used to pass Initialize and panic at first use
type MessageBadTooBig struct {
	A [40]uint64
}

func (*MessageBadTooBig) GetID() uint32 { return 900014 }

type MessageBadTooBigByOne struct {
	A [255]uint8
	B uint8 `mavext:"true"`
}

func (*MessageBadTooBigByOne) GetID() uint32 { return 900015 }

type MessageBadLongArray struct {
	A [300]uint8
}

func (*MessageBadLongArray) GetID() uint32 { return 900016 }

type MessageBadUnexported struct {
	A uint8
	b uint16
}

func (*MessageBadUnexported) GetID() uint32 { return 900017 }

type MessageBadLongString struct {
	A string `mavlen:"300"`
}

func (*MessageBadLongString) GetID() uint32 { return 900018 }

// named Go types outside the enum convention: no codec path knows them, so they must be refused up front
type (
	NamedU8  uint8
	NamedStr string
	NamedF32 float32
)

type MessageBadNamedScalar struct {
	A NamedU8
	B uint32
}

func (*MessageBadNamedScalar) GetID() uint32 { return 900019 }

type MessageBadNamedString struct {
	A NamedStr `mavlen:"10"`
}

func (*MessageBadNamedString) GetID() uint32 { return 900020 }

type MessageBadNamedArrayElem struct {
	B uint32
	A [3]NamedF32
}

func (*MessageBadNamedArrayElem) GetID() uint32 { return 900021 }

type MessageBadEnumWithoutTag struct {
	A UEnum
	B uint32
}

func (*MessageBadEnumWithoutTag) GetID() uint32 { return 900022 }

type MessageBadZeroLenString struct {
	A string `mavlen:"0"`
	B uint8
}

func (*MessageBadZeroLenString) GetID() uint32 { return 900023 }

type MessageBadNegativeLenString struct {
	B uint8
	A string `mavlen:"-3"`
}

func (*MessageBadNegativeLenString) GetID() uint32 { return 900024 }

type MessageBadEmptyLenTag struct {
	A string `mavlen:" 5"`
}

func (*MessageBadEmptyLenTag) GetID() uint32 { return 900025 }

// fields without a name of their own (embedded predeclared types, directly or through a lower-case alias):
// unexported like any other lower-case field, so nothing can set or read them
type MessageBadEmbeddedScalar struct {
	Seq uint8
	uint32
}

func (*MessageBadEmbeddedScalar) GetID() uint32 { return 900026 }

type lowerAlias = uint16

type MessageBadEmbeddedAlias struct {
	lowerAlias
	B uint8
}

func (*MessageBadEmbeddedAlias) GetID() uint32 { return 900027 }

type MessageBadEmbeddedString struct {
	B      uint8
	string `mavlen:"4"`
}

func (*MessageBadEmbeddedString) GetID() uint32 { return 900028 }

// arrays of arrays: MAVLink arrays have one dimension
type MessageBadMatrix struct {
	Seq    uint16
	Matrix [2][3]uint8
	Tail   uint8
}

func (*MessageBadMatrix) GetID() uint32 { return 900029 }

type MessageBadCube struct {
	Cube [2][2][2]float32
}

func (*MessageBadCube) GetID() uint32 { return 900030 }

type MessageBadEnumMatrix struct {
	A uint8
	M [2][2]UEnum `mavenum:"uint8"`
}

func (*MessageBadEnumMatrix) GetID() uint32 { return 900031 }

type MessageBadStringArray struct {
	Names [3]string `mavlen:"4"`
}

func (*MessageBadStringArray) GetID() uint32 { return 900032 }

type MessageBadStringArrayNoLen struct {
	Callsign [4]string
}

func (*MessageBadStringArrayNoLen) GetID() uint32 { return 900039 }

type MessageBadStringArrayOfOne struct {
	Callsign [1]string
	A        uint8
}

func (*MessageBadStringArrayOfOne) GetID() uint32 { return 900040 }

// names that do not BEGIN with "Message" (the word elsewhere in the name, in other letter case, or only part of it)
type TelemetryMessageStatus struct{ A uint8 }

func (*TelemetryMessageStatus) GetID() uint32 { return 900033 }

type MyMessage struct{ A uint8 }

func (*MyMessage) GetID() uint32 { return 900034 }

type messageLowerCase struct{ A uint8 }

func (*messageLowerCase) GetID() uint32 { return 900035 }

type MESSAGEUpperCase struct{ A uint8 }

func (*MESSAGEUpperCase) GetID() uint32 { return 900036 }

type MessagStatus struct{ A uint8 }

func (*MessagStatus) GetID() uint32 { return 900037 }

type XMessageMessageInterval struct{ A uint8 }

func (*XMessageMessageInterval) GetID() uint32 { return 900038 }

var malformed = []message.Message{
	&MessageBadStringArrayNoLen{}, &MessageBadStringArrayOfOne{}, &TelemetryMessageStatus{}, &MyMessage{}, &messageLowerCase{}, &MESSAGEUpperCase{}, &MessagStatus{}, &XMessageMessageInterval{},
	&MessageBadMatrix{}, &MessageBadCube{}, &MessageBadEnumMatrix{}, &MessageBadStringArray{},
	&MessageBadEmbeddedScalar{}, &MessageBadEmbeddedAlias{}, &MessageBadEmbeddedString{},
	&MessageBadZeroLenString{}, &MessageBadNegativeLenString{}, &MessageBadEmptyLenTag{},
	&MessageBadNamedScalar{}, &MessageBadNamedString{}, &MessageBadNamedArrayElem{}, &MessageBadEnumWithoutTag{},
	&NoPrefixStruct{}, &MessageBadEnumNotUint64{}, &MessageBadEnumWireFloat{}, &MessageBadEnumWireUnknown{},
	&MessageBadEnumWireInt16{}, &MessageBadInt{}, &MessageBadBool{}, &MessageBadSlice{}, &MessageBadPointer{},
	&MessageBadStruct{}, &MessageBadMavlen{}, &MessageBadArrayOfBool{}, &MessageBadUint{},
	&MessageBadTooBig{}, &MessageBadTooBigByOne{}, &MessageBadLongArray{}, &MessageBadUnexported{}, &MessageBadLongString{},
}

var _ = MessageBadUnexported{}.b

// messages at the ends of the id range a v2 frame can carry
type MessageEdgeTop struct{ A uint8 }

func (*MessageEdgeTop) GetID() uint32 { return 1<<24 - 1 }

type MessageEdgeBelowTop struct{ A uint16 }

func (*MessageEdgeBelowTop) GetID() uint32 { return 1<<24 - 2 }

type MessageEdgeSixteenBits struct{ A uint32 }

func (*MessageEdgeSixteenBits) GetID() uint32 { return 65535 }

type MessageEdgeSeventeenBits struct{ A uint8 }

func (*MessageEdgeSeventeenBits) GetID() uint32 { return 65536 }

var edgeMessages = []message.Message{&MessageEdgeTop{}, &MessageEdgeBelowTop{}, &MessageEdgeSixteenBits{}, &MessageEdgeSeventeenBits{}}

func TestC17Generated(t *testing.T) {
	rec := evid.New(t, "C17", "generated dialects: random subsets of shipped and user message types with injected faults - a duplicate id at a random position, or a malformed struct of every documented class (name prefix, enum not uint64, unsupported/non-enum mavenum type, unsupported Go field type incl. named scalar/string/array-element types and an enum type without its mavenum tag, non-numeric mavlen) plus oversize (>255 bytes, array/string longer than 255) and unexported fields; Initialize must return an error (never nil followed by a panic at first Read/Write); fault-free dialects must initialize and serve every id; non-trivial = fault injected after >= 1 good message; distinct by hash of the id/type list")
	rec.Require("duplicate-id", "malformed-struct", "fault-free", "oversize-or-unexported", "dialect-object-edited-in-place", "message-id-at-an-end-of-the-range")
	tys := types(t)
	// some cases re-initialize ONE dialect object that is edited in place between cases (same or different
	// number of messages): what Initialize decides must depend on the dialect as it is now, not on earlier calls
	shared := &dialect.Dialect{Version: 3}
	evid.Check(t, rec, evid.N(20000, 80000), func(t *rapid.T) {
		n := rapid.IntRange(0, 12).Draw(t, "n")
		var msgs []message.Message
		used := map[uint32]bool{}
		for len(msgs) < n {
			ti := tys[rapid.IntRange(0, len(tys)-1).Draw(t, "type")]
			if used[ti.msg.GetID()] {
				continue
			}
			used[ti.msg.GetID()] = true
			msgs = append(msgs, ti.msg)
		}
		for _, em := range rapid.SliceOfNDistinct(rapid.SampledFrom(edgeMessages), 0, 2, func(m message.Message) uint32 { return m.GetID() }).Draw(t, "edge_ids") {
			if !used[em.GetID()] {
				used[em.GetID()] = true
				at := rapid.IntRange(0, len(msgs)).Draw(t, "edge_pos")
				msgs = append(msgs[:at], append([]message.Message{em}, msgs[at:]...)...)
			}
		}
		fault := rapid.SampledFrom([]string{"none", "duplicate", "duplicate", "malformed", "malformed"}).Draw(t, "fault")
		cls := []string{}
		pos := -1
		var bad message.Message
		switch fault {
		case "duplicate":
			if len(msgs) == 0 {
				fault = "none"
				break
			}
			src := msgs[rapid.IntRange(0, len(msgs)-1).Draw(t, "dup_of")]
			bad = src
			// another type with the same id when one exists
			if rapid.Bool().Draw(t, "other_type") {
				for _, ti := range tys {
					if ti.msg.GetID() == src.GetID() && reflect.TypeOf(ti.msg) != reflect.TypeOf(src) {
						bad = ti.msg
						break
					}
				}
			}
			cls = append(cls, "duplicate-id")
		case "malformed":
			bad = malformed[rapid.IntRange(0, len(malformed)-1).Draw(t, "which")]
			cls = append(cls, "malformed-struct")
			switch bad.(type) {
			case *MessageBadTooBig, *MessageBadTooBigByOne, *MessageBadLongArray, *MessageBadUnexported, *MessageBadLongString:
				cls = append(cls, "oversize-or-unexported")
			}
		}
		if bad != nil {
			pos = rapid.IntRange(0, len(msgs)).Draw(t, "pos")
			msgs = append(msgs[:pos], append([]message.Message{bad}, msgs[pos:]...)...)
		}
		desc := func() string {
			var s []string
			for _, m := range msgs {
				s = append(s, fmt.Sprintf("%T#%d", m, m.GetID()))
			}
			return fmt.Sprint(s)
		}
		reuse := rapid.IntRange(0, 2).Draw(t, "reuse_dialect_object") == 0
		d := &dialect.Dialect{Version: 3, Messages: msgs}
		if reuse {
			shared.Messages = msgs
			d = shared
		}
		rw := &dialect.ReadWriter{Dialect: d}
		err := func() (err error) {
			defer func() {
				if r := recover(); r != nil {
					err = panicErr{r}
				}
			}()
			return rw.Initialize()
		}()
		if _, isPanic := err.(panicErr); isPanic {
			t.Fatalf("Initialize panicked on %s: %v", desc(), err)
		}
		if fault == "none" {
			if err != nil {
				t.Fatalf("fault-free dialect %s refused: %v", desc(), err)
			}
			for _, m := range msgs {
				c := rw.GetMessage(m.GetID())
				if c == nil || reflect.TypeOf(c.Message) != reflect.TypeOf(m) {
					t.Fatalf("GetMessage(%d) wrong in generated dialect %s", m.GetID(), desc())
				}
				if m.GetID() >= 65535 {
					cls = append(cls, "message-id-at-an-end-of-the-range")
				}
			}
			for _, id := range []uint32{0, 255, 256, 65535, 65536, 1<<24 - 2, 1<<24 - 1, 1 << 24, 1<<32 - 1} {
				if c := rw.GetMessage(id); c != nil && !used[id] {
					t.Fatalf("GetMessage(%d) returns the codec of %T in generated dialect %s, which has no such id", id, c.Message, desc())
				}
			}
			cls = append(cls, "fault-free")
		} else if err == nil {
			// show what happens at first use, for the report
			use := ""
			if c := rw.GetMessage(bad.GetID()); c != nil {
				_, werr := safeWrite(c, c.Message, true)
				_, rerr := safeRead(c, &message.MessageRaw{ID: bad.GetID(), Payload: []byte{1, 2, 3}}, true)
				use = fmt.Sprintf(" (first use: Write -> %v, Read -> %v)", werr, rerr)
			}
			evid.ReplayNote("C17", "TestC17Generated", fmt.Sprintf("%s fault=%s at %d: Initialize returned nil%s", desc(), fault, pos, use))
			t.Fatalf("dialect %s with a %s (%T at position %d) was accepted by Initialize%s", desc(), fault, bad, pos, use)
		}
		if reuse {
			cls = append(cls, "dialect-object-edited-in-place")
		}
		rec.Case(fault != "none" && pos >= 1, evid.HashS(desc(), fault), cls...)
		if fault != "none" && pos >= 1 && rec.WantSample(cls[0]) {
			rec.Sample(cls[0], map[string]interface{}{"messages": desc(), "fault": fault, "position": pos, "error": fmt.Sprint(err)})
		}
	})
}
