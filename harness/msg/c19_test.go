package msg

import (
	"encoding"
	"fmt"
	"math/big"
	"reflect"
	"sort"
	"strings"
	"testing"

	"pgregory.net/rapid"

	"verifharness/evid"
)

// enumOps wraps the text methods of a generated enum type.
type enumOps struct {
	reg     EnumReg
	bitmask bool
	byValue map[uint64][]string
	flags   []uint64 // defined single-bit values, ascending
}

func (e *enumOps) marshal(v uint64) (string, string, error) {
	val := reflect.New(e.reg.Type).Elem()
	val.SetUint(v)
	tm, ok := val.Interface().(encoding.TextMarshaler)
	if !ok {
		return "", "", fmt.Errorf("type %s does not implement encoding.TextMarshaler", e.reg.Type)
	}
	b, err := tm.MarshalText()
	text := string(b)
	// the bytes now belong to the caller, who may do with them what it likes (here: blank them out, as code
	// that reuses its buffers or edits the text for display does); the next conversion says the same as this one
	for i := range b {
		b[i] = '#'
	}
	if err == nil && len(b) > 0 {
		again, err2 := tm.MarshalText()
		if err2 != nil || string(again) != text {
			return "", "", fmt.Errorf("MarshalText(%d) returned %q; after the caller had overwritten the bytes it was given, the same conversion returns %q (err %v): the result is a view of the library's own table", v, text, again, err2)
		}
	}
	str := ""
	if s, ok := val.Interface().(fmt.Stringer); ok {
		str = s.String()
	} else {
		return "", "", fmt.Errorf("type %s does not implement fmt.Stringer", e.reg.Type)
	}
	return text, str, err
}

// unmarshal parses text into destinations holding different previous values: the result of parsing
// must not depend on what the variable held before.
func (e *enumOps) unmarshal(text string) (uint64, error) {
	var first uint64
	var firstErr error
	for k, prev := range []uint64{0, ^uint64(0), 0x21, 1 << 40} {
		ptr := reflect.New(e.reg.Type)
		ptr.Elem().SetUint(prev)
		tu, ok := ptr.Interface().(encoding.TextUnmarshaler)
		if !ok {
			return 0, fmt.Errorf("type *%s does not implement encoding.TextUnmarshaler", e.reg.Type)
		}
		// the text is the caller's: a window into a larger buffer (a line of a file, the input of a JSON decoder) whose
		// neighbouring bytes are somebody else's - parsing reads the window and writes nothing
		backing := make([]byte, len(text)+2+k)
		for i := range backing {
			backing[i] = 0xA5
		}
		copy(backing[1:], text)
		snapshot := string(backing)
		err := tu.UnmarshalText(backing[1 : 1+len(text)])
		if string(backing) != snapshot {
			return 0, fmt.Errorf("UnmarshalText(%q) wrote to the caller's buffer: the text sat at [1:%d] of a %d-byte array that read %x before the call and reads %x after it", text, 1+len(text), len(backing), snapshot, backing)
		}
		got := ptr.Elem().Uint()
		if k == 0 {
			first, firstErr = got, err
			continue
		}
		if (err == nil) != (firstErr == nil) {
			return got, fmt.Errorf("UnmarshalText(%q) fails or succeeds depending on the previous value of the destination (%#x)", text, prev)
		}
		if err == nil && got != first {
			return got, fmt.Errorf("UnmarshalText(%q) gives %#x into a zero variable but %#x into a variable that held %#x", text, first, got, prev)
		}
	}
	return first, firstErr
}

func allEnums(t testing.TB) []*enumOps {
	types(t)
	bitmaskByType := map[reflect.Type]bool{}
	for _, d := range Shipped {
		for _, e := range d.Enums {
			if !e.Alias && e.Bitmask {
				bitmaskByType[e.Type] = true
			}
		}
	}
	var out []*enumOps
	for _, d := range Shipped {
		for _, e := range d.Enums {
			eo := &enumOps{reg: e, bitmask: bitmaskByType[e.Type], byValue: map[uint64][]string{}}
			for _, c := range e.Consts {
				eo.byValue[c.Value] = append(eo.byValue[c.Value], c.Name)
			}
			for v := range eo.byValue {
				if v != 0 && v&(v-1) == 0 {
					eo.flags = append(eo.flags, v)
				}
			}
			sort.Slice(eo.flags, func(i, j int) bool { return eo.flags[i] < eo.flags[j] })
			out = append(out, eo)
		}
	}
	if len(out) == 0 {
		t.Fatalf("BROKEN: no enums in the registry")
	}
	return out
}

func contains(xs []string, x string) bool {
	for _, y := range xs {
		if x == y {
			return true
		}
	}
	return false
}

// checkOrdinary is the oracle for one value of an ordinary enum.
func (e *enumOps) checkOrdinary(v uint64) error {
	text, str, err := e.marshal(v)
	if err != nil {
		return fmt.Errorf("MarshalText(%d): %v", v, err)
	}
	if str != text {
		return fmt.Errorf("String() = %q but MarshalText = %q for %d", str, text, v)
	}
	if names := e.byValue[v]; len(names) > 0 {
		if !contains(names, text) {
			return fmt.Errorf("defined constant %v (=%d) is rendered as %q", names, v, text)
		}
	} else {
		n, ok := new(big.Int).SetString(text, 10)
		if !ok {
			return fmt.Errorf("undefined value %d is rendered as %q, not a decimal number", v, text)
		}
		m := new(big.Int).Mod(n, new(big.Int).Lsh(big.NewInt(1), 64))
		if m.Uint64() != v {
			return fmt.Errorf("undefined value %d is rendered as %q", v, text)
		}
	}
	back, err := e.unmarshal(text)
	if err != nil {
		return fmt.Errorf("UnmarshalText(%q) (rendering of %d) failed: %v", text, v, err)
	}
	if back != v {
		return fmt.Errorf("value %d -> %q -> %d", v, text, back)
	}
	return nil
}

// checkMask is the oracle for zero and combinations of defined single-bit flags of a bitmask enum.
func (e *enumOps) checkMask(v uint64) error {
	text, str, err := e.marshal(v)
	if err != nil {
		return fmt.Errorf("MarshalText(%#x): %v", v, err)
	}
	if str != text {
		return fmt.Errorf("String() = %q but MarshalText = %q for %#x", str, text, v)
	}
	if v != 0 {
		parts := strings.Split(text, " | ")
		seen := map[uint64]bool{}
		for _, p := range parts {
			found := false
			for _, f := range e.flags {
				if v&f != 0 && contains(e.byValue[f], p) {
					if seen[f] {
						return fmt.Errorf("combination %#x rendered as %q: flag %s twice", v, text, p)
					}
					seen[f], found = true, true
				}
			}
			if !found {
				return fmt.Errorf("combination %#x of defined flags is rendered as %q: %q is not the name of a flag it contains", v, text, p)
			}
		}
		for _, f := range e.flags {
			if v&f != 0 && !seen[f] {
				return fmt.Errorf("combination %#x of defined flags is rendered as %q: flag %v (=%#x) is missing", v, text, e.byValue[f], f)
			}
		}
	}
	back, err := e.unmarshal(text)
	if err != nil {
		return fmt.Errorf("UnmarshalText(%q) (rendering of %#x) failed: %v", text, v, err)
	}
	if back != v {
		return fmt.Errorf("value %#x -> %q -> %#x", v, text, back)
	}
	return nil
}

func TestC19Enumerated(t *testing.T) {
	rec := evid.New(t, "C19", "every enum type of every shipped dialect package (alias and non-alias), enumerated from the repository tree: ordinary enums - every defined constant, value+-1 around each, 0, 2^63-1, 2^63, 2^64-1; bitmask enums - 0, every defined single-bit flag, every pair, all subsets when <=10 flags; text must be the XML name / decimal / exactly the contained flag names joined by ' | ', String()==MarshalText, and UnmarshalText(MarshalText(v))==v; rejection inputs must fail; non-trivial = constant that is not the first entry, flag at a bit position >= number of entries (sparse), unnamed value; distinct by (type, value)")
	rec.Require("defined-constant", "unnamed-value", "single-flag", "flag-pair", "sparse-flag", "rejected-text", "flag-subset", "all-or-all-but-one-flag", "texts-held-across-conversions")
	enums := allEnums(t)
	shard, shards := evid.Shard()
	for i, e := range enums {
		if i%shards != shard {
			continue
		}
		name := e.reg.Pkg + "." + e.reg.Name
		fail := func(err error) {
			evid.ReplayNote("C19", "TestC19Enumerated", name+": "+err.Error())
			t.Fatalf("%s: %v", name, err)
		}
		key := func(v uint64) uint64 { return evid.HashS(e.reg.Type.String(), fmt.Sprint(v)) }
		if !e.bitmask {
			for ci, c := range e.reg.Consts {
				if err := e.checkOrdinary(c.Value); err != nil {
					fail(err)
				}
				rec.Case(ci > 0, key(c.Value), "defined-constant")
				for _, v := range []uint64{c.Value - 1, c.Value + 1} {
					if err := e.checkOrdinary(v); err != nil {
						fail(err)
					}
					if len(e.byValue[v]) == 0 {
						rec.Case(true, key(v), "unnamed-value")
					}
				}
			}
			for _, v := range []uint64{0, 1<<63 - 1, 1 << 63, 1<<64 - 1, 1 << 32, 1<<32 - 1, 1 << 31} {
				if err := e.checkOrdinary(v); err != nil {
					fail(err)
				}
				rec.Case(true, key(v), "unnamed-value")
			}
		} else {
			if err := e.checkMask(0); err != nil {
				fail(err)
			}
			rec.Case(false, key(0), "mask-zero")
			nentries := len(e.reg.Consts)
			for _, f := range e.flags {
				if err := e.checkMask(f); err != nil {
					fail(err)
				}
				cls := []string{"single-flag"}
				bit := 0
				for (uint64(1) << uint(bit)) != f {
					bit++
				}
				if bit >= nentries {
					cls = append(cls, "sparse-flag")
				}
				rec.Case(true, key(f), cls...)
			}
			for a := 0; a < len(e.flags); a++ {
				for b := a + 1; b < len(e.flags); b++ {
					v := e.flags[a] | e.flags[b]
					if err := e.checkMask(v); err != nil {
						fail(err)
					}
					rec.Case(true, key(v), "flag-pair")
				}
			}
			if n := len(e.flags); n > 2 && n <= 10 {
				for s := 1; s < 1<<uint(n); s++ {
					var v uint64
					for k := 0; k < n; k++ {
						if s&(1<<uint(k)) != 0 {
							v |= e.flags[k]
						}
					}
					if err := e.checkMask(v); err != nil {
						fail(err)
					}
					rec.Case(true, key(v), "flag-subset")
				}
			}
			// every flag at once, and every flag but one (the longest texts there are)
			if n := len(e.flags); n > 2 {
				var all uint64
				for _, f := range e.flags {
					all |= f
				}
				for k := -1; k < n; k++ {
					v := all
					if k >= 0 {
						v &^= e.flags[k]
					}
					if err := e.checkMask(v); err != nil {
						fail(err)
					}
					rec.Case(true, key(v), "all-or-all-but-one-flag")
				}
			}
			multi := 0
			for v := range e.byValue {
				if v != 0 && v&(v-1) != 0 {
					multi++
				}
			}
			if multi > 0 {
				rec.Class("multi-bit-entries-excluded", int64(multi))
			}
		}
		// texts are values of their own: the text of one value stays what it is when another value of the same type is
		// converted afterwards (an application collects the texts of several values before it uses any of them)
		{
			var vals []uint64
			if e.bitmask {
				// zero and combinations of defined flags only: nothing is promised about other values of a bitmask
				vals = append(vals, e.flags...)
				if len(e.flags) >= 2 {
					vals = append(vals, e.flags[0]|e.flags[1], e.flags[len(e.flags)-1]|e.flags[0])
				}
				vals = append(vals, 0)
			} else {
				for _, c := range e.reg.Consts {
					vals = append(vals, c.Value)
				}
				vals = append(vals, 0, 77777)
			}
			if len(vals) > 12 {
				vals = vals[:12]
			}
			texts := make([][]byte, len(vals))
			for k, v := range vals {
				ptr := reflect.New(e.reg.Type)
				ptr.Elem().SetUint(v)
				b, err := ptr.Elem().Interface().(encoding.TextMarshaler).MarshalText()
				if err != nil {
					if e.bitmask {
						texts[k] = nil // not a combination of defined flags: nothing to hold
						continue
					}
					fail(fmt.Errorf("MarshalText(%d): %v", v, err))
				}
				texts[k] = b // kept as returned, not copied
			}
			for k, v := range vals {
				if texts[k] == nil {
					continue
				}
				ptr := reflect.New(e.reg.Type)
				if err := ptr.Interface().(encoding.TextUnmarshaler).UnmarshalText(texts[k]); err != nil || ptr.Elem().Uint() != v {
					fail(fmt.Errorf("the text of value %d, taken before %d other values of the type were converted to text, now reads %q and parses to %d (err %v): a returned text changed afterwards", v, len(vals)-k-1, texts[k], ptr.Elem().Uint(), err))
				}
			}
			rec.Class("texts-held-across-conversions", int64(len(vals)))
		}
		// rejections
		var rejects []string
		rejects = append(rejects, "", " ", "NOT_A_NAME_OF_ANYTHING", "1.5", "0x10", "1e3", "12abc", " | ", "|")
		if len(e.reg.Consts) > 0 {
			n := e.reg.Consts[0].Name
			rejects = append(rejects, strings.ToLower(n), n+" ", " "+n, n+" |"+n, n+" | ", " | "+n, n+"|", n+" | | "+n, n+" |  "+n)
			if !e.bitmask && len(e.reg.Consts) > 1 {
				rejects = append(rejects, n+" | "+e.reg.Consts[1].Name)
			}
		}
		for _, r := range rejects {
			if _, isName := map[string]bool{}[r]; isName {
				continue
			}
			skip := false
			for _, c := range e.reg.Consts {
				if c.Name == r {
					skip = true
				}
			}
			if skip {
				continue
			}
			if v, err := e.unmarshal(r); err == nil {
				fail(fmt.Errorf("UnmarshalText(%q) accepted (value %d): neither a known name, a combination of names nor a number", r, v))
			} else if strings.Contains(err.Error(), "depending on the previous value") {
				fail(err)
			}
			rec.Case(true, evid.HashS(e.reg.Type.String(), "reject", r), "rejected-text")
		}
		if rec.WantSample("enum") {
			rec.Sample("enum", map[string]interface{}{"enum": name, "bitmask": e.bitmask, "constants": len(e.reg.Consts), "single_bit_flags": len(e.flags)})
		}
	}
	rec.Exhaustive(fmt.Sprintf("all %d enum types (over all dialect packages) x all their constants / single flags / flag pairs", len(enums)))
}

func TestC19Random(t *testing.T) {
	rec := evid.New(t, "C19", "random values: ordinary enums - random uint64 (biased to small, to neighbours of constants and to >= 2^32); bitmask enums - random subsets of the defined single-bit flags; same oracle as the enumeration; non-trivial = unnamed value >= 2^32 or subset of >= 3 flags; distinct by (type, value)")
	rec.Require("unnamed>=2^32", "subset>=3")
	enums := allEnums(t)
	evid.Check(t, rec, evid.N(200000, 800000), func(t *rapid.T) {
		e := enums[rapid.IntRange(0, len(enums)-1).Draw(t, "enum")]
		name := e.reg.Pkg + "." + e.reg.Name
		var cls []string
		var v uint64
		var err error
		if !e.bitmask || len(e.flags) == 0 {
			if e.bitmask {
				return
			}
			v = rapid.OneOf(rapid.Uint64(), rapid.Uint64Range(0, 70000), rapid.Uint64Range(1<<32, 1<<33), rapid.Uint64Range(1<<63-5, 1<<63+5)).Draw(t, "v")
			err = e.checkOrdinary(v)
			if len(e.byValue[v]) == 0 && v >= 1<<32 {
				cls = append(cls, "unnamed>=2^32")
			}
		} else {
			sel := rapid.SliceOfN(rapid.Bool(), len(e.flags), len(e.flags)).Draw(t, "subset")
			k := 0
			for i, s := range sel {
				if s {
					v |= e.flags[i]
					k++
				}
			}
			err = e.checkMask(v)
			if k >= 3 {
				cls = append(cls, "subset>=3")
			}
		}
		if err != nil {
			evid.ReplayNote("C19", "TestC19Random", name+": "+err.Error())
			t.Fatalf("%s: %v", name, err)
		}
		rec.Case(len(cls) > 0, evid.HashS(e.reg.Type.String(), fmt.Sprint(v)), cls...)
		if len(cls) > 0 && rec.WantSample(cls[0]) {
			text, _, _ := e.marshal(v)
			rec.Sample(cls[0], map[string]interface{}{"enum": name, "value": v, "text": text})
		}
	})
}
