package msg

import "verifharness/ref"

func refEqual(a, b interface{}) bool { return ref.EqualMsg(a, b) }
