package msg

import (
	"fmt"
	"hash/adler32"
	"hash/crc32"
	"hash/fnv"
	"reflect"
	"sync"
	"testing"

	"github.com/bluenviron/gomavlib/v3/pkg/message"
	"pgregory.net/rapid"

	"verifharness/evid"
)

// Pairs of different 10-character texts that a 32-bit checksum cannot tell apart, for the checksums a cache or an
// interning table would plausibly be keyed by. Random values never meet such a pair; a decoder that identifies texts by
// checksum returns one for the other.
var (
	collOnce  sync.Once
	collPairs map[string][][2]string
)

func collidingTexts() map[string][][2]string {
	collOnce.Do(func() {
		funcs := map[string]func([]byte) uint32{
			"fnv1a-32": func(b []byte) uint32 { h := fnv.New32a(); h.Write(b); return h.Sum32() },
			"fnv1-32":  func(b []byte) uint32 { h := fnv.New32(); h.Write(b); return h.Sum32() },
			"crc32":    crc32.ChecksumIEEE,
			"crc32c":   func(b []byte) uint32 { return crc32.Checksum(b, crc32.MakeTable(crc32.Castagnoli)) },
			"adler32":  adler32.Checksum,
			"djb2": func(b []byte) uint32 {
				h := uint32(5381)
				for _, c := range b {
					h = h*33 + uint32(c)
				}
				return h
			},
			"times31": func(b []byte) uint32 {
				h := uint32(0)
				for _, c := range b {
					h = h*31 + uint32(c)
				}
				return h
			},
		}
		collPairs = map[string][][2]string{}
		for name, f := range funcs {
			seen := map[uint32]int{}
			text := func(i int) string { return fmt.Sprintf("%010X", (uint64(i)*0x9E3779B97F4A7C15)>>24) }
			for i := 0; i < 1200000 && len(collPairs[name]) < 6; i++ {
				s := text(i)
				h := f([]byte(s))
				if j, ok := seen[h]; ok && text(j) != s {
					collPairs[name] = append(collPairs[name], [2]string{text(j), s})
				} else {
					seen[h] = i
				}
			}
		}
	})
	return collPairs
}

// TestC04TextsWithEqualChecksums: a text field decodes to the text that is in the payload, also when an earlier payload
// (of this or another message type, decoded by any codec of the process) held a different text with the same length and
// the same 32-bit checksum.
func TestC04TextsWithEqualChecksums(t *testing.T) {
	rec := evid.New(t, "C04", "pairs of different 10-character texts with equal FNV-1a-32 / FNV-1-32 / CRC-32 / CRC-32C / Adler-32 / djb2 / 31-multiplier checksums (found by search at start-up) are placed in the text fields (10 characters or longer) of generated message types and decoded alternately, also through different message types: each payload decodes to its own text, in v1 and v2; non-trivial = always; distinct by (types, pair, version)")
	rec.Require("fnv1a-32", "crc32", "adler32", "pair-through-two-message-types")
	tys := types(t)
	type sf struct {
		ti  *typeInfo
		idx int
	}
	var fields []sf
	for _, ti := range tys {
		for _, f := range ti.lay.Fields {
			if f.IsString && f.ArrayLen >= 10 && !f.Ext {
				fields = append(fields, sf{ti, f.GoIndex})
				break
			}
		}
	}
	if len(fields) < 2 {
		t.Fatalf("BROKEN: no message types with a text field")
	}
	pairs := collidingTexts()
	var kinds []string
	for _, k := range []string{"fnv1a-32", "fnv1-32", "crc32", "crc32c", "adler32", "djb2", "times31"} {
		if len(pairs[k]) > 0 {
			kinds = append(kinds, k)
		}
	}
	evid.Check(t, rec, evid.N(600, 3000), func(t *rapid.T) {
		kind := kinds[rapid.IntRange(0, len(kinds)-1).Draw(t, "checksum")]
		pair := pairs[kind][rapid.IntRange(0, len(pairs[kind])-1).Draw(t, "pair")]
		a := fields[rapid.IntRange(0, len(fields)-1).Draw(t, "type_a")]
		b := a
		if rapid.Bool().Draw(t, "two_types") {
			b = fields[rapid.IntRange(0, len(fields)-1).Draw(t, "type_b")]
		}
		v2 := rapid.Bool().Draw(t, "v2")
		enc := func(f sf, text string) []byte {
			v := reflect.New(f.ti.lay.Type)
			v.Elem().Field(f.idx).SetString(text)
			raw, err := safeWrite(f.ti.rw, v.Interface().(message.Message), v2)
			if err != nil {
				t.Fatalf("BROKEN: Write: %v", err)
			}
			return append([]byte(nil), raw.Payload...)
		}
		dec := func(f sf, p []byte) string {
			m, err := safeRead(f.ti.rw, &message.MessageRaw{ID: f.ti.msg.GetID(), Payload: p}, v2)
			if err != nil {
				t.Fatalf("Read failed: %v", err)
			}
			return reflect.ValueOf(m).Elem().Field(f.idx).String()
		}
		pa, pb := enc(a, pair[0]), enc(b, pair[1])
		for round := 0; round < 3; round++ {
			if got := dec(a, pa); got != pair[0] {
				evid.ReplayNote("C04", "TestC04TextsWithEqualChecksums", fmt.Sprintf("%s payload %x holds %q, decoded %q (the other text of the pair: %q, equal %s)", a.ti.name, pa, pair[0], got, pair[1], kind))
				t.Fatalf("%s v2=%v: the payload holds the text %q and is decoded as %q (round %d; %q was decoded before through %s; the two have the same length and the same %s)", a.ti.name, v2, pair[0], got, round, pair[1], b.ti.name, kind)
			}
			if got := dec(b, pb); got != pair[1] {
				evid.ReplayNote("C04", "TestC04TextsWithEqualChecksums", fmt.Sprintf("%s payload %x holds %q, decoded %q (the other text of the pair: %q, equal %s)", b.ti.name, pb, pair[1], got, pair[0], kind))
				t.Fatalf("%s v2=%v: the payload holds the text %q and is decoded as %q (round %d; %q was decoded just before through %s; the two have the same length and the same %s)", b.ti.name, v2, pair[1], got, round, pair[0], a.ti.name, kind)
			}
		}
		cls := []string{kind}
		if a.ti != b.ti {
			cls = append(cls, "pair-through-two-message-types")
		}
		rec.Case(true, evid.HashS(a.ti.name, b.ti.name, pair[0], fmt.Sprint(v2)), cls...)
		if rec.WantSample("texts") {
			rec.Sample("texts", map[string]interface{}{"checksum": kind, "texts": pair, "types": []string{a.ti.name, b.ti.name}})
		}
	})
}
