package msg

import (
	"testing"

	"verifharness/ref"
)

// FuzzC04Read: coverage-guided payloads for every message type through the C04 oracle: no panic,
// error exactly when the reference refuses, value equal to the reference decoding, caller's buffer untouched.
func FuzzC04Read(f *testing.F) {
	f.Add(uint16(0), true, []byte{1, 2, 3}, uint8(9))
	f.Add(uint16(7), false, []byte{}, uint8(0))
	f.Add(uint16(300), true, make([]byte, 255), uint8(200))
	f.Fuzz(func(t *testing.T, typeIdx uint16, v2 bool, payload []byte, after uint8) {
		tys := types(t)
		ti := tys[int(typeIdx)%len(tys)]
		if len(payload) > 255 {
			payload = payload[:255]
		}
		got, err, gerr := readGuarded(ti, payload, v2, 2, int(after))
		if gerr != nil {
			t.Fatalf("%s v2=%v payload %x: %v", ti.name, v2, payload, gerr)
		}
		if _, isPanic := err.(panicErr); isPanic {
			t.Fatalf("%s v2=%v payload %x: Read panicked: %v", ti.name, v2, payload, err)
		}
		want, werr := ti.lay.Decode(payload, v2)
		if (err != nil) != (werr != nil) {
			t.Fatalf("%s v2=%v payload %x: Read err=%v, reference err=%v", ti.name, v2, payload, err, werr)
		}
		if err == nil && !ref.EqualMsg(got, want) {
			t.Fatalf("%s v2=%v payload %x: decoded %+v, reference %+v", ti.name, v2, payload, got, want)
		}
	})
}
