// Package msg holds the message-level checks (C03 C04 C17 C19). The registry of shipped dialects,
// enums and constants and the generated user structs are produced from /repo's current tree by
// cmd/genregistry at check time (file registry_gen.go, supplied through a build overlay).
package msg

import (
	"reflect"

	"github.com/bluenviron/gomavlib/v3/pkg/dialect"
	"github.com/bluenviron/gomavlib/v3/pkg/message"
)

// ConstReg is one enum constant.
type ConstReg struct {
	Name  string
	Value uint64
}

// EnumReg is one enum type of one dialect package.
type EnumReg struct {
	Pkg     string
	Name    string
	Type    reflect.Type
	Bitmask bool
	Alias   bool   // declared as `type X = other.X`
	AliasOf string // package the alias points to
	Consts  []ConstReg
}

// GroupReg is one source-definition group of a dialect.go (the `// name` comments).
type GroupReg struct {
	Def  string
	Msgs []string // Go type names without package
}

// DialectReg is one shipped dialect package.
type DialectReg struct {
	Name    string
	Dialect *dialect.Dialect
	Groups  []GroupReg
	Enums   []EnumReg
	// MsgAlias maps a message Go type name to the package it is an alias of ("" = defined here).
	MsgAlias map[string]string
}

// UserField is the generator's own model of a user struct field.
type UserField struct {
	GoName   string
	DefName  string
	CType    string
	ArrayLen int
	Ext      bool
	Enum     bool
}

// UserStruct is one generated user-defined message with the expectations computed from the model.
type UserStruct struct {
	Msg       message.Message
	MayRefuse bool // uses an enum wire type (int16, int64) the library may refuse at initialization
	DefName   string
	Fields    []UserField
	WantCRC   byte
	WantBase  int
	WantExt   int
	WireOrder []string // definition names in wire order
}

// OversizeStruct is a generated definition with one array field of 256 bytes or more.
type OversizeStruct struct {
	Msg   message.Message
	Bytes int
	Desc  string
}

// Shipped, Users and Oversize are filled by registry_gen.go.
var (
	Shipped  []DialectReg
	Users    []UserStruct
	Oversize []OversizeStruct
)
