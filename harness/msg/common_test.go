package msg

import (
	"fmt"
	"reflect"
	"sort"
	"sync"
	"testing"

	"github.com/bluenviron/gomavlib/v3/pkg/message"

	"verifharness/evid"
	"verifharness/ref"
)

// typeInfo is one message type under test with its library codec and reference layout.
type typeInfo struct {
	name    string // pkg.Type
	typ     reflect.Type
	msg     message.Message
	rw      *message.ReadWriter
	lay     *ref.Layout
	user    *UserStruct
	shipped bool
}

var (
	typesOnce sync.Once
	allTypes  []*typeInfo
	typesErr  error
	// user structs with an enum wire type the library may refuse (int16, int64): refused at initialization / accepted
	refusedUsers, acceptedRare int
	viaConstructor             int // codecs obtained through message.NewReadWriter instead of Initialize
)

// types returns every distinct shipped message type and every generated user struct.
func types(t testing.TB) []*typeInfo {
	typesOnce.Do(func() {
		seen := map[reflect.Type]bool{}
		add := func(m message.Message, user *UserStruct) {
			ty := reflect.TypeOf(m).Elem()
			if seen[ty] {
				return
			}
			seen[ty] = true
			ti := &typeInfo{name: ty.String(), typ: ty, msg: m, user: user, shipped: user == nil}
			lay, err := ref.LayoutOf(ty)
			if err != nil {
				typesErr = fmt.Errorf("BROKEN: reference cannot lay out %s: %v", ty, err)
				return
			}
			ti.lay = lay
			rw := &message.ReadWriter{Message: m}
			if evid.HashS(ty.String())%4 == 0 {
				// a quarter of the codecs come from the older constructor: it must be the same codec
				if rw2, err := message.NewReadWriter(m); err == nil { //nolint:staticcheck
					viaConstructor++
					ti.lay = lay
					ti.rw = rw2
					if user != nil && user.MayRefuse {
						acceptedRare++
					}
					allTypes = append(allTypes, ti)
					return
				}
			}
			if err := rw.Initialize(); err != nil && user != nil && user.MayRefuse {
				refusedUsers++ // refused at initialization: nothing of it can be encoded differently later
				return
			}
			if user != nil && user.MayRefuse {
				acceptedRare++
			}
			if err := rw.Initialize(); err != nil {
				typesErr = fmt.Errorf("message %s: Initialize failed: %v", ty, err)
				return
			}
			ti.rw = rw
			allTypes = append(allTypes, ti)
		}
		for _, d := range Shipped {
			for _, m := range d.Dialect.Messages {
				add(m, nil)
			}
		}
		for i := range Users {
			add(Users[i].Msg, &Users[i])
		}
		sort.SliceStable(allTypes, func(i, j int) bool { return allTypes[i].name < allTypes[j].name })
	})
	if typesErr != nil {
		t.Fatalf("%v", typesErr)
	}
	if len(Shipped) == 0 || len(allTypes) == 0 {
		t.Fatalf("BROKEN: empty registry")
	}
	return allTypes
}

func classesOf(l *ref.Layout) []string {
	var cls []string
	widths := map[int]bool{}
	hasExt, hasArr, hasStr, hasEnum, hasChar := false, false, false, false, false
	for _, f := range l.Fields {
		widths[f.ElemSize] = true
		hasExt = hasExt || f.Ext
		hasArr = hasArr || (f.ArrayLen > 0 && !f.IsString)
		hasStr = hasStr || (f.IsString && f.ArrayLen > 0)
		hasChar = hasChar || (f.IsString && f.ArrayLen == 0)
		hasEnum = hasEnum || f.IsEnum
	}
	if len(widths) >= 2 {
		cls = append(cls, "mixed-widths")
	}
	if hasExt {
		cls = append(cls, "has-extension")
	}
	if hasArr {
		cls = append(cls, "has-array")
	}
	if hasStr {
		cls = append(cls, "has-string")
	}
	if hasChar {
		cls = append(cls, "has-scalar-char")
	}
	if hasEnum {
		cls = append(cls, "has-enum")
	}
	return cls
}

type panicErr struct{ v interface{} }

func (p panicErr) Error() string { return fmt.Sprintf("panic: %v", p.v) }

func safeRead(rw *message.ReadWriter, raw *message.MessageRaw, v2 bool) (m message.Message, err error) {
	defer func() {
		if r := recover(); r != nil {
			m, err = nil, panicErr{r}
		}
	}()
	return rw.Read(raw, v2)
}

func safeWrite(rw *message.ReadWriter, m message.Message, v2 bool) (raw *message.MessageRaw, err error) {
	defer func() {
		if r := recover(); r != nil {
			raw, err = nil, panicErr{r}
		}
	}()
	return rw.Write(m, v2), nil
}
