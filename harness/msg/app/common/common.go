// Package common (of the application, not the shipped one: same package name, another import path) holds an application's own message definitions that happen to share ids and Go type names with
// standard messages (a private variant of HEARTBEAT, of SYS_STATUS, of ATTITUDE): legal, and none of the
// library's business beyond the dialect they are listed in.
package common

// MessageHeartbeat is not the standard heartbeat.
type MessageHeartbeat struct {
	Uptime uint32
	Mode   uint8
	Note   string `mavlen:"6"`
}

// GetID implements message.Message.
func (*MessageHeartbeat) GetID() uint32 { return 0 }

// MessageSysStatus is not the standard SYS_STATUS.
type MessageSysStatus struct {
	Load  uint16
	Name  string `mavlen:"8"`
	Extra uint8  `mavext:"true"`
}

// GetID implements message.Message.
func (*MessageSysStatus) GetID() uint32 { return 1 }

// MessageAttitude is not the standard ATTITUDE.
type MessageAttitude struct {
	Roll  float64
	Flags [3]uint16
}

// GetID implements message.Message.
func (*MessageAttitude) GetID() uint32 { return 30 }

// MessageParamSet is not the standard PARAM_SET: the same five fields under the same names, but parameter ids
// of up to 32 characters and the type as a plain byte in an extension.
type MessageParamSet struct {
	TargetSystem    uint8
	TargetComponent uint8
	ParamId         string `mavlen:"32"`
	ParamValue      float32
	ParamType       uint8 `mavext:"true"`
}

// GetID implements message.Message.
func (*MessageParamSet) GetID() uint32 { return 23 }
