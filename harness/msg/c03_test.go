package msg

import (
	"bytes"
	"fmt"
	"testing"

	"github.com/bluenviron/gomavlib/v3/pkg/message"
	"pgregory.net/rapid"

	"verifharness/evid"
	"verifharness/gen"
)

// golden CRC_EXTRA values as published in the generated headers of the reference C library
// (mavlink/c_library_v2). Kept only for messages whose definition has been stable.
var goldenCRC = map[string]byte{
	"HEARTBEAT": 50, "SYS_STATUS": 124, "SYSTEM_TIME": 137, "PING": 237, "CHANGE_OPERATOR_CONTROL": 217,
	"CHANGE_OPERATOR_CONTROL_ACK": 104, "AUTH_KEY": 119, "SET_MODE": 89, "PARAM_REQUEST_READ": 214,
	"PARAM_REQUEST_LIST": 159, "PARAM_VALUE": 220, "PARAM_SET": 168, "GPS_RAW_INT": 24, "GPS_STATUS": 23,
	"SCALED_IMU": 170, "RAW_IMU": 144, "RAW_PRESSURE": 67, "SCALED_PRESSURE": 115, "ATTITUDE": 39,
	"ATTITUDE_QUATERNION": 246, "LOCAL_POSITION_NED": 185, "GLOBAL_POSITION_INT": 104, "RC_CHANNELS_SCALED": 237,
	"RC_CHANNELS_RAW": 244, "SERVO_OUTPUT_RAW": 222, "MISSION_REQUEST_PARTIAL_LIST": 212, "MISSION_WRITE_PARTIAL_LIST": 9,
	"MISSION_ITEM": 254, "MISSION_REQUEST": 230, "MISSION_SET_CURRENT": 28, "MISSION_CURRENT": 28,
	"MISSION_REQUEST_LIST": 132, "MISSION_COUNT": 221, "MISSION_CLEAR_ALL": 232, "MISSION_ITEM_REACHED": 11,
	"MISSION_ACK": 153, "SET_GPS_GLOBAL_ORIGIN": 41, "GPS_GLOBAL_ORIGIN": 39, "PARAM_MAP_RC": 78,
	"MISSION_REQUEST_INT": 196, "SAFETY_SET_ALLOWED_AREA": 15, "SAFETY_ALLOWED_AREA": 3, "ATTITUDE_QUATERNION_COV": 167,
	"NAV_CONTROLLER_OUTPUT": 183, "GLOBAL_POSITION_INT_COV": 119, "LOCAL_POSITION_NED_COV": 191, "RC_CHANNELS": 118,
	"REQUEST_DATA_STREAM": 148, "DATA_STREAM": 21, "MANUAL_CONTROL": 243, "RC_CHANNELS_OVERRIDE": 124,
	"MISSION_ITEM_INT": 38, "VFR_HUD": 20, "COMMAND_INT": 158, "COMMAND_LONG": 152, "COMMAND_ACK": 143,
	"MANUAL_SETPOINT": 106, "SET_ATTITUDE_TARGET": 49, "ATTITUDE_TARGET": 22, "SET_POSITION_TARGET_LOCAL_NED": 143,
	"POSITION_TARGET_LOCAL_NED": 140, "SET_POSITION_TARGET_GLOBAL_INT": 5, "POSITION_TARGET_GLOBAL_INT": 150,
	"LOCAL_POSITION_NED_SYSTEM_GLOBAL_OFFSET": 231, "HIL_STATE": 183, "HIL_CONTROLS": 63, "HIL_RC_INPUTS_RAW": 54,
	"HIL_ACTUATOR_CONTROLS": 47, "OPTICAL_FLOW": 175, "GLOBAL_VISION_POSITION_ESTIMATE": 102,
	"VISION_POSITION_ESTIMATE": 158, "VISION_SPEED_ESTIMATE": 208, "VICON_POSITION_ESTIMATE": 56, "HIGHRES_IMU": 93,
	"OPTICAL_FLOW_RAD": 138, "HIL_SENSOR": 108, "SIM_STATE": 32, "RADIO_STATUS": 185, "FILE_TRANSFER_PROTOCOL": 84,
	"TIMESYNC": 34, "CAMERA_TRIGGER": 174, "HIL_GPS": 124, "HIL_OPTICAL_FLOW": 237, "HIL_STATE_QUATERNION": 4,
	"SCALED_IMU2": 76, "LOG_REQUEST_LIST": 128, "LOG_ENTRY": 56, "LOG_REQUEST_DATA": 116, "LOG_DATA": 134,
	"LOG_ERASE": 237, "LOG_REQUEST_END": 203, "GPS_INJECT_DATA": 250, "GPS2_RAW": 87, "POWER_STATUS": 203,
	"SERIAL_CONTROL": 220, "GPS_RTK": 25, "GPS2_RTK": 226, "SCALED_IMU3": 46, "DATA_TRANSMISSION_HANDSHAKE": 29,
	"ENCAPSULATED_DATA": 223, "DISTANCE_SENSOR": 85, "TERRAIN_REQUEST": 6, "TERRAIN_DATA": 229, "TERRAIN_CHECK": 203,
	"TERRAIN_REPORT": 1, "SCALED_PRESSURE2": 195, "ATT_POS_MOCAP": 109, "SET_ACTUATOR_CONTROL_TARGET": 168,
	"ACTUATOR_CONTROL_TARGET": 181, "ALTITUDE": 47, "RESOURCE_REQUEST": 72, "SCALED_PRESSURE3": 131,
	"FOLLOW_TARGET": 127, "CONTROL_SYSTEM_STATE": 103, "BATTERY_STATUS": 154, "AUTOPILOT_VERSION": 178,
	"LANDING_TARGET": 200, "ESTIMATOR_STATUS": 163, "WIND_COV": 105, "GPS_INPUT": 151, "GPS_RTCM_DATA": 35,
	"HIGH_LATENCY": 150, "HIGH_LATENCY2": 179, "VIBRATION": 90, "HOME_POSITION": 104, "SET_HOME_POSITION": 85,
	"MESSAGE_INTERVAL": 95, "EXTENDED_SYS_STATE": 130, "ADSB_VEHICLE": 184, "COLLISION": 81, "V2_EXTENSION": 8,
	"MEMORY_VECT": 204, "DEBUG_VECT": 49, "NAMED_VALUE_FLOAT": 170, "NAMED_VALUE_INT": 44, "STATUSTEXT": 83,
	"DEBUG": 46, "SETUP_SIGNING": 71, "BUTTON_CHANGE": 131, "PLAY_TUNE": 187, "CAMERA_INFORMATION": 92,
	"CAMERA_SETTINGS": 146, "STORAGE_INFORMATION": 179, "CAMERA_CAPTURE_STATUS": 12, "CAMERA_IMAGE_CAPTURED": 133,
	"FLIGHT_INFORMATION": 49, "MOUNT_ORIENTATION": 26, "LOGGING_DATA": 193, "LOGGING_DATA_ACKED": 35,
	"LOGGING_ACK": 14, "PROTOCOL_VERSION": 217, "TEST_TYPES": 103, "AHRS": 127,
}

func TestC03Layout(t *testing.T) {
	rec := evid.New(t, "C03", "every distinct shipped message type (enumerated from the repository tree) and every generated user struct (random field kinds: 11 primitives, arrays, strings, scalar char, enums at 6 wire widths, enum arrays, mavname, extension blocks): CRC_EXTRA / base size / extended size == reference layout (and == golden published values / model expectations); Write(v) == reference encoding byte for byte for generated values (boundary ints, NaN payloads, one-hot, long strings, wide enums); Read(reference encoding) == reference canonical value; non-trivial = type with >=2 primitive widths, an extension, an array, a string or an enum; distinct by (type, value hash)")
	rec.Require("mixed-widths", "has-extension", "has-array", "has-string", "has-scalar-char", "has-enum", "user-struct", "shipped", "golden-crc")
	tys := types(t)
	shard, shards := evid.Shard()
	// static part: every type
	nGolden := 0
	for _, ti := range tys {
		fail := func(format string, a ...interface{}) {
			msg := fmt.Sprintf(format, a...)
			evid.ReplayNote("C03", "TestC03Layout", ti.name+": "+msg)
			t.Fatalf("%s (%s): %s", ti.name, ti.lay.MsgName, msg)
		}
		if got := ti.rw.CRCExtra(); got != ti.lay.CRCExtra {
			fail("CRC_EXTRA %d, the spec derives %d from the definition", got, ti.lay.CRCExtra)
		}
		if ti.shipped {
			if want, ok := goldenCRC[ti.lay.MsgName]; ok {
				nGolden++
				if want != ti.lay.CRCExtra {
					// the table is from memory: a disagreement with the reference is a harness matter, never a finding
					rec.Note("golden table entry %s=%d disagrees with the reference (%d): entry ignored", ti.lay.MsgName, want, ti.lay.CRCExtra)
				} else if ti.rw.CRCExtra() != want {
					fail("CRC_EXTRA %d, published value %d", ti.rw.CRCExtra(), want)
				} else {
					rec.Class("golden-crc", 1)
				}
			}
		}
		if ti.user != nil {
			u := ti.user
			if ti.lay.CRCExtra != u.WantCRC || ti.lay.BaseSize != u.WantBase || ti.lay.ExtSize != u.WantExt || ti.lay.MsgName != u.DefName {
				t.Fatalf("BROKEN: reference layout of %s (%s crc %d base %d ext %d) disagrees with the generator's model (%s crc %d base %d ext %d)",
					ti.name, ti.lay.MsgName, ti.lay.CRCExtra, ti.lay.BaseSize, ti.lay.ExtSize, u.DefName, u.WantCRC, u.WantBase, u.WantExt)
			}
			for i, f := range ti.lay.Fields {
				if f.Name != u.WireOrder[i] {
					t.Fatalf("BROKEN: reference wire order of %s disagrees with the model at %d: %s vs %s", ti.name, i, f.Name, u.WireOrder[i])
				}
			}
		}
		if ti.lay.ExtSize > 255 {
			fail("extended payload size %d exceeds 255", ti.lay.ExtSize)
		}
		// sizes through the public API
		zero, err := safeWrite(ti.rw, ti.msg, false)
		if err != nil {
			fail("Write(zero, v1) panicked: %v", err)
		}
		if len(zero.Payload) != ti.lay.BaseSize {
			fail("v1 payload length %d, base size is %d", len(zero.Payload), ti.lay.BaseSize)
		}
		if zero.ID != ti.msg.GetID() {
			fail("raw id %d != %d", zero.ID, ti.msg.GetID())
		}
	}
	// sizes: a definition that cannot fit a frame is refused, it is not given a smaller size
	for _, o := range Oversize {
		rw := &message.ReadWriter{Message: o.Msg}
		if err := rw.Initialize(); err == nil {
			raw, werr := safeWrite(rw, o.Msg, false)
			got := "Write failed"
			if werr == nil && raw != nil {
				got = fmt.Sprintf("v1 payload of %d bytes", len(raw.Payload))
			}
			msg := fmt.Sprintf("%T (%s: %d payload bytes, more than a frame can carry) was accepted by Initialize (%s)", o.Msg, o.Desc, o.Bytes, got)
			evid.ReplayNote("C03", "TestC03Layout", msg)
			t.Fatalf("%s", msg)
		}
		rec.Class("oversize-single-array-refused", 1)
	}
	if len(Oversize) == 0 {
		t.Fatalf("BROKEN: no oversize definitions generated")
	}
	rec.Class("user-struct-with-int16/int64-enum-refused-at-initialization", int64(refusedUsers))
	rec.Class("user-struct-with-int16/int64-enum-accepted-and-checked", int64(acceptedRare))
	if refusedUsers+acceptedRare == 0 {
		t.Fatalf("BROKEN: the generated user structs contain no enum with a rare wire type")
	}
	rec.Exhaustive(fmt.Sprintf("CRC_EXTRA, base size and id of all %d distinct message types (shipped + %d user structs); %d of them pinned to published values", len(tys), len(Users), nGolden))
	perType := evid.N(200, 600)
	evid.Check(t, rec, len(tys)*perType, func(t *rapid.T) {
		ti := tys[rapid.IntRange(0, len(tys)-1).Draw(t, "type")]
		v2 := rapid.Bool().Draw(t, "v2")
		val := gen.Value(t, ti.lay)
		fail := func(format string, a ...interface{}) {
			msg := fmt.Sprintf(format, a...)
			evid.ReplayNote("C03", "TestC03Layout", fmt.Sprintf("%s v2=%v value %+v\n%s", ti.name, v2, val, msg))
			t.Fatalf("%s (%s) v2=%v value %+v: %s", ti.name, ti.lay.MsgName, v2, val, msg)
		}
		want := ti.lay.Encode(val, v2)
		raw, err := safeWrite(ti.rw, val.(message.Message), v2)
		if err != nil {
			fail("Write: %v", err)
		}
		if !bytes.Equal(raw.Payload, want) {
			fail("encoded payload differs from the spec layout:\n got  %x\n want %x", raw.Payload, want)
		}
		// untruncated size observed through a value whose last wire byte is non-zero
		full := ti.lay.EncodeFull(val, v2)
		if len(full) > 0 && full[len(full)-1] != 0 {
			size := ti.lay.BaseSize
			if v2 {
				size = ti.lay.ExtSize
			}
			if len(raw.Payload) != size {
				fail("payload length %d with a non-zero last byte; size is %d", len(raw.Payload), size)
			}
			rec.Class("full-size-observed", 1)
		}
		got, rerr := safeRead(ti.rw, &message.MessageRaw{ID: ti.msg.GetID(), Payload: append([]byte(nil), want...)}, v2)
		if rerr != nil {
			fail("Read of the reference encoding %x failed: %v", want, rerr)
		}
		canon := ti.lay.Canonical(val, v2)
		if !refEqual(got, canon) {
			fail("decoding reads another layout:\n got  %+v\n want %+v\n payload %x", got, canon, want)
		}
		// the payload is what the slice holds, not what happens to lie behind it in the caller's buffer (a payload cut
		// out of a receive buffer has other frames' bytes there)
		{
			big := make([]byte, len(want), len(want)+300)
			copy(big, want)
			tail := big[len(want):cap(big)]
			for i := range tail {
				tail[i] = byte(0xA1 + i)
			}
			got2, rerr2 := safeRead(ti.rw, &message.MessageRaw{ID: ti.msg.GetID(), Payload: big}, v2)
			if rerr2 != nil {
				fail("Read of the reference encoding %x failed when the slice has spare capacity: %v", want, rerr2)
			}
			if !refEqual(got2, canon) {
				fail("decoding depends on the bytes behind the payload in the caller's buffer:\n got  %+v\n want %+v\n payload %x", got2, canon, want)
			}
		}
		cls := classesOf(ti.lay)
		nt := len(cls) > 0
		if ti.shipped {
			cls = append(cls, "shipped")
		} else {
			cls = append(cls, "user-struct")
		}
		rec.Case(nt, evid.Hash([]byte(ti.name), full, []byte{b2i(v2)}), cls...)
		if nt && rec.WantSample(cls[0]) {
			rec.Sample(cls[0], map[string]interface{}{"type": ti.name, "v2": v2, "value": fmt.Sprintf("%+v", val), "payload": fmt.Sprintf("%x", want), "crc_extra": ti.lay.CRCExtra})
		}
	})
	_, _ = shard, shards
}

func b2i(b bool) byte {
	if b {
		return 1
	}
	return 0
}
