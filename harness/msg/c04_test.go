package msg

import (
	"bytes"
	"fmt"
	"reflect"
	"testing"

	"github.com/bluenviron/gomavlib/v3/pkg/message"
	"pgregory.net/rapid"

	"verifharness/evid"
	"verifharness/gen"
	"verifharness/ref"
)

const sentinel = 0xA5

// carve places p inside a larger backing array with sentinel bytes before and after (cap > len).
func carve(p []byte, before, after int) (backing []byte, view []byte) {
	backing = make([]byte, before+len(p)+after)
	for i := range backing {
		backing[i] = sentinel
	}
	copy(backing[before:], p)
	return backing, backing[before : before+len(p)]
}

// readGuarded calls Read on a carved copy of payload and verifies that no byte of the backing
// array (payload or neighbours) changed.
func readGuarded(ti *typeInfo, payload []byte, v2 bool, before, after int) (message.Message, error, error) {
	backing, view := carve(payload, before, after)
	snapshot := append([]byte(nil), backing...)
	raw := &message.MessageRaw{ID: ti.msg.GetID(), Payload: view}
	m, err := safeRead(ti.rw, raw, v2)
	if !bytes.Equal(backing, snapshot) {
		for i := range backing {
			if backing[i] != snapshot[i] {
				where := "the payload"
				if i < before {
					where = "bytes before the payload"
				} else if i >= before+len(payload) {
					where = fmt.Sprintf("the byte %d positions after the payload (same backing array)", i-before-len(payload)+1)
				}
				return m, err, fmt.Errorf("Read wrote to the caller's buffer: %s changed from %#x to %#x (payload len %d, cap %d)", where, snapshot[i], backing[i], len(view), cap(view))
			}
		}
	}
	if len(raw.Payload) != len(payload) || (len(payload) > 0 && &raw.Payload[0] != &view[0]) {
		return m, err, fmt.Errorf("Read replaced the caller's MessageRaw.Payload slice")
	}
	return m, err, nil
}

func TestC04RoundTrip(t *testing.T) {
	rec := evid.New(t, "C04", "for every message type (shipped + user structs) and both versions: Read(Write(v)) == canonical(v); v2 Write never ends in 0x00 unless 1 byte long and is never empty for non-empty messages; Read(p) == Read(p ++ 0^k) == Read(strip0(p)); bytes beyond the extended size are ignored; v1 accepts exactly the base size; payloads are carved out of a larger sentinel-filled backing array (cap > len) and the whole array must be unchanged after Read; non-trivial = payload shorter than the extended size with cap > len, or all-zero message, or 255-byte message, or extension-only tail; distinct by (type, payload hash, version)")
	rec.Require("short-payload-with-capacity", "all-zero-message", "v1-wrong-length", "tail-beyond-ext", "zero-appended", "zero-stripped", "has-extension", "decoded-message-edited-and-encoded-again", "codec-built-from-a-populated-value")
	tys := types(t)
	evid.Check(t, rec, len(tys)*evid.N(150, 500), func(t *rapid.T) {
		ti := tys[rapid.IntRange(0, len(tys)-1).Draw(t, "type")]
		v2 := rapid.Bool().Draw(t, "v2")
		val := gen.Value(t, ti.lay)
		before := rapid.IntRange(0, 4).Draw(t, "before")
		after := rapid.OneOf(rapid.IntRange(0, 8), rapid.IntRange(0, 300)).Draw(t, "after")
		fail := func(format string, a ...interface{}) {
			msg := fmt.Sprintf(format, a...)
			evid.ReplayNote("C04", "TestC04RoundTrip", fmt.Sprintf("%s v2=%v value %+v\n%s", ti.name, v2, val, msg))
			t.Fatalf("%s (%s) v2=%v value %+v: %s", ti.name, ti.lay.MsgName, v2, val, msg)
		}
		raw, err := safeWrite(ti.rw, val.(message.Message), v2)
		if err != nil {
			fail("Write: %v", err)
		}
		p := raw.Payload
		size := ti.lay.BaseSize
		if v2 {
			size = ti.lay.ExtSize
		}
		if v2 && size > 0 {
			if len(p) < 1 {
				fail("v2 encoder returned an empty payload")
			}
			if len(p) > 1 && p[len(p)-1] == 0 {
				fail("v2 payload %x ends with a zero byte (not truncated)", p)
			}
		}
		if !v2 && len(p) != size {
			fail("v1 payload has %d bytes, base size %d", len(p), size)
		}
		canon := ti.lay.Canonical(val, v2)
		var cls []string
		got, rerr, gerr := readGuarded(ti, p, v2, before, after)
		if gerr != nil {
			fail("%v", gerr)
		}
		if rerr != nil {
			fail("Read(Write(v)) failed: %v", rerr)
		}
		if !ref.EqualMsg(got, canon) {
			fail("Read(Write(v)) is not the canonical form:\n got  %+v\n want %+v", got, canon)
		}
		// a codec may be built from any value of the type (the value only names the type): what it decodes is what the
		// payload says - in v1 the extension fields are zero, whatever the value the codec was built from holds
		{
			proto := gen.Value(t, ti.lay).(message.Message)
			prw := &message.ReadWriter{Message: proto}
			if err := prw.Initialize(); err != nil {
				fail("a codec built from a populated value of the type is refused: %v", err)
			}
			g, err := safeRead(prw, &message.MessageRaw{ID: ti.msg.GetID(), Payload: append([]byte(nil), p...)}, v2)
			if err != nil || !ref.EqualMsg(g, canon) {
				fail("codec built from the populated value %+v: the payload %x decodes as\n %+v (err %v), want\n %+v", proto, p, g, err, canon)
			}
			cls = append(cls, "codec-built-from-a-populated-value")
		}
		// a decoded message belongs to the caller: filled with another value and encoded again (a router that edits what
		// it forwards) it says what it holds now, not what it held when it was decoded
		{
			val2 := gen.Value(t, ti.lay)
			want2, werr := safeWrite(ti.rw, val2.(message.Message), v2)
			if werr != nil {
				fail("Write: %v", werr)
			}
			wantBytes := append([]byte(nil), want2.Payload...)
			again, rerr2, _ := readGuarded(ti, p, v2, 0, 0)
			if rerr2 != nil {
				fail("Read(Write(v)) failed the second time: %v", rerr2)
			}
			reflect.ValueOf(again).Elem().Set(reflect.ValueOf(val2).Elem())
			out, werr2 := safeWrite(ti.rw, again, v2)
			if werr2 != nil || !bytes.Equal(out.Payload, wantBytes) {
				fail("a message decoded from %x, then overwritten with %+v and encoded again gives %x (err %v); a fresh message with the same content gives %x", p, val2, out.Payload, werr2, wantBytes)
			}
			cls = append(cls, "decoded-message-edited-and-encoded-again")
		}
		if len(p) < size && after > 0 {
			cls = append(cls, "short-payload-with-capacity")
		}
		allZero := true
		for _, b := range ti.lay.EncodeFull(val, v2) {
			if b != 0 {
				allZero = false
			}
		}
		if allZero {
			cls = append(cls, "all-zero-message")
		}
		if size == 255 {
			cls = append(cls, "size-255")
		}
		if ti.lay.ExtSize > ti.lay.BaseSize {
			cls = append(cls, "has-extension")
		}
		if v2 {
			// zero bytes appended: any k up to 255 total, and beyond the extended size
			k := rapid.IntRange(1, 40).Draw(t, "append_zeros")
			if len(p)+k <= 255 {
				q := append(append([]byte(nil), p...), make([]byte, k)...)
				g2, e2, ge := readGuarded(ti, q, true, before, after)
				if ge != nil {
					fail("%v", ge)
				}
				if e2 != nil || !ref.EqualMsg(g2, canon) {
					fail("payload with %d zero bytes appended decodes differently (err=%v): %+v vs %+v", k, e2, g2, canon)
				}
				cls = append(cls, "zero-appended")
			}
			// the codec can be called with any slice: a payload padded with zeros beyond what a frame can carry (256
			// bytes and more) still says the same, and lengths are not taken modulo anything
			if rapid.IntRange(0, 7).Draw(t, "pad_beyond_255") == 0 {
				total := rapid.SampledFrom([]int{256, 257, 256 + len(p), 511, 512, 600}).Draw(t, "padded_len")
				if total > len(p) {
					q := append(append([]byte(nil), p...), make([]byte, total-len(p))...)
					g5, e5, ge := readGuarded(ti, q, true, before, after)
					if ge != nil {
						fail("%v", ge)
					}
					if e5 != nil || !ref.EqualMsg(g5, canon) {
						fail("payload padded with zeros to %d bytes decodes differently (err=%v): %+v vs %+v", total, e5, g5, canon)
					}
					cls = append(cls, "zero-padded-beyond-255")
				}
			}
			// zero bytes stripped completely (even the last remaining byte when it is zero)
			full := ti.lay.EncodeFull(val, true)
			n := len(full)
			for n > 0 && full[n-1] == 0 {
				n--
			}
			cut := rapid.IntRange(n, len(full)).Draw(t, "strip_to")
			g3, e3, ge := readGuarded(ti, full[:cut], true, before, after)
			if ge != nil {
				fail("%v", ge)
			}
			if e3 != nil || !ref.EqualMsg(g3, canon) {
				fail("payload truncated to %d of %d bytes (only zeros removed) decodes differently (err=%v): %+v vs %+v", cut, len(full), e3, g3, canon)
			}
			if cut < len(full) {
				cls = append(cls, "zero-stripped")
			}
			// unknown trailing bytes beyond the extended size
			if len(full) < 255 {
				k := rapid.IntRange(1, 255-len(full)).Draw(t, "tail")
				tail := rapid.SliceOfN(rapid.Byte(), k, k).Draw(t, "tailbytes")
				q := append(append([]byte(nil), full...), tail...)
				g4, e4, ge := readGuarded(ti, q, true, before, after)
				if ge != nil {
					fail("%v", ge)
				}
				if e4 != nil || !ref.EqualMsg(g4, canon) {
					fail("unknown trailing bytes %x were not ignored (err=%v): %+v vs %+v", tail, e4, g4, canon)
				}
				cls = append(cls, "tail-beyond-ext")
			}
		} else {
			// v1: any other length is an error, extensions come back zero (canon has them zero)
			d := rapid.SampledFrom([]int{-1, 1, -2, 2, 7, 256, 512, 255}).Draw(t, "delta")
			n := len(p) + d
			if n >= 0 && n <= 800 {
				q := make([]byte, n)
				copy(q, p)
				_, e5, ge := readGuarded(ti, q, false, before, after)
				if ge != nil {
					fail("%v", ge)
				}
				if e5 == nil {
					fail("v1 Read accepted %d bytes, base size is %d", n, len(p))
				}
				if _, isPanic := e5.(panicErr); isPanic {
					fail("v1 Read of %d bytes panicked: %v", n, e5)
				}
				cls = append(cls, "v1-wrong-length")
			}
		}
		nt := false
		for _, c := range cls {
			if c == "short-payload-with-capacity" || c == "all-zero-message" || c == "size-255" {
				nt = true
			}
		}
		if ti.lay.ExtSize > ti.lay.BaseSize && v2 && len(p) > ti.lay.BaseSize {
			cls = append(cls, "extension-bytes-present")
			nt = true
		}
		rec.Case(nt, evid.Hash([]byte(ti.name), p, []byte{b2i(v2), byte(after)}), cls...)
		if nt && rec.WantSample("roundtrip") {
			rec.Sample("roundtrip", map[string]interface{}{"type": ti.name, "v2": v2, "payload": fmt.Sprintf("%x", p), "cap_beyond_len": after})
		}
	})
}

// TestC04ArbitraryPayloads: any payload of 0..255 bytes (and a little beyond) decodes or fails with an
// error; never a panic, never a write into the caller's buffer; decoding is deterministic and
// agrees with the reference decoder.
func TestC04ArbitraryPayloads(t *testing.T) {
	rec := evid.New(t, "C04", "arbitrary payloads of 0..255 bytes (all-zero, all-FF, random, boundary lengths around base/extended size) for every type and both versions, carved from a sentinel backing array: Read returns a value equal to the reference decoding or an error exactly when the reference refuses (v1 wrong length); no panic; buffer untouched; deterministic; non-trivial = length differs from the full size; distinct by (type, payload hash, version)")
	rec.Require("len0", "len255", "shorter-than-base", "between-base-and-ext", "longer-than-ext", "same-buffer-refilled-between-calls")
	tys := types(t)
	evid.Check(t, rec, len(tys)*evid.N(120, 400), func(t *rapid.T) {
		ti := tys[rapid.IntRange(0, len(tys)-1).Draw(t, "type")]
		v2 := rapid.Bool().Draw(t, "v2")
		base, ext := ti.lay.BaseSize, ti.lay.ExtSize
		var n int
		switch rapid.IntRange(0, 5).Draw(t, "lenkind") {
		case 0:
			n = rapid.SampledFrom([]int{0, 1, 254, 255}).Draw(t, "n")
		case 1:
			n = base + rapid.IntRange(-2, 2).Draw(t, "dn")
		case 2:
			n = ext + rapid.IntRange(-2, 2).Draw(t, "dn")
		case 3:
			if ext > base {
				n = rapid.IntRange(base, ext).Draw(t, "n")
			} else {
				n = base
			}
		default:
			n = rapid.IntRange(0, 255).Draw(t, "n")
		}
		if n < 0 {
			n = 0
		}
		if n > 255 {
			n = 255
		}
		p := gen.Bytes(t, n, "payload")
		if p == nil {
			p = []byte{}
		}
		before := rapid.IntRange(0, 3).Draw(t, "before")
		after := rapid.OneOf(rapid.IntRange(0, 4), rapid.IntRange(1, 300)).Draw(t, "after")
		fail := func(format string, a ...interface{}) {
			msg := fmt.Sprintf(format, a...)
			evid.ReplayNote("C04", "TestC04ArbitraryPayloads", fmt.Sprintf("%s v2=%v payload %x\n%s", ti.name, v2, p, msg))
			t.Fatalf("%s (%s) v2=%v payload(%d) %x: %s", ti.name, ti.lay.MsgName, v2, len(p), p, msg)
		}
		got, err, gerr := readGuarded(ti, p, v2, before, after)
		if gerr != nil {
			fail("%v", gerr)
		}
		if _, isPanic := err.(panicErr); isPanic {
			fail("Read panicked: %v", err)
		}
		want, werr := ti.lay.Decode(p, v2)
		if (err != nil) != (werr != nil) {
			fail("Read err=%v, the reference decoder says err=%v", err, werr)
		}
		if err == nil {
			if !ref.EqualMsg(got, want) {
				fail("decoded value differs from the reference:\n got  %+v\n want %+v", got, want)
			}
			again, err2, _ := readGuarded(ti, p, v2, 0, 0)
			if err2 != nil || !ref.EqualMsg(again, got) {
				fail("decoding is not deterministic / depends on the slice capacity")
			}
		}
		var cls []string
		// a receive buffer that is refilled for every packet: the same slice (same start, same length) holds other
		// content at the next call, and the decoder says what the buffer holds now
		if n > 0 && rapid.IntRange(0, 2).Draw(t, "refilled_buffer") == 0 {
			buf := make([]byte, n, n+rapid.IntRange(0, 8).Draw(t, "refill_cap"))
			raw := &message.MessageRaw{ID: ti.msg.GetID(), Payload: buf}
			copy(buf, p)
			for k := 0; k < rapid.IntRange(2, 4).Draw(t, "refills"); k++ {
				if k > 0 {
					if rapid.Bool().Draw(t, "one_bit") {
						i := rapid.IntRange(0, n-1).Draw(t, "refill_byte")
						buf[i] ^= 1 << uint(rapid.IntRange(0, 7).Draw(t, "refill_bit"))
					} else {
						copy(buf, gen.Bytes(t, n, "refill"))
					}
					if rapid.Bool().Draw(t, "new_raw") {
						raw = &message.MessageRaw{ID: ti.msg.GetID(), Payload: buf}
					}
				}
				now := append([]byte(nil), buf...)
				g, e := safeRead(ti.rw, raw, v2)
				w, we := ti.lay.Decode(now, v2)
				if (e != nil) != (we != nil) || (e == nil && !ref.EqualMsg(g, w)) {
					fail("the caller's buffer (the same %d bytes of memory at every call) was filled with %x for call %d: decoded as\n %+v (err %v), the buffer says\n %+v (err %v)", n, now, k+1, g, e, w, we)
				}
			}
			cls = append(cls, "same-buffer-refilled-between-calls")
		}
		switch {
		case n == 0:
			cls = append(cls, "len0")
		case n == 255:
			cls = append(cls, "len255")
		}
		switch {
		case n < base:
			cls = append(cls, "shorter-than-base")
		case n > base && n < ext:
			cls = append(cls, "between-base-and-ext")
		case n > ext:
			cls = append(cls, "longer-than-ext")
		}
		full := base
		if v2 {
			full = ext
		}
		rec.Case(n != full, evid.Hash([]byte(ti.name), p, []byte{b2i(v2)}), cls...)
		if n != full && rec.WantSample("arbitrary") {
			rec.Sample("arbitrary", map[string]interface{}{"type": ti.name, "v2": v2, "payload": fmt.Sprintf("%x", p), "base": base, "ext": ext, "error": fmt.Sprint(err)})
		}
	})
}
