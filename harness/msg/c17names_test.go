package msg

import (
	"fmt"
	"os"
	"os/exec"
	"reflect"
	"strings"
	"testing"

	"github.com/bluenviron/gomavlib/v3/pkg/dialect"
	"github.com/bluenviron/gomavlib/v3/pkg/dialects/ardupilotmega"
	"github.com/bluenviron/gomavlib/v3/pkg/dialects/common"
	"github.com/bluenviron/gomavlib/v3/pkg/dialects/minimal"
	"github.com/bluenviron/gomavlib/v3/pkg/message"

	"verifharness/evid"
	appcommon "verifharness/msg/app/common"
	"verifharness/msg/other"
	"verifharness/ref"
)

// TestC17Namesakes: an application dialect whose messages share id and Go type name with standard messages (its
// own MessageHeartbeat, MessageSysStatus, MessageParamSet, MessageAttitude in its own package) lives in the same process as a
// shipped dialect. Each dialect's lookup must answer with the codec of ITS message - whichever of the two was
// initialized first. The order matters only within one process, so every case runs in a process of its own.
func TestC17Namesakes(t *testing.T) {
	namesakesProperty(t, "C17", "TestC17Namesakes")
}

// TestC04Namesakes is the same scenario under C04: values of a message type are encoded and decoded by the layout of
// that type, whatever other type of the same name the process knows.
func TestC04Namesakes(t *testing.T) {
	namesakesProperty(t, "C04", "TestC04Namesakes")
}

// TestC03Namesakes: the layout of a message type is derived from that type's definition, whatever other type of the
// same name (in a package of the same name, even) the process knows.
func TestC03Namesakes(t *testing.T) {
	namesakesProperty(t, "C03", "TestC03Namesakes")
}

func namesakesProperty(t *testing.T, pid, testName string) {
	rec := evid.New(t, pid, "an application dialect with namesakes of standard messages (same id, same Go type name, another package, another layout) and a shipped dialect (minimal / common / ardupilotmega) are initialized in one fresh process, in both orders and through both constructors; for ids 0, 1, 23, 30 each dialect's GetMessage must return a codec whose CRC_EXTRA is the reference value for that dialect's own type, that encodes that type's values as the reference does and decodes them back into that type; each (shipped dialect, order, constructor, name of the application's package: other, or common like a shipped one) is a case, all 24 enumerated")
	for _, shipped := range []string{"minimal", "common", "ardupilotmega"} {
		for _, order := range []string{"application-first", "shipped-first"} {
			for _, ctor := range []string{"Initialize", "NewReadWriter", "Initialize/app-package-named-common", "NewReadWriter/app-package-named-common"} {
				cmd := exec.Command(os.Args[0], "-test.run=^TestC17NamesakesChild$", "-test.count=1")
				cmd.Env = append(os.Environ(), "VERIF_NAMESAKES="+shipped+","+order+","+ctor)
				out, err := cmd.CombinedOutput()
				if err != nil || !strings.Contains(string(out), "NAMESAKES-OK") {
					msg := fmt.Sprintf("shipped dialect %s, %s, codecs built with %s (the application's package is called \"other\", or \"common\" like a shipped one where noted):\n%s", shipped, order, ctor, out)
					if !strings.Contains(string(out), "NAMESAKES-FAIL") {
						t.Fatalf("BROKEN: child process: %v\n%s", err, out)
					}
					evid.ReplayNote(pid, testName, msg)
					t.Fatalf("%s", msg)
				}
				rec.Case(true, evid.HashS(shipped+order+ctor), "namesakes-"+order)
			}
		}
	}
	rec.Exhaustive("3 shipped dialects x 2 initialization orders x 2 constructors x 2 names of the application's package")
	rec.Sample("namesakes", "other.MessageHeartbeat (id 0: uint32, uint8, char[6]) next to minimal.MessageHeartbeat, application dialect initialized first")
}

// TestC17NamesakesChild does the work of one case inside a fresh process (see TestC17Namesakes).
func TestC17NamesakesChild(t *testing.T) {
	spec := os.Getenv("VERIF_NAMESAKES")
	if spec == "" {
		return
	}
	parts := strings.Split(spec, ",")
	shippedD := map[string]*dialect.Dialect{"minimal": minimal.Dialect, "common": common.Dialect, "ardupilotmega": ardupilotmega.Dialect}[parts[0]]
	app := &dialect.Dialect{Version: 3, Messages: []message.Message{&other.MessageHeartbeat{}, &other.MessageSysStatus{}, &other.MessageParamSet{}, &other.MessageAttitude{}}}
	if strings.HasSuffix(parts[2], "/app-package-named-common") {
		// the application's package has the name of a shipped one (its own "common", generated from its own
		// definitions, imported from its own path): the types are as different as before
		app = &dialect.Dialect{Version: 3, Messages: []message.Message{&appcommon.MessageHeartbeat{}, &appcommon.MessageSysStatus{}, &appcommon.MessageParamSet{}, &appcommon.MessageAttitude{}}}
		parts[2] = strings.TrimSuffix(parts[2], "/app-package-named-common")
	}
	mk := func(d *dialect.Dialect) *dialect.ReadWriter {
		if parts[2] == "NewReadWriter" {
			rw, err := dialect.NewReadWriter(d) //nolint:staticcheck
			if err != nil {
				fmt.Printf("NAMESAKES-FAIL: NewReadWriter: %v\n", err)
				os.Exit(1)
			}
			return rw
		}
		rw := &dialect.ReadWriter{Dialect: d}
		if err := rw.Initialize(); err != nil {
			fmt.Printf("NAMESAKES-FAIL: Initialize: %v\n", err)
			os.Exit(1)
		}
		return rw
	}
	var appRW, shipRW *dialect.ReadWriter
	if parts[1] == "application-first" {
		appRW = mk(app)
		shipRW = mk(shippedD)
	} else {
		shipRW = mk(shippedD)
		appRW = mk(app)
	}
	check := func(label string, rw *dialect.ReadWriter, d *dialect.Dialect) {
		for _, m := range d.Messages {
			id := m.GetID()
			if id != 0 && id != 1 && id != 23 && id != 30 {
				continue
			}
			typ := reflect.TypeOf(m).Elem()
			lay, err := ref.LayoutOf(typ)
			if err != nil {
				fmt.Printf("BROKEN: %v\n", err)
				os.Exit(1)
			}
			c := rw.GetMessage(id)
			if c == nil {
				fmt.Printf("NAMESAKES-FAIL: %s: GetMessage(%d) returns nothing\n", label, id)
				os.Exit(1)
			}
			if c.CRCExtra() != lay.CRCExtra {
				fmt.Printf("NAMESAKES-FAIL: %s: the codec for id %d (%s.%s) has CRC_EXTRA %d, the definition of that type gives %d\n", label, id, typ.PkgPath(), typ.Name(), c.CRCExtra(), lay.CRCExtra)
				os.Exit(1)
			}
			val := reflect.New(typ)
			// a recognisable value: every scalar field set, every string filled to its declared length
			for fi := 0; fi < typ.NumField(); fi++ {
				fv := val.Elem().Field(fi)
				switch fv.Kind() {
				case reflect.Uint8, reflect.Uint16, reflect.Uint32, reflect.Uint64:
					fv.SetUint(uint64(7 + fi))
				case reflect.Int8, reflect.Int16, reflect.Int32, reflect.Int64:
					fv.SetInt(int64(3 + fi))
				case reflect.Float32, reflect.Float64:
					fv.SetFloat(1.5 + float64(fi))
				case reflect.String:
					n := 1
					fmt.Sscanf(typ.Field(fi).Tag.Get("mavlen"), "%d", &n) //nolint:errcheck
					fv.SetString(strings.Repeat("k", n))
				}
			}
			for _, v2 := range []bool{false, true} {
				want := lay.Encode(val.Interface(), v2)
				var raw *message.MessageRaw
				func() {
					defer func() {
						if r := recover(); r != nil {
							fmt.Printf("NAMESAKES-FAIL: %s: writing a %s.%s through the codec for id %d panics: %v\n", label, typ.PkgPath(), typ.Name(), id, r)
							os.Exit(1)
						}
					}()
					raw = c.Write(val.Interface().(message.Message), v2)
				}()
				if string(raw.Payload) != string(want) {
					fmt.Printf("NAMESAKES-FAIL: %s: %s.%s encodes to %x, the reference layout gives %x (v2=%v)\n", label, typ.PkgPath(), typ.Name(), raw.Payload, want, v2)
					os.Exit(1)
				}
				back, err := c.Read(&message.MessageRaw{ID: id, Payload: want}, v2)
				wantBack, _ := lay.Decode(want, v2) // v1 carries no extension fields
				if err != nil || reflect.TypeOf(back) != reflect.PtrTo(typ) || !ref.EqualMsg(back, wantBack) {
					fmt.Printf("NAMESAKES-FAIL: %s: payload %x of id %d decodes to %T %+v (err %v), want %s.%s %+v\n", label, want, id, back, back, err, typ.PkgPath(), typ.Name(), wantBack)
					os.Exit(1)
				}
			}
		}
	}
	check("application dialect ("+parts[1]+")", appRW, app)
	check("shipped dialect "+parts[0]+" ("+parts[1]+")", shipRW, shippedD)
	fmt.Println("NAMESAKES-OK")
}
