// Package ref is the independent reference used as oracle by every check.
// It is written from the MAVLink serialization guide and the mavgen rules and
// imports nothing from gomavlib.
package ref

// CRCInit is the initial register value of CRC-16/MCRF4XX.
const CRCInit uint16 = 0xFFFF

// CRCStep advances the CRC-16/MCRF4XX register by one byte, bit by bit
// (reflected polynomial 0x1021 => 0x8408, no final xor).
func CRCStep(crc uint16, b byte) uint16 {
	crc ^= uint16(b)
	for i := 0; i < 8; i++ {
		if crc&1 != 0 {
			crc = (crc >> 1) ^ 0x8408
		} else {
			crc >>= 1
		}
	}
	return crc
}

// CRCFrom continues a CRC computation from a given register value.
func CRCFrom(crc uint16, data []byte) uint16 {
	for _, b := range data {
		crc = CRCStep(crc, b)
	}
	return crc
}

// CRC computes CRC-16/MCRF4XX of data.
func CRC(data []byte) uint16 {
	return CRCFrom(CRCInit, data)
}
