package ref

import (
	"crypto/sha256"
	"errors"
	"fmt"
)

// Frame is a flat description of a MAVLink v1/v2 frame.
type Frame struct {
	V2        bool
	Incompat  byte // v2 only
	Compat    byte // v2 only
	Seq       byte
	Sys       byte
	Comp      byte
	ID        uint32
	Payload   []byte
	Checksum  uint16
	LinkID    byte    // v2 signed only
	Timestamp uint64  // v2 signed only, 48 bit
	Sig       [6]byte // v2 signed only
}

// Signed tells whether the frame carries a signature block.
func (f Frame) Signed() bool { return f.V2 && f.Incompat&1 != 0 }

// HeaderAndPayload returns marker..payload (the bytes before the checksum).
func (f Frame) HeaderAndPayload() []byte {
	var b []byte
	if f.V2 {
		b = append(b, 0xFD, byte(len(f.Payload)), f.Incompat, f.Compat, f.Seq, f.Sys, f.Comp,
			byte(f.ID), byte(f.ID>>8), byte(f.ID>>16))
	} else {
		b = append(b, 0xFE, byte(len(f.Payload)), f.Seq, f.Sys, f.Comp, byte(f.ID))
	}
	return append(b, f.Payload...)
}

// Bytes returns the spec layout of the frame.
func (f Frame) Bytes() []byte {
	b := f.HeaderAndPayload()
	b = append(b, byte(f.Checksum), byte(f.Checksum>>8))
	if f.Signed() {
		b = append(b, f.LinkID)
		for i := 0; i < 6; i++ {
			b = append(b, byte(f.Timestamp>>(8*uint(i))))
		}
		b = append(b, f.Sig[:]...)
	}
	return b
}

// ChecksumFor returns the checksum the spec assigns to the frame for a given CRC_EXTRA.
func (f Frame) ChecksumFor(crcExtra byte) uint16 {
	hp := f.HeaderAndPayload()
	return CRCStep(CRC(hp[1:]), crcExtra)
}

// SignatureFor returns the first 48 bits of SHA-256(key | header | payload | crc | link | ts).
func (f Frame) SignatureFor(key [32]byte) [6]byte {
	h := sha256.New()
	h.Write(key[:])
	b := f.Bytes()
	// everything up to and including link id + timestamp, excluding the 6 signature bytes
	n := len(f.HeaderAndPayload()) + 2 + 7
	h.Write(b[:n])
	var out [6]byte
	copy(out[:], h.Sum(nil)[:6])
	return out
}

// ErrShort is returned by Parse when the buffer ends before the frame does.
var ErrShort = errors.New("short buffer")

// FrameLen returns the total length that a frame starting at b[0] claims to have,
// or ErrShort when not even the header is there, or another error when b[0] is no marker.
func FrameLen(b []byte) (int, error) {
	if len(b) == 0 {
		return 0, ErrShort
	}
	switch b[0] {
	case 0xFE:
		if len(b) < 2 {
			return 0, ErrShort
		}
		return 6 + int(b[1]) + 2, nil
	case 0xFD:
		if len(b) < 3 {
			return 0, ErrShort
		}
		n := 10 + int(b[1]) + 2
		if b[2]&1 != 0 {
			n += 13
		}
		return n, nil
	}
	return 0, fmt.Errorf("no marker: %#x", b[0])
}

// Parse parses exactly one frame from the start of b and returns the number of bytes it occupies.
// It does not judge incompat flags other than the signed bit, nor checksums.
func Parse(b []byte) (Frame, int, error) {
	n, err := FrameLen(b)
	if err != nil {
		return Frame{}, 0, err
	}
	if len(b) < n {
		return Frame{}, 0, ErrShort
	}
	var f Frame
	var p int
	if b[0] == 0xFD {
		f.V2 = true
		f.Incompat, f.Compat, f.Seq, f.Sys, f.Comp = b[2], b[3], b[4], b[5], b[6]
		f.ID = uint32(b[7]) | uint32(b[8])<<8 | uint32(b[9])<<16
		p = 10
	} else {
		f.Seq, f.Sys, f.Comp = b[2], b[3], b[4]
		f.ID = uint32(b[5])
		p = 6
	}
	l := int(b[1])
	if l > 0 {
		f.Payload = append([]byte(nil), b[p:p+l]...)
	}
	p += l
	f.Checksum = uint16(b[p]) | uint16(b[p+1])<<8
	p += 2
	if f.Signed() {
		f.LinkID = b[p]
		for i := 0; i < 6; i++ {
			f.Timestamp |= uint64(b[p+1+i]) << (8 * uint(i))
		}
		copy(f.Sig[:], b[p+7:p+13])
		p += 13
	}
	return f, p, nil
}
