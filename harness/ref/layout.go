package ref

import (
	"encoding/binary"
	"fmt"
	"math"
	"reflect"
	"sort"
	"strconv"
	"strings"
	"unicode"
)

// Field describes one message field as the MAVLink definition sees it.
type Field struct {
	Name     string // definition (snake case) name
	CType    string // double, uint64_t, ..., char
	ElemSize int    // size of the primitive
	ArrayLen int    // 0 = scalar (a scalar char has 0; char[n] has n)
	IsString bool   // Go string (char or char[n])
	IsEnum   bool   // Go uint64 with a wire type
	Signed   bool   // wire type is a signed integer
	Float    bool
	Ext      bool
	GoIndex  int // index of the struct field
}

// Size is the number of payload bytes the field occupies.
func (f Field) Size() int {
	if f.ArrayLen > 0 {
		return f.ElemSize * f.ArrayLen
	}
	return f.ElemSize
}

// Layout is the wire layout of a message.
type Layout struct {
	MsgName  string
	Fields   []Field // wire order: sorted base fields, then extensions
	BaseSize int
	ExtSize  int // base + extensions
	CRCExtra byte
	Type     reflect.Type
}

var ctypes = map[string]struct {
	ctype  string
	size   int
	signed bool
	float  bool
}{
	"float64": {"double", 8, false, true},
	"uint64":  {"uint64_t", 8, false, false},
	"int64":   {"int64_t", 8, true, false},
	"float32": {"float", 4, false, true},
	"uint32":  {"uint32_t", 4, false, false},
	"int32":   {"int32_t", 4, true, false},
	"uint16":  {"uint16_t", 2, false, false},
	"int16":   {"int16_t", 2, true, false},
	"uint8":   {"uint8_t", 1, false, false},
	"int8":    {"int8_t", 1, true, false},
	"string":  {"char", 1, false, false},
}

// CamelToSnake inverts the generator's snake->Camel conversion: an underscore before every
// upper-case letter (except the first), everything lower-cased.
func CamelToSnake(s string) string {
	var b strings.Builder
	for i, r := range s {
		if unicode.IsUpper(r) && r < 128 {
			if i > 0 {
				b.WriteByte('_')
			}
			b.WriteRune(unicode.ToLower(r))
		} else {
			b.WriteRune(r)
		}
	}
	return strings.ToLower(b.String())
}

// LayoutOf derives the wire layout from a message struct type (not pointer).
// It fails for struct shapes outside the documented conventions.
func LayoutOf(t reflect.Type) (*Layout, error) {
	if t.Kind() != reflect.Struct {
		return nil, fmt.Errorf("not a struct")
	}
	if !strings.HasPrefix(t.Name(), "Message") {
		return nil, fmt.Errorf("name does not start with Message")
	}
	l := &Layout{Type: t, MsgName: strings.ToUpper(CamelToSnake(t.Name()[len("Message"):]))}
	var base, ext []Field
	for i := 0; i < t.NumField(); i++ {
		sf := t.Field(i)
		if sf.PkgPath != "" {
			return nil, fmt.Errorf("unexported field %s", sf.Name)
		}
		gt := sf.Type
		f := Field{GoIndex: i}
		if gt.Kind() == reflect.Array {
			f.ArrayLen = gt.Len()
			if f.ArrayLen == 0 {
				return nil, fmt.Errorf("zero length array")
			}
			gt = gt.Elem()
		}
		var key string
		if te := sf.Tag.Get("mavenum"); te != "" {
			if gt.Kind() != reflect.Uint64 {
				return nil, fmt.Errorf("enum not uint64")
			}
			switch te {
			case "uint8", "int8", "uint16", "uint32", "int32", "uint64":
			case "int16", "int64": // integer wire types the library may refuse; if it accepts them, this is their width
			default:
				return nil, fmt.Errorf("bad enum wire type %q", te)
			}
			f.IsEnum = true
			key = te
		} else {
			switch gt.Kind() {
			case reflect.Float64, reflect.Uint64, reflect.Int64, reflect.Float32, reflect.Uint32, reflect.Int32,
				reflect.Uint16, reflect.Int16, reflect.Uint8, reflect.Int8, reflect.String:
			default:
				return nil, fmt.Errorf("unsupported kind %v", gt.Kind())
			}
			key = gt.Kind().String()
			if gt.Name() != key { // named non-enum types are not part of the convention
				return nil, fmt.Errorf("named type %s", gt.Name())
			}
			if gt.Kind() == reflect.String {
				if f.ArrayLen != 0 {
					return nil, fmt.Errorf("array of strings")
				}
				f.IsString = true
				if tl := sf.Tag.Get("mavlen"); tl != "" {
					n, err := strconv.Atoi(tl)
					if err != nil || n <= 0 {
						return nil, fmt.Errorf("bad mavlen %q", tl)
					}
					f.ArrayLen = n
				}
			}
		}
		ct := ctypes[key]
		f.CType, f.ElemSize, f.Signed, f.Float = ct.ctype, ct.size, ct.signed, ct.float
		if n := sf.Tag.Get("mavname"); n != "" {
			f.Name = n
		} else {
			f.Name = CamelToSnake(sf.Name)
		}
		f.Ext = sf.Tag.Get("mavext") == "true"
		if f.Ext {
			ext = append(ext, f)
		} else {
			if len(ext) > 0 {
				return nil, fmt.Errorf("base field after extension field")
			}
			base = append(base, f)
		}
	}
	sort.SliceStable(base, func(i, j int) bool { return base[i].ElemSize > base[j].ElemSize })
	for _, f := range base {
		l.BaseSize += f.Size()
	}
	l.ExtSize = l.BaseSize
	for _, f := range ext {
		l.ExtSize += f.Size()
	}
	l.Fields = append(base, ext...)
	l.CRCExtra = CRCExtraOf(l.MsgName, base)
	return l, nil
}

// CRCExtraOf folds the CRC of "NAME " followed by "type name " (+ one length byte for arrays)
// for the base fields in wire order, as mavgen's message_checksum does.
func CRCExtraOf(msgName string, base []Field) byte {
	crc := CRC([]byte(msgName + " "))
	for _, f := range base {
		crc = CRCFrom(crc, []byte(f.CType+" "))
		crc = CRCFrom(crc, []byte(f.Name+" "))
		if f.ArrayLen > 0 {
			crc = CRCStep(crc, byte(f.ArrayLen))
		}
	}
	return byte(crc&0xFF) ^ byte(crc>>8)
}

func addressable(v reflect.Value) reflect.Value {
	if v.CanAddr() {
		return v
	}
	nv := reflect.New(v.Type()).Elem()
	nv.Set(v)
	return nv
}

// F32Bits returns the bit pattern of a float32 value without any float conversion
// (conversions quieten signalling NaNs).
func F32Bits(v reflect.Value) uint32 {
	return math.Float32bits(*(addressable(v).Addr().Interface().(*float32)))
}

// F64Bits returns the bit pattern of a float64 value.
func F64Bits(v reflect.Value) uint64 {
	return math.Float64bits(*(addressable(v).Addr().Interface().(*float64)))
}

func putLE(buf []byte, v uint64, size int) {
	for i := 0; i < size; i++ {
		buf[i] = byte(v >> (8 * uint(i)))
	}
}

func getLE(buf []byte, size int) uint64 {
	var v uint64
	for i := 0; i < size; i++ {
		v |= uint64(buf[i]) << (8 * uint(i))
	}
	return v
}

func (f Field) encodeElem(buf []byte, v reflect.Value) {
	switch {
	case f.IsEnum:
		putLE(buf, v.Uint(), f.ElemSize)
	case f.Float && f.ElemSize == 4:
		binary.LittleEndian.PutUint32(buf, F32Bits(v))
	case f.Float:
		binary.LittleEndian.PutUint64(buf, F64Bits(v))
	case f.Signed:
		putLE(buf, uint64(v.Int()), f.ElemSize)
	default:
		putLE(buf, v.Uint(), f.ElemSize)
	}
}

func (f Field) decodeElem(buf []byte, v reflect.Value) {
	raw := getLE(buf, f.ElemSize)
	switch {
	case f.IsEnum:
		v.SetUint(raw)
	case f.Float && f.ElemSize == 4:
		// go through the bits to keep NaN payloads
		*(v.Addr().Interface().(*float32)) = math.Float32frombits(uint32(raw))
	case f.Float:
		*(v.Addr().Interface().(*float64)) = math.Float64frombits(raw)
	case f.Signed:
		shift := uint(64 - 8*f.ElemSize)
		v.SetInt(int64(raw<<shift) >> shift)
	default:
		v.SetUint(raw)
	}
}

// EncodeFull returns the untruncated payload: base fields only (v1) or base + extensions (v2).
// msg is a pointer to the struct or the struct itself.
func (l *Layout) EncodeFull(msg interface{}, v2 bool) []byte {
	v := reflect.ValueOf(msg)
	if v.Kind() == reflect.Ptr {
		v = v.Elem()
	}
	size := l.BaseSize
	if v2 {
		size = l.ExtSize
	}
	out := make([]byte, size)
	p := 0
	for _, f := range l.Fields {
		if f.Ext && !v2 {
			continue
		}
		fv := v.Field(f.GoIndex)
		switch {
		case f.IsString:
			n := f.Size()
			copy(out[p:p+n], fv.String())
		case f.ArrayLen > 0:
			for i := 0; i < f.ArrayLen; i++ {
				f.encodeElem(out[p+i*f.ElemSize:], fv.Index(i))
			}
		default:
			f.encodeElem(out[p:], fv)
		}
		p += f.Size()
	}
	return out
}

// Truncate applies MAVLink 2 payload truncation: trailing zero bytes removed, at least one byte kept.
func Truncate(p []byte) []byte {
	n := len(p)
	for n > 1 && p[n-1] == 0 {
		n--
	}
	return p[:n]
}

// Encode is the wire payload: EncodeFull for v1, truncated EncodeFull for v2.
func (l *Layout) Encode(msg interface{}, v2 bool) []byte {
	b := l.EncodeFull(msg, v2)
	if v2 {
		return Truncate(b)
	}
	return b
}

// Decode decodes a payload into a new *struct. v1 demands the exact base size; v2 zero-extends
// short payloads and ignores bytes beyond the extended size.
func (l *Layout) Decode(payload []byte, v2 bool) (interface{}, error) {
	if !v2 && len(payload) != l.BaseSize {
		return nil, fmt.Errorf("v1 payload length %d != %d", len(payload), l.BaseSize)
	}
	size := l.BaseSize
	if v2 {
		size = l.ExtSize
	}
	buf := make([]byte, size)
	copy(buf, payload)
	out := reflect.New(l.Type)
	v := out.Elem()
	p := 0
	for _, f := range l.Fields {
		if f.Ext && !v2 {
			continue
		}
		fv := v.Field(f.GoIndex)
		switch {
		case f.IsString:
			n := f.Size()
			end := 0
			for end < n && buf[p+end] != 0 {
				end++
			}
			fv.SetString(string(buf[p : p+end]))
		case f.ArrayLen > 0:
			for i := 0; i < f.ArrayLen; i++ {
				f.decodeElem(buf[p+i*f.ElemSize:], fv.Index(i))
			}
		default:
			f.decodeElem(buf[p:], fv)
		}
		p += f.Size()
	}
	return out.Interface(), nil
}

// Canonical returns the value a decode of the encoding of msg must produce.
func (l *Layout) Canonical(msg interface{}, v2 bool) interface{} {
	out, err := l.Decode(l.EncodeFull(msg, v2), v2)
	if err != nil {
		panic(err)
	}
	return out
}

// EqualBits compares two values of the same type structurally, floats by bit pattern.
func EqualBits(a, b reflect.Value) bool {
	if a.Type() != b.Type() {
		return false
	}
	switch a.Kind() {
	case reflect.Ptr, reflect.Interface:
		if a.IsNil() || b.IsNil() {
			return a.IsNil() == b.IsNil()
		}
		return EqualBits(a.Elem(), b.Elem())
	case reflect.Struct:
		for i := 0; i < a.NumField(); i++ {
			if !EqualBits(a.Field(i), b.Field(i)) {
				return false
			}
		}
		return true
	case reflect.Array:
		for i := 0; i < a.Len(); i++ {
			if !EqualBits(a.Index(i), b.Index(i)) {
				return false
			}
		}
		return true
	case reflect.Slice:
		if a.Len() != b.Len() {
			return false
		}
		for i := 0; i < a.Len(); i++ {
			if !EqualBits(a.Index(i), b.Index(i)) {
				return false
			}
		}
		return true
	case reflect.Float32:
		return F32Bits(a) == F32Bits(b)
	case reflect.Float64:
		return F64Bits(a) == F64Bits(b)
	case reflect.String:
		return a.String() == b.String()
	case reflect.Int, reflect.Int8, reflect.Int16, reflect.Int32, reflect.Int64:
		return a.Int() == b.Int()
	case reflect.Uint, reflect.Uint8, reflect.Uint16, reflect.Uint32, reflect.Uint64:
		return a.Uint() == b.Uint()
	case reflect.Bool:
		return a.Bool() == b.Bool()
	}
	return false
}

// EqualMsg compares two message pointers bit-wise.
func EqualMsg(a, b interface{}) bool {
	if a == nil || b == nil {
		return a == nil && b == nil
	}
	return EqualBits(reflect.ValueOf(a), reflect.ValueOf(b))
}
