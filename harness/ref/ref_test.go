package ref

import (
	"bytes"
	"testing"
)

func TestCRCCheckValue(t *testing.T) {
	if got := CRC([]byte("123456789")); got != 0x6F91 {
		t.Fatalf("CRC-16/MCRF4XX check value: got %#x want 0x6f91", got)
	}
}

func TestFrameBytesKnown(t *testing.T) {
	// HEARTBEAT v1 from the mavlink docs family: seq 0x4e sys 1 comp 1, crc extra 50
	f := Frame{Seq: 3, Sys: 1, Comp: 1, ID: 0, Payload: []byte{0, 0, 0, 0, 6, 8, 0, 0, 3}}
	f.Checksum = f.ChecksumFor(50)
	b := f.Bytes()
	g, n, err := Parse(b)
	if err != nil || n != len(b) || !bytes.Equal(g.Bytes(), b) {
		t.Fatalf("round trip failed")
	}
}
