// evmerge unions the fingerprint files of the shards of one run, per test, and prints
// {"<test>": distinct} as JSON. Usage: evmerge <statsdir>
package main

import (
	"encoding/binary"
	"encoding/json"
	"fmt"
	"os"
	"path/filepath"
	"sort"
	"strings"
)

func main() {
	dir := os.Args[1]
	files, _ := filepath.Glob(filepath.Join(dir, "*.fp"))
	byTest := map[string][]uint64{}
	for _, f := range files {
		base := strings.TrimSuffix(filepath.Base(f), ".fp")
		// <id>.<test>.<shard>
		i := strings.LastIndex(base, ".")
		key := base[:i]
		b, err := os.ReadFile(f)
		if err != nil {
			fmt.Fprintln(os.Stderr, err)
			os.Exit(2)
		}
		for p := 0; p+8 <= len(b); p += 8 {
			byTest[key] = append(byTest[key], binary.LittleEndian.Uint64(b[p:]))
		}
	}
	out := map[string]int{}
	for k, v := range byTest {
		sort.Slice(v, func(i, j int) bool { return v[i] < v[j] })
		n := 0
		for i := range v {
			if i == 0 || v[i] != v[i-1] {
				n++
			}
		}
		out[k] = n
	}
	js, _ := json.Marshal(out)
	fmt.Println(string(js))
}
