package dgen

import (
	"bytes"
	"fmt"
	"os"
	"path/filepath"
	"strings"
	"testing"

	"pgregory.net/rapid"

	"verifharness/evid"
)

// TestC19GeneratedEnums is the "generated dialects" half of C19: enum definitions printed from the random model
// (ordinary and bitmask, values in every accepted syntax, enums extended by an including file, the bitmask
// attribute in each of its legal spellings) go through the real generator, the generated enum types are compiled
// and a probe renders and parses defined constants, single flags, flag combinations, zero, unnamed values over
// the full 64-bit range and texts that must be refused.
func TestC19GeneratedEnums(t *testing.T) {
	rec := evid.New(t, "C19", "enum definitions from the random dialect model (ordinary/bitmask, decimal/0x/0b/a**b values, multi-bit entries, enums extended by an includer, bitmask attribute spelled true/1/false/0/absent) converted by conversion.Convert, compiled, and probed: every defined constant, single flag, generated flag combination, zero and unnamed 64-bit values must render as the property says and parse back to the same value; texts that are no name, combination or number must be refused; non-trivial = dialect with both an ordinary and a bitmask enum; distinct by hash of the XML")
	rec.Require("generated-ordinary-enum", "generated-bitmask-enum", "bitmask-attribute-spelled-0-or-false", "bitmask-attribute-spelled-1", "second-definition-sharing-the-included-files")
	root := scratch(t)
	defer os.RemoveAll(root)
	evid.Check(t, rec, evid.N(14, 50), func(t *rapid.T) {
		caseCounter++
		caseDir := fmt.Sprintf("e%d", caseCounter)
		nb := rapid.IntRange(4, 8).Draw(t, "batch")
		var batch []XDialect
		var pkgDirs []string
		fail := func(d XDialect, format string, a ...interface{}) {
			msg := fmt.Sprintf(format, a...)
			var xml strings.Builder
			for _, f := range d.Files {
				fmt.Fprintf(&xml, "--- %s.xml ---\n%s", f.Name, f.XML())
			}
			evid.ReplayNote("C19", "TestC19GeneratedEnums", msg+"\n"+xml.String())
			t.Fatalf("%s\n%s", msg, xml.String())
		}
		for i := 0; i < nb; i++ {
			d := drawDialectModel(t, i)
			sub := filepath.Join(caseDir, fmt.Sprintf("g%d", i))
			if _, err := convert(d, filepath.Join(root, sub)); err != nil {
				fail(d, "valid definition refused or generator panicked: %v", err)
			}
			batch = append(batch, d)
			pkgDirs = append(pkgDirs, sub)
			// a second definition in the same directory, converted by the same process right after d, sharing
			// d's included files: what d added to their enums must not be part of it, and what is generated
			// for it must be what a conversion that never saw d generates
			if sib, ok := SiblingOf(d); ok {
				sdir, err := convert(sib, filepath.Join(root, sub))
				if err != nil {
					fail(sib, "definition that includes the same files as the one converted just before it (and defines nothing itself) refused: %v", err)
				}
				adir, err := convert(sib, filepath.Join(root, caseDir, fmt.Sprintf("alone%d", i)))
				if err != nil {
					fail(sib, "valid definition refused: %v", err)
				}
				t1, e1 := readTree(sdir)
				t2, e2 := readTree(adir)
				if e1 != nil || e2 != nil || len(t1) != len(t2) {
					fail(sib, "converted after a definition that shares its included files: %d generated files, converted alone: %d (%v %v)", len(t1), len(t2), e1, e2)
				}
				for name, b1 := range t1 {
					if !bytes.Equal(b1, t2[name]) {
						fail(sib, "generated file %s differs between a conversion that follows the conversion of a definition sharing the included files (top file of that one:\n%s) and a conversion alone", name, d.Files[0].XML())
					}
				}
				batch = append(batch, sib)
				pkgDirs = append(pkgDirs, sub)
				rec.Class("second-definition-sharing-the-included-files", 1)
				if len(sib.ExtraProbe) > 0 {
					rec.Class("definitions-sharing-an-included-file-whose-enum-one-of-them-extends", 1)
				}
			}
		}
		writeProbe(root, batch, pkgDirs)
		res, out, err := buildAndRun(root)
		if err != nil {
			for i := range batch {
				writeProbe(root, batch[i:i+1], pkgDirs[i:i+1])
				if _, o, e := buildAndRun(root); e != nil {
					fail(batch[i], "%v:\n%s", e, o)
				}
			}
			t.Fatalf("BROKEN: batch fails but every member builds alone: %v\n%s", err, out)
		}
		for i, d := range batch {
			if err := compareEnums(d, res[i]); err != nil {
				fail(d, "%v", err)
			}
			var cls []string
			ord, bm := false, false
			for _, f := range d.Files {
				for _, e := range f.Enums {
					if len(e.Entries) == 0 && e.Bitmask {
						cls = append(cls, "bitmask-enum-announced-without-entries-by-an-included-file")
					}
					if e.Bitmask {
						bm = true
						if e.AttrStyle%2 == 1 {
							cls = append(cls, "bitmask-attribute-spelled-1")
						}
					} else {
						ord = true
						if e.AttrStyle == 1 || e.AttrStyle == 2 {
							cls = append(cls, "bitmask-attribute-spelled-0-or-false")
						}
					}
				}
			}
			if ord {
				cls = append(cls, "generated-ordinary-enum")
			}
			if bm {
				cls = append(cls, "generated-bitmask-enum")
			}
			var xmlAll []byte
			for _, f := range d.Files {
				xmlAll = append(xmlAll, f.XML()...)
			}
			rec.Case(ord && bm, evid.Hash(xmlAll), dedup(cls)...)
			if ord && bm && rec.WantSample("generated-enums") {
				names, entries, bitmask := d.MergedEnums()
				var desc []string
				for _, n := range names {
					desc = append(desc, fmt.Sprintf("%s(bitmask=%v, %d entries)", n, bitmask[n], len(entries[n])))
				}
				rec.Sample("generated-enums", desc)
			}
		}
		os.RemoveAll(filepath.Join(root, caseDir))
	})
}

func dedup(xs []string) []string {
	seen := map[string]bool{}
	var out []string
	for _, x := range xs {
		if !seen[x] {
			seen[x] = true
			out = append(out, x)
		}
	}
	return out
}
