package dgen

import (
	"bytes"
	"encoding/json"
	"fmt"
	"os"
	"path/filepath"
	"strings"
	"testing"

	"pgregory.net/rapid"

	"verifharness/evid"
)

// TestC19GeneratedEnums is the "generated dialects" half of C19: enum definitions printed from the random model
// (ordinary and bitmask, values in every accepted syntax, enums extended by an including file, the bitmask
// attribute in each of its legal spellings) go through the real generator, the generated enum types are compiled
// and a probe renders and parses defined constants, single flags, flag combinations, zero, unnamed values over
// the full 64-bit range and texts that must be refused.
func TestC19GeneratedEnums(t *testing.T) {
	rec := evid.New(t, "C19", "enum definitions from the random dialect model (ordinary/bitmask, decimal/0x/0b/a**b values, multi-bit entries, enums extended by an includer, bitmask attribute spelled true/1/false/0/absent) converted by conversion.Convert, compiled, and probed: every defined constant, single flag, generated flag combination, zero and unnamed 64-bit values must render as the property says and parse back to the same value; texts that are no name, combination or number must be refused; non-trivial = dialect with both an ordinary and a bitmask enum; distinct by hash of the XML")
	rec.Require("generated-ordinary-enum", "generated-bitmask-enum", "bitmask-attribute-spelled-0-or-false", "bitmask-attribute-spelled-1", "second-definition-sharing-the-included-files")
	root := scratch(t)
	defer os.RemoveAll(root)
	evid.Check(t, rec, evid.N(14, 50), func(t *rapid.T) {
		caseCounter++
		caseDir := fmt.Sprintf("e%d", caseCounter)
		nb := rapid.IntRange(4, 8).Draw(t, "batch")
		var batch []XDialect
		var pkgDirs []string
		fail := func(d XDialect, format string, a ...interface{}) {
			msg := fmt.Sprintf(format, a...)
			var xml strings.Builder
			for _, f := range d.Files {
				fmt.Fprintf(&xml, "--- %s.xml ---\n%s", f.Name, f.XML())
			}
			evid.ReplayNote("C19", "TestC19GeneratedEnums", msg+"\n"+xml.String())
			t.Fatalf("%s\n%s", msg, xml.String())
		}
		for i := 0; i < nb; i++ {
			d := drawDialectModel(t, i)
			sub := filepath.Join(caseDir, fmt.Sprintf("g%d", i))
			if _, err := convert(d, filepath.Join(root, sub)); err != nil {
				fail(d, "valid definition refused or generator panicked: %v", err)
			}
			batch = append(batch, d)
			pkgDirs = append(pkgDirs, sub)
			// a second definition in the same directory, converted by the same process right after d, sharing
			// d's included files: what d added to their enums must not be part of it, and what is generated
			// for it must be what a conversion that never saw d generates
			if sib, ok := SiblingOf(d); ok {
				sdir, err := convert(sib, filepath.Join(root, sub))
				if err != nil {
					fail(sib, "definition that includes the same files as the one converted just before it (and defines nothing itself) refused: %v", err)
				}
				adir, err := convert(sib, filepath.Join(root, caseDir, fmt.Sprintf("alone%d", i)))
				if err != nil {
					fail(sib, "valid definition refused: %v", err)
				}
				t1, e1 := readTree(sdir)
				t2, e2 := readTree(adir)
				if e1 != nil || e2 != nil || len(t1) != len(t2) {
					fail(sib, "converted after a definition that shares its included files: %d generated files, converted alone: %d (%v %v)", len(t1), len(t2), e1, e2)
				}
				for name, b1 := range t1 {
					if !bytes.Equal(b1, t2[name]) {
						fail(sib, "generated file %s differs between a conversion that follows the conversion of a definition sharing the included files (top file of that one:\n%s) and a conversion alone", name, d.Files[0].XML())
					}
				}
				batch = append(batch, sib)
				pkgDirs = append(pkgDirs, sub)
				rec.Class("second-definition-sharing-the-included-files", 1)
				if len(sib.ExtraProbe) > 0 {
					rec.Class("definitions-sharing-an-included-file-whose-enum-one-of-them-extends", 1)
				}
			}
		}
		writeProbe(root, batch, pkgDirs)
		res, out, err := buildAndRun(root)
		if err != nil {
			for i := range batch {
				writeProbe(root, batch[i:i+1], pkgDirs[i:i+1])
				if _, o, e := buildAndRun(root); e != nil {
					fail(batch[i], "%v:\n%s", e, o)
				}
			}
			t.Fatalf("BROKEN: batch fails but every member builds alone: %v\n%s", err, out)
		}
		for i, d := range batch {
			if err := compareEnums(d, res[i]); err != nil {
				fail(d, "%v", err)
			}
			var cls []string
			ord, bm := false, false
			for _, f := range d.Files {
				for _, e := range f.Enums {
					if len(e.Entries) == 0 && e.Bitmask {
						cls = append(cls, "bitmask-enum-announced-without-entries-by-an-included-file")
					}
					if e.Bitmask {
						bm = true
						if e.AttrStyle%2 == 1 {
							cls = append(cls, "bitmask-attribute-spelled-1")
						}
					} else {
						ord = true
						if e.AttrStyle == 1 || e.AttrStyle == 2 {
							cls = append(cls, "bitmask-attribute-spelled-0-or-false")
						}
					}
				}
			}
			if ord {
				cls = append(cls, "generated-ordinary-enum")
			}
			if bm {
				cls = append(cls, "generated-bitmask-enum")
			}
			var xmlAll []byte
			for _, f := range d.Files {
				xmlAll = append(xmlAll, f.XML()...)
			}
			rec.Case(ord && bm, evid.Hash(xmlAll), dedup(cls)...)
			if ord && bm && rec.WantSample("generated-enums") {
				names, entries, bitmask := d.MergedEnums()
				var desc []string
				for _, n := range names {
					desc = append(desc, fmt.Sprintf("%s(bitmask=%v, %d entries)", n, bitmask[n], len(entries[n])))
				}
				rec.Sample("generated-enums", desc)
			}
		}
		os.RemoveAll(filepath.Join(root, caseDir))
	})
}

func dedup(xs []string) []string {
	seen := map[string]bool{}
	var out []string
	for _, x := range xs {
		if !seen[x] {
			seen[x] = true
			out = append(out, x)
		}
	}
	return out
}

// TestC19LinkedEnums: the generator's link mode (dialect-import --link, the way the shipped dialects are made): a
// definition includes another one whose package already exists; what it takes over unchanged refers to that package,
// what it extends is its own. The included definition is converted first and stands (through a build overlay, the
// repository tree is not touched) where linked packages are imported from; then the enums of the including
// definition - those it defines, those it takes over and those it extends - are probed like all others.
func TestC19LinkedEnums(t *testing.T) {
	rec := evid.New(t, "C19", "two-file definitions from the random dialect model (a top file including one other file) converted in link mode: the included file by itself first (its package is placed at pkg/dialects/<name> through a go build overlay), then the top file with link=true; the generated package is compiled and every enum visible in it (own, taken over from the included package, extended by the top file) is probed as in TestC19GeneratedEnums; non-trivial = the top file adds entries to an enum of the included file; distinct by hash of the XML")
	rec.Require("linked-enum-taken-over-unchanged", "linked-enum-extended-by-the-including-definition")
	root := scratch(t)
	defer os.RemoveAll(root)
	repo := os.Getenv("VERIF_REPO")
	if repo == "" {
		repo = "/repo"
	}
	evid.Check(t, rec, evid.N(12, 60), func(t *rapid.T) {
		caseCounter++
		caseDir := fmt.Sprintf("l%d", caseCounter)
		defer os.RemoveAll(filepath.Join(root, caseDir))
		forceFiles = 2
		d := drawDialectModel(t, 0)
		forceFiles = 0
		inc := XDialect{Files: []XFile{d.Files[1]}}
		incPkg := inc.PkgName()
		if _, err := os.Stat(filepath.Join(repo, "pkg", "dialects", incPkg)); err == nil || strings.Contains(d.Files[1].Name, "/") || len(d.Files[1].Includes) > 0 {
			t.Skip("included file is not a plain neighbour")
		}
		// the included definition has to stand on its own feet to be a package of its own
		own := map[string]bool{}
		for _, e := range d.Files[1].Enums {
			if len(e.Entries) == 0 {
				t.Skip("included file only announces an enum")
			}
			own[e.Name] = true
		}
		for _, m := range d.Files[1].Msgs {
			for _, f := range m.Fields {
				if f.Enum != "" && !own[f.Enum] {
					t.Skip("included file uses an enum of the including file")
				}
			}
		}
		// the case this is about by construction: the top file adds entries to an enum of the included file (an
		// ordinary one gets the smallest unused values, a bitmask one bits that no entry uses)
		if len(d.Files[1].Enums) == 0 {
			d.Files[1].Enums = append(d.Files[1].Enums, XEnum{Name: "E_LINKED_BASE", Bitmask: rapid.Bool().Draw(t, "added_base_bitmask"),
				Entries: []XEntry{{Name: "E_LINKED_BASE_ONE", Value: 1, Text: "1"}, {Name: "E_LINKED_BASE_FOUR", Value: 4, Text: "4"}}})
		}
		topHas := map[string]bool{}
		for _, e := range d.Files[0].Enums {
			topHas[e.Name] = true
		}
		for _, e := range d.Files[1].Enums {
			if topHas[e.Name] {
				continue
			}
			used, bits := map[uint64]bool{}, uint64(0)
			for _, x := range e.Entries {
				used[x.Value] = true
				bits |= x.Value
			}
			ext := XEnum{Name: e.Name, Bitmask: e.Bitmask, AttrStyle: e.AttrStyle}
			for k := 0; k < rapid.IntRange(1, 2).Draw(t, "added_entries"); k++ {
				var v uint64
				if e.Bitmask {
					b := 0
					for b < 63 && bits&(1<<uint(b)) != 0 {
						b++
					}
					if bits&(1<<uint(b)) != 0 {
						break
					}
					v = 1 << uint(b)
					bits |= v
				} else {
					for used[v] {
						v++
					}
					used[v] = true
				}
				ext.Entries = append(ext.Entries, XEntry{Name: fmt.Sprintf("%s_ADDED_BY_TOP%d", e.Name, k), Value: v, Text: fmt.Sprint(v)})
			}
			if len(ext.Entries) > 0 {
				d.Files[0].Enums = append(d.Files[0].Enums, ext)
			}
			break
		}
		// ... and one enum of the included file that the top file leaves alone
		{
			bm := rapid.Bool().Draw(t, "kept_enum_bitmask")
			d.Files[1].Enums = append(d.Files[1].Enums, XEnum{Name: "E_LINKED_KEPT", Bitmask: bm, AttrStyle: rapid.IntRange(0, 3).Draw(t, "kept_enum_attr"),
				Entries: []XEntry{{Name: "E_LINKED_KEPT_A", Value: 1, Text: "1"}, {Name: "E_LINKED_KEPT_B", Value: 2, Text: "0x2"}, {Name: "E_LINKED_KEPT_C", Value: 8, Text: "8"}}})
		}
		fail := func(format string, a ...interface{}) {
			msg := fmt.Sprintf(format, a...)
			var xml strings.Builder
			for _, f := range d.Files {
				fmt.Fprintf(&xml, "--- %s.xml ---\n%s", f.Name, f.XML())
			}
			evid.ReplayNote("C19", "TestC19LinkedEnums", msg+"\n"+xml.String())
			t.Fatalf("%s\n%s", msg, xml.String())
		}
		inc = XDialect{Files: []XFile{d.Files[1]}} // with what was added above
		incDir, err := convertMode(inc, filepath.Join(root, caseDir, "inc"), nil, true)
		if err != nil {
			fail("the included definition converted by itself (link mode): %v", err)
		}
		sub := filepath.Join(caseDir, "main")
		if _, err := convertMode(d, filepath.Join(root, sub), nil, true); err != nil {
			fail("valid definition refused in link mode: %v", err)
		}
		files, rerr := readTree(incDir)
		if rerr != nil || len(files) == 0 {
			t.Fatalf("BROKEN: %v", rerr)
		}
		repl := map[string]string{}
		for name := range files {
			repl[filepath.Join(repo, "pkg", "dialects", incPkg, name)] = filepath.Join(incDir, name)
		}
		ov, _ := json.Marshal(map[string]interface{}{"Replace": repl})
		ovPath := filepath.Join(root, caseDir, "overlay.json")
		must(os.WriteFile(ovPath, ov, 0o644))
		writeProbe(root, []XDialect{d}, []string{sub})
		res, out, err := buildAndRunOverlay(root, ovPath)
		if err != nil {
			fail("link mode: %v:\n%s", err, out)
		}
		if err := compareEnums(d, res[0]); err != nil {
			fail("link mode (the included definition %s is a package of its own): %v", d.Files[1].Name, err)
		}
		var cls []string
		incEnums := map[string]bool{}
		for _, e := range d.Files[1].Enums {
			incEnums[e.Name] = true
		}
		extended := false
		for _, e := range d.Files[0].Enums {
			if incEnums[e.Name] && len(e.Entries) > 0 {
				extended = true
				delete(incEnums, e.Name)
			}
		}
		if extended {
			cls = append(cls, "linked-enum-extended-by-the-including-definition")
		}
		if len(incEnums) > 0 {
			cls = append(cls, "linked-enum-taken-over-unchanged")
		}
		var xmlAll []byte
		for _, f := range d.Files {
			xmlAll = append(xmlAll, f.XML()...)
		}
		rec.Case(extended, evid.Hash(xmlAll), cls...)
		if extended && rec.WantSample("linked") {
			rec.Sample("linked", map[string]interface{}{"top": d.Files[0].Name, "included": d.Files[1].Name})
		}
	})
}
