package dgen

import (
	"bytes"
	"encoding/hex"
	"encoding/json"
	"fmt"
	"math/big"
	"os"
	"os/exec"
	"path/filepath"
	"sort"
	"strings"
	"sync"
	"testing"
	"time"

	"github.com/bluenviron/gomavlib/v3/pkg/conversion"
	"pgregory.net/rapid"

	"verifharness/evid"
)

var (
	scratchRoot string
	caseCounter int
)

func scratch(t testing.TB) string {
	if scratchRoot != "" {
		if _, err := os.Stat(filepath.Join(scratchRoot, "go.mod")); err == nil {
			return scratchRoot
		}
	}
	func() {
		base := os.Getenv("VERIF_SCRATCH")
		if base == "" {
			base = os.TempDir()
		}
		dir, err := os.MkdirTemp(base, "c18-")
		if err != nil {
			panic(err)
		}
		scratchRoot = dir
		repo := os.Getenv("VERIF_REPO")
		if repo == "" {
			repo = "/repo"
		}
		mod := "module scratch\n\ngo 1.21\n\nrequire github.com/bluenviron/gomavlib/v3 v3.0.0\n\nreplace github.com/bluenviron/gomavlib/v3 => " + repo + "\n"
		must(os.WriteFile(filepath.Join(dir, "go.mod"), []byte(mod), 0o644))
		sum, err := os.ReadFile(filepath.Join(repo, "go.sum"))
		must(err)
		must(os.WriteFile(filepath.Join(dir, "go.sum"), sum, 0o644))
	}()
	return scratchRoot
}

func must(err error) {
	if err != nil {
		panic(fmt.Sprintf("BROKEN: harness file handling: %v", err))
	}
}

var chdirMu sync.Mutex

// convert runs the real generator on the model's XML files inside a fresh directory and returns
// the directory holding the generated package.
func convert(d XDialect, dir string) (string, error) {
	return convertIn(d, dir, nil)
}

// convertIn: with zone != nil the conversion runs while the process's local time zone is that zone (the same
// definition converted on another continent, or after midnight: the same files come out).
func convertIn(d XDialect, dir string, zone *time.Location) (string, error) {
	return convertMode(d, dir, zone, false)
}

// convertMode: link is the generator's second argument (dialect-import --link): messages and enums of included
// definitions are then taken from the packages of those definitions instead of being written out again.
func convertMode(d XDialect, dir string, zone *time.Location, link bool) (string, error) {
	must(os.MkdirAll(dir, 0o755))
	for _, f := range d.Files {
		must(os.MkdirAll(filepath.Dir(filepath.Join(dir, f.Name+".xml")), 0o755))
		must(os.WriteFile(filepath.Join(dir, f.Name+".xml"), []byte(f.XML()), 0o644))
	}
	chdirMu.Lock()
	defer chdirMu.Unlock()
	old, err := os.Getwd()
	must(err)
	must(os.Chdir(dir))
	defer os.Chdir(old) //nolint:errcheck
	if zone != nil {
		saved := time.Local
		time.Local = zone
		defer func() { time.Local = saved }()
	}
	// silence "processing definition" chatter
	devnull, _ := os.OpenFile(os.DevNull, os.O_WRONLY, 0)
	stderr := os.Stderr
	os.Stderr = devnull
	cerr := func() (err error) {
		defer func() {
			if r := recover(); r != nil {
				err = fmt.Errorf("PANIC in Convert: %v", r)
			}
		}()
		return conversion.Convert(d.Files[0].Name+".xml", link)
	}()
	os.Stderr = stderr
	devnull.Close()
	return filepath.Join(dir, d.PkgName()), cerr
}

func readTree(dir string) (map[string][]byte, error) {
	out := map[string][]byte{}
	ents, err := os.ReadDir(dir)
	if err != nil {
		return nil, err
	}
	for _, e := range ents {
		b, err := os.ReadFile(filepath.Join(dir, e.Name()))
		if err != nil {
			return nil, err
		}
		out[e.Name()] = b
	}
	return out, nil
}

// probe output
type probeMsg struct {
	GoName  string
	ID      uint32
	CRC     int
	V1Len   int
	InitErr string
	OneHot  []string // hex of Write(one-hot i, v2)
	Decoded []bool   // Read(Write(one-hot i)) == one-hot i
}
type probeEnumVal struct {
	V    string // decimal
	Text string
	Str  string
	MErr string
	Back string
	UErr string
	Held string // non-empty: the text taken before the other values were rendered no longer parses to this value
}
type probeDialect struct {
	Pkg     string
	Version int
	InitErr string
	Msgs    []probeMsg
	Consts  map[string]string
	Enums   map[string][]probeEnumVal
	Rejects map[string][]string // enum -> texts that were wrongly accepted
}

const probeStatic = `
// guarded hands f the text as a window into a larger array and reports a write outside (or inside) the window.
func guarded(s string, f func([]byte) error) error {
	backing := make([]byte, len(s)+3)
	for i := range backing { backing[i] = 0xA5 }
	copy(backing[1:], s)
	before := string(backing)
	err := f(backing[1 : 1+len(s)])
	if string(backing) != before {
		return fmt.Errorf("UnmarshalText wrote to the caller's buffer (the text was a window into a larger array)")
	}
	return err
}

func pattern(ctype string, size int, j int) []byte {
	b := make([]byte, size)
	for k := range b {
		b[k] = byte(0x11*(k+1)) ^ byte(j<<4) | 1
	}
	if ctype == "float32" { b[3] = 0x44 }
	if ctype == "float64" { b[7] = 0x44 }
	if ctype == "string" { b[0] = byte('A' + j%26) }
	return b
}

func le(b []byte) uint64 {
	var v uint64
	for i, x := range b { v |= uint64(x) << (8*uint(i)) }
	return v
}

var wireSize = map[string]int{"uint8":1,"int8":1,"uint16":2,"int16":2,"uint32":4,"int32":4,"uint64":8,"int64":8,"float32":4,"float64":8}

func setElem(v reflect.Value, tag reflect.StructTag, j int) {
	if we := tag.Get("mavenum"); we != "" {
		v.SetUint(le(pattern(we, wireSize[we], j)))
		return
	}
	switch v.Kind() {
	case reflect.Uint8, reflect.Uint16, reflect.Uint32, reflect.Uint64:
		v.SetUint(le(pattern(v.Kind().String(), int(v.Type().Size()), j)))
	case reflect.Int8, reflect.Int16, reflect.Int32, reflect.Int64:
		size := int(v.Type().Size())
		u := le(pattern(v.Kind().String(), size, j))
		shift := uint(64 - 8*size)
		v.SetInt(int64(u<<shift) >> shift)
	case reflect.Float32:
		v.SetFloat(float64(math.Float32frombits(uint32(le(pattern("float32", 4, j))))))
	case reflect.Float64:
		v.SetFloat(math.Float64frombits(le(pattern("float64", 8, j))))
	}
}

func probeDialectFn(pkg string, d *dialect.Dialect) map[string]interface{} {
	out := map[string]interface{}{"Pkg": pkg, "Version": d.Version}
	drw := &dialect.ReadWriter{Dialect: d}
	if err := drw.Initialize(); err != nil {
		out["InitErr"] = err.Error()
	}
	var msgs []map[string]interface{}
	for _, m := range d.Messages {
		ty := reflect.TypeOf(m).Elem()
		pm := map[string]interface{}{"GoName": ty.Name(), "ID": m.GetID()}
		rw := &message.ReadWriter{Message: m}
		if err := rw.Initialize(); err != nil {
			pm["InitErr"] = err.Error()
			msgs = append(msgs, pm)
			continue
		}
		pm["CRC"] = int(rw.CRCExtra())
		pm["V1Len"] = len(rw.Write(m, false).Payload)
		var hot []string
		var dec []bool
		for i := 0; i < ty.NumField(); i++ {
			val := reflect.New(ty)
			f := val.Elem().Field(i)
			sf := ty.Field(i)
			switch {
			case f.Kind() == reflect.String:
				n := 1
				if l := sf.Tag.Get("mavlen"); l != "" { fmt.Sscan(l, &n) }
				b := make([]byte, n)
				for j := range b { b[j] = pattern("string", 1, j)[0] }
				f.SetString(string(b))
			case f.Kind() == reflect.Array:
				for j := 0; j < f.Len(); j++ { setElem(f.Index(j), sf.Tag, j) }
			default:
				setElem(f, sf.Tag, 0)
			}
			raw := rw.Write(val.Interface().(message.Message), true)
			hot = append(hot, hex.EncodeToString(raw.Payload))
			back, err := rw.Read(raw, true)
			dec = append(dec, err == nil && reflect.DeepEqual(back, val.Interface()))
		}
		pm["OneHot"] = hot
		pm["Decoded"] = dec
		msgs = append(msgs, pm)
	}
	out["Msgs"] = msgs
	return out
}

type enumFns struct {
	marshal func(uint64) (string, string, error)
	unmarshal func(string) (uint64, error)
	raw func(uint64) ([]byte, error) // MarshalText's result as returned, not copied
}

func probeEnum(fns enumFns, vals []uint64, rejects []string) ([]map[string]string, []string) {
	var out []map[string]string
	for _, v := range vals {
		e := map[string]string{"V": fmt.Sprint(v)}
		text, str, err := fns.marshal(v)
		e["Text"], e["Str"] = text, str
		if err != nil { e["MErr"] = err.Error() }
		back, uerr := fns.unmarshal(text)
		e["Back"] = fmt.Sprint(back)
		if uerr != nil { e["UErr"] = uerr.Error() }
		out = append(out, e)
	}
	// texts are values of their own: all of them are taken first, uncopied, and parsed afterwards
	raws := make([][]byte, len(vals))
	for i, v := range vals {
		if out[i]["MErr"] != "" || out[i]["UErr"] != "" { continue }
		raws[i], _ = fns.raw(v)
	}
	for i, v := range vals {
		if raws[i] == nil { continue }
		back, err := fns.unmarshal(string(raws[i]))
		if err != nil || back != v {
			out[i]["Held"] = fmt.Sprintf("text %q parses to %d (err %v)", raws[i], back, err)
		}
	}
	var accepted []string
	for _, r := range rejects {
		if _, err := fns.unmarshal(r); err == nil { accepted = append(accepted, r) }
	}
	return out, accepted
}
`

// enumProbeValues lists the values the probe renders for an enum of the model.
func enumProbeValues(entries []XEntry, bitmask bool) []uint64 {
	seen := map[uint64]bool{}
	var out []uint64
	add := func(v uint64) {
		if !seen[v] {
			seen[v] = true
			out = append(out, v)
		}
	}
	if bitmask {
		add(0)
		var flags []uint64
		for _, e := range entries {
			add(e.Value)
			if e.Value != 0 && e.Value&(e.Value-1) == 0 {
				flags = append(flags, e.Value)
			}
		}
		var all uint64
		for i, a := range flags {
			all |= a
			for _, b := range flags[i+1:] {
				add(a | b)
			}
		}
		add(all)
	} else {
		for _, e := range entries {
			add(e.Value)
			add(e.Value + 1)
			add(e.Value - 1)
		}
		add(0)
		add(1 << 63)
		add(1<<64 - 1)
		add(123456789012)
	}
	return out
}

func writeProbe(root string, batch []XDialect, pkgDirs []string) {
	var b bytes.Buffer
	b.WriteString("package main\n\nimport (\n\t\"encoding/hex\"\n\t\"encoding/json\"\n\t\"fmt\"\n\t\"math\"\n\t\"os\"\n\t\"reflect\"\n\n")
	b.WriteString("\t\"github.com/bluenviron/gomavlib/v3/pkg/dialect\"\n\t\"github.com/bluenviron/gomavlib/v3/pkg/message\"\n")
	for i, d := range batch {
		fmt.Fprintf(&b, "\tp%d \"scratch/%s/%s\"\n", i, pkgDirs[i], d.PkgName())
	}
	b.WriteString(")\n\nvar _ = hex.EncodeToString\nvar _ = math.Pi\n")
	b.WriteString(probeStatic)
	b.WriteString("\nfunc main() {\n\tvar out []map[string]interface{}\n")
	for i, d := range batch {
		fmt.Fprintf(&b, "\t{\n\t\tr := probeDialectFn(%q, p%d.Dialect)\n", d.PkgName(), i)
		names, entries, bitmask := d.MergedEnums()
		b.WriteString("\t\tconsts := map[string]string{}\n")
		for _, n := range names {
			for _, e := range entries[n] {
				fmt.Fprintf(&b, "\t\tconsts[%q] = fmt.Sprint(uint64(p%d.%s))\n", e.Name, i, e.Name)
			}
		}
		b.WriteString("\t\tr[\"Consts\"] = consts\n\t\tenums := map[string]interface{}{}\n\t\trejects := map[string][]string{}\n")
		for _, n := range names {
			vals := enumProbeValues(entries[n], bitmask[n])
		extra:
			for _, x := range d.ExtraProbe[n] {
				for _, v := range vals {
					if v == x {
						continue extra
					}
				}
				vals = append(vals, x)
			}
			var vs []string
			for _, v := range vals {
				vs = append(vs, fmt.Sprint(v))
			}
			first := entries[n][0].Name
			rej := []string{"", "NOPE_NOT_A_NAME", strings.ToLower(first), first + " |" + first, first + " | ", "1.5", "0x10"}
			var rs []string
			for _, r := range rej {
				rs = append(rs, fmt.Sprintf("%q", r))
			}
			fmt.Fprintf(&b, "\t\t{\n\t\t\tres, acc := probeEnum(enumFns{\n\t\t\t\tmarshal: func(v uint64) (string, string, error) { e := p%d.%s(v); t, err := e.MarshalText(); return string(t), e.String(), err },\n\t\t\t\traw: func(v uint64) ([]byte, error) { return p%d.%s(v).MarshalText() },\n", i, n, i, n)
			fmt.Fprintf(&b, "\t\t\t\tunmarshal: func(s string) (uint64, error) { var e p%d.%s; err := guarded(s, e.UnmarshalText); d := p%d.%s(0xFFFF0F); derr := d.UnmarshalText([]byte(s)); if err == nil && (derr != nil || d != e) { return uint64(d), fmt.Errorf(\"result depends on the previous value of the destination: %%d vs %%d\", uint64(e), uint64(d)) }; return uint64(e), err },\n\t\t\t}, []uint64{%s}, []string{%s})\n", i, n, i, n, strings.Join(vs, ","), strings.Join(rs, ","))
			fmt.Fprintf(&b, "\t\t\tenums[%q] = res\n\t\t\trejects[%q] = acc\n\t\t}\n", n, n)
		}
		b.WriteString("\t\tr[\"Enums\"] = enums\n\t\tr[\"Rejects\"] = rejects\n\t\tout = append(out, r)\n\t}\n")
	}
	b.WriteString("\tjson.NewEncoder(os.Stdout).Encode(out)\n}\n")
	must(os.MkdirAll(filepath.Join(root, "probe"), 0o755))
	must(os.WriteFile(filepath.Join(root, "probe", "main.go"), b.Bytes(), 0o644))
}

func goEnv() []string {
	env := os.Environ()
	return append(env, "GOFLAGS=-mod=mod", "GOPROXY=off", "GOSUMDB=off", "GOTOOLCHAIN=local")
}

// buildAndRun compiles the probe against the generated packages of a batch.
func buildAndRun(root string) ([]probeDialect, string, error) {
	return buildAndRunOverlay(root, "")
}

// buildAndRunOverlay: overlay, when set, is a go build overlay file (generated packages standing where the linked
// packages of included definitions are imported from, without touching the repository tree).
func buildAndRunOverlay(root, overlay string) ([]probeDialect, string, error) {
	bin := filepath.Join(root, "probe.bin")
	cmd := exec.Command("go", "build", "-o", bin, "./probe")
	if overlay != "" {
		cmd = exec.Command("go", "build", "-overlay", overlay, "-o", bin, "./probe")
	}
	cmd.Dir = root
	cmd.Env = goEnv()
	out, err := cmd.CombinedOutput()
	if err != nil {
		return nil, string(out), fmt.Errorf("generated code does not compile")
	}
	run := exec.Command(bin)
	var stdout, stderr bytes.Buffer
	run.Stdout, run.Stderr = &stdout, &stderr
	if err := run.Run(); err != nil {
		return nil, stderr.String(), fmt.Errorf("probe crashed: %v", err)
	}
	var res []probeDialect
	if err := json.Unmarshal(stdout.Bytes(), &res); err != nil {
		return nil, stdout.String(), fmt.Errorf("BROKEN: probe output: %v", err)
	}
	return res, "", nil
}

// compare checks one dialect's probe dump against the model.
// hasRareEnumField reports whether the message has an enum field of a type the run time may refuse.
func hasRareEnumField(m XMsg) bool {
	for _, f := range m.Fields {
		if f.Enum != "" && (f.Type == "int16_t" || f.Type == "int64_t") {
			return true
		}
	}
	return false
}

func compare(d XDialect, p probeDialect) error {
	anyRare := false
	for _, m := range d.AllMsgs() {
		anyRare = anyRare || hasRareEnumField(m)
	}
	if p.InitErr != "" && !anyRare {
		return fmt.Errorf("generated dialect does not initialize: %s", p.InitErr)
	}
	// version
	top := d.Files[0]
	if top.Version != "" {
		if fmt.Sprint(p.Version) != top.Version {
			return fmt.Errorf("dialect version %d, top-level <version> is %s", p.Version, top.Version)
		}
	} else {
		ok := false
		any := false
		for _, f := range d.Files[1:] {
			if f.Version != "" {
				any = true
				if fmt.Sprint(p.Version) == f.Version {
					ok = true
				}
			}
		}
		if any && !ok {
			return fmt.Errorf("dialect version %d is none of the included files' versions", p.Version)
		}
		if !any && p.Version != 0 {
			return fmt.Errorf("dialect version %d although no file declares one", p.Version)
		}
	}
	msgs := d.AllMsgs()
	if len(p.Msgs) != len(msgs) {
		return fmt.Errorf("generated dialect has %d messages, the definition %d", len(p.Msgs), len(msgs))
	}
	byName := map[string]probeMsg{}
	for _, pm := range p.Msgs {
		byName[pm.GoName] = pm
	}
	for _, m := range msgs {
		e := m.Expect()
		pm, ok := byName[e.GoName]
		if !ok {
			return fmt.Errorf("message %s: Go type %s not in the generated dialect", m.Name, e.GoName)
		}
		if pm.InitErr != "" && hasRareEnumField(m) {
			continue // reported as an error when the generated code initializes: nothing of it is encoded differently
		}
		if pm.InitErr != "" {
			return fmt.Errorf("message %s does not initialize: %s", m.Name, pm.InitErr)
		}
		if pm.ID != e.ID {
			return fmt.Errorf("message %s: id %d, XML says %d", m.Name, pm.ID, e.ID)
		}
		if pm.CRC != int(e.CRCExtra) {
			return fmt.Errorf("message %s: CRC_EXTRA %d, the spec assigns %d to the XML definition", m.Name, pm.CRC, e.CRCExtra)
		}
		if pm.V1Len != e.BaseSize {
			return fmt.Errorf("message %s: base payload size %d, spec %d", m.Name, pm.V1Len, e.BaseSize)
		}
		if len(pm.OneHot) != len(m.Fields) {
			return fmt.Errorf("message %s: %d struct fields, %d XML fields", m.Name, len(pm.OneHot), len(m.Fields))
		}
		for i := range m.Fields {
			want := hex.EncodeToString(e.OneHot(i))
			if pm.OneHot[i] != want {
				return fmt.Errorf("message %s field %d (%s %s ext=%v): encoding with only this field set is %s, the spec layout gives %s (field order / size / extension placement differs)",
					m.Name, i, m.Fields[i].XMLType(), m.Fields[i].Name, m.Fields[i].Ext, pm.OneHot[i], want)
			}
			if !pm.Decoded[i] {
				return fmt.Errorf("message %s field %d (%s): value does not survive encode/decode", m.Name, i, m.Fields[i].Name)
			}
		}
	}
	return compareEnums(d, p)
}

// compareEnums checks constants and text behaviour of every enum of a generated dialect (shared by C18 and C19).
func compareEnums(d XDialect, p probeDialect) error {
	names, entries, bitmask := d.MergedEnums()
	for _, n := range names {
		for _, e := range entries[n] {
			got, ok := p.Consts[e.Name]
			if !ok || got != fmt.Sprint(e.Value) {
				return fmt.Errorf("enum %s: constant %s = %s, XML value %q = %d", n, e.Name, got, e.Text, e.Value)
			}
		}
		if acc := p.Rejects[n]; len(acc) > 0 {
			return fmt.Errorf("enum %s: UnmarshalText accepted %q", n, acc)
		}
		byVal := map[uint64][]string{}
		for _, e := range entries[n] {
			byVal[e.Value] = append(byVal[e.Value], e.Name)
		}
		for _, pv := range p.Enums[n] {
			v, _ := new(big.Int).SetString(pv.V, 10)
			val := v.Uint64()
			if pv.MErr != "" {
				return fmt.Errorf("enum %s: MarshalText(%d) failed: %s", n, val, pv.MErr)
			}
			if pv.Str != pv.Text {
				return fmt.Errorf("enum %s: String()=%q, MarshalText=%q", n, pv.Str, pv.Text)
			}
			if pv.Held != "" {
				return fmt.Errorf("enum %s: the text of value %d, taken before the texts of the other probed values, changed afterwards: %s", n, val, pv.Held)
			}
			if pv.UErr != "" || pv.Back != pv.V {
				return fmt.Errorf("enum %s (bitmask=%v): value %d renders as %q which parses to %s (err %q)", n, bitmask[n], val, pv.Text, pv.Back, pv.UErr)
			}
			if !bitmask[n] {
				if names := byVal[val]; len(names) > 0 {
					if !containsStr(names, pv.Text) {
						return fmt.Errorf("enum %s: constant %v renders as %q", n, names, pv.Text)
					}
				} else {
					x, ok := new(big.Int).SetString(pv.Text, 10)
					if !ok || new(big.Int).Mod(x, new(big.Int).Lsh(big.NewInt(1), 64)).Uint64() != val {
						return fmt.Errorf("enum %s: unnamed value %d renders as %q", n, val, pv.Text)
					}
				}
			} else if val != 0 {
				// every rendered name must be a defined entry that the value contains completely, and the
				// names together must cover the value (entries naming several bits make more than one
				// rendering legitimate; a name whose bits are only partly set is never legitimate)
				parts := strings.Split(pv.Text, " | ")
				var covered uint64
				for _, p := range parts {
					found := false
					for ev, ns := range byVal {
						if containsStr(ns, p) {
							found = true
							if ev == 0 || val&ev != ev {
								return fmt.Errorf("enum %s: value %#x renders as %q, but %s (=%#x) is not contained in it", n, val, pv.Text, p, ev)
							}
							covered |= ev
						}
					}
					if !found {
						return fmt.Errorf("enum %s: value %#x renders as %q: %q is not an entry name", n, val, pv.Text, p)
					}
				}
				if covered != val {
					return fmt.Errorf("enum %s: value %#x renders as %q, which names only %#x", n, val, pv.Text, covered)
				}
			}
		}
	}
	return nil
}

func containsStr(xs []string, x string) bool {
	for _, y := range xs {
		if x == y {
			return true
		}
	}
	return false
}

func classify(d XDialect) []string {
	set := map[string]bool{}
	if len(d.Files) > 1 {
		set["include"] = true
	}
	if len(d.Files) > 2 {
		set["include-deep-or-diamond"] = true
	}
	for _, f := range d.Files {
		for _, e := range f.Enums {
			if goToolWords[e.Name[strings.LastIndex(e.Name, "_")+1:]] {
				set["enum-name-ending-in-a-word-the-go-tool-interprets"] = true
			}
		}
		for _, m := range f.Msgs {
			if goToolWords[m.Name[strings.LastIndex(m.Name, "_")+1:]] {
				set["message-name-ending-in-a-word-the-go-tool-interprets"] = true
			}
			hasExt, markupComment := false, false
			for _, fl := range m.Fields {
				if strings.Contains(fl.CommentBefore, "<field") || strings.Contains(fl.CommentBefore, "<extensions") {
					if !fl.Ext || !hasExt {
						markupComment = true // in front of a base field or of the marker itself
					}
				}
				hasExt = hasExt || fl.Ext
			}
			if hasExt && markupComment {
				set["comment-holding-markup-before-the-extensions-marker"] = true
			}
			for _, fl := range m.Fields {
				if fl.Enum != "" && (fl.Type == "int16_t" || fl.Type == "int64_t") {
					set["enum-field-of-a-rarely-supported-integer-type"] = true
				}
				if fl.ArrayLen >= 128 && !fl.Ext {
					set["array-of-128-or-more-elements"] = true
				}
				if fl.Ext {
					set["extension"] = true
				}
				if GoTypeName(fl.Name) != "" && !snakeInvertible(fl.Name) {
					set["mavname-field"] = true
				}
				if fl.Enum != "" {
					set["enum-field"] = true
				}
				if fl.Type == "char" && fl.ArrayLen == 0 {
					set["scalar-char"] = true
				}
				if fl.ArrayLen > 0 {
					set["array"] = true
				}
			}
		}
		for _, e := range f.Enums {
			if e.Bitmask {
				set["bitmask-enum"] = true
				for _, en := range e.Entries {
					if en.Value&(en.Value-1) != 0 {
						set["bitmask-enum-with-multi-bit-entry"] = true
					}
				}
			} else if len(e.Entries) >= 2 {
				all := true
				for _, en := range e.Entries {
					if en.Value == 0 || en.Value&(en.Value-1) != 0 {
						all = false
					}
				}
				if all {
					set["ordinary-enum-with-power-of-two-values"] = true
				}
			}
			for _, en := range e.Entries {
				if strings.HasPrefix(en.Text, "0x") || strings.HasPrefix(en.Text, "0b") || strings.Contains(en.Text, "**") {
					set["non-decimal-enum-value"] = true
				} else if len(en.Text) > 1 && en.Text[0] == '0' {
					set["leading-zero-decimal"] = true
				}
			}
		}
	}
	names, entries, _ := d.MergedEnums()
	for _, n := range names {
		cnt := 0
		for _, f := range d.Files {
			for _, e := range f.Enums {
				if e.Name == n {
					cnt++
				}
			}
		}
		if cnt > 1 {
			set["enum-extended-by-includer"] = true
			for _, f2 := range d.Files {
				for _, e2 := range f2.Enums {
					if len(e2.Entries) == 0 {
						set["enum-announced-without-entries-by-an-included-file"] = true
					}
				}
			}
		}
		_ = entries
	}
	var out []string
	for k := range set {
		out = append(out, k)
	}
	sort.Strings(out)
	return out
}

func snakeInvertible(name string) bool {
	g := GoTypeName(name)
	var b strings.Builder
	for i, r := range g {
		if r >= 'A' && r <= 'Z' {
			if i > 0 {
				b.WriteByte('_')
			}
			b.WriteRune(r + 32)
		} else {
			b.WriteRune(r)
		}
	}
	return b.String() == name
}

func TestC18Generator(t *testing.T) {
	rec := evid.New(t, "C18", "XML documents printed from a random dialect model (messages with ids up to 2^24-1, scalar/array/char[n]/scalar char/uint8_t_mavlink_version/enum-typed fields, extension marker at every position, non-snake-case field names, ordinary and bitmask enums with decimal/0x/0b/a**b values, include graphs with diamonds and enums extended by the includer, <version> present/absent) are converted by the real conversion.Convert, compiled with go build, and a probe linked against the generated packages dumps ids, CRC_EXTRA, sizes, per-field one-hot encodings, constants and enum text behaviour; all compared with expectations derived from the model; generating twice must give identical trees (the first conversion runs with the local time zone at UTC-12, the second at UTC+14 - another calendar day at any hour - and the command-line tool at UTC+14 as well); definitions with an unknown field type, a malformed enum value or message name must be refused; non-trivial = document with an extension block, an include, a mavname-requiring field or a non-decimal enum value; distinct by hash of the XML")
	rec.Require("extension", "include", "mavname-field", "non-decimal-enum-value", "leading-zero-decimal", "negative-refused", "bitmask-enum", "enum-field", "scalar-char", "enum-extended-by-includer", "cli-binary-compared", "ordinary-enum-with-power-of-two-values", "bitmask-enum-with-multi-bit-entry", "enum-field-of-a-rarely-supported-integer-type", "array-of-128-or-more-elements", "comment-holding-markup-before-the-extensions-marker", "enum-announced-without-entries-by-an-included-file", "neg-duplicate-message-id", "neg-message-too-big", "message-name-ending-in-a-word-the-go-tool-interprets", "enum-name-ending-in-a-word-the-go-tool-interprets")
	root := scratch(t)
	defer os.RemoveAll(root)
	// the command-line tool built from the same tree: its output must equal the in-process conversion
	cli := filepath.Join(root, "dialect-import.bin")
	{
		cmd := exec.Command("go", "build", "-o", cli, "github.com/bluenviron/gomavlib/v3/cmd/dialect-import")
		cmd.Dir = root
		cmd.Env = goEnv()
		if out, err := cmd.CombinedOutput(); err != nil {
			t.Fatalf("BROKEN: cannot build dialect-import: %v\n%s", err, out)
		}
	}
	evid.Check(t, rec, evid.N(50, 200), func(t *rapid.T) {
		caseCounter++
		caseDir := fmt.Sprintf("c%d", caseCounter)
		nb := rapid.IntRange(3, 7).Draw(t, "batch")
		var batch []XDialect
		var pkgDirs []string
		fail := func(d XDialect, format string, a ...interface{}) {
			msg := fmt.Sprintf(format, a...)
			var xml strings.Builder
			for _, f := range d.Files {
				fmt.Fprintf(&xml, "--- %s.xml ---\n%s", f.Name, f.XML())
			}
			evid.ReplayNote("C18", "TestC18Generator", msg+"\n"+xml.String())
			t.Fatalf("%s\n%s", msg, xml.String())
		}
		for i := 0; i < nb; i++ {
			d := drawDialectModel(t, i)
			negative := rapid.IntRange(0, 5).Draw(t, "negative") == 0
			if i == nb-1 {
				// every case ends with a definition of one of the two kinds that the generator may write out and
				// the generated package then has to refuse (classes that are required do not depend on luck)
				negative = true
				injectDefect(t, &d, "duplicate-message-id", "message-too-big")
			} else if negative {
				injectDefect(t, &d)
			}
			sub := filepath.Join(caseDir, fmt.Sprintf("g%d", i))
			pkgDir, err := convertIn(d, filepath.Join(root, sub), time.FixedZone("far-west", -12*3600))
			if err != nil && strings.HasPrefix(err.Error(), "PANIC") {
				fail(d, "generator panicked: %v", err)
			}
			var xmlAll []byte
			for _, f := range d.Files {
				xmlAll = append(xmlAll, f.XML()...)
			}
			if negative && (strings.HasPrefix(d.Negative, "duplicate-message-id") || strings.HasPrefix(d.Negative, "message-too-big")) && err == nil {
				// the generator can write both Go types; the dialect that lists them must then refuse to initialize
				batch = append(batch, d)
				pkgDirs = append(pkgDirs, sub)
				continue
			}
			if negative {
				if err == nil {
					// an Initialize error of the generated package would also count as "reported";
					// all three defect classes are detectable by the generator itself, so demand it there
					fail(d, "definition with defect %q was converted without error", d.Negative)
				}
				{
					cdir := filepath.Join(root, caseDir, fmt.Sprintf("clineg%d", i))
					must(os.MkdirAll(cdir, 0o755))
					for _, f := range d.Files {
						must(os.MkdirAll(filepath.Dir(filepath.Join(cdir, f.Name+".xml")), 0o755))
						must(os.WriteFile(filepath.Join(cdir, f.Name+".xml"), []byte(f.XML()), 0o644))
					}
					cmd := exec.Command(cli, d.Files[0].Name+".xml")
					cmd.Dir = cdir
					if _, cerr := cmd.CombinedOutput(); cerr == nil {
						fail(d, "dialect-import exited 0 on a definition with defect %q", d.Negative)
					}
					os.RemoveAll(cdir)
				}
				rec.Case(true, evid.Hash(xmlAll), "negative-refused", "neg-"+strings.SplitN(d.Negative, ":", 2)[0])
				if rec.WantSample("negative") {
					rec.Sample("negative", map[string]interface{}{"defect": d.Negative, "error": err.Error()})
				}
				continue
			}
			if err != nil {
				fail(d, "valid definition refused: %v", err)
			}
			// generate a second time elsewhere: identical trees
			// ... in a process whose local date differs from the first one's whatever the hour is (zones 26 h apart)
			pkgDir2, err2 := convertIn(d, filepath.Join(root, caseDir, fmt.Sprintf("again%d", i)), time.FixedZone("far-east", 14*3600))
			if err2 != nil {
				fail(d, "second generation failed: %v", err2)
			}
			t1, e1 := readTree(pkgDir)
			t2, e2 := readTree(pkgDir2)
			if e1 != nil || e2 != nil || len(t1) != len(t2) {
				fail(d, "generating twice gives different file sets (%d vs %d files, %v %v)", len(t1), len(t2), e1, e2)
			}
			for name, b1 := range t1 {
				if !bytes.Equal(b1, t2[name]) {
					fail(d, "generating twice (the second time with the local time zone 26 hours ahead of the first) gives different contents for %s", name)
				}
			}
			// a later revision of the definition (its last message withdrawn) converted in the place where the package of
			// the first revision already lies: either that is refused, or what lies there afterwards is the package of
			// the later revision - the same files a conversion in an empty place gives
			if len(d.Files[0].Msgs) >= 2 {
				d2 := d
				d2.Files = append([]XFile(nil), d.Files...)
				top := d2.Files[0]
				top.Msgs = append([]XMsg(nil), top.Msgs[:len(top.Msgs)-1]...)
				d2.Files[0] = top
				regen := filepath.Join(root, caseDir, fmt.Sprintf("again%d", i))
				if _, rerr := convertIn(d2, regen, nil); rerr == nil {
					fresh, ferr := convertIn(d2, filepath.Join(root, caseDir, fmt.Sprintf("fresh%d", i)), nil)
					if ferr != nil {
						fail(d2, "valid definition refused: %v", ferr)
					}
					t3, e3 := readTree(filepath.Join(regen, d2.PkgName()))
					t4, e4 := readTree(fresh)
					same := e3 == nil && e4 == nil && len(t3) == len(t4)
					for name, b := range t4 {
						same = same && bytes.Equal(b, t3[name])
					}
					if !same {
						fail(d2, "a later revision of the definition (message %s withdrawn) was converted where the package of the first revision lay, without an error: the directory now holds %d files, a conversion of the later revision in an empty place gives %d - files of the withdrawn definitions are still part of the package", d.Files[0].Msgs[len(d.Files[0].Msgs)-1].Name, len(t3), len(t4))
					}
					os.RemoveAll(filepath.Join(root, caseDir, fmt.Sprintf("fresh%d", i)))
				}
				rec.Class("later-revision-converted-over-an-existing-package", 1)
			}
			os.RemoveAll(filepath.Join(root, caseDir, fmt.Sprintf("again%d", i)))
			if i == 0 {
				// same definition through the real dialect-import binary
				cdir := filepath.Join(root, caseDir, "cli")
				must(os.MkdirAll(cdir, 0o755))
				for _, f := range d.Files {
					must(os.MkdirAll(filepath.Dir(filepath.Join(cdir, f.Name+".xml")), 0o755))
					must(os.WriteFile(filepath.Join(cdir, f.Name+".xml"), []byte(f.XML()), 0o644))
				}
				cmd := exec.Command(cli, d.Files[0].Name+".xml")
				cmd.Dir = cdir
				cmd.Env = append(os.Environ(), "TZ=Pacific/Kiritimati") // UTC+14; the in-process conversion ran at UTC-12
				if out, err := cmd.CombinedOutput(); err != nil {
					fail(d, "dialect-import refused a valid definition: %v\n%s", err, out)
				}
				t3, e3 := readTree(filepath.Join(cdir, d.PkgName()))
				if e3 != nil || len(t3) != len(t1) {
					fail(d, "dialect-import produced %d files, conversion.Convert %d (%v)", len(t3), len(t1), e3)
				}
				for name, b1 := range t1 {
					if !bytes.Equal(b1, t3[name]) {
						fail(d, "dialect-import and conversion.Convert disagree on %s", name)
					}
				}
				rec.Class("cli-binary-compared", 1)
				os.RemoveAll(cdir)
			}
			batch = append(batch, d)
			pkgDirs = append(pkgDirs, sub)
		}
		if len(batch) == 0 {
			return
		}
		writeProbe(root, batch, pkgDirs)
		res, out, err := buildAndRun(root)
		if err != nil {
			// attribute to one dialect of the batch by rebuilding each alone
			for i := range batch {
				writeProbe(root, batch[i:i+1], pkgDirs[i:i+1])
				if _, o, e := buildAndRun(root); e != nil {
					fail(batch[i], "%v:\n%s", e, o)
				}
			}
			t.Fatalf("BROKEN: batch fails but every member builds alone: %v\n%s", err, out)
		}
		for i, d := range batch {
			if strings.HasPrefix(d.Negative, "message-too-big") {
				if res[i].InitErr == "" {
					fail(d, "a message of more than 255 payload bytes (%s) cannot be expressed: the conversion reported nothing and the generated dialect initializes", strings.TrimPrefix(d.Negative, "message-too-big:"))
				}
				rec.Case(true, evid.HashS(d.Files[0].XML(), "big"), "negative-refused", "neg-message-too-big")
				continue
			}
			if strings.HasPrefix(d.Negative, "duplicate-message-id") {
				if res[i].InitErr == "" {
					fail(d, "two different messages of the include tree have id %s: the conversion reported nothing and the generated dialect initializes (%d messages listed) - one of them went missing without a word", strings.TrimPrefix(d.Negative, "duplicate-message-id:"), len(res[i].Msgs))
				}
				rec.Case(true, evid.HashS(d.Files[0].XML(), "dup"), "negative-refused", "neg-duplicate-message-id")
				continue
			}
			if err := compare(d, res[i]); err != nil {
				fail(d, "%v", err)
			}
			cls := classify(d)
			var xmlAll []byte
			for _, f := range d.Files {
				xmlAll = append(xmlAll, f.XML()...)
			}
			nt := false
			for _, c := range cls {
				if c == "extension" || c == "include" || c == "mavname-field" || c == "non-decimal-enum-value" {
					nt = true
				}
			}
			rec.Case(nt, evid.Hash(xmlAll), cls...)
			if nt && rec.WantSample("dialect") {
				rec.Sample("dialect", map[string]interface{}{"files": len(d.Files), "messages": len(d.AllMsgs()), "classes": cls, "top_xml": d.Files[0].XML()})
			}
		}
		os.RemoveAll(filepath.Join(root, caseDir))
	})
}
