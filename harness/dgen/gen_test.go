package dgen

import (
	"fmt"
	"strings"

	"pgregory.net/rapid"
)

var primTypes = []string{"double", "uint64_t", "int64_t", "float", "uint32_t", "int32_t", "uint16_t", "int16_t", "uint8_t", "int8_t", "char"}
var enumTypes = []string{"uint8_t", "int8_t", "uint16_t", "uint32_t", "int32_t", "uint64_t"}

// rareEnumTypes are integer types a definition may give to an enum field although the run time may not support them
// as enum wire types: such a definition is either reported as an error (by the generator or when the generated
// dialect initializes) or encoded at the declared width - never silently encoded some other way.
var rareEnumTypes = []string{"int16_t", "int64_t"}

func drawEnumFieldType(t *rapid.T) string {
	if rapid.IntRange(0, 9).Draw(t, "rare_enum_type") == 0 {
		return rapid.SampledFrom(rareEnumTypes).Draw(t, "etype_rare")
	}
	return rapid.SampledFrom(enumTypes).Draw(t, "etype")
}

var nameWords = []string{"alt", "lat", "lon", "vx", "time", "boot", "ms", "target", "system", "param", "seq", "mode", "type", "id",
	"count", "flags", "yaw", "q", "x", "y", "z", "data", "name", "status", "temp", "gps", "fix", "raw", "int", "cov",
	"message", "messages", "enum", "field", "dialect",
	// words that mean something to the go tool at the end of a file name (F13)
	"test", "arm", "linux", "windows", "js", "wasm", "amd64", "ios"}

// goToolWords are the name endings of F13.
var goToolWords = map[string]bool{"TEST": true, "ARM": true, "LINUX": true, "WINDOWS": true, "JS": true, "WASM": true, "AMD64": true, "IOS": true}

// odd field names: legal XML, not invertible snake case (need a mavname tag)
var oddFieldNames = []string{"param_1", "aB_c", "x__y", "UPPER", "tail_", "x1_y2", "Mixed_Case", "q_1_w", "Vx", "gps_2_raw"}

func drawWordName(t *rapid.T, upper bool, label string) string {
	n := rapid.IntRange(1, 3).Draw(t, label+"_n")
	var parts []string
	for i := 0; i < n; i++ {
		w := rapid.SampledFrom(nameWords).Draw(t, label+"_w")
		if rapid.IntRange(0, 4).Draw(t, label+"_d") == 0 {
			w += fmt.Sprint(rapid.IntRange(0, 9).Draw(t, label+"_digit"))
		}
		parts = append(parts, w)
	}
	s := strings.Join(parts, "_")
	if upper {
		s = strings.ToUpper(s)
	}
	return s
}

func drawDesc(t *rapid.T, label string) string {
	// \x01 stands for a literal ampersand in the printed XML: character and entity references, which the
	// parser turns into line breaks, comment delimiters, quotes and markup characters
	return rapid.SampledFrom([]string{"", "plain text", "two\n   lines  ", "with \"quotes\" and `ticks` and \\ and */ and //", "unicode é €", "a < b & c", "   ",
		"first line\x01#10;second line\x01#13;\x01#10;third", "closing \x01#42;\x01#47; opening \x01#x2F;\x01#x2A; \x01lt;tag\x01gt; \x01quot;q\x01quot; \x01apos;a\x01apos; \x01amp;amp;", "tab\x01#9;and\x01#10;"}).Draw(t, label)
}

func enumValueText(t *rapid.T, v uint64, label string) string {
	switch rapid.IntRange(0, 4).Draw(t, label+"_syntax") {
	case 4:
		// decimal with leading zeros (the schema allows \d{1,10}; it is still base 10)
		if v < 100000000 {
			return fmt.Sprintf("%0*d", rapid.IntRange(2, 10).Draw(t, label+"_width"), v)
		}
	case 1:
		return fmt.Sprintf("0x%x", v)
	case 2:
		return fmt.Sprintf("0b%b", v)
	case 3:
		// a**b when v is a perfect power we can name cheaply
		if v != 0 && v&(v-1) == 0 {
			k := 0
			for (uint64(1) << uint(k)) != v {
				k++
			}
			return fmt.Sprintf("2**%d", k)
		}
		if v == 1000 {
			return "10**3"
		}
	}
	return fmt.Sprint(v)
}

// namer hands out names that stay unique after the generator's Go-name conversion.
type namer struct{ used map[string]bool }

func (n *namer) take(s string) bool {
	k := strings.ToLower(strings.ReplaceAll(GoTypeName(s), "_", "")) + "|" + GoTypeName(s)
	k2 := GoTypeName(s)
	if n.used[k2] || n.used[strings.ToLower(s)] {
		return false
	}
	_ = k
	n.used[k2] = true
	n.used[strings.ToLower(s)] = true
	return true
}

var bitIndices = func() []int {
	x := make([]int, 64)
	for i := range x {
		x[i] = i
	}
	return x
}()

// forceFiles, when positive, is the number of files of the next models (the draw still takes place).
var forceFiles int

func drawDialectModel(t *rapid.T, idx int) XDialect {
	var d XDialect
	nfiles := rapid.SampledFrom([]int{1, 1, 2, 3, 4}).Draw(t, "nfiles")
	if forceFiles > 0 {
		nfiles = forceFiles
	}
	base := fmt.Sprintf("d%d%s", idx, rapid.SampledFrom([]string{"", "x", "_y", "ab_cd"}).Draw(t, "suffix"))
	msgNames := &namer{used: map[string]bool{}}
	entryNames := &namer{used: map[string]bool{}}
	enumNames := &namer{used: map[string]bool{}}
	usedIDs := map[uint32]bool{}
	type enumInfo struct {
		name    string
		bitmask bool
	}
	var enumsSoFar []enumInfo
	usedValues := map[string]map[uint64]bool{}
	for fi := 0; fi < nfiles; fi++ {
		f := XFile{Name: base}
		if fi > 0 {
			f.Name = fmt.Sprintf("%s_inc%d", base, fi)
			// included files are distinct by their address, not by a shortened name: a later file may share its
			// base name with an earlier one in another directory, or differ from it only by case or underscores
			if fi > 1 {
				prev := d.Files[fi-1].Name
				if k := strings.LastIndex(prev, "/"); k >= 0 {
					prev = prev[k+1:]
				}
				switch rapid.IntRange(0, 8).Draw(t, "file_name_style") {
				case 0:
					f.Name = fmt.Sprintf("vendor%d/%s", fi, prev)
				case 1:
					f.Name = strings.ReplaceAll(prev, "_", "") + strings.Repeat("_", fi)
				case 2:
					f.Name = strings.ToUpper(prev[:1]) + prev[1:] + strings.Repeat("_", fi)
				case 3:
					f.Name = fmt.Sprintf("sub%d/%s_inc%d", fi, base, fi)
				}
			}
		}
		if rapid.Bool().Draw(t, "has_version") {
			f.Version = fmt.Sprint(rapid.IntRange(0, 255).Draw(t, "version"))
		}
		f.HasDialect = rapid.Bool().Draw(t, "has_dialect_tag")
		d.Files = append(d.Files, f)
	}
	// include graph: file i may include any file with a larger index (acyclic; diamonds possible)
	for fi := 0; fi < nfiles; fi++ {
		for fj := fi + 1; fj < nfiles; fj++ {
			if fj == fi+1 && fi == 0 || rapid.IntRange(0, 2).Draw(t, "inc") == 0 {
				d.Files[fi].Includes = append(d.Files[fi].Includes, d.Files[fj].Name)
			}
		}
	}
	// make sure every file is reachable from the top
	reach := map[string]bool{}
	for _, f := range d.ProcessingOrder() {
		reach[f.Name] = true
	}
	for fi := 1; fi < nfiles; fi++ {
		if !reach[d.Files[fi].Name] {
			d.Files[0].Includes = append(d.Files[0].Includes, d.Files[fi].Name)
		}
	}
	// enums first (deepest files first so that including files can extend them)
	var placeholders []XEnum
	for fi := nfiles - 1; fi >= 0; fi-- {
		if fi == 0 {
			d.Files[0].Enums = append(d.Files[0].Enums, placeholders...)
		}
		ne := rapid.IntRange(0, 3).Draw(t, "nenums")
		for k := 0; k < ne; k++ {
			var e XEnum
			extend := len(enumsSoFar) > 0 && rapid.IntRange(0, 3).Draw(t, "extend") == 0
			if extend {
				ei := enumsSoFar[rapid.IntRange(0, len(enumsSoFar)-1).Draw(t, "ext_idx")]
				e.Name, e.Bitmask = ei.name, ei.bitmask
				dup := false
				for _, x := range d.Files[fi].Enums {
					if x.Name == e.Name {
						dup = true
					}
				}
				if dup {
					continue
				}
			} else {
				e.Name = "E" + fmt.Sprint(len(enumsSoFar)) + "_" + drawWordName(t, true, "enum")
				if !enumNames.take(e.Name) {
					continue
				}
				e.Bitmask = rapid.Bool().Draw(t, "bitmask")
				e.AttrStyle = rapid.IntRange(0, 3).Draw(t, "bitmask_attr_spelling")
				enumsSoFar = append(enumsSoFar, enumInfo{e.Name, e.Bitmask})
				usedValues[e.Name] = map[uint64]bool{}
				if fi > 0 && rapid.IntRange(0, 5).Draw(t, "declared_without_entries") == 0 {
					// an included file only announces the enum (name, kind, description); the entries come from the
					// top-level file, which repeats the name without attributes - the enum is what its first
					// declaration says it is
					e.Desc = drawDesc(t, "edesc")
					d.Files[fi].Enums = append(d.Files[fi].Enums, e)
					ext := XEnum{Name: e.Name}
					nph := rapid.IntRange(2, 5).Draw(t, "placeholder_entries")
					for j := 0; j < nph; j++ {
						v := uint64(j + 1)
						if e.Bitmask {
							v = uint64(1) << uint(2*j)
						}
						ext.Entries = append(ext.Entries, XEntry{Name: fmt.Sprintf("%s_LATER%d", e.Name, j), Value: v, Text: fmt.Sprint(v)})
						usedValues[e.Name][v] = true
					}
					placeholders = append(placeholders, ext)
					continue
				}
			}
			e.Desc = drawDesc(t, "edesc")
			nent := rapid.IntRange(1, 6).Draw(t, "nentries")
			var manyBits []int
			if e.Bitmask && rapid.IntRange(0, 9).Draw(t, "many_flags") == 0 {
				nent = rapid.IntRange(33, 60).Draw(t, "nentries_many") // the text of all flags together is well over a kilobyte
				manyBits = rapid.Permutation(bitIndices).Draw(t, "many_bits")
			}
			// ordinary enums that merely look like flag sets (all values powers of two) stay ordinary
			flagLike := !e.Bitmask && rapid.IntRange(0, 4).Draw(t, "flag_like") == 0
			// an ordinary enum whose values are exactly 0..n-1, listed in any order (definitions are not sorted, and
			// an includer that fills a hole of an included enum lists the filler last)
			var dense []int
			if !e.Bitmask && !flagLike && !extend && nent >= 2 && rapid.IntRange(0, 3).Draw(t, "dense_values") == 0 {
				idx := make([]int, nent)
				for k := range idx {
					idx[k] = k
				}
				dense = rapid.Permutation(idx).Draw(t, "dense_order")
			}
			for j := 0; j < nent; j++ {
				var v uint64
				if dense != nil {
					v = uint64(dense[j])
				} else if flagLike {
					v = uint64(1) << uint(rapid.IntRange(0, 10).Draw(t, "bit"))
				} else if e.Bitmask && manyBits != nil {
					v = uint64(1) << uint(manyBits[j%64]) // distinct bits: more than 32 flags, all of which can be set at once
				} else if e.Bitmask {
					v = uint64(1) << uint(rapid.OneOf(rapid.IntRange(0, 12), rapid.IntRange(0, 63)).Draw(t, "bit"))
				} else {
					v = rapid.OneOf(rapid.Uint64Range(0, 20), rapid.Uint64Range(0, 70000), rapid.SampledFrom([]uint64{1000, 1 << 31, 1 << 32, 1<<63 - 1, 1 << 63, 1<<64 - 1})).Draw(t, "value")
				}
				if usedValues[e.Name][v] {
					continue
				}
				name := e.Name + "_" + drawWordName(t, true, "entry")
				if !e.Bitmask && rapid.IntRange(0, 5).Draw(t, "entry_named_by_a_number") == 0 {
					// FRAME_RATE_15 = 1: the number in the name is not the value; the value 15 itself stays unnamed
					// (unless another entry has it) and is probed
					num := rapid.IntRange(2, 60).Draw(t, "number_in_the_name")
					name = fmt.Sprintf("%s_%d", e.Name, num)
					if d.ExtraProbe == nil {
						d.ExtraProbe = map[string][]uint64{}
					}
					d.ExtraProbe[e.Name] = append(d.ExtraProbe[e.Name], uint64(num))
				} else if rapid.IntRange(0, 5).Draw(t, "entry_name_with_small_letters") == 0 {
					// entry names are taken as they are written (real definitions have ..._1080p, ..._mV)
					name += rapid.SampledFrom([]string{"_1080p", "_v2", "_mV", "x", "_Hz"}).Draw(t, "small_suffix")
				}
				if !entryNames.take(name) {
					continue
				}
				usedValues[e.Name][v] = true
				e.Entries = append(e.Entries, XEntry{Name: name, Value: v, Text: enumValueText(t, v, "val"), Desc: drawDesc(t, "entdesc")})
			}
			// a bitmask enum may name "no flag at all" too (FENCE_TYPE_ALL = 0, ..._NONE = 0 in the official definitions)
			if e.Bitmask && !extend && len(e.Entries) >= 1 && rapid.IntRange(0, 2).Draw(t, "zero_entry") == 0 {
				name := e.Name + "_NONE"
				if !usedValues[e.Name][0] && entryNames.take(name) {
					usedValues[e.Name][0] = true
					e.Entries = append(e.Entries, XEntry{Name: name, Value: 0, Text: rapid.SampledFrom([]string{"0", "0x0", "0b0"}).Draw(t, "zero_text")})
				}
			}
			// a bitmask enum may also name a combination of its own flags (e.g. READ_WRITE = READ | WRITE)
			if e.Bitmask && !extend && len(e.Entries) >= 2 && rapid.IntRange(0, 3).Draw(t, "combo_entry") == 0 {
				v := e.Entries[0].Value | e.Entries[1].Value
				name := e.Name + "_COMBO"
				if !usedValues[e.Name][v] && entryNames.take(name) {
					usedValues[e.Name][v] = true
					e.Entries = append(e.Entries, XEntry{Name: name, Value: v, Text: fmt.Sprint(v)})
				}
			}
			if len(e.Entries) > 0 {
				d.Files[fi].Enums = append(d.Files[fi].Enums, e)
			}
		}
	}
	// the enums a file may reference: defined in itself or in files it (transitively) includes; the
	// generated package merges everything, so any enum of the dialect resolves.
	var allEnums []string
	for _, e := range enumsSoFar {
		found := false
		for _, f := range d.Files {
			for _, x := range f.Enums {
				if x.Name == e.name {
					found = true
				}
			}
		}
		if found {
			allEnums = append(allEnums, e.name)
		}
	}
	for fi := 0; fi < nfiles; fi++ {
		nm := rapid.IntRange(0, 4).Draw(t, "nmsgs")
		if fi == 0 && nm == 0 {
			nm = 1
		}
		for k := 0; k < nm; k++ {
			var m XMsg
			m.Name = drawWordName(t, true, "msg")
			if rapid.IntRange(0, 5).Draw(t, "oddmsg") == 0 {
				m.Name = rapid.SampledFrom([]string{"A_1B", "AB__C", "X_", "GPS2_RAW", "A", "Q9", "M_1_2"}).Draw(t, "oddmsgname")
			}
			if !msgNames.take(m.Name) {
				continue
			}
			for {
				m.ID = rapid.OneOf(rapid.Uint32Range(0, 300), rapid.Uint32Range(0, 1<<24-1), rapid.SampledFrom([]uint32{0, 255, 256, 65535, 65536, 1<<24 - 1})).Draw(t, "id")
				if !usedIDs[m.ID] {
					break
				}
			}
			usedIDs[m.ID] = true
			m.Desc = drawDesc(t, "mdesc")
			nf := rapid.OneOf(rapid.IntRange(0, 8), rapid.IntRange(0, 18)).Draw(t, "nfields")
			extFrom := rapid.IntRange(1, nf+3).Draw(t, "ext_from") // >= nf: no extensions
			fieldNames := &namer{used: map[string]bool{}}
			size := 0
			for j := 0; j < nf; j++ {
				var f XField
				f.Name = drawWordName(t, false, "field")
				if rapid.IntRange(0, 4).Draw(t, "oddfield") == 0 {
					f.Name = rapid.SampledFrom(oddFieldNames).Draw(t, "oddfieldname")
				}
				if !fieldNames.take(f.Name) {
					continue
				}
				switch k := rapid.IntRange(0, 11).Draw(t, "fkind"); {
				case k < 5:
					f.Type = rapid.SampledFrom(primTypes).Draw(t, "ftype")
				case k < 7:
					f.Type = rapid.SampledFrom(primTypes).Draw(t, "ftype")
					f.ArrayLen = rapid.OneOf(rapid.IntRange(1, 6), rapid.IntRange(1, 60), rapid.IntRange(120, 250)).Draw(t, "arr") // long ones only fit with one-byte elements
					if f.ArrayLen >= 120 && TypeSize(f.Type) > 1 {
						f.Type = rapid.SampledFrom([]string{"uint8_t", "int8_t", "char"}).Draw(t, "ftype_long")
					}
				case k < 8:
					f.Type = "uint8_t_mavlink_version"
				case k < 10 && len(allEnums) > 0:
					f.Type = drawEnumFieldType(t)
					f.Enum = rapid.SampledFrom(allEnums).Draw(t, "enumref")
				case len(allEnums) > 0:
					f.Type = drawEnumFieldType(t)
					f.Enum = rapid.SampledFrom(allEnums).Draw(t, "enumref")
					f.ArrayLen = rapid.IntRange(1, 5).Draw(t, "arr")
				default:
					f.Type = "uint16_t"
				}
				fs := TypeSize(f.Type)
				if f.ArrayLen > 0 {
					fs *= f.ArrayLen
				}
				if size+fs > 255 {
					continue
				}
				size += fs
				f.Ext = len(m.Fields) >= extFrom && len(m.Fields) > 0
				// extension flag must be monotone (extensions last) and need at least one base field
				if len(m.Fields) > 0 && m.Fields[len(m.Fields)-1].Ext {
					f.Ext = true
				}
				f.Desc = drawDesc(t, "fdesc")
				if rapid.IntRange(0, 5).Draw(t, "comment_before_field") == 0 {
					f.CommentBefore = rapid.SampledFrom([]string{" plain words ", ` <field type="uint8_t" name="old_one">no longer sent</field> `, " <extensions/> ",
						` TODO <field type="uint64_t" name="t2">later</field> <field type="char[4]" name="t3"/> `, " a > b, c < d "}).Draw(t, "comment")
				}
				// presentation attributes of the schema: they say how a ground station shows the field and
				// never what the field or the enum it refers to is
				f.Attrs = rapid.SampledFrom([]string{"", "", "", ` display="bitmask"`, ` units="m/s"`, ` print_format="0x%04x"`, ` units="rad" invalid="NaN"`, ` instance="true"`, ` display="bitmask" print_format="0x%02x"`}).Draw(t, "fattrs")
				m.Fields = append(m.Fields, f)
			}
			d.Files[fi].Msgs = append(d.Files[fi].Msgs, m)
		}
	}
	return d
}

// injectDefect turns a valid model into one the generator cannot express.
func injectDefect(t *rapid.T, d *XDialect, kinds ...string) {
	if len(kinds) == 0 {
		kinds = []string{"unknown-field-type", "bad-enum-value", "bad-message-name", "duplicate-message-id", "message-too-big"}
	}
	kind := rapid.SampledFrom(kinds).Draw(t, "defect")
	if kind == "duplicate-message-id" && len(d.AllMsgs()) < 2 {
		kind = "bad-message-name"
	}
	switch kind {
	case "message-too-big":
		// a payload of more than 255 bytes does not fit a frame: one array that is too long by itself (its byte size
		// may be a multiple of 256, or just above one), or fields that are too much together
		ms := d.Files[0].Msgs
		m := &d.Files[0].Msgs[rapid.IntRange(0, len(ms)-1).Draw(t, "too_big_message")]
		big := rapid.SampledFrom([]XField{
			{Name: "too_long", Type: "uint16_t", ArrayLen: 200}, {Name: "too_long", Type: "uint32_t", ArrayLen: 64},
			{Name: "too_long", Type: "uint64_t", ArrayLen: 32}, {Name: "too_long", Type: "double", ArrayLen: 255},
			{Name: "too_long", Type: "uint16_t", ArrayLen: 128}, {Name: "too_long", Type: "float", ArrayLen: 65},
			{Name: "too_long", Type: "int16_t", ArrayLen: 129}, {Name: "too_long", Type: "uint8_t", ArrayLen: 255},
		}).Draw(t, "too_big_field")
		if big.Type == "uint8_t" {
			// 255 bytes alone fit; together with one more byte they do not
			m.Fields = append([]XField{{Name: "one_more", Type: "uint8_t"}}, m.Fields...)
		}
		m.Fields = append([]XField{big}, m.Fields...)
		d.Negative = fmt.Sprintf("%s:%s[%d] in %s", kind, big.Type, big.ArrayLen, m.Name)
		return
	case "duplicate-message-id":
		// two different messages of the include tree under one id: a dialect cannot hold both
		type ref struct{ fi, mi int }
		var all []ref
		for fi := range d.Files {
			for mi := range d.Files[fi].Msgs {
				all = append(all, ref{fi, mi})
			}
		}
		a := rapid.IntRange(0, len(all)-2).Draw(t, "dup_first")
		b := rapid.IntRange(a+1, len(all)-1).Draw(t, "dup_second")
		d.Files[all[b].fi].Msgs[all[b].mi].ID = d.Files[all[a].fi].Msgs[all[a].mi].ID
		d.Negative = fmt.Sprintf("%s:%d", kind, d.Files[all[a].fi].Msgs[all[a].mi].ID)
		return
	case "unknown-field-type":
		for fi := range d.Files {
			for mi := range d.Files[fi].Msgs {
				m := &d.Files[fi].Msgs[mi]
				if len(m.Fields) > 0 {
					j := rapid.IntRange(0, len(m.Fields)-1).Draw(t, "field")
					m.Fields[j].Type = rapid.SampledFrom([]string{"uint128_t", "bool", "int", "float32", "uint8", "string", ""}).Draw(t, "badtype")
					m.Fields[j].Enum = ""
					d.Negative = kind + ":" + m.Fields[j].Type
					return
				}
			}
		}
		m := &d.Files[0].Msgs[0]
		m.Fields = append(m.Fields, XField{Name: "bad", Type: "bool"})
		d.Negative = kind + ":bool"
	case "bad-enum-value":
		for fi := range d.Files {
			for ei := range d.Files[fi].Enums {
				e := &d.Files[fi].Enums[ei]
				if len(e.Entries) == 0 {
					continue
				}
				j := rapid.IntRange(0, len(e.Entries)-1).Draw(t, "entry")
				e.Entries[j].Text = rapid.SampledFrom([]string{"-1", "", "abc", "1.5", "0xZZ", "0b12", "2**x", "1e3", " 5", "18446744073709551616"}).Draw(t, "badvalue")
				d.Negative = kind + ":" + e.Entries[j].Text
				return
			}
		}
		d.Files[0].Enums = append(d.Files[0].Enums, XEnum{Name: "E_BAD", Entries: []XEntry{{Name: "E_BAD_X", Text: "-1"}}})
		d.Negative = kind + ":-1"
	case "bad-message-name":
		m := &d.Files[0].Msgs[0]
		m.Name = rapid.SampledFrom([]string{"lower_case", "Has Space", "DASH-ED", "", "Mixed_Case", "DOT.TED"}).Draw(t, "badname")
		d.Negative = kind + ":" + m.Name
	}
}
