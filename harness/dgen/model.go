// Package dgen checks the dialect generator (C18, and C19 on generated enums): random dialect
// models are printed as XML, converted by the real generator, compiled, and a probe linked against
// the generated packages reports what they do; expectations come from the model, never from the XML text.
package dgen

import (
	"fmt"
	"sort"
	"strings"

	"verifharness/ref"
)

// XField is a message field of the model.
type XField struct {
	Name     string
	Type     string // XML base type: uint8_t ... char, uint8_t_mavlink_version
	ArrayLen int    // 0 scalar
	Enum     string // referenced enum name, "" none
	Ext      bool
	Desc     string
	Attrs    string // further attributes, printed verbatim (display, units, print_format, ...)
	// CommentBefore is the text of an XML comment printed in front of the field (and in front of the extensions
	// marker when this is the first extension field): comments are not content, whatever they look like
	CommentBefore string
}

// XMLType renders the type attribute.
func (f XField) XMLType() string {
	if f.ArrayLen > 0 {
		return fmt.Sprintf("%s[%d]", f.Type, f.ArrayLen)
	}
	return f.Type
}

// XMsg is a message of the model.
type XMsg struct {
	ID     uint32
	Name   string
	Desc   string
	Fields []XField
}

// XEntry is an enum entry; Text is the value attribute as printed (decimal, 0x, 0b, a**b).
type XEntry struct {
	Name  string
	Value uint64
	Text  string
	Desc  string
}

// XEnum is an enum (or the part of an enum) defined by one file.
type XEnum struct {
	AttrStyle int // how the bitmask attribute is spelled (0..3), see XML()
	Name      string
	Bitmask   bool
	Desc      string
	Entries   []XEntry
}

// XFile is one XML definition file.
type XFile struct {
	Name       string // file name without .xml
	Version    string // "" = absent
	HasDialect bool
	Includes   []string
	Enums      []XEnum
	Msgs       []XMsg
}

// XDialect is the whole model: Files[0] is the top-level file.
type XDialect struct {
	Files []XFile
	// Negative, when non-empty, names the single defect that makes the definition inexpressible.
	Negative string
	// ExtraProbe lists, per enum, further values the probe renders and parses back (see SiblingOf).
	ExtraProbe map[string][]uint64
}

// SiblingOf builds a second top-level definition that lives in the same directory as d and includes the same
// files as d's top-level file, but defines nothing itself. What d's top-level file adds to the enums of the
// included files belongs to d alone: in the sibling those values are unnamed, and they are probed.
func SiblingOf(d XDialect) (XDialect, bool) {
	if len(d.Files) < 2 || d.Negative != "" {
		return XDialect{}, false
	}
	top := XFile{Name: d.Files[0].Name + "sib", Version: d.Files[0].Version, Includes: append([]string(nil), d.Files[0].Includes...)}
	s := XDialect{Files: append([]XFile{top}, d.Files[1:]...), ExtraProbe: map[string][]uint64{}}
	names, entries, bitmask := s.MergedEnums()
	for _, n := range names {
		if len(entries[n]) == 0 {
			return XDialect{}, false // an enum the included files only announce: d's top-level file supplies its entries
		}
	}
	for _, m := range s.AllMsgs() {
		for _, f := range m.Fields {
			if _, ok := entries[f.Enum]; f.Enum != "" && !ok {
				return XDialect{}, false // the included files are not self-contained: they use an enum only d defines
			}
		}
	}
	for _, e := range d.Files[0].Enums {
		base, ok := entries[e.Name]
		if !ok || bitmask[e.Name] {
			continue
		}
		named := map[uint64]bool{}
		for _, b := range base {
			named[b.Value] = true
		}
		for _, x := range e.Entries {
			if !named[x.Value] {
				s.ExtraProbe[e.Name] = append(s.ExtraProbe[e.Name], x.Value)
			}
		}
	}
	return s, true
}

func esc(s string) string {
	s = strings.ReplaceAll(s, "&", "&amp;")
	s = strings.ReplaceAll(s, "<", "&lt;")
	s = strings.ReplaceAll(s, "\x01", "&") // character / entity references, see drawDesc
	return s
}

// XML prints a file.
func (f XFile) XML() string {
	var b strings.Builder
	b.WriteString("<?xml version=\"1.0\"?>\n<mavlink>\n")
	for _, inc := range f.Includes {
		fmt.Fprintf(&b, "  <include>%s.xml</include>\n", inc)
	}
	if f.Version != "" {
		fmt.Fprintf(&b, "  <version>%s</version>\n", f.Version)
	}
	if f.HasDialect {
		b.WriteString("  <dialect>2</dialect>\n")
	}
	b.WriteString("  <enums>\n")
	for _, e := range f.Enums {
		// the attribute is an xs:boolean: true/1 and false/0 (or absent) are its legal spellings
		bm := ""
		switch {
		case e.Bitmask && e.AttrStyle%2 == 1:
			bm = ` bitmask="1"`
		case e.Bitmask:
			bm = ` bitmask="true"`
		case e.AttrStyle == 1:
			bm = ` bitmask="false"`
		case e.AttrStyle == 2:
			bm = ` bitmask="0"`
		}
		fmt.Fprintf(&b, "    <enum name=\"%s\"%s>\n", e.Name, bm)
		if e.Desc != "" {
			fmt.Fprintf(&b, "      <description>%s</description>\n", esc(e.Desc))
		}
		for _, en := range e.Entries {
			fmt.Fprintf(&b, "      <entry value=\"%s\" name=\"%s\">\n", en.Text, en.Name)
			if en.Desc != "" {
				fmt.Fprintf(&b, "        <description>%s</description>\n", esc(en.Desc))
			}
			// what else the schema allows inside an entry (it says something about the entry, it does not unsay it)
			switch len(en.Name) % 4 {
			case 0:
				b.WriteString("        <wip/>\n")
			case 1:
				b.WriteString("        <deprecated since=\"2021-03\" replaced_by=\"\">no longer recommended</deprecated>\n")
			case 2:
				b.WriteString("        <param index=\"1\" label=\"Rate\" units=\"Hz\">first parameter</param>\n        <param index=\"2\">second parameter</param>\n")
			}
			b.WriteString("      </entry>\n")
		}
		b.WriteString("    </enum>\n")
	}
	b.WriteString("  </enums>\n  <messages>\n")
	for _, m := range f.Msgs {
		fmt.Fprintf(&b, "    <message id=\"%d\" name=\"%s\">\n", m.ID, m.Name)
		if m.Desc != "" {
			fmt.Fprintf(&b, "      <description>%s</description>\n", esc(m.Desc))
		}
		inExt := false
		for _, fl := range m.Fields {
			if fl.CommentBefore != "" {
				fmt.Fprintf(&b, "      <!--%s-->\n", fl.CommentBefore)
			}
			if fl.Ext && !inExt {
				b.WriteString("      <extensions/>\n")
				inExt = true
			}
			en := ""
			if fl.Enum != "" {
				en = fmt.Sprintf(" enum=\"%s\"", fl.Enum)
			}
			fmt.Fprintf(&b, "      <field type=\"%s\" name=\"%s\"%s%s>%s</field>\n", fl.XMLType(), fl.Name, en, fl.Attrs, esc(fl.Desc))
		}
		b.WriteString("    </message>\n")
	}
	b.WriteString("  </messages>\n</mavlink>\n")
	return b.String()
}

// TypeSize returns the primitive size of an XML base type (0 = unknown).
func TypeSize(t string) int {
	switch t {
	case "double", "uint64_t", "int64_t":
		return 8
	case "float", "uint32_t", "int32_t":
		return 4
	case "uint16_t", "int16_t":
		return 2
	case "uint8_t", "int8_t", "char", "uint8_t_mavlink_version":
		return 1
	}
	return 0
}

// GoTypeName is the Go identifier the generator is documented to produce for a message/field name:
// lower-cased, each "_x" turned into "X", first letter upper-cased.
func GoTypeName(def string) string {
	s := strings.ToLower(def)
	var b strings.Builder
	for i := 0; i < len(s); i++ {
		if s[i] == '_' && i+1 < len(s) && s[i+1] >= 'a' && s[i+1] <= 'z' {
			b.WriteByte(s[i+1] - 32)
			i++
			continue
		}
		b.WriteByte(s[i])
	}
	out := b.String()
	if out == "" {
		return out
	}
	return strings.ToUpper(out[:1]) + out[1:]
}

// ExpMsg is what the spec assigns to a message definition.
type ExpMsg struct {
	GoName   string
	ID       uint32
	BaseSize int
	ExtSize  int
	CRCExtra byte
	// Offsets[i] is the payload offset of the i-th field in XML (declaration) order.
	Offsets []int
	Fields  []XField
}

// Expect derives ids, wire order, sizes and CRC_EXTRA from the model.
func (m XMsg) Expect() ExpMsg {
	e := ExpMsg{GoName: "Message" + GoTypeName(m.Name), ID: m.ID, Fields: m.Fields, Offsets: make([]int, len(m.Fields))}
	type idx struct {
		i int
		f XField
	}
	var base, ext []idx
	for i, f := range m.Fields {
		if f.Ext {
			ext = append(ext, idx{i, f})
		} else {
			base = append(base, idx{i, f})
		}
	}
	sort.SliceStable(base, func(a, b int) bool { return TypeSize(base[a].f.Type) > TypeSize(base[b].f.Type) })
	var rf []ref.Field
	off := 0
	for _, x := range append(append([]idx{}, base...), ext...) {
		size := TypeSize(x.f.Type)
		if x.f.ArrayLen > 0 {
			size *= x.f.ArrayLen
		}
		e.Offsets[x.i] = off
		off += size
		if !x.f.Ext {
			e.BaseSize = off
			ct := x.f.Type
			if ct == "uint8_t_mavlink_version" {
				ct = "uint8_t"
			}
			rf = append(rf, ref.Field{Name: x.f.Name, CType: ct, ElemSize: TypeSize(x.f.Type), ArrayLen: x.f.ArrayLen})
		}
	}
	e.ExtSize = off
	e.CRCExtra = ref.CRCExtraOf(m.Name, rf)
	return e
}

// Pattern returns the recognisable bytes the probe stores into element j of a field.
func Pattern(f XField, j int) []byte {
	size := TypeSize(f.Type)
	b := make([]byte, size)
	for k := range b {
		b[k] = byte(0x11*(k+1)) ^ byte(j<<4) | 1
	}
	if f.Type == "float" {
		b[3] = 0x44 // keep it a normal number
	}
	if f.Type == "double" {
		b[7] = 0x44
	}
	if f.Type == "char" {
		b[0] = byte('A' + j%26)
	}
	return b
}

// OneHot is the expected v2 payload when only field i (declaration order) holds its pattern.
func (e ExpMsg) OneHot(i int) []byte {
	out := make([]byte, e.ExtSize)
	f := e.Fields[i]
	n := f.ArrayLen
	if n == 0 {
		n = 1
	}
	size := TypeSize(f.Type)
	for j := 0; j < n; j++ {
		copy(out[e.Offsets[i]+j*size:], Pattern(f, j))
	}
	return ref.Truncate(out)
}

// MergedEnums returns enum name -> entries in the order the generator must see them
// (files in include-processing order, entries appended), plus bitmask-ness of the first definition.
func (d XDialect) MergedEnums() (names []string, entries map[string][]XEntry, bitmask map[string]bool) {
	entries = map[string][]XEntry{}
	bitmask = map[string]bool{}
	for _, f := range d.ProcessingOrder() {
		for _, e := range f.Enums {
			if _, ok := entries[e.Name]; !ok {
				names = append(names, e.Name)
				bitmask[e.Name] = e.Bitmask
			}
			entries[e.Name] = append(entries[e.Name], e.Entries...)
		}
	}
	return
}

// ProcessingOrder lists the files depth-first, includes before the including file, each once.
func (d XDialect) ProcessingOrder() []XFile {
	byName := map[string]XFile{}
	for _, f := range d.Files {
		byName[f.Name] = f
	}
	seen := map[string]bool{}
	var out []XFile
	var walk func(n string)
	walk = func(n string) {
		if seen[n] {
			return
		}
		seen[n] = true
		f := byName[n]
		for _, inc := range f.Includes {
			walk(inc)
		}
		out = append(out, f)
	}
	walk(d.Files[0].Name)
	return out
}

// AllMsgs lists every message of the dialect (top-level and included files).
func (d XDialect) AllMsgs() []XMsg {
	var out []XMsg
	for _, f := range d.ProcessingOrder() {
		out = append(out, f.Msgs...)
	}
	return out
}

// PkgName is the Go package name derived from the top-level file name.
func (d XDialect) PkgName() string {
	return strings.ToLower(strings.ReplaceAll(d.Files[0].Name, "_", ""))
}
