package dgen

import (
	"bytes"
	"fmt"
	"net"
	"net/http"
	"os"
	"path"
	"path/filepath"
	"strings"
	"testing"

	"github.com/bluenviron/gomavlib/v3/pkg/conversion"
	"pgregory.net/rapid"

	"verifharness/evid"
)

// TestC18RemoteDefinitions: a definition may be given as a URL; what it includes is then found next to the file that
// says so. A three-file chain from the random model (top -> vendor/<x>_ext -> vendor/<x>_types, the last two side by
// side in a directory of their own) is served by a web server on the loopback interface and converted from its URL;
// the same three files, written to disk with the include paths a local conversion wants, are converted from disk. Both
// conversions are of the same definitions, so they generate the same files. A file called <x>_types.xml with other
// content lies beside the top file on the server: nobody includes that one.
func TestC18RemoteDefinitions(t *testing.T) {
	rec := evid.New(t, "C18", "three-file include chains from the random dialect model with the two included files in a directory of their own, converted from an http URL on the loopback interface (includes relative to the including file) and from disk: the generated packages are byte-identical, and the server is asked for exactly the three files of the chain; a decoy with the name of the innermost file and other content lies beside the top file; non-trivial = always; distinct by hash of the XML")
	rec.Require("remote-chain-with-nested-include-in-another-directory")
	root := scratch(t)
	defer os.RemoveAll(root)
	evid.Check(t, rec, evid.N(12, 60), func(t *rapid.T) {
		caseCounter++
		caseDir := filepath.Join(root, fmt.Sprintf("r%d", caseCounter))
		defer os.RemoveAll(caseDir)
		forceFiles = 3
		d := drawDialectModel(t, 0)
		forceFiles = 0
		top := d.Files[0].Name
		if strings.Contains(top, "/") {
			t.Skip("top file in a directory")
		}
		ext, types := "vendor/"+top+"_ext", "vendor/"+top+"_types"
		d.Files[1].Name, d.Files[2].Name = ext, types
		d.Files[0].Includes, d.Files[1].Includes, d.Files[2].Includes = []string{ext}, []string{types}, nil
		var xmlAll []byte
		for _, f := range d.Files {
			xmlAll = append(xmlAll, f.XML()...)
		}
		fail := func(format string, a ...interface{}) {
			msg := fmt.Sprintf(format, a...)
			var xml strings.Builder
			for _, f := range d.Files {
				fmt.Fprintf(&xml, "--- %s.xml ---\n%s", f.Name, f.XML())
			}
			evid.ReplayNote("C18", "TestC18RemoteDefinitions", msg+"\n"+xml.String())
			t.Fatalf("%s\n%s", msg, xml.String())
		}
		localPkg, err := convert(d, filepath.Join(caseDir, "local"))
		if err != nil {
			fail("valid definition refused (from disk): %v", err)
		}
		// the same files as a web server has them: an include names a neighbour of the including file
		remoteExt := d.Files[1]
		remoteExt.Includes = []string{top + "_types"}
		decoy := XFile{Name: top + "_types", Msgs: []XMsg{{ID: 7, Name: "DECOY_ONLY", Fields: []XField{{Name: "a", Type: "uint8_t"}}}}}
		files := map[string]string{
			"/defs/" + top + ".xml":       d.Files[0].XML(),
			"/defs/" + ext + ".xml":       remoteExt.XML(),
			"/defs/" + types + ".xml":     d.Files[2].XML(),
			"/defs/" + top + "_types.xml": decoy.XML(),
		}
		var asked []string
		ln, lerr := net.Listen("tcp4", "127.0.0.1:0")
		if lerr != nil {
			t.Fatalf("BROKEN: %v", lerr)
		}
		srv := &http.Server{Handler: http.HandlerFunc(func(w http.ResponseWriter, r *http.Request) {
			p := path.Clean(r.URL.Path)
			asked = append(asked, p)
			if body, ok := files[p]; ok {
				w.Write([]byte(body)) //nolint:errcheck
				return
			}
			http.NotFound(w, r)
		})}
		go srv.Serve(ln) //nolint:errcheck
		defer srv.Close()
		remoteDir := filepath.Join(caseDir, "remote")
		must(os.MkdirAll(remoteDir, 0o755))
		chdirMu.Lock()
		old, _ := os.Getwd()
		must(os.Chdir(remoteDir))
		devnull, _ := os.OpenFile(os.DevNull, os.O_WRONLY, 0)
		stderr := os.Stderr
		os.Stderr = devnull
		cerr := func() (err error) {
			defer func() {
				if r := recover(); r != nil {
					err = fmt.Errorf("PANIC in Convert: %v", r)
				}
			}()
			return conversion.Convert("http://"+ln.Addr().String()+"/defs/"+top+".xml", false)
		}()
		os.Stderr = stderr
		devnull.Close()
		os.Chdir(old) //nolint:errcheck
		chdirMu.Unlock()
		if cerr != nil {
			fail("valid definition refused when converted from its URL (the server was asked for %v): %v", asked, cerr)
		}
		t1, e1 := readTree(localPkg)
		t2, e2 := readTree(filepath.Join(remoteDir, d.PkgName()))
		if e1 != nil || e2 != nil || len(t1) != len(t2) {
			fail("converted from disk: %d generated files; converted from the URL: %d (%v %v); the server was asked for %v", len(t1), len(t2), e1, e2, asked)
		}
		for name, b1 := range t1 {
			if !bytes.Equal(b1, t2[name]) {
				fail("generated file %s differs between the conversion from disk and the conversion from the URL of the same definitions (the server was asked for %v: an include is found next to the file that contains it)\n--- from disk ---\n%s\n--- from the URL ---\n%s", name, asked, b1, t2[name])
			}
		}
		for _, p := range asked {
			if p == "/defs/"+top+"_types.xml" {
				fail("the server was asked for %s, which no definition of the chain includes (asked: %v)", p, asked)
			}
		}
		rec.Case(true, evid.Hash(xmlAll), "remote-chain-with-nested-include-in-another-directory")
		if rec.WantSample("remote") {
			rec.Sample("remote", map[string]interface{}{"top": top, "asked": asked})
		}
	})
}
