module verifharness

go 1.23

toolchain go1.23.5

require (
	bou.ke/monkey v1.0.2
	github.com/bluenviron/gomavlib/v3 v3.0.0
	pgregory.net/rapid v1.3.0
)

require (
	github.com/creack/goselect v0.1.2 // indirect
	github.com/pion/logging v0.2.2 // indirect
	github.com/pion/transport/v2 v2.2.10 // indirect
	go.bug.st/serial v1.6.3 // indirect
	golang.org/x/net v0.33.0 // indirect
	golang.org/x/sys v0.28.0 // indirect
)

replace github.com/bluenviron/gomavlib/v3 => /repo
