module verifharness

go 1.23

toolchain go1.23.5

require (
	github.com/bluenviron/gomavlib/v3 v3.0.0
	pgregory.net/rapid v1.3.0
)

replace github.com/bluenviron/gomavlib/v3 => /repo
