// Package findings holds stand-alone reproducers of recorded findings; they are not part of any check.
package findings

import (
	"fmt"
	"net"
	"os"
	"testing"
	"time"

	gomavlib "github.com/bluenviron/gomavlib/v3"
)

// TestUDPServerCloseWithNewPeer reproduces the known finding of C12: closing a node with a UDP
// server endpoint while the first datagram of a new peer is pending acceptance crashes the process
// inside github.com/pion/transport/v2/udp (listener.Accept does connWG.Add(1) concurrently with the
// connWG.Done()/Wait() of listener.Close): "sync: WaitGroup is reused before previous Wait has
// returned" or "sync: negative WaitGroup counter".
// Run with VERIF_REPRO=1; it crashes the test binary when the race is hit.
func TestUDPServerCloseWithNewPeer(t *testing.T) {
	if os.Getenv("VERIF_REPRO") != "1" {
		t.Skip("reproducer of a recorded finding; set VERIF_REPRO=1")
	}
	for i := 0; i < 20000; i++ {
		port := 30000 + i%2000
		addr := fmt.Sprintf("127.0.0.1:%d", port)
		n := &gomavlib.Node{Endpoints: []gomavlib.EndpointConf{gomavlib.EndpointUDPServer{Address: addr}},
			OutVersion: gomavlib.V2, OutSystemID: 1, HeartbeatDisable: true}
		if err := n.Initialize(); err != nil {
			continue
		}
		go func() {
			for range n.Events() {
			}
		}()
		c, err := net.Dial("udp4", addr)
		if err == nil {
			c.Write([]byte{1})
			if i%2 == 0 {
				time.Sleep(time.Duration(i%50) * time.Microsecond)
			}
		}
		n.Close()
		if c != nil {
			c.Close()
		}
	}
}
