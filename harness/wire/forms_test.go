package wire

import (
	"bytes"
	"fmt"
	"io"
	"math"
	"reflect"
	"testing"

	"github.com/bluenviron/gomavlib/v3/pkg/dialect"
	"github.com/bluenviron/gomavlib/v3/pkg/frame"
	"github.com/bluenviron/gomavlib/v3/pkg/message"
	"pgregory.net/rapid"

	"verifharness/evid"
	"verifharness/gen"
	"verifharness/ref"
)

// The frame package offers several ways to obtain a reader or a writer: the struct with Initialize, the older
// New*(…Conf) constructors, the plain io.Reader field next to the bufio one, and the combined ReadWriter. The
// properties speak about "the reader" and "the writer"; these checks make sure every form is the same reader and
// the same writer, so that everything the other checks establish for one form holds for all of them.

type rwPair struct {
	io.Reader
	io.Writer
}

// readForms reads the same bytes through every reader form and returns one result list per form.
func readForms(data []byte, sizes []int, drw *dialect.ReadWriter, key *frame.V2Key) (map[string][]result, map[string]error, error) {
	type rd interface {
		Read() (frame.Frame, error)
	}
	mk := map[string]func(src io.Reader) (rd, error){
		"Reader{ByteReader}": func(src io.Reader) (rd, error) {
			r := &frame.Reader{ByteReader: src, DialectRW: drw, InKey: key}
			return r, r.Initialize()
		},
		"Reader{ByteReader} initialized again with a new transport after it has read from another one": func(src io.Reader) (rd, error) {
			// a reader value that served one connection is pointed at the next one and initialized again: it
			// reads the new transport from its first byte, and nothing of the old one
			var old []byte
			for k := 0; k < 6; k++ {
				f := ref.Frame{V2: true, Seq: byte(k), Sys: 91, Comp: 92, ID: 77001, Payload: []byte{byte(k), 2, 3}, Checksum: uint16(k)}
				old = append(old, f.Bytes()...)
			}
			r := &frame.Reader{ByteReader: &chunkReader{data: old, sizes: []int{len(old)}, failAt: -1}, DialectRW: drw, InKey: key}
			if err := r.Initialize(); err != nil {
				return nil, err
			}
			for k := 0; k < 2; k++ {
				r.Read() //nolint:errcheck
			}
			r.ByteReader = src
			return r, r.Initialize()
		},
		"NewReader(ReaderConf)": func(src io.Reader) (rd, error) {
			return frame.NewReader(frame.ReaderConf{Reader: src, DialectRW: drw, InKey: key})
		},
		"ReadWriter{}": func(src io.Reader) (rd, error) {
			r := &frame.ReadWriter{ByteReadWriter: rwPair{src, io.Discard}, DialectRW: drw, InKey: key, OutVersion: frame.V2, OutSystemID: 1}
			return r, r.Initialize()
		},
		"NewReadWriter(ReadWriterConf)": func(src io.Reader) (rd, error) {
			return frame.NewReadWriter(frame.ReadWriterConf{ReadWriter: rwPair{src, io.Discard}, DialectRW: drw, InKey: key, OutVersion: frame.V2, OutSystemID: 1})
		},
	}
	out := map[string][]result{}
	terrs := map[string]error{}
	for name, f := range mk {
		cr := &chunkReader{data: data, sizes: sizes, failAt: -1}
		r, err := f(cr)
		if err != nil {
			return nil, nil, fmt.Errorf("%s: initialization failed: %v", name, err)
		}
		var res []result
		for calls := 0; ; calls++ {
			if calls > len(data)+2 {
				return nil, nil, fmt.Errorf("%s: more than %d calls without exhausting the stream", name, len(data)+2)
			}
			fr, err := func() (fr frame.Frame, err error) {
				defer func() {
					if p := recover(); p != nil {
						err = panicErr{p}
					}
				}()
				return r.Read()
			}()
			if _, ok := err.(panicErr); ok {
				return nil, nil, fmt.Errorf("%s: %v", name, err)
			}
			var re frame.ReadError
			if err != nil && !asReadError(err, &re) {
				terrs[name] = err
				break
			}
			res = append(res, result{fr: fr, err: err})
		}
		out[name] = res
	}
	return out, terrs, nil
}

func TestC05ReaderForms(t *testing.T) {
	rec := evid.New(t, "C05", "every way of obtaining a frame reader (Reader with BufByteReader of a generated size, Reader with the plain ByteReader, NewReader(ReaderConf), ReadWriter, NewReadWriter(ReadWriterConf)) reads the same generated grammar stream in the same chunking: the sequences of delivered frames (deep-equal) and parse errors (same text) and the final transport error must be identical, so that the consumed-span results established for one form hold for all; non-trivial = stream with a delivered frame and a rejected segment; distinct by hash of the stream")
	rec.Require("keyed", "dialect", "delivered+rejected")
	dpool := pool(t)
	evid.Check(t, rec, evid.N(6000, 30000), func(t *rapid.T) {
		drawBufSize(t)
		sc := drawStream(t, dpool)
		sizes := rapid.SliceOfN(rapid.OneOf(rapid.IntRange(1, 40), rapid.IntRange(100, 700)), 0, 20).Draw(t, "chunks")
		var drw *dialect.ReadWriter
		if sc.di != nil {
			drw = sc.di.rw
		}
		base, terr, herr := readAll(&chunkReader{data: sc.data, sizes: sizes, failAt: -1}, drw, keyOf(sc.key), len(sc.data)+2)
		if herr != nil {
			t.Fatalf("baseline reader: %v", herr)
		}
		forms, terrs, err := readForms(sc.data, sizes, drw, keyOf(sc.key))
		if err != nil {
			evid.ReplayNote("C05", "TestC05ReaderForms", fmt.Sprintf("stream %x dialect=%v key=%v chunks=%v\n%v", sc.data, sc.di != nil, sc.key != nil, sizes, err))
			t.Fatalf("stream %x: %v", sc.data, err)
		}
		frames, rejected := 0, 0
		for name, res := range forms {
			bad := ""
			if len(res) != len(base) {
				bad = fmt.Sprintf("%d results, the reader with a caller-supplied bufio.Reader gives %d", len(res), len(base))
			} else {
				for i := range res {
					switch {
					case (res[i].err == nil) != (base[i].err == nil):
						bad = fmt.Sprintf("result %d: error %v vs %v", i, res[i].err, base[i].err)
					case res[i].err != nil && res[i].err.Error() != base[i].err.Error():
						bad = fmt.Sprintf("result %d: parse error %q vs %q", i, res[i].err, base[i].err)
					case res[i].err == nil && !bitEqual(res[i].fr, base[i].fr):
						bad = fmt.Sprintf("result %d: frame %+v vs %+v", i, res[i].fr, base[i].fr)
					}
					if bad != "" {
						break
					}
				}
			}
			if bad == "" && fmt.Sprint(terrs[name]) != fmt.Sprint(terr) {
				bad = fmt.Sprintf("stream ends with %v vs %v", terrs[name], terr)
			}
			if bad != "" {
				msg := fmt.Sprintf("stream %x (dialect=%v key=%v chunks=%v): %s differs from Reader{BufByteReader}: %s", sc.data, sc.di != nil, sc.key != nil, sizes, name, bad)
				evid.ReplayNote("C05", "TestC05ReaderForms", msg)
				t.Fatalf("%s", msg)
			}
		}
		for _, r := range base {
			if r.err == nil {
				frames++
			} else {
				rejected++
			}
		}
		var cls []string
		if sc.key != nil {
			cls = append(cls, "keyed")
		}
		if sc.di != nil {
			cls = append(cls, "dialect")
		}
		nt := frames > 0 && rejected > 0
		if nt {
			cls = append(cls, "delivered+rejected")
		}
		rec.Case(nt, evid.Hash(sc.data), cls...)
		if nt && rec.WantSample("reader-forms") && len(sc.data) < 120 {
			rec.Sample("reader-forms", map[string]interface{}{"stream": fmt.Sprintf("%x", sc.data), "frames": frames, "rejected": rejected})
		}
	})
}

func TestC01WriterForms(t *testing.T) {
	rec := evid.New(t, "C01", "every way of obtaining a frame writer (Writer, NewWriter(WriterConf), ReadWriter, NewReadWriter(ReadWriterConf)) writes the same generated sequence of frames (WriteFrame) and dialect messages (WriteMessage, generated version / system / component / link id, with and without a key): without a key the byte streams must be identical to the reference layout of each frame; with a key every emitted frame must carry the configured ids and link id and a signature that verifies; non-trivial = sequence mixing frames and messages; distinct by hash of the emitted bytes")
	rec.Require("with-key", "without-key", "v1-output", "frames+messages", "one-message-value-in-several-frames", "encoded-messages-that-are-windows-into-one-buffer")
	common, _ := dialects(t)
	evid.Check(t, rec, evid.N(4000, 20000), func(t *rapid.T) {
		readBufSize = 512
		v2 := rapid.Bool().Draw(t, "out_v2")
		sys := byte(rapid.IntRange(0, 255).Draw(t, "out_sys"))
		comp := byte(rapid.IntRange(0, 255).Draw(t, "out_comp"))
		link := byte(rapid.IntRange(0, 255).Draw(t, "out_link"))
		var key *[32]byte
		if v2 && rapid.Bool().Draw(t, "out_key") {
			k := [32]byte{}
			copy(k[:], rapid.SliceOfN(rapid.Byte(), 32, 32).Draw(t, "key"))
			key = &k
		}
		ver := frame.V1
		if v2 {
			ver = frame.V2
		}
		type op struct {
			fr    *ref.Frame
			msg   bool
			typed bool // WriteFrame of a frame that carries the application's message value itself, not raw bytes
			raw   bool // WriteMessage of an already encoded message whose payload is a window into a larger buffer of the application
		}
		n := rapid.IntRange(1, 12).Draw(t, "n")
		var ops []op
		hasF, hasM := false, false
		hasTyped := 0
		sawRawRun := false
		for i := 0; i < n; i++ {
			if rapid.Bool().Draw(t, "is_message") {
				ops = append(ops, op{msg: true, raw: rapid.IntRange(0, 2).Draw(t, "already_encoded") == 0})
				hasM = true
			} else if rapid.IntRange(0, 3).Draw(t, "typed_frame") == 0 {
				f := ref.Frame{V2: rapid.Bool().Draw(t, "tf_v2"), Seq: rapid.Byte().Draw(t, "tf_seq"), Sys: rapid.Byte().Draw(t, "tf_sys"), Comp: rapid.Byte().Draw(t, "tf_comp")}
				ops = append(ops, op{fr: &f, typed: true})
				hasF = true
				hasTyped++
			} else {
				f := gen.RawFrame(t, gen.FrameOpts{})
				ops = append(ops, op{fr: &f})
				hasF = true
			}
		}
		type wr interface {
			WriteFrame(frame.Frame) error
			WriteMessage(m interface{ GetID() uint32 }) error
		}
		_ = wr(nil)
		var wantPayloads [][]byte
		run := func(name string) ([][]byte, error) {
			w := &recWriter{}
			var writeFrame func(frame.Frame) error
			var writeMsg func() error
			var writeRaw func(m message.Message) error
			hb := heartbeatValue(common)
			switch name {
			case "Writer{}":
				x := &frame.Writer{ByteWriter: w, DialectRW: common.rw, OutVersion: ver, OutSystemID: sys, OutComponentID: comp, OutSignatureLinkID: link, OutKey: keyOf(key)}
				if err := x.Initialize(); err != nil {
					return nil, err
				}
				writeFrame, writeMsg, writeRaw = x.WriteFrame, func() error { return x.WriteMessage(hb) }, x.WriteMessage
			case "NewWriter(WriterConf)":
				x, err := frame.NewWriter(frame.WriterConf{Writer: w, DialectRW: common.rw, OutVersion: ver, OutSystemID: sys, OutComponentID: comp, OutSignatureLinkID: link, OutKey: keyOf(key)})
				if err != nil {
					return nil, err
				}
				writeFrame, writeMsg, writeRaw = x.WriteFrame, func() error { return x.WriteMessage(hb) }, x.WriteMessage
			case "ReadWriter{}":
				x := &frame.ReadWriter{ByteReadWriter: rwPair{bytes.NewReader(nil), w}, DialectRW: common.rw, OutVersion: ver, OutSystemID: sys, OutComponentID: comp, OutSignatureLinkID: link, OutKey: keyOf(key)}
				if err := x.Initialize(); err != nil {
					return nil, err
				}
				writeFrame, writeMsg, writeRaw = x.WriteFrame, func() error { return x.WriteMessage(hb) }, x.WriteMessage
			case "NewReadWriter(ReadWriterConf)":
				x, err := frame.NewReadWriter(frame.ReadWriterConf{ReadWriter: rwPair{bytes.NewReader(nil), w}, DialectRW: common.rw, OutVersion: ver, OutSystemID: sys, OutComponentID: comp, OutSignatureLinkID: link, OutKey: keyOf(key)})
				if err != nil {
					return nil, err
				}
				writeFrame, writeMsg, writeRaw = x.WriteFrame, func() error { return x.WriteMessage(hb) }, x.WriteMessage
			}
			wantPayloads = wantPayloads[:0]
			// the already encoded messages of this run lie back to back in one buffer of the application (a
			// received datagram, a log being replayed); each write is handed its window into that buffer
			var arena []byte
			offs := map[int][2]int{}
			for i, o := range ops {
				if o.raw {
					reflect.ValueOf(hb).Elem().FieldByName("CustomMode").SetUint(uint64(0x11223300 + i + 1))
					pl := common.layouts[0].Encode(hb, v2)
					offs[i] = [2]int{len(arena), len(arena) + len(pl)}
					arena = append(arena, pl...)
				}
			}
			arena = append(arena, 0xC5, 0xC5, 0xC5, 0xC5)
			arenaWant := append([]byte(nil), arena...)
			rawCount := 0
			for i, o := range ops {
				var err error
				if o.raw {
					w := offs[i]
					wantPayloads = append(wantPayloads, append([]byte(nil), arenaWant[w[0]:w[1]]...))
					err = writeRaw(&message.MessageRaw{ID: 0, Payload: arena[w[0]:w[1]]})
					rawCount++
				} else if o.msg {
					// the application keeps one message value and updates it before every send
					reflect.ValueOf(hb).Elem().FieldByName("CustomMode").SetUint(uint64(0x01020300 + i))
					wantPayloads = append(wantPayloads, common.layouts[0].Encode(hb, v2))
					err = writeMsg()
				} else if o.typed {
					reflect.ValueOf(hb).Elem().FieldByName("CustomMode").SetUint(uint64(0x0A0B0C00 + i))
					o.fr.ID = 0
					o.fr.Payload = common.layouts[0].Encode(hb, o.fr.V2)
					o.fr.Checksum = o.fr.ChecksumFor(common.layouts[0].CRCExtra)
					wantPayloads = append(wantPayloads, nil)
					if o.fr.V2 {
						err = writeFrame(&frame.V2Frame{SequenceNumber: o.fr.Seq, SystemID: o.fr.Sys, ComponentID: o.fr.Comp, Message: hb, Checksum: o.fr.Checksum})
					} else {
						err = writeFrame(&frame.V1Frame{SequenceNumber: o.fr.Seq, SystemID: o.fr.Sys, ComponentID: o.fr.Comp, Message: hb, Checksum: o.fr.Checksum})
					}
				} else {
					wantPayloads = append(wantPayloads, nil)
					err = writeFrame(gen.ToLib(*o.fr))
				}
				if err != nil {
					return nil, fmt.Errorf("op %d: %v", i, err)
				}
			}
			if !bytes.Equal(arena, arenaWant) {
				return nil, fmt.Errorf("%d already encoded messages were written from windows into one buffer of the application; the writes changed that buffer:\n before %x\n after  %x", rawCount, arenaWant, arena)
			}
			if rawCount >= 2 {
				sawRawRun = true
			}
			return w.calls, nil
		}
		wantComp := comp
		if wantComp == 0 {
			wantComp = 1 // documented default
		}
		var first [][]byte
		for _, name := range []string{"Writer{}", "NewWriter(WriterConf)", "ReadWriter{}", "NewReadWriter(ReadWriterConf)"} {
			calls, err := run(name)
			fail := func(format string, a ...interface{}) {
				msg := fmt.Sprintf("%s (v2=%v sys=%d comp=%d link=%d key=%v): ", name, v2, sys, comp, link, key != nil) + fmt.Sprintf(format, a...)
				evid.ReplayNote("C01", "TestC01WriterForms", msg)
				t.Fatalf("%s", msg)
			}
			if err != nil {
				fail("%v", err)
			}
			if len(calls) != len(ops) {
				fail("%d transport writes for %d items", len(calls), len(ops))
			}
			seq := byte(0)
			for i, o := range ops {
				p, nb, perr := ref.Parse(calls[i])
				if perr != nil || nb != len(calls[i]) {
					fail("item %d: emitted bytes are not one whole frame: %x", i, calls[i])
				}
				if !o.msg {
					if !bytes.Equal(calls[i], o.fr.Bytes()) {
						fail("item %d: WriteFrame (frame carrying the application's own message value: %v) emitted %x, the frame's layout is %x", i, o.typed, calls[i], o.fr.Bytes())
					}
					continue
				}
				if p.V2 != v2 || p.Sys != sys || p.Comp != wantComp || p.Seq != seq || p.ID != 0 {
					fail("item %d: WriteMessage emitted v2=%v sys=%d comp=%d seq=%d id=%d, configured v2=%v sys=%d comp=%d, %d-th message", i, p.V2, p.Sys, p.Comp, p.Seq, p.ID, v2, sys, wantComp, seq)
				}
				seq++
				if p.Checksum != p.ChecksumFor(common.layouts[0].CRCExtra) {
					fail("item %d: wrong checksum", i)
				}
				if !bytes.Equal(p.Payload, wantPayloads[i]) {
					fail("item %d: the message value was updated before this send; payload on the wire %x, encoding of the value as sent %x", i, p.Payload, wantPayloads[i])
				}
				if key != nil {
					if !p.Signed() || p.LinkID != link || p.Sig != p.SignatureFor(*key) {
						fail("item %d: signed=%v link id %d (configured %d) or the signature does not verify", i, p.Signed(), p.LinkID, link)
					}
				} else if p.Signed() {
					fail("item %d: signed although no key is configured", i)
				}
			}
			if first == nil {
				first = calls
			} else if key == nil && !reflect.DeepEqual(first, calls) {
				fail("byte stream differs from the one of Writer{}")
			}
		}
		var cls []string
		if key != nil {
			cls = append(cls, "with-key")
		} else {
			cls = append(cls, "without-key")
		}
		if !v2 {
			cls = append(cls, "v1-output")
		}
		if hasF && hasM {
			cls = append(cls, "frames+messages")
		}
		if hasTyped >= 2 {
			cls = append(cls, "one-message-value-in-several-frames")
		}
		if sawRawRun {
			cls = append(cls, "encoded-messages-that-are-windows-into-one-buffer")
		}
		var all []byte
		for _, c := range first {
			all = append(all, c...)
		}
		rec.Case(hasF && hasM, evid.Hash(all), cls...)
		if hasF && hasM && rec.WantSample("writer-forms") && len(all) < 200 {
			rec.Sample("writer-forms", map[string]interface{}{"v2": v2, "sys": sys, "comp": comp, "link": link, "key": key != nil, "items": len(ops)})
		}
	})
}

// bitEqual is reflect.DeepEqual with floating-point values compared by their bits (NaN equals the same NaN).
func bitEqual(a, b interface{}) bool { return bitEqualV(reflect.ValueOf(a), reflect.ValueOf(b)) }

func bitEqualV(a, b reflect.Value) bool {
	if a.IsValid() != b.IsValid() {
		return false
	}
	if !a.IsValid() {
		return true
	}
	if a.Type() != b.Type() {
		return false
	}
	switch a.Kind() {
	case reflect.Float32, reflect.Float64:
		return math.Float64bits(a.Float()) == math.Float64bits(b.Float())
	case reflect.Ptr, reflect.Interface:
		if a.IsNil() || b.IsNil() {
			return a.IsNil() == b.IsNil()
		}
		return bitEqualV(a.Elem(), b.Elem())
	case reflect.Struct:
		for i := 0; i < a.NumField(); i++ {
			if !bitEqualV(a.Field(i), b.Field(i)) {
				return false
			}
		}
		return true
	case reflect.Slice:
		if a.IsNil() != b.IsNil() {
			return false
		}
		fallthrough
	case reflect.Array:
		if a.Len() != b.Len() {
			return false
		}
		for i := 0; i < a.Len(); i++ {
			if !bitEqualV(a.Index(i), b.Index(i)) {
				return false
			}
		}
		return true
	case reflect.String:
		return a.String() == b.String()
	case reflect.Bool:
		return a.Bool() == b.Bool()
	case reflect.Int, reflect.Int8, reflect.Int16, reflect.Int32, reflect.Int64:
		return a.Int() == b.Int()
	case reflect.Uint, reflect.Uint8, reflect.Uint16, reflect.Uint32, reflect.Uint64, reflect.Uintptr:
		return a.Uint() == b.Uint()
	}
	return false
}
