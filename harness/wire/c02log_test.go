package wire

import (
	"fmt"
	"io"
	"reflect"
	"testing"

	"pgregory.net/rapid"

	"github.com/bluenviron/gomavlib/v3/pkg/frame"
	"github.com/bluenviron/gomavlib/v3/pkg/tlog"

	"verifharness/evid"
	"verifharness/gen"
	"verifharness/ref"
)

// TestC02GateThroughLogs: the checksum gate seen through the telemetry-log reader. A log of many entries of varying
// size (several times the reader's 4096-byte window, so that entries start at every position of a refilled window)
// whose frames all carry the reference checksum, with a few entries in between whose frame carries the checksum of
// another definition: every well-formed entry is delivered, in order, decoded; every other one is reported as a
// frame.ReadError and never delivered; the reader ends with io.EOF.
func TestC02GateThroughLogs(t *testing.T) {
	rec := evid.New(t, "C02", "telemetry logs of 60..400 entries (reference-encoded dialect messages of varying size with the reference checksum, v1 and v2, entries with the checksum of another definition in between), longer than the log reader's 4096-byte window, read through tlog.Reader with the dialect from memory and in generated pieces: every well-formed entry delivered in order and equal, every foreign-checksum entry reported as frame.ReadError and not delivered, io.EOF at the end; non-trivial = log longer than the window with a refused entry; distinct by hash of the file")
	rec.Require("log-longer-than-the-reader-window", "log-longer-than-3-reader-windows", "refused-entry-between-delivered-ones", "log-arrives-in-pieces")
	dpool := pool(t)
	evid.Check(t, rec, evid.N(250, 1500), func(t *rapid.T) {
		readBufSize = 512
		di := drawDialect(t, dpool)
		n := rapid.IntRange(60, 400).Draw(t, "entries")
		type ent struct {
			f    ref.Frame
			lay  *ref.Layout
			good bool
			us   int64
		}
		var ents []ent
		var file []byte
		nbad := 0
		for i := 0; i < n; i++ {
			f, lay, _ := validFrame(t, di, gen.FrameOpts{Signed: 1}, nil)
			e := ent{f: f, lay: lay, good: true, us: int64(rapid.Uint64Range(0, 1<<51).Draw(t, "us"))}
			if rapid.IntRange(0, 11).Draw(t, "foreign_checksum") == 0 {
				other := di.layouts[di.ids[rapid.IntRange(0, len(di.ids)-1).Draw(t, "other")]]
				if other.CRCExtra != lay.CRCExtra {
					e.f.Checksum = e.f.ChecksumFor(other.CRCExtra)
					e.good = false
					nbad++
				}
			}
			ents = append(ents, e)
			file = append(file, be64(e.us)...)
			file = append(file, e.f.Bytes()...)
		}
		run := func(src io.Reader, how string) {
			r := &tlog.Reader{ByteReader: src, DialectRW: di.rw}
			if err := r.Initialize(); err != nil {
				t.Fatalf("BROKEN: %v", err)
			}
			k := 0 // next entry of the file
			fail := func(format string, a ...interface{}) {
				msg := fmt.Sprintf(format, a...)
				evid.ReplayNote("C02", "TestC02GateThroughLogs", fmt.Sprintf("%s\nlog of %d entries, %d bytes, read %s\nfile %x", msg, n, len(file), how, file))
				t.Fatalf("log of %d entries (%d bytes, every frame well formed; %d of them carry the checksum of another definition), read %s: %s", n, len(file), nbad, how, msg)
			}
			for calls := 0; ; calls++ {
				if calls > n+2 {
					fail("more than %d calls without reaching the end", n+2)
				}
				e, err := safeTlogRead(r)
				if _, isPanic := err.(panicErr); isPanic {
					fail("reader panicked at entry %d: %v", k, err)
				}
				if err == io.EOF {
					if k != n {
						fail("end of file reported after %d of %d entries", k, n)
					}
					return
				}
				if k >= n {
					fail("after the last entry the reader returned %v / %v, want io.EOF", e, err)
				}
				w := ents[k]
				if err != nil {
					var re frame.ReadError
					if !asReadError(err, &re) {
						fail("entry %d: error %T %v, neither a parse error nor the end of the file", k, err, err)
					}
					if w.good {
						fail("entry %d (%s, %d payload bytes, reference checksum %#04x) was not delivered: %v", k, w.lay.MsgName, len(w.f.Payload), w.f.Checksum, err)
					}
					k++
					continue
				}
				if !w.good {
					fail("entry %d (%s) carries the checksum of another definition and was delivered", k, w.lay.MsgName)
				}
				g, m, ferr := gen.FromLib(e.Frame)
				wantVal := mustDecode(t, w.lay, w.f.Payload, w.f.V2) // what the payload says (a value wider than its field does not fit the wire)
				if ferr != nil || m == nil || reflect.TypeOf(m).Elem() != w.lay.Type || !ref.EqualMsg(m, wantVal) {
					fail("entry %d (%s) delivered as %+v, want %+v", k, w.lay.MsgName, m, wantVal)
				}
				if g.V2 != w.f.V2 || g.Seq != w.f.Seq || g.Sys != w.f.Sys || g.Comp != w.f.Comp || g.ID != w.f.ID || e.Time.UnixMicro() != w.us {
					fail("entry %d delivered with header %s at %d us, want %s at %d us", k, gen.Describe(g), e.Time.UnixMicro(), gen.Describe(w.f), w.us)
				}
				k++
			}
		}
		run(&chunkReader{data: file, failAt: -1}, "in one piece")
		sizes := rapid.SliceOfN(rapid.OneOf(rapid.IntRange(1, 9), rapid.IntRange(1, 300), rapid.IntRange(3000, 5000)), 1, 40).Draw(t, "piece_sizes")
		run(&chunkReader{data: file, sizes: sizes, failAt: -1}, fmt.Sprintf("in pieces %v", sizes))
		var cls []string
		if len(file) > 4096 {
			cls = append(cls, "log-longer-than-the-reader-window")
		}
		if len(file) > 3*4096 {
			cls = append(cls, "log-longer-than-3-reader-windows")
		}
		if nbad > 0 {
			cls = append(cls, "refused-entry-between-delivered-ones")
		}
		cls = append(cls, "log-arrives-in-pieces")
		rec.Evals(int64(2 * n))
		rec.Case(len(file) > 4096 && nbad > 0, evid.Hash(file), cls...)
		if rec.WantSample("log") {
			rec.Sample("log", map[string]interface{}{"dialect": di.name, "entries": n, "bytes": len(file), "foreign_checksum_entries": nbad})
		}
	})
}
