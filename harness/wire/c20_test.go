package wire

import (
	"bytes"
	"errors"
	"fmt"
	"io"
	"reflect"
	"testing"
	"time"

	"github.com/bluenviron/gomavlib/v3/pkg/dialect"
	"github.com/bluenviron/gomavlib/v3/pkg/frame"
	"github.com/bluenviron/gomavlib/v3/pkg/message"
	"github.com/bluenviron/gomavlib/v3/pkg/tlog"
	"pgregory.net/rapid"

	"verifharness/evid"
	"verifharness/gen"
	"verifharness/ref"
)

// staleSigEntries counts generated entries with left-over signature fields (class population).
var staleSigEntries int

type logEntry struct {
	t     time.Time
	flat  ref.Frame   // what must be on the wire
	lib   frame.Frame // what is handed to the writer
	msg   interface{} // canonical decoded message expected on read (dialect entries), else nil
	bytes []byte      // 8 + frame
	bad   string      // non-empty: unencodable entry of that kind
}

func drawTime(t *rapid.T) time.Time {
	var base time.Time
	switch rapid.IntRange(0, 5).Draw(t, "tkind") {
	case 0:
		base = time.Unix(0, 0)
	case 1:
		base = time.Date(1, 1, 1, 0, 0, 0, 0, time.UTC)
	case 2:
		base = time.Date(2262, 4, 11, 23, 47, 16, 0, time.UTC)
	case 3:
		base = time.Date(1969, 12, 31, 23, 59, 59, 0, time.UTC)
	case 4:
		base = time.Unix(rapid.Int64Range(-62135596800, 253402300799).Draw(t, "sec"), 0)
	default:
		base = time.Date(2024, 5, 17, 12, 0, 0, 0, time.FixedZone("x", 3600*5))
	}
	ns := rapid.OneOf(rapid.SampledFrom([]int64{0, 1, 999, 1000, 1001, 999999, 999999999, -1, -999, -1000, -1001}), rapid.Int64Range(-2000000000, 2000000000)).Draw(t, "ns")
	return base.Add(time.Duration(ns))
}

func be64(v int64) []byte {
	b := make([]byte, 8)
	for i := 0; i < 8; i++ {
		b[i] = byte(uint64(v) >> (56 - 8*uint(i)))
	}
	return b
}

func drawEntry(t *rapid.T, di *dialectInfo, allowBad bool) logEntry {
	e := logEntry{t: drawTime(t)}
	kind := "raw"
	choices := []string{"raw", "raw"}
	if di != nil {
		choices = append(choices, "decoded", "decoded")
	}
	if allowBad {
		choices = append(choices, "bad")
	}
	kind = rapid.SampledFrom(choices).Draw(t, "ekind")
	switch kind {
	case "raw":
		f := gen.RawFrame(t, gen.FrameOpts{})
		if di != nil {
			for di.layouts[f.ID] != nil {
				f.ID = (f.ID + 1) & 0xFF
			}
		}
		e.flat, e.lib = f, gen.ToLib(f)
		if v2f, ok := e.lib.(*frame.V2Frame); ok && !f.Signed() && rapid.IntRange(0, 3).Draw(t, "leftover_signature_fields") == 0 {
			// a frame whose signed flag was cleared keeps its old signature fields in memory: the flag decides
			// what is written, as it decides what a reader expects
			v2f.Signature = &frame.V2Signature{9, 8, 7, 6, 5, 4}
			v2f.SignatureLinkID, v2f.SignatureTimestamp = 3, 123456789
			staleSigEntries++
		}
	case "decoded":
		f, lay, val := validFrame(t, di, gen.FrameOpts{}, nil)
		f.Payload = lay.Encode(val, f.V2)
		f.Checksum = f.ChecksumFor(lay.CRCExtra)
		e.flat = f
		e.msg = lay.Canonical(val, f.V2)
		lf := gen.ToLib(f)
		switch ff := lf.(type) {
		case *frame.V1Frame:
			ff.Message = val.(message.Message)
		case *frame.V2Frame:
			ff.Message = val.(message.Message)
		}
		e.lib = lf
	case "bad":
		f := gen.RawFrame(t, gen.FrameOpts{})
		bads := []string{"v1-id>255", "nil-message", "v2-id>=2^24", "payload>255"}
		if di == nil {
			bads = append(bads, "decoded-without-dialect")
		} else {
			bads = append(bads, "decoded-outside-dialect")
		}
		e.bad = rapid.SampledFrom(bads).Draw(t, "badkind")
		switch e.bad {
		case "v1-id>255":
			f.V2, f.Incompat, f.Compat = false, 0, 0
			f.ID = gen.UnrepresentableV1ID().Draw(t, "bigid")
			e.lib = gen.ToLib(f)
		case "v2-id>=2^24":
			f.V2 = true
			f.ID = gen.UnrepresentableV2ID().Draw(t, "bigid")
			e.lib = gen.ToLib(f)
		case "payload>255":
			f.Payload = bytes.Repeat([]byte{7}, rapid.IntRange(256, 400).Draw(t, "biglen"))
			e.lib = gen.ToLib(f)
		case "nil-message":
			if f.V2 {
				e.lib = &frame.V2Frame{}
			} else {
				e.lib = &frame.V1Frame{}
			}
		case "decoded-without-dialect", "decoded-outside-dialect":
			// a decoded message of another dialect that the configured one does not contain
			_, _ = dialects(nil)
			m := &foreignMessage{A: 5}
			if f.V2 {
				e.lib = &frame.V2Frame{Message: m}
			} else {
				e.lib = &frame.V1Frame{Message: m}
			}
		}
	}
	if e.bad == "" {
		e.bytes = append(be64(e.t.UnixMicro()), e.flat.Bytes()...)
	}
	return e
}

// foreignMessage is a decoded message no shipped dialect contains.
type foreignMessage struct{ A uint8 }

func (*foreignMessage) GetID() uint32 { return 199999 }

// failingWriter fails its k-th call (1-based) and records everything else.
type failingWriter struct {
	buf   bytes.Buffer
	calls int
	failK int
	err   error
	mode  int // how many bytes the failing call claims to have accepted: 0 none, 1 half, 2 all
}

func (w *failingWriter) Write(p []byte) (int, error) {
	w.calls++
	if w.failK > 0 && w.calls == w.failK {
		switch w.mode {
		case 1:
			return len(p) / 2, w.err
		case 2:
			return len(p), w.err // e.g. a transport that reports the error of a deferred flush
		}
		return 0, w.err
	}
	return w.buf.Write(p)
}

// fileLikeWriter is a failingWriter that also has the other methods a file or a buffered writer has; they
// all succeed. An error of Write stays the error of the entry being written whatever else the sink offers.
type fileLikeWriter struct{ *failingWriter }

func (w fileLikeWriter) Sync() error  { return nil }
func (w fileLikeWriter) Flush() error { return nil }
func (w fileLikeWriter) Close() error { return nil }

func sameEntry(got *tlog.Entry, e logEntry, di *dialectInfo) error {
	want := time.UnixMicro(e.t.UnixMicro()).UTC()
	if !got.Time.Equal(want) || got.Time.Location() != time.UTC {
		return fmt.Errorf("time %v (loc %v), want %v UTC (written %v)", got.Time, got.Time.Location(), want, e.t)
	}
	g, m, err := gen.FromLib(got.Frame)
	if err != nil {
		return err
	}
	if e.msg != nil {
		if m == nil || !ref.EqualMsg(m, e.msg) {
			return fmt.Errorf("message %+v, want %+v", m, e.msg)
		}
		// a decoded entry reads back in canonical form (e.g. bytes after a string terminator are
		// gone); the frame then carries the checksum of that canonical payload
		w := e.flat
		if lay := di.layouts[w.ID]; lay != nil {
			w.Payload = lay.Encode(e.msg, w.V2)
			w.Checksum = w.ChecksumFor(lay.CRCExtra)
		}
		g.Payload, w.Payload = nil, nil
		if !gen.SameFrame(g, w) {
			return fmt.Errorf("frame header %s, want %s", gen.Describe(g), gen.Describe(w))
		}
		return nil
	}
	if m != nil || !gen.SameFrame(g, e.flat) {
		return fmt.Errorf("frame %s, want %s", gen.Describe(g), gen.Describe(e.flat))
	}
	return nil
}

func safeTlogRead(r *tlog.Reader) (e *tlog.Entry, err error) {
	defer func() {
		if p := recover(); p != nil {
			e, err = nil, panicErr{p}
		}
	}()
	return r.Read()
}

// readLog reads entries until the first error.
func readLog(data []byte, drw *dialect.ReadWriter) ([]*tlog.Entry, error) {
	return readLogFrom(bytes.NewReader(data), len(data), drw)
}

// readLogChunked reads the log from a source that hands out the file in the given piece sizes (then byte by byte):
// a file read through a pipe, a network file system or a decompressor does not arrive in whole buffers.
func readLogChunked(data []byte, sizes []int, drw *dialect.ReadWriter) ([]*tlog.Entry, error) {
	return readLogFrom(&chunkReader{data: data, sizes: sizes, failAt: -1}, len(data), drw)
}

func readLogFrom(src io.Reader, n int, drw *dialect.ReadWriter) ([]*tlog.Entry, error) {
	data := make([]byte, n) // only its length matters below
	r := &tlog.Reader{ByteReader: src, DialectRW: drw}
	if err := r.Initialize(); err != nil {
		return nil, fmt.Errorf("BROKEN: %v", err)
	}
	var out []*tlog.Entry
	for i := 0; i <= len(data)+1; i++ {
		e, err := safeTlogRead(r)
		if err != nil {
			return out, err
		}
		if e == nil {
			return out, panicErr{"nil entry with nil error"}
		}
		out = append(out, e)
	}
	return out, panicErr{"reader does not terminate"}
}

func TestC20Logs(t *testing.T) {
	rec := evid.New(t, "C20", "generated entry sequences (0..30 entries: v1/v2/signed frames, raw and dialect messages, times on both sides of the epoch with sub-microsecond parts, unencodable entries interleaved) written with tlog.Writer; oracles: file bytes == concatenation of BE64(floor(t,us)) ++ reference frame bytes, unencodable entries return an error and leave the file untouched, read-back equals what was written, every truncation point of the file yields exactly the complete entries before the cut and then an error, a failing io.Writer is reported; non-trivial = >=3 entries of mixed versions with a negative or sub-us timestamp, or an unencodable entry between good ones; distinct by hash of the file")
	rec.Require("cut-in-timestamp", "cut-in-header", "cut-in-payload", "cut-in-signature", "bad-entry-between-good", "negative-time", "sub-us", "writer-fault", "writer-fault-on-a-file-like-sink", "entries-written-after-a-reported-sink-failure", "file-after-an-all-or-nothing-sink-failure-is-the-accepted-entries", "one-message-value-updated-and-logged-again", "dialect", "longer-than-reader-window", "longer-than-3-reader-windows", "file-arrives-in-pieces", "unsigned-entry-with-leftover-signature-fields")
	dpool := pool(t)
	errBoom := errors.New("injected write error")
	evid.Check(t, rec, evid.N(4000, 12000), func(t *rapid.T) {
		readBufSize = 512
		var di *dialectInfo
		var drw *dialect.ReadWriter
		if rapid.Bool().Draw(t, "dialect") {
			di = drawDialect(t, dpool)
			drw = di.rw
		}
		n := rapid.IntRange(0, 30).Draw(t, "n")
		long := rapid.IntRange(0, 7).Draw(t, "long_log") == 0 // several times the reader's 4096-byte window
		if long {
			n = rapid.IntRange(60, 160).Draw(t, "n_long")
		} else if rapid.IntRange(0, 3).Draw(t, "short") > 0 && n > 6 {
			n = n % 7
		}
		fw := &failingWriter{}
		w := &tlog.Writer{ByteWriter: fw, DialectRW: drw}
		if err := w.Initialize(); err != nil {
			t.Fatalf("BROKEN: %v", err)
		}
		var good []logEntry
		var want []byte
		var cls []string
		badBetween, negative, subus := false, false, false
		versions := map[bool]bool{}
		pendingBad := false
		for i := 0; i < n; i++ {
			e := drawEntry(t, di, true)
			if long && e.bad == "" && e.msg == nil && rapid.Bool().Draw(t, "long_payload") {
				e.flat.Payload = gen.Bytes(t, rapid.IntRange(60, 255).Draw(t, "plen_long"), "payload_long")
				e.lib = gen.ToLib(e.flat)
				e.bytes = append(be64(e.t.UnixMicro()), e.flat.Bytes()...)
			}
			before := fw.buf.Len()
			err := func() (err error) {
				defer func() {
					if p := recover(); p != nil {
						err = panicErr{p}
					}
				}()
				return w.Write(&tlog.Entry{Time: e.t, Frame: e.lib})
			}()
			if _, isPanic := err.(panicErr); isPanic {
				t.Fatalf("entry %d (%s): Write panicked: %v", i, e.bad, err)
			}
			if e.bad != "" {
				if err == nil {
					t.Fatalf("entry %d: unencodable entry (%s) was accepted", i, e.bad)
				}
				if fw.buf.Len() != before {
					evid.ReplayNote("C20", "TestC20Logs", fmt.Sprintf("entry %d (%s) refused with %v but %d bytes were appended: %x", i, e.bad, err, fw.buf.Len()-before, fw.buf.Bytes()[before:]))
					t.Fatalf("entry %d: unencodable entry (%s) was refused (%v) but left %d bytes in the file: %x", i, e.bad, err, fw.buf.Len()-before, fw.buf.Bytes()[before:])
				}
				if len(good) > 0 {
					pendingBad = true
				}
				continue
			}
			if err != nil {
				t.Fatalf("entry %d: Write failed: %v (%s)", i, err, gen.Describe(e.flat))
			}
			if pendingBad {
				badBetween = true
				pendingBad = false
			}
			good = append(good, e)
			want = append(want, e.bytes...)
			if e.t.UnixMicro() < 0 {
				negative = true
			}
			if e.t.Nanosecond()%1000 != 0 {
				subus = true
			}
			versions[e.flat.V2] = true
		}
		file := fw.buf.Bytes()
		if !bytes.Equal(file, want) {
			t.Fatalf("log file differs from BE64(us) ++ frame concatenation:\n got  %x\n want %x", file, want)
		}
		// read back
		entries, rerr := readLog(file, drw)
		if rerr != io.EOF {
			t.Fatalf("reading the complete log ended with %v, want io.EOF", rerr)
		}
		if len(entries) != len(good) {
			t.Fatalf("wrote %d entries, read %d", len(good), len(entries))
		}
		for i := range good {
			if err := sameEntry(entries[i], good[i], di); err != nil {
				t.Fatalf("entry %d read back differently: %v", i, err)
			}
		}
		// the same file arriving in generated pieces
		{
			sizes := rapid.SliceOfN(rapid.OneOf(rapid.IntRange(1, 9), rapid.IntRange(1, 300), rapid.IntRange(3000, 5000)), 0, 40).Draw(t, "piece_sizes")
			ce, cerr := readLogChunked(file, sizes, drw)
			if cerr != io.EOF || len(ce) != len(good) {
				evid.ReplayNote("C20", "TestC20Logs", fmt.Sprintf("file %x\npieces %v\nread %d of %d entries, ended with %v", file, sizes, len(ce), len(good), cerr))
				t.Fatalf("the log read from a source that delivers it in pieces %v gives %d of %d entries and ends with %v (want io.EOF)", sizes, len(ce), len(good), cerr)
			}
			for i := range good {
				if err := sameEntry(ce[i], good[i], di); err != nil {
					t.Fatalf("entry %d read back differently when the file arrives in pieces %v: %v", i, sizes, err)
				}
			}
			if len(sizes) > 0 && len(good) > 1 {
				rec.Class("file-arrives-in-pieces", 1)
			}
		}
		// every truncation point
		ends := make([]int, len(good)+1)
		for i, e := range good {
			ends[i+1] = ends[i] + len(e.bytes)
		}
		cutClasses := map[string]int{}
		step := 1
		if len(file) > 3000 {
			step = 1 + len(file)/150 // long logs: a sample of cuts, always including the window boundary region
		}
		for c := 0; c < len(file); c += step {
			if step > 1 && c > 4000 && c < 4200 {
				step = 1
			} else if step == 1 && len(file) > 3000 && c >= 4200 {
				step = 1 + len(file)/150
			}
			k := 0
			for k < len(good) && ends[k+1] <= c {
				k++
			}
			got, err := readLog(file[:c], drw)
			if _, isPanic := err.(panicErr); isPanic {
				t.Fatalf("log cut at byte %d of %d: %v", c, len(file), err)
			}
			if err == nil {
				t.Fatalf("log cut at %d: reader never reported an error", c)
			}
			if len(got) != k {
				evid.ReplayNote("C20", "TestC20Logs", fmt.Sprintf("file %x cut at %d: %d entries returned, %d complete before the cut", file, c, len(got), k))
				t.Fatalf("log cut at byte %d of %d: %d entries returned before the error, %d are complete before the cut", c, len(file), len(got), k)
			}
			for i := 0; i < k; i++ {
				if err := sameEntry(got[i], good[i], di); err != nil {
					t.Fatalf("log cut at %d: entry %d: %v", c, i, err)
				}
			}
			off := c - ends[k]
			e := good[k]
			hdr := 6
			if e.flat.V2 {
				hdr = 10
			}
			switch {
			case off < 8:
				cutClasses["cut-in-timestamp"]++
			case off < 8+hdr:
				cutClasses["cut-in-header"]++
			case off < 8+hdr+len(e.flat.Payload):
				cutClasses["cut-in-payload"]++
			case off < 8+hdr+len(e.flat.Payload)+2:
				cutClasses["cut-in-checksum"]++
			default:
				cutClasses["cut-in-signature"]++
			}
		}
		for c, k := range cutClasses {
			rec.Class(c, int64(k))
		}
		rec.Evals(int64(len(file)))
		// an entry damaged on disk (one bit of the checksum of a dialect message): the entries before it are read, then
		// the damage is reported the way the frame reader reports rejected input - a frame.ReadError the caller can tell
		// from the end of the file - and never as an entry
		if di != nil {
			for k, e := range good {
				if e.msg == nil {
					continue
				}
				bad := append([]byte(nil), file...)
				hdr := 6
				if e.flat.V2 {
					hdr = 10
				}
				bad[ends[k]+8+hdr+len(e.flat.Payload)] ^= 0x10
				got, derr := readLog(bad, drw)
				var re frame.ReadError
				if len(got) != k || derr == nil || !asReadError(derr, &re) {
					evid.ReplayNote("C20", "TestC20Logs", fmt.Sprintf("file %x\nentry %d damaged in its checksum: %d entries, error %T %v", bad, k, len(got), derr, derr))
					t.Fatalf("entry %d of %d damaged in its checksum: the reader returns %d entries and then %T %v; want the %d entries before it and a frame.ReadError", k, len(good), len(got), derr, derr, k)
				}
				rec.Class("damaged-entry-reported-as-parse-error", 1)
				break
			}
		}
		// a logger that keeps one message value and updates it from entry to entry (periodic telemetry): what is in the
		// file is what the value held when each entry was written
		if di != nil {
			lay := di.layouts[di.ids[rapid.IntRange(0, len(di.ids)-1).Draw(t, "reused_message_type")]]
			fw3 := &failingWriter{}
			w3 := &tlog.Writer{ByteWriter: fw3, DialectRW: drw}
			if err := w3.Initialize(); err != nil {
				t.Fatalf("BROKEN: %v", err)
			}
			held := reflect.New(lay.Type)
			v2 := rapid.Bool().Draw(t, "reused_v2") || held.Interface().(message.Message).GetID() > 255
			for k := 0; k < rapid.IntRange(2, 4).Draw(t, "reused_entries"); k++ {
				val := gen.Value(t, lay)
				held.Elem().Set(reflect.ValueOf(val).Elem())
				f := ref.Frame{V2: v2, Seq: byte(k), Sys: 7, Comp: 8, ID: held.Interface().(message.Message).GetID()}
				f.Payload = lay.Encode(val, v2)
				f.Checksum = f.ChecksumFor(lay.CRCExtra)
				var lf frame.Frame = &frame.V1Frame{SequenceNumber: f.Seq, SystemID: 7, ComponentID: 8, Message: held.Interface().(message.Message), Checksum: f.Checksum}
				if v2 {
					lf = &frame.V2Frame{SequenceNumber: f.Seq, SystemID: 7, ComponentID: 8, Message: held.Interface().(message.Message), Checksum: f.Checksum}
				}
				before := fw3.buf.Len()
				tm := time.UnixMicro(int64(1000 + k))
				if err := w3.Write(&tlog.Entry{Time: tm, Frame: lf}); err != nil {
					t.Fatalf("entry %d of a reused %s value: Write failed: %v", k, lay.MsgName, err)
				}
				wantB := append(be64(tm.UnixMicro()), f.Bytes()...)
				if got := fw3.buf.Bytes()[before:]; !bytes.Equal(got, wantB) {
					evid.ReplayNote("C20", "TestC20Logs", fmt.Sprintf("one %s value updated and logged again (entry %d): file has %x, the value held %x", lay.MsgName, k, got, wantB))
					t.Fatalf("the application keeps one %s value, updates it and logs it again (entry %d, v2=%v): the file got\n %x\nthe value held at that moment encodes as\n %x", lay.MsgName, k, v2, got, wantB)
				}
			}
			rec.Class("one-message-value-updated-and-logged-again", 1)
		}
		// a failing io.Writer is reported
		if len(good) > 0 {
			total := fw.calls
			k := rapid.IntRange(1, total).Draw(t, "fail_call")
			fw2 := &failingWriter{failK: k, err: errBoom, mode: rapid.IntRange(0, 2).Draw(t, "fail_mode")}
			w2 := &tlog.Writer{ByteWriter: fw2, DialectRW: drw}
			fileLike := rapid.Bool().Draw(t, "sink_is_file_like")
			if fileLike {
				w2.ByteWriter = fileLikeWriter{fw2}
				rec.Class("writer-fault-on-a-file-like-sink", 1)
			}
			if err := w2.Initialize(); err != nil {
				t.Fatalf("BROKEN: %v", err)
			}
			reported := false
			var accepted []byte // the entries whose Write returned nil
			for i, e := range good {
				before := fw2.buf.Len()
				err := w2.Write(&tlog.Entry{Time: e.t, Frame: gen.ToLibEntry(e.lib)})
				if err == nil {
					accepted = append(accepted, e.bytes...)
				}
				if reported {
					// the sink works again: every later entry is written as if nothing had happened - its own
					// bytes, and nothing of the entry whose Write was reported as failed
					if err != nil {
						t.Fatalf("entry %d, written after the sink had failed once (call %d) and recovered: Write returned %v", i, k, err)
					}
					if got := fw2.buf.Bytes()[before:]; !bytes.Equal(got, e.bytes) {
						evid.ReplayNote("C20", "TestC20Logs", fmt.Sprintf("sink failed on call %d (mode %d), entry %d written afterwards appended %x, its own bytes are %x", k, fw2.mode, i, got, e.bytes))
						t.Fatalf("the sink failed on its call %d (reported) and worked again afterwards; the Write of entry %d then appended %d bytes to the file, the entry itself is %d bytes:\n appended %x\n entry    %x", k, i, len(got), len(e.bytes), got, e.bytes)
					}
					rec.Class("entries-written-after-a-reported-sink-failure", 1)
					continue
				}
				if fw2.calls >= k {
					if err != errBoom && !errors.Is(err, errBoom) {
						t.Fatalf("the io.Writer (also offering Sync/Flush/Close that succeed: %v) failed on its call %d (entry %d) but Write returned %v", fileLike, k, i, err)
					}
					reported = true
					continue
				}
				if err != nil {
					t.Fatalf("entry %d: Write failed with %v before the injected fault", i, err)
				}
			}
			if !reported {
				t.Fatalf("injected fault at call %d of %d never surfaced", k, total)
			}
			if fw2.mode == 0 {
				// the sink refused that one call altogether (took no byte of it): the file is the entries whose Write
				// returned nil, one after the other - nothing of the refused entry in between - and reads back as such
				if got := fw2.buf.Bytes(); !bytes.Equal(got, accepted) {
					evid.ReplayNote("C20", "TestC20Logs", fmt.Sprintf("sink refused its call %d (0 bytes taken, error reported)\nfile     %x\naccepted %x", k, got, accepted))
					t.Fatalf("the sink refused its call %d altogether (no byte taken; Write reported the error) and worked for every other call: the file has %d bytes, the entries whose Write returned nil make %d bytes - part of the refused entry is in the file:\n file     %x\n accepted %x", k, len(got), len(accepted), got, accepted)
				}
				rec.Class("file-after-an-all-or-nothing-sink-failure-is-the-accepted-entries", 1)
			}
			rec.Class("writer-fault", 1)
		}
		if badBetween {
			cls = append(cls, "bad-entry-between-good")
		}
		if negative {
			cls = append(cls, "negative-time")
		}
		if subus {
			cls = append(cls, "sub-us")
		}
		if di != nil {
			cls = append(cls, "dialect")
		}
		if len(file) > 4096 {
			cls = append(cls, "longer-than-reader-window")
		}
		if len(file) > 3*4096 {
			cls = append(cls, "longer-than-3-reader-windows")
		}
		nt := badBetween || (len(good) >= 3 && len(versions) == 2 && (negative || subus))
		if staleSigEntries > 0 {
			cls = append(cls, "unsigned-entry-with-leftover-signature-fields")
			staleSigEntries = 0
		}
		rec.Case(nt, evid.Hash(file, []byte(fmt.Sprint(n))), cls...)
		if nt && rec.WantSample("log") && len(file) < 300 {
			rec.Sample("log", map[string]interface{}{"entries_written": len(good), "attempted": n, "file": fmt.Sprintf("%x", file), "cuts_checked": len(file)})
		}
	})
}

// TestC05TlogTotality: the tlog reader on arbitrary log-shaped streams never panics and terminates.
func TestC05TlogTotality(t *testing.T) {
	rec := evid.New(t, "C05", "tlog.Reader over log-shaped streams with damage (random byte substitutions, deletions, junk): no panic, terminates within n/9+2 calls; non-trivial = a damaged stream; distinct by hash of the stream")
	dpool := pool(t)
	evid.Check(t, rec, evid.N(10000, 60000), func(t *rapid.T) {
		readBufSize = 512
		var di *dialectInfo
		var drw *dialect.ReadWriter
		if rapid.Bool().Draw(t, "dialect") {
			di = drawDialect(t, dpool)
			drw = di.rw
		}
		var data []byte
		n := rapid.IntRange(0, 6).Draw(t, "n")
		for i := 0; i < n; i++ {
			e := drawEntry(t, di, false)
			data = append(data, e.bytes...)
		}
		damaged := false
		if len(data) > 0 {
			for k := rapid.IntRange(0, 4).Draw(t, "damage"); k > 0; k-- {
				i := rapid.IntRange(0, len(data)-1).Draw(t, "at")
				switch rapid.IntRange(0, 2).Draw(t, "dkind") {
				case 0:
					data[i] = gen.Byte().Draw(t, "v")
				case 1:
					data = append(data[:i], data[i+1:]...)
				default:
					junk := rapid.SliceOfN(gen.Byte(), 1, 12).Draw(t, "junk")
					data = append(data[:i], append(junk, data[i:]...)...)
				}
				damaged = true
				if len(data) == 0 {
					break
				}
			}
		}
		r := &tlog.Reader{ByteReader: bytes.NewReader(data), DialectRW: drw}
		if err := r.Initialize(); err != nil {
			t.Fatalf("BROKEN: %v", err)
		}
		calls := 0
		for {
			_, err := safeTlogRead(r)
			calls++
			if _, isPanic := err.(panicErr); isPanic {
				t.Fatalf("tlog reader panicked on %x: %v", data, err)
			}
			if err != nil {
				var re frame.ReadError
				if errors.As(err, &re) {
					if calls > len(data)/9+2 {
						t.Fatalf("tlog reader needs more than %d calls on %d bytes", calls, len(data))
					}
					continue
				}
				break
			}
			if calls > len(data)/9+2 {
				t.Fatalf("tlog reader needs more than %d calls on %d bytes", calls, len(data))
			}
		}
		rec.Case(damaged, evid.Hash(data), "tlog-stream")
	})
	rec.Sample("tlog-stream", "log of 0..6 entries with up to 4 substitutions/deletions/insertions")
}

// TestC20WriterKeepsFrames: the file is timestamp + the frame that was handed over. A log writer with a dialect encodes
// the message of an entry, it does not touch the rest of the frame: an entry whose checksum field is not the one this
// dialect would compute (recorded from a peer with another revision of the message, or never filled in) is stored
// with that checksum, and a reader without a dialect gets exactly that frame back.
func TestC20WriterKeepsFrames(t *testing.T) {
	rec := evid.New(t, "C20", "tlog.Writer with a dialect, 1..12 entries carrying decoded dialect messages in v1 and v2 frames whose checksum field is arbitrary (also 0) and, for unsigned v2 frames, with or without left-over signature fields; the file must be the concatenation of BE64(microseconds) and the reference layout of each frame as handed over (payload = reference encoding for the frame's version, checksum as given); a reader without a dialect returns the same frames; non-trivial = an entry whose checksum differs from the dialect's; distinct by hash of the file")
	rec.Require("checksum-differs-from-the-dialect's", "v1-entry", "v2-entry")
	dpool := pool(t)
	evid.Check(t, rec, evid.N(1500, 6000), func(t *rapid.T) {
		readBufSize = 512
		di := drawDialect(t, dpool)
		n := rapid.IntRange(1, 12).Draw(t, "n")
		var fw recWriter
		w := &tlog.Writer{ByteWriter: &fw, DialectRW: di.rw}
		if err := w.Initialize(); err != nil {
			t.Fatalf("BROKEN: %v", err)
		}
		var want []byte
		var flats []ref.Frame
		var times []time.Time
		var cls []string
		odd := false
		for i := 0; i < n; i++ {
			f, lay, val := validFrame(t, di, gen.FrameOpts{Signed: 1}, nil)
			f.Payload = lay.Encode(val, f.V2)
			f.Checksum = f.ChecksumFor(lay.CRCExtra)
			if rapid.IntRange(0, 2).Draw(t, "own_checksum") > 0 {
				c := uint16(rapid.OneOf(rapid.Just(0), rapid.IntRange(0, 0xFFFF)).Draw(t, "checksum"))
				if c != f.Checksum {
					odd = true
				}
				f.Checksum = c
			}
			lf := gen.ToLib(f)
			switch ff := lf.(type) {
			case *frame.V1Frame:
				ff.Message = val.(message.Message)
				cls = append(cls, "v1-entry")
			case *frame.V2Frame:
				ff.Message = val.(message.Message)
				cls = append(cls, "v2-entry")
			}
			tm := drawTime(t)
			if err := w.Write(&tlog.Entry{Time: tm, Frame: lf}); err != nil {
				t.Fatalf("entry %d (%s, checksum %#04x): Write failed: %v", i, lay.MsgName, f.Checksum, err)
			}
			want = append(want, be64(tm.UnixMicro())...)
			want = append(want, f.Bytes()...)
			flats = append(flats, f)
			times = append(times, tm)
		}
		file := fw.all()
		if !bytes.Equal(file, want) {
			evid.ReplayNote("C20", "TestC20WriterKeepsFrames", fmt.Sprintf("file %x\nwant %x", file, want))
			t.Fatalf("the log file differs from timestamp + frame as handed over:\n got  %x\n want %x", file, want)
		}
		entries, rerr := readLog(file, nil)
		if rerr != io.EOF || len(entries) != n {
			t.Fatalf("a reader without a dialect gets %d of %d entries and ends with %v", len(entries), n, rerr)
		}
		for i, e := range entries {
			g, _, err := gen.FromLib(e.Frame)
			if err != nil || !gen.SameFrame(g, flats[i]) || !e.Time.Equal(times[i].Truncate(time.Microsecond)) {
				t.Fatalf("entry %d read back differently: %v / %s vs %s", i, err, gen.Describe(g), gen.Describe(flats[i]))
			}
		}
		if odd {
			cls = append(cls, "checksum-differs-from-the-dialect's")
		}
		rec.Case(odd, evid.Hash(file), dedupS(cls)...)
		if odd && rec.WantSample("kept") && len(file) < 200 {
			rec.Sample("kept", fmt.Sprintf("%x", file))
		}
	})
}

func dedupS(xs []string) []string {
	seen := map[string]bool{}
	var out []string
	for _, x := range xs {
		if !seen[x] {
			seen[x] = true
			out = append(out, x)
		}
	}
	return out
}
