package wire

import (
	"bytes"
	"errors"
	"testing"

	"github.com/bluenviron/gomavlib/v3/pkg/dialect"
	"github.com/bluenviron/gomavlib/v3/pkg/frame"
	"github.com/bluenviron/gomavlib/v3/pkg/tlog"

	"verifharness/ref"
)

func fuzzSeeds() [][]byte {
	common, _ := dialects(nil)
	hb := ref.Frame{Seq: 1, Sys: 1, Comp: 1, ID: 0, Payload: []byte{0, 0, 0, 0, 6, 8, 0, 0, 3}}
	hb.Checksum = hb.ChecksumFor(common.layouts[0].CRCExtra)
	hb2 := hb
	hb2.V2 = true
	hb2.Checksum = hb2.ChecksumFor(50)
	sg := hb2
	sg.Incompat = 1
	sg.Checksum = sg.ChecksumFor(50)
	sg.Timestamp = 12345678
	sg.Sig = sg.SignatureFor([32]byte{})
	raw := ref.Frame{V2: true, ID: 70000, Payload: []byte{0xFD, 0xFE, 1, 2}, Checksum: 0x1234}
	var all []byte
	for _, f := range []ref.Frame{hb, hb2, sg, raw} {
		all = append(all, f.Bytes()...)
	}
	return [][]byte{hb.Bytes(), hb2.Bytes(), sg.Bytes(), raw.Bytes(), all, {0xFD, 0xFF}, {0xFE, 0x00, 0xFD}, append([]byte{0x55, 0xFE}, hb2.Bytes()...)}
}

// FuzzC05Reader: coverage-guided byte streams through the C05 oracle (progress, span exactness,
// splitting independence, transport-fault handling), with and without dialect.
func FuzzC05Reader(f *testing.F) {
	for _, s := range fuzzSeeds() {
		f.Add(s, uint64(3), byte(0))
		f.Add(s, uint64(0x0102030405060708), byte(1))
	}
	common, _ := dialects(nil)
	f.Fuzz(func(t *testing.T, data []byte, chunkSeed uint64, flags byte) {
		if len(data) > 2048 {
			data = data[:2048]
		}
		sc := &streamCase{data: data}
		if flags&1 != 0 {
			sc.di = common
		}
		if flags&2 != 0 {
			sc.key = &[32]byte{}
		}
		var sizes []int
		x := chunkSeed | 1
		for i := 0; i < 24; i++ {
			x ^= x << 13
			x ^= x >> 7
			x ^= x << 17
			sizes = append(sizes, int(x%37)+1)
		}
		if err := checkStreamSizes(nil, sc, nil, sizes, int(chunkSeed%4096)); err != nil {
			t.Fatalf("stream %x dialect=%v key=%v sizes=%v: %v", data, sc.di != nil, sc.key != nil, sizes, err)
		}
	})
}

// FuzzC20Tlog: coverage-guided logs: no panic, termination, and on logs that the reference can
// split into entries the reader returns exactly those entries.
func FuzzC20Tlog(f *testing.F) {
	for _, s := range fuzzSeeds() {
		f.Add(append(be64(1700000000000000), s...), byte(0))
		f.Add(append(append(be64(-5), s...), append(be64(7), s...)...), byte(1))
	}
	common, _ := dialects(nil)
	f.Fuzz(func(t *testing.T, data []byte, flags byte) {
		if len(data) > 4096 {
			data = data[:4096]
		}
		var drw *dialect.ReadWriter
		if flags&1 != 0 {
			drw = common.rw
		}
		r := &tlog.Reader{ByteReader: bytes.NewReader(data), DialectRW: drw}
		if err := r.Initialize(); err != nil {
			t.Fatalf("BROKEN: %v", err)
		}
		// reference split: entries while ts + a structurally complete frame follow each other
		var want []int64
		rest := data
		for len(rest) >= 8 {
			p, n, err := ref.Parse(rest[8:])
			if err != nil || (p.V2 && p.Incompat&^1 != 0) {
				break
			}
			if drw != nil {
				if l := common.layouts[p.ID]; l != nil {
					if p.Checksum != p.ChecksumFor(l.CRCExtra) {
						break
					}
					if _, derr := l.Decode(p.Payload, p.V2); derr != nil {
						break
					}
				}
			}
			var ts int64
			for i := 0; i < 8; i++ {
				ts = ts<<8 | int64(rest[i])
			}
			want = append(want, ts)
			rest = rest[8+n:]
		}
		calls, got := 0, 0
		for {
			e, err := safeTlogRead(r)
			calls++
			if _, isPanic := err.(panicErr); isPanic {
				t.Fatalf("tlog reader panicked on %x: %v", data, err)
			}
			if calls > len(data)/9+3 {
				t.Fatalf("tlog reader does not terminate on %x", data)
			}
			if err != nil {
				var re frame.ReadError
				if errors.As(err, &re) {
					break // first error ends the comparable prefix
				}
				break
			}
			if got < len(want) {
				if e.Time.UnixMicro() != want[got] {
					t.Fatalf("entry %d: time %d, file holds %d (log %x)", got, e.Time.UnixMicro(), want[got], data)
				}
			} else {
				t.Fatalf("reader returned entry %d but the log holds only %d complete entries before the first defect (log %x)", got, len(want), data)
			}
			got++
		}
		if got != len(want) {
			t.Fatalf("reader returned %d entries, the log holds %d complete entries before the first defect (log %x)", got, len(want), data)
		}
	})
}
