package wire

import (
	"bufio"
	"fmt"
	"sync/atomic"
	"testing"
	"time"

	"bou.ke/monkey"
	"github.com/bluenviron/gomavlib/v3/pkg/frame"
	"pgregory.net/rapid"

	"verifharness/evid"
	"verifharness/ref"
)

// TestC07WriterClock pins the clock seen through time.Now (patched per case, as the repository's own tests do)
// to generated readings, so that the timestamp of an outgoing signed frame is compared with the exact value
// floor((now - 2015-01-01T00:00:00Z) / 10us) instead of a wall-clock bracket: readings a few nanoseconds before
// and after a whole second, a whole 10us tick, and years far from 2015 are all in the alphabet.
func TestC07WriterClock(t *testing.T) {
	rec := evid.New(t, "C07", "time.Now patched to a generated non-decreasing sequence of readings (years 2015..2100, the 48-bit field wraps in 2104; nanosecond offsets concentrated within 100 ns of whole seconds and of whole 10us ticks); the clock standing still or advancing 1..9999 ns per reading; every keyed write of streamwriter.Writer and frame.Writer must carry floor((now-2015-01-01 UTC)/10us) for a reading between its begin and its return (exactly that value when the clock stands still) and never less than the previous frame of the link; non-trivial = a reading within 100 ns of a whole second; distinct by hash of the readings")
	rec.Require("reading-just-below-whole-second", "reading-just-above-whole-second", "reading-just-below-tick", "far-future-year", "clock-moves-while-a-frame-is-written")
	common, _ := dialects(t)
	refDate := time.Date(2015, 1, 1, 0, 0, 0, 0, time.UTC)
	evid.Check(t, rec, evid.N(3000, 20000), func(t *rapid.T) {
		readBufSize = 512
		var fake int64 // nanoseconds since refDate
		// the clock stands still while a frame is written, or (as a real one does) moves on by a few nanoseconds
		// to a few hundred every time it is read
		step := rapid.SampledFrom([]int64{0, 0, 1, 40, 400, 9999}).Draw(t, "clock_advances_per_reading_ns")
		guard := monkey.Patch(time.Now, func() time.Time {
			return refDate.Add(time.Duration(atomic.AddInt64(&fake, step) - step))
		})
		defer guard.Unpatch()
		useStream := rapid.Bool().Draw(t, "streamwriter")
		w := &recWriter{}
		write, err := keyedWriter(w, common, useStream, c07Key, 5)
		if err != nil {
			t.Fatalf("BROKEN: %v", err)
		}
		// start: a whole second somewhere between 2015 and 2087 (the 48-bit field wraps in March 2104), minus/plus a small offset
		sec := rapid.OneOf(rapid.Int64Range(1, 400000000), rapid.Int64Range(400000000, 2300000000)).Draw(t, "start_second")
		cur := sec * int64(time.Second)
		n := rapid.IntRange(2, 12).Draw(t, "n")
		var cls []string
		if sec > 1500000000 {
			cls = append(cls, "far-future-year")
		}
		var prev uint64
		var readings []int64
		for i := 0; i < n; i++ {
			// move forward to an interesting place
			switch rapid.IntRange(0, 5).Draw(t, "move") {
			case 0: // a few ns below the next whole second
				cur = (cur/int64(time.Second)+1)*int64(time.Second) - rapid.Int64Range(1, 100).Draw(t, "below_sec")
				cls = append(cls, "reading-just-below-whole-second")
			case 1: // a few ns above the next whole second
				cur = (cur/int64(time.Second)+1)*int64(time.Second) + rapid.Int64Range(0, 100).Draw(t, "above_sec")
				cls = append(cls, "reading-just-above-whole-second")
			case 2: // a few ns below the next 10us tick
				cur = (cur/10000+1)*10000 - rapid.Int64Range(1, 20).Draw(t, "below_tick")
				cls = append(cls, "reading-just-below-tick")
			case 3: // the same reading again, or a handful of ns later
				cur += rapid.Int64Range(0, 30).Draw(t, "tiny")
			case 4:
				cur += rapid.Int64Range(0, int64(3*time.Second)).Draw(t, "some")
			default:
				cur += rapid.Int64Range(0, int64(400*24*time.Hour)).Draw(t, "far")
			}
			atomic.StoreInt64(&fake, cur)
			readings = append(readings, cur)
			if err := write(heartbeatValue(common)); err != nil {
				t.Fatalf("write: %v", err)
			}
			p, _, perr := ref.Parse(w.calls[len(w.calls)-1])
			if perr != nil {
				t.Fatalf("emitted bytes do not parse: %v", perr)
			}
			want := uint64(cur / 10000)
			after := atomic.LoadInt64(&fake)
			cur = after // the clock does not go back
			if p.Timestamp < want || p.Timestamp > uint64(after/10000) {
				msg := fmt.Sprintf("write %d with the clock at 2015-01-01T00:00:00Z + %d ns (%v) when the write began and %d ns later when it returned (it advances %d ns per reading): signature timestamp %d, but 10us units since 2015-01-01 UTC give %d..%d (off by %d)", i, readings[len(readings)-1], refDate.Add(time.Duration(readings[len(readings)-1])).Format(time.RFC3339Nano), after-readings[len(readings)-1], step, p.Timestamp, want, after/10000, int64(p.Timestamp)-int64(want))
				evid.ReplayNote("C07", "TestC07WriterClock", msg)
				t.Fatalf("%s", msg)
			}
			if p.Timestamp < prev {
				t.Fatalf("timestamp decreased on the link: %d after %d", p.Timestamp, prev)
			}
			prev = p.Timestamp
		}
		var hb []byte
		for _, r := range readings {
			for k := 0; k < 8; k++ {
				hb = append(hb, byte(r>>(8*uint(k))))
			}
		}
		nontrivial := false
		for _, c := range cls {
			if c == "reading-just-below-whole-second" || c == "reading-just-above-whole-second" {
				nontrivial = true
			}
		}
		if step > 0 {
			cls = append(cls, "clock-moves-while-a-frame-is-written")
		}
		rec.Case(nontrivial, evid.Hash(hb, []byte{byte(step), byte(step >> 8)}), cls...)
		if nontrivial && rec.WantSample("clock-readings") {
			rec.Sample("clock-readings", map[string]interface{}{"streamwriter": useStream, "ns_since_2015": readings})
		}
	})
}

// TestC07WindowIgnoresReceiverClock: the accept / too-old decision depends on the timestamps accepted so far and on
// nothing else. Here the receiver's wall clock (time.Now, patched) moves by generated amounts between frames -
// milliseconds, just below and above half a minute, minutes, hours, and backwards - while the history is judged by
// the same model as everywhere else.
func TestC07WindowIgnoresReceiverClock(t *testing.T) {
	rec := evid.New(t, "C07", "window histories (<=25 correctly signed frames, boundary and random timestamps) read one frame at a time while the receiver's wall clock (time.Now patched) jumps by generated amounts between frames (0, milliseconds, 29..31 s, minutes, hours, days, and backwards); every decision must equal the model, which knows nothing about the receiver's clock; non-trivial = a pause of more than 30 s followed by a frame older than the window; distinct by hash of timestamps and pauses")
	rec.Require("stale-frame-after-long-pause", "clock-moved-backwards")
	refDate := time.Date(2026, 1, 1, 0, 0, 0, 0, time.UTC)
	evid.Check(t, rec, evid.N(4000, 20000), func(t *rapid.T) {
		readBufSize = 512
		var fake int64
		guard := monkey.Patch(time.Now, func() time.Time {
			return refDate.Add(time.Duration(atomic.LoadInt64(&fake)))
		})
		defer guard.Unpatch()
		n := rapid.IntRange(2, 25).Draw(t, "n")
		var m windowModel
		var stream []byte
		var lens []int
		var hist []uint64
		var pauses []int64
		for i := 0; i < n; i++ {
			var ts uint64
			switch rapid.IntRange(0, 3).Draw(t, "kind") {
			case 0:
				ts = rapid.SampledFrom(c07Alphabet).Draw(t, "alpha")
			case 1:
				ts = rapid.Uint64Range(0, 1<<48-1).Draw(t, "rnd")
			default:
				d := rapid.OneOf(rapid.Int64Range(-1000003, -999997), rapid.Int64Range(-3, 3), rapid.Int64Range(-5000000, 5000000)).Draw(t, "delta")
				v := int64(m.newest) + d
				if v < 0 {
					v = 0
				}
				if v > 1<<48-1 {
					v = 1<<48 - 1
				}
				ts = uint64(v)
			}
			hist = append(hist, ts)
			m.step(ts)
			b := signedAt(ts, byte(i))
			stream = append(stream, b...)
			lens = append(lens, len(b))
			pauses = append(pauses, rapid.OneOf(
				rapid.Just(int64(0)), rapid.Int64Range(0, int64(50*time.Millisecond)),
				rapid.Int64Range(int64(29*time.Second), int64(31*time.Second)),
				rapid.Int64Range(int64(time.Minute), int64(20*time.Minute)),
				rapid.Int64Range(int64(time.Hour), int64(72*time.Hour)),
				rapid.Int64Range(-int64(2*time.Hour), -1)).Draw(t, "receiver_clock_moves_ns"))
		}
		// one reader, one frame per transport read, the clock moved before each of them
		cr := &chunkReader{data: stream, sizes: lens, failAt: -1}
		rd := &frame.Reader{BufByteReader: bufio.NewReaderSize(cr, 512), InKey: keyOf(&c07Key)}
		if err := rd.Initialize(); err != nil {
			t.Fatalf("BROKEN: %v", err)
		}
		var model windowModel
		longPauseStale, backwards := false, false
		for i, ts := range hist {
			atomic.AddInt64(&fake, pauses[i])
			if pauses[i] < 0 {
				backwards = true
			}
			_, err := safeRead(rd)
			hadNewest, newest := model.has, model.newest
			want := model.step(ts)
			if (err == nil) != want {
				verdict := map[bool]string{true: "accepted", false: "refused"}
				msg := fmt.Sprintf("history %v with the receiver's clock moving by %v ns before each frame: frame %d (timestamp %d) was %s (err=%v) but must be %s; newest accepted so far %d (present=%v). The decision may depend on accepted timestamps only", hist, pauses, i, ts, verdict[err == nil], err, verdict[want], newest, hadNewest)
				evid.ReplayNote("C07", "TestC07WindowIgnoresReceiverClock", msg)
				t.Fatalf("%s", msg)
			}
			if hadNewest && !want && pauses[i] > int64(30*time.Second) {
				longPauseStale = true
			}
		}
		var cls []string
		if longPauseStale {
			cls = append(cls, "stale-frame-after-long-pause")
		}
		if backwards {
			cls = append(cls, "clock-moved-backwards")
		}
		var hb []byte
		for i, ts := range hist {
			for k := 0; k < 6; k++ {
				hb = append(hb, byte(ts>>(8*uint(k))))
			}
			for k := 0; k < 8; k++ {
				hb = append(hb, byte(pauses[i]>>(8*uint(k))))
			}
		}
		rec.Case(longPauseStale, evid.Hash(hb), cls...)
		if longPauseStale && rec.WantSample("history-with-pauses") && len(hist) <= 8 {
			rec.Sample("history-with-pauses", map[string]interface{}{"timestamps": hist, "receiver_clock_moves_ns": pauses})
		}
	})
}
