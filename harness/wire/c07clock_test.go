package wire

import (
	"fmt"
	"sync/atomic"
	"testing"
	"time"

	"bou.ke/monkey"
	"pgregory.net/rapid"

	"verifharness/evid"
	"verifharness/ref"
)

// TestC07WriterClock pins the clock seen through time.Now (patched per case, as the repository's own tests do)
// to generated readings, so that the timestamp of an outgoing signed frame is compared with the exact value
// floor((now - 2015-01-01T00:00:00Z) / 10us) instead of a wall-clock bracket: readings a few nanoseconds before
// and after a whole second, a whole 10us tick, and years far from 2015 are all in the alphabet.
func TestC07WriterClock(t *testing.T) {
	rec := evid.New(t, "C07", "time.Now patched to a generated non-decreasing sequence of readings (years 2015..2100, the 48-bit field wraps in 2104; nanosecond offsets concentrated within 100 ns of whole seconds and of whole 10us ticks); every keyed write of streamwriter.Writer and frame.Writer must carry exactly floor((now-2015-01-01 UTC)/10us) and never less than the previous frame of the link; non-trivial = a reading within 100 ns of a whole second; distinct by hash of the readings")
	rec.Require("reading-just-below-whole-second", "reading-just-above-whole-second", "reading-just-below-tick", "far-future-year")
	common, _ := dialects(t)
	refDate := time.Date(2015, 1, 1, 0, 0, 0, 0, time.UTC)
	evid.Check(t, rec, evid.N(3000, 20000), func(t *rapid.T) {
		readBufSize = 512
		var fake int64 // nanoseconds since refDate
		guard := monkey.Patch(time.Now, func() time.Time {
			return refDate.Add(time.Duration(atomic.LoadInt64(&fake)))
		})
		defer guard.Unpatch()
		useStream := rapid.Bool().Draw(t, "streamwriter")
		w := &recWriter{}
		write, err := keyedWriter(w, common, useStream, c07Key, 5)
		if err != nil {
			t.Fatalf("BROKEN: %v", err)
		}
		// start: a whole second somewhere between 2015 and 2087 (the 48-bit field wraps in March 2104), minus/plus a small offset
		sec := rapid.OneOf(rapid.Int64Range(1, 400000000), rapid.Int64Range(400000000, 2300000000)).Draw(t, "start_second")
		cur := sec * int64(time.Second)
		n := rapid.IntRange(2, 12).Draw(t, "n")
		var cls []string
		if sec > 1500000000 {
			cls = append(cls, "far-future-year")
		}
		var prev uint64
		var readings []int64
		for i := 0; i < n; i++ {
			// move forward to an interesting place
			switch rapid.IntRange(0, 5).Draw(t, "move") {
			case 0: // a few ns below the next whole second
				cur = (cur/int64(time.Second)+1)*int64(time.Second) - rapid.Int64Range(1, 100).Draw(t, "below_sec")
				cls = append(cls, "reading-just-below-whole-second")
			case 1: // a few ns above the next whole second
				cur = (cur/int64(time.Second)+1)*int64(time.Second) + rapid.Int64Range(0, 100).Draw(t, "above_sec")
				cls = append(cls, "reading-just-above-whole-second")
			case 2: // a few ns below the next 10us tick
				cur = (cur/10000+1)*10000 - rapid.Int64Range(1, 20).Draw(t, "below_tick")
				cls = append(cls, "reading-just-below-tick")
			case 3: // the same reading again, or a handful of ns later
				cur += rapid.Int64Range(0, 30).Draw(t, "tiny")
			case 4:
				cur += rapid.Int64Range(0, int64(3*time.Second)).Draw(t, "some")
			default:
				cur += rapid.Int64Range(0, int64(400*24*time.Hour)).Draw(t, "far")
			}
			atomic.StoreInt64(&fake, cur)
			readings = append(readings, cur)
			if err := write(heartbeatValue(common)); err != nil {
				t.Fatalf("write: %v", err)
			}
			p, _, perr := ref.Parse(w.calls[len(w.calls)-1])
			if perr != nil {
				t.Fatalf("emitted bytes do not parse: %v", perr)
			}
			want := uint64(cur / 10000)
			if p.Timestamp != want {
				msg := fmt.Sprintf("write %d with the clock at 2015-01-01T00:00:00Z + %d ns (%v): signature timestamp %d, but 10us units since 2015-01-01 UTC give %d (off by %d)", i, cur, refDate.Add(time.Duration(cur)).Format(time.RFC3339Nano), p.Timestamp, want, int64(p.Timestamp)-int64(want))
				evid.ReplayNote("C07", "TestC07WriterClock", msg)
				t.Fatalf("%s", msg)
			}
			if p.Timestamp < prev {
				t.Fatalf("timestamp decreased on the link: %d after %d", p.Timestamp, prev)
			}
			prev = p.Timestamp
		}
		var hb []byte
		for _, r := range readings {
			for k := 0; k < 8; k++ {
				hb = append(hb, byte(r>>(8*uint(k))))
			}
		}
		nontrivial := false
		for _, c := range cls {
			if c == "reading-just-below-whole-second" || c == "reading-just-above-whole-second" {
				nontrivial = true
			}
		}
		rec.Case(nontrivial, evid.Hash(hb), cls...)
		if nontrivial && rec.WantSample("clock-readings") {
			rec.Sample("clock-readings", map[string]interface{}{"streamwriter": useStream, "ns_since_2015": readings})
		}
	})
}
