package wire

import (
	"bytes"
	"errors"
	"fmt"
	"io"
	"net"
	"os"
	"syscall"
	"testing"

	gomavlib "github.com/bluenviron/gomavlib/v3"
	"github.com/bluenviron/gomavlib/v3/pkg/frame"
	"github.com/bluenviron/gomavlib/v3/pkg/message"
	"github.com/bluenviron/gomavlib/v3/pkg/streamwriter"
	"pgregory.net/rapid"

	"verifharness/evid"
	"verifharness/gen"
	"verifharness/ref"
)

func TestC09Histories(t *testing.T) {
	rec := evid.New(t, "C09", "state-machine histories of 20..700 operations on a message writer (streamwriter.Writer, frame.Writer.WriteMessage, or the same through NewWriter / frame.ReadWriter / NewReadWriter): decoded messages, raw messages with an in-dialect id, and refused writes (nil, id outside the dialect, id>255 on v1) interleaved; the output is parsed by the reference: i-th emitted frame has seq i mod 256, configured ids, version marker, flags, reference checksum, v1 payload = base size; refused writes emit nothing and consume no sequence number; non-trivial = more than 256 emitted frames with >=2 message kinds, or a refused write between two accepted ones; distinct by hash of the emitted stream")
	rec.Require("wraps-256", "refused-between-accepted", "v1", "v2", "signed", "streamwriter", "framewriter", "raw-in-dialect", "id>=65536", "other-writer-form", "raw-v2-payload-ending-in-zero", "forwarded-frames-between-originated-ones", "transport-refused-a-write")
	dpool := pool(t)
	evid.Check(t, rec, evid.N(2500, 8000), func(t *rapid.T) {
		readBufSize = 512
		di := dpool[rapid.SampledFrom([]int{0, 0, 1, 3}).Draw(t, "dialect")]
		v2 := rapid.Bool().Draw(t, "v2")
		sys := byte(rapid.IntRange(1, 255).Draw(t, "sys"))
		comp := gen.Byte().Draw(t, "comp")
		var key *[32]byte
		if v2 && rapid.IntRange(0, 2).Draw(t, "keyed") == 0 {
			k := drawKey(t, "key")
			key = &k
		}
		link := gen.Byte().Draw(t, "link")
		wkind := rapid.SampledFrom([]string{"streamwriter", "streamwriter", "framewriter", "framewriter", "NewWriter", "frame.ReadWriter", "NewReadWriter"}).Draw(t, "writer_kind")
		useStream := wkind == "streamwriter"
		w := &recWriter{}
		var write func(message.Message) error
		var forward func(frame.Frame) error // the same link also carries frames that are merely passed on
		fver := frame.V1
		if v2 {
			fver = frame.V2
		}
		switch {
		case wkind == "NewWriter":
			fw, err := frame.NewWriter(frame.WriterConf{Writer: w, DialectRW: di.rw, OutVersion: fver, OutSystemID: sys, OutComponentID: comp, OutSignatureLinkID: link, OutKey: keyOf(key)}) //nolint:staticcheck
			if err != nil {
				t.Fatalf("BROKEN: %v", err)
			}
			write, forward = fw.WriteMessage, fw.WriteFrame
		case wkind == "frame.ReadWriter":
			rw := &frame.ReadWriter{ByteReadWriter: rwPair{bytes.NewReader(nil), w}, DialectRW: di.rw, OutVersion: fver, OutSystemID: sys, OutComponentID: comp, OutSignatureLinkID: link, OutKey: keyOf(key)}
			if err := rw.Initialize(); err != nil {
				t.Fatalf("BROKEN: %v", err)
			}
			write, forward = rw.WriteMessage, rw.WriteFrame
		case wkind == "NewReadWriter":
			rw, err := frame.NewReadWriter(frame.ReadWriterConf{ReadWriter: rwPair{bytes.NewReader(nil), w}, DialectRW: di.rw, OutVersion: fver, OutSystemID: sys, OutComponentID: comp, OutSignatureLinkID: link, OutKey: keyOf(key)}) //nolint:staticcheck
			if err != nil {
				t.Fatalf("BROKEN: %v", err)
			}
			write, forward = rw.WriteMessage, rw.WriteFrame
		}
		if write != nil {
			// built above
		} else if useStream {
			fw := &frame.Writer{ByteWriter: w, DialectRW: di.rw}
			if rapid.Bool().Draw(t, "framewriter_has_ids_of_its_own") {
				// a frame writer that was configured for originating messages itself (deprecated fields) and is
				// now used under a stream writer: the stream writer's settings describe what it originates
				fw.OutVersion, fw.OutSystemID = frame.V2, byte(rapid.IntRange(1, 255).Draw(t, "fw_sys"))
				fw.OutComponentID = byte(rapid.IntRange(1, 255).Draw(t, "fw_comp")) //nolint:staticcheck
			}
			if err := fw.Initialize(); err != nil {
				t.Fatalf("BROKEN: %v", err)
			}
			sw := &streamwriter.Writer{FrameWriter: fw, Version: streamwriter.V1, SystemID: sys, ComponentID: comp, SignatureLinkID: link, Key: keyOf(key)}
			if v2 {
				sw.Version = streamwriter.V2
			}
			if err := sw.Initialize(); err != nil {
				t.Fatalf("Initialize refused a valid configuration (v2=%v sys=%d key=%v): %v", v2, sys, key != nil, err)
			}
			write, forward = sw.Write, fw.WriteFrame
		} else {
			fw := &frame.Writer{ByteWriter: w, DialectRW: di.rw, OutVersion: frame.V1, OutSystemID: sys, OutComponentID: comp, OutSignatureLinkID: link, OutKey: keyOf(key)}
			if v2 {
				fw.OutVersion = frame.V2
			}
			if err := fw.Initialize(); err != nil {
				t.Fatalf("BROKEN: %v", err)
			}
			write, forward = fw.WriteMessage, fw.WriteFrame
		}
		wantComp := comp
		if comp == 0 {
			wantComp = 1
		}
		long := rapid.IntRange(0, 4).Draw(t, "long") == 0
		nops := rapid.IntRange(20, 60).Draw(t, "nops")
		if long {
			nops = rapid.IntRange(300, 700).Draw(t, "nops_long")
		}
		emitted := 0
		kinds := map[uint32]bool{}
		refusedBetween, pendingRefused, rawUsed, rawZeroEnd := false, false, false, false
		transportErrors := 0
		var expect []struct {
			lay *ref.Layout
			pay []byte
			fwd []byte // a forwarded frame: these bytes, and no sequence number of the link's own
		}
		forwarded := 0
		for i := 0; i < nops; i++ {
			op := rapid.SampledFrom([]string{"msg", "msg", "msg", "msg", "raw", "nil", "outside", "big-id-v1", "forward", "transport-error"}).Draw(t, "op")
			ncalls := len(w.calls)
			switch op {
			case "transport-error":
				// the transport takes nothing of this write and says why: the write is not an accepted one, whatever
				// the reason - no frame went out, so no sequence number is gone
				var id uint32
				for {
					id = di.ids[rapid.IntRange(0, len(di.ids)-1).Draw(t, "te_msgidx")]
					if v2 || id <= 255 {
						break
					}
				}
				terr := rapid.SampledFrom([]error{errors.New("injected transport error"), syscall.ENOBUFS, syscall.EAGAIN, syscall.ECONNREFUSED, syscall.EMSGSIZE,
					&net.OpError{Op: "write", Net: "udp", Err: os.NewSyscallError("sendto", syscall.ENOBUFS)}, &net.OpError{Op: "write", Net: "udp", Err: os.NewSyscallError("sendto", syscall.EPERM)}, io.ErrShortWrite}).Draw(t, "transport_error")
				w.failNext = terr
				err := write(gen.Value(t, di.layouts[id]).(message.Message))
				if w.failNext != nil {
					t.Fatalf("BROKEN: the write did not reach the transport")
				}
				if err == nil {
					t.Fatalf("op %d: the transport sent nothing and returned %q, yet the write reports success: a write that put no frame on the link counts as accepted", i, terr)
				}
				if len(w.calls) != ncalls {
					t.Fatalf("BROKEN: refused transport call recorded")
				}
				transportErrors++
				if emitted > 0 {
					pendingRefused = true
				}
			case "forward":
				ff := gen.RawFrame(t, gen.FrameOpts{})
				if err := forward(gen.ToLib(ff)); err != nil {
					t.Fatalf("op %d: forwarding a well-formed frame failed: %v", i, err)
				}
				if len(w.calls) != ncalls+1 {
					t.Fatalf("op %d: %d transport writes for one forwarded frame", i, len(w.calls)-ncalls)
				}
				expect = append(expect, struct {
					lay *ref.Layout
					pay []byte
					fwd []byte
				}{nil, nil, ff.Bytes()})
				forwarded++
			case "msg", "raw":
				var id uint32
				for {
					id = di.ids[rapid.IntRange(0, len(di.ids)-1).Draw(t, "msgidx")]
					if v2 || id <= 255 {
						break
					}
				}
				lay := di.layouts[id]
				val := gen.Value(t, lay)
				pay := lay.Encode(val, v2)
				var err error
				if op == "raw" {
					rawUsed = true
					// an already encoded message goes out as it was handed over: canonical, or (v2) with the zero
					// bytes a sender is allowed to leave at the end
					if v2 && rapid.Bool().Draw(t, "raw_untruncated") {
						if full := lay.EncodeFull(val, true); len(full) <= 255 {
							pay = full
							if len(pay) > 1 && pay[len(pay)-1] == 0 {
								rawZeroEnd = true
							}
						}
					}
					err = write(&message.MessageRaw{ID: id, Payload: append([]byte(nil), pay...)})
				} else {
					err = write(val.(message.Message))
				}
				if err != nil {
					t.Fatalf("op %d: valid write of %s refused: %v", i, lay.MsgName, err)
				}
				if len(w.calls) != ncalls+1 {
					t.Fatalf("op %d: %d transport writes for one message", i, len(w.calls)-ncalls)
				}
				expect = append(expect, struct {
					lay *ref.Layout
					pay []byte
					fwd []byte
				}{lay, pay, nil})
				if pendingRefused && emitted > 0 {
					refusedBetween = true
				}
				pendingRefused = false
				emitted++
				kinds[id] = true
			default:
				var m message.Message
				switch op {
				case "nil":
					m = nil
				case "outside":
					id := uint32(rapid.IntRange(0, 1<<24-1).Draw(t, "outside_id"))
					for di.layouts[id] != nil {
						id++
					}
					m = &message.MessageRaw{ID: id, Payload: []byte{1}}
				case "big-id-v1":
					if v2 {
						continue
					}
					var big []uint32
					for _, id := range di.ids {
						if id > 255 {
							big = append(big, id)
						}
					}
					id := big[rapid.IntRange(0, len(big)-1).Draw(t, "bigidx")]
					m = gen.Value(t, di.layouts[id]).(message.Message)
				}
				err := func() (err error) {
					defer func() {
						if r := recover(); r != nil {
							err = nil
							t.Fatalf("op %d (%s): write panicked: %v", i, op, r)
						}
					}()
					return write(m)
				}()
				if err == nil {
					t.Fatalf("op %d: write of kind %q was accepted", i, op)
				}
				if len(w.calls) != ncalls {
					t.Fatalf("op %d: refused write (%s) still emitted %d bytes", i, op, len(w.all()))
				}
				if emitted > 0 {
					pendingRefused = true
				}
			}
		}
		// parse the link's byte stream
		if len(w.calls) != emitted+forwarded {
			t.Fatalf("%d frames emitted, %d accepted writes and %d forwarded frames", len(w.calls), emitted, forwarded)
		}
		own := 0 // frames originated on this link so far
		for i, b := range w.calls {
			p, n, err := ref.Parse(b)
			if err != nil || n != len(b) {
				t.Fatalf("emitted frame %d does not parse: %x", i, b)
			}
			e := expect[i]
			if e.fwd != nil {
				if !bytes.Equal(b, e.fwd) {
					evid.ReplayNote("C09", "TestC09Histories", fmt.Sprintf("forwarded frame %d: %x, submitted %x", i, b, e.fwd))
					t.Fatalf("forwarded frame %d went out as %x, it was submitted as %x", i, b, e.fwd)
				}
				continue
			}
			fail := func(format string, a ...interface{}) {
				msg := fmt.Sprintf(format, a...)
				evid.ReplayNote("C09", "TestC09Histories", fmt.Sprintf("frame %d: %x\n%s", i, b, msg))
				t.Fatalf("emitted frame %d (%s) %x: %s", i, e.lay.MsgName, b, msg)
			}
			if p.Seq != byte(own) {
				fail("sequence number %d, the link's %d-th originated frame must carry %d (frames merely forwarded over the same writer do not count)", p.Seq, own, byte(own))
			}
			own++
			if p.V2 != v2 {
				fail("version marker v2=%v, configured v2=%v", p.V2, v2)
			}
			if p.Sys != sys || p.Comp != wantComp {
				fail("sys/comp %d/%d, configured %d/%d", p.Sys, p.Comp, sys, wantComp)
			}
			wantFlag := byte(0)
			if key != nil {
				wantFlag = 1
			}
			if p.Compat != 0 || p.Incompat != wantFlag {
				fail("flags incompat=%#x compat=%#x, want %#x/0", p.Incompat, p.Compat, wantFlag)
			}
			if p.ID != idOf(e.lay) {
				fail("id %d", p.ID)
			}
			if string(p.Payload) != string(e.pay) {
				fail("payload %x, reference encoding %x", p.Payload, e.pay)
			}
			if !v2 && len(p.Payload) != e.lay.BaseSize {
				fail("v1 payload length %d, base size %d", len(p.Payload), e.lay.BaseSize)
			}
			if want := p.ChecksumFor(e.lay.CRCExtra); p.Checksum != want {
				fail("checksum %#04x, want %#04x", p.Checksum, want)
			}
			if key != nil {
				if p.LinkID != link || p.Sig != p.SignatureFor(*key) {
					fail("signature block wrong (link %d want %d)", p.LinkID, link)
				}
			}
		}
		var cls []string
		if emitted > 256 && len(kinds) >= 2 {
			cls = append(cls, "wraps-256")
		}
		if refusedBetween {
			cls = append(cls, "refused-between-accepted")
		}
		nt := len(cls) > 0
		if v2 {
			cls = append(cls, "v2")
		} else {
			cls = append(cls, "v1")
		}
		if key != nil {
			cls = append(cls, "signed")
		}
		switch wkind {
		case "streamwriter", "framewriter":
			cls = append(cls, wkind)
		default:
			cls = append(cls, "other-writer-form")
		}
		if rawZeroEnd {
			cls = append(cls, "raw-v2-payload-ending-in-zero")
		}
		if forwarded > 0 && emitted > 2 {
			cls = append(cls, "forwarded-frames-between-originated-ones")
		}
		if rawUsed {
			cls = append(cls, "raw-in-dialect")
		}
		if transportErrors > 0 {
			cls = append(cls, "transport-refused-a-write")
		}
		for id := range kinds {
			if id >= 65536 {
				cls = append(cls, "id>=65536")
				break
			}
		}
		rec.Case(nt, evid.Hash(w.all()), cls...)
		if nt && rec.WantSample("history") {
			rec.Sample("history", map[string]interface{}{"ops": nops, "emitted": emitted, "v2": v2, "signed": key != nil, "streamwriter": useStream, "refused_between_accepted": refusedBetween})
		}
	})
}

func idOf(l *ref.Layout) uint32 {
	return reflectNew(l).GetID()
}

func reflectNew(l *ref.Layout) message.Message {
	v, _ := l.Decode(make([]byte, l.BaseSize), false)
	return v.(message.Message)
}

// TestC09Initialization: bad configurations are refused, good ones accepted, on both the stream writer and the node.
func TestC09Initialization(t *testing.T) {
	rec := evid.New(t, "C09", "all combinations of version {0,1,2} x system id {0,1,255} x key {nil,set} x component {0,7} on streamwriter.Writer.Initialize and Node.Initialize: refused iff version missing, system id zero, or key with version 1")
	common, _ := dialects(t)
	k := [32]byte{1}
	n := 0
	for _, ver := range []int{0, 1, 2} {
		for _, sys := range []byte{0, 1, 255} {
			for _, keyed := range []bool{false, true} {
				for _, comp := range []byte{0, 7} {
					wantErr := ver == 0 || sys == 0 || (keyed && ver != 2)
					var key *frame.V2Key
					if keyed {
						key = keyOf(&k)
					}
					w := &recWriter{}
					fw := &frame.Writer{ByteWriter: w, DialectRW: common.rw}
					if n%2 == 1 {
						fw.OutVersion, fw.OutSystemID, fw.OutComponentID = frame.V2, 99, 33 //nolint:staticcheck
					}
					if err := fw.Initialize(); err != nil {
						t.Fatalf("BROKEN: %v", err)
					}
					sw := &streamwriter.Writer{FrameWriter: fw, Version: streamwriter.Version(ver), SystemID: sys, ComponentID: comp, Key: key}
					err := sw.Initialize()
					if (err != nil) != wantErr {
						t.Fatalf("streamwriter.Initialize(version=%d sys=%d key=%v): err=%v, want error=%v", ver, sys, keyed, err, wantErr)
					}
					if err == nil {
						if werr := sw.Write(heartbeatValue(common)); werr != nil {
							t.Fatalf("write after a valid initialization failed: %v", werr)
						}
						p, _, _ := ref.Parse(w.all())
						wc := comp
						if wc == 0 {
							wc = 1
						}
						if p.Comp != wc || p.Sys != sys || p.V2 != (ver == 2) || p.Seq != 0 {
							t.Fatalf("first frame after Initialize(version=%d sys=%d comp=%d): %s", ver, sys, comp, gen.Describe(p))
						}
					}
					for _, withDialect := range []bool{true, false} {
						node := &gomavlib.Node{
							Endpoints:   []gomavlib.EndpointConf{gomavlib.EndpointCustom{ReadWriteCloser: newIdleRWC()}},
							OutVersion:  gomavlib.Version(ver),
							OutSystemID: sys, OutComponentID: comp, OutKey: key, HeartbeatDisable: true,
						}
						if withDialect {
							node.Dialect = common.rw.Dialect
						}
						nerr := node.Initialize()
						if (nerr != nil) != wantErr {
							t.Fatalf("Node.Initialize(version=%d sys=%d key=%v, node has a dialect: %v): err=%v, want error=%v", ver, sys, keyed, withDialect, nerr, wantErr)
						}
						if nerr == nil {
							node.Close()
						}
					}
					n++
					rec.Case(true, evid.HashS(fmt.Sprint(ver, sys, keyed, comp)), "init-combination")
				}
			}
		}
	}
	rec.Exhaustive("36 initialization combinations on streamwriter.Writer and Node")
	rec.Sample("init-combination", "version=1 sys=1 key=set -> refused; version=2 sys=255 key=set comp=0 -> accepted, component 1")
}
