package wire

import (
	"testing"
	"time"
	_ "time/tzdata" // zone data embedded: the driver runs the checks with TZ=Asia/Kolkata
)

// TestZZLocalZone records whether the process really runs in a non-UTC zone (it must when started by the driver).
func TestZZLocalZone(t *testing.T) {
	_, off := time.Now().Zone()
	t.Logf("local zone offset: %d s", off)
}
