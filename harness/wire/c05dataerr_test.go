package wire

import (
	"bytes"
	"fmt"
	"io"
	"testing"

	"github.com/bluenviron/gomavlib/v3/pkg/frame"
	"pgregory.net/rapid"

	"verifharness/evid"
	"verifharness/gen"
	"verifharness/ref"
)

// dataErrTransport hands out data in the given pieces; as io.Reader allows, an error may come in the same call as the
// last bytes before it: io.EOF with the final piece, a transient error with a piece in the middle.
type dataErrTransport struct {
	data      []byte
	sizes     []int
	i, pos    int
	left      int
	fired     bool
	transient int // index of the piece that comes together with errTransient (-1: none)
	eofWith   bool
}

func (d *dataErrTransport) Read(p []byte) (int, error) {
	if d.pos >= len(d.data) {
		return 0, io.EOF
	}
	if d.left == 0 {
		d.left = len(d.data) - d.pos
		if d.i < len(d.sizes) && d.sizes[d.i] < d.left {
			d.left = d.sizes[d.i]
		}
	}
	n := d.left
	if n > len(p) {
		n = len(p) // the caller has less room than the piece is long: the rest of the piece comes with the next call
	}
	copy(p, d.data[d.pos:d.pos+n])
	d.pos += n
	d.left -= n
	if d.left > 0 {
		return n, nil
	}
	piece := d.i
	d.i++
	if d.pos >= len(d.data) && d.eofWith {
		return n, io.EOF
	}
	if piece == d.transient {
		d.fired = true
		return n, errTransient
	}
	return n, nil
}

// TestC05DataTogetherWithAnError: a reader given a plain transport (ByteReader) yields every frame of a clean stream
// also when the transport reports an error in the same call as the bytes before it - the end of the file together with
// the last piece, a hiccup together with a piece in the middle - exactly as when the errors come alone.
func TestC05DataTogetherWithAnError(t *testing.T) {
	rec := evid.New(t, "C05", "clean streams of 2..8 valid frames with single non-marker bytes in between, read by a frame.Reader over a plain io.Reader that delivers generated pieces and reports io.EOF in the same call as the last piece and/or a transient error in the same call as a middle piece: the frames yielded are those yielded over a transport whose errors come alone, in order, then io.EOF; the transient error surfaces once as itself; non-trivial = always; distinct by hash of stream and pieces")
	rec.Require("eof-together-with-the-last-bytes", "transient-error-together-with-bytes")
	evid.Check(t, rec, evid.N(3000, 15000), func(t *rapid.T) {
		n := rapid.IntRange(2, 8).Draw(t, "frames")
		var stream []byte
		var want []ref.Frame
		boundary := map[int]bool{}
		for i := 0; i < n; i++ {
			f := gen.RawFrame(t, gen.FrameOpts{Signed: 1})
			want = append(want, f)
			stream = append(stream, f.Bytes()...)
			boundary[len(stream)] = true
			if rapid.Bool().Draw(t, "junk_between") {
				stream = append(stream, byte(rapid.IntRange(0, 0xFC).Draw(t, "junk")))
				boundary[len(stream)] = true
			}
		}
		sizes := rapid.SliceOfN(rapid.OneOf(rapid.IntRange(1, 30), rapid.IntRange(30, 600)), 1, 20).Draw(t, "pieces")
		eofWith := rapid.Bool().Draw(t, "eof_with_last_piece")
		// a transient error comes with a piece that ends where a frame ends (an error in the middle of a frame costs
		// that frame; that is not what this is about): one piece is cut to end at a boundary and carries the error
		transient := -1
		if rapid.Bool().Draw(t, "transient_with_a_piece") || !eofWith {
			off := 0
			for i, sz := range sizes {
				if off+sz >= len(stream) {
					break
				}
				// shorten piece i to the nearest boundary inside it, if there is one
				for e := off + sz; e > off; e-- {
					if boundary[e] && e < len(stream) {
						if rapid.IntRange(0, 2).Draw(t, "carry_error_here") > 0 || transient < 0 {
							sizes[i] = e - off
							transient = i
						}
						break
					}
				}
				if transient == i {
					break
				}
				off += sizes[i]
			}
		}
		tr := &dataErrTransport{data: stream, sizes: sizes, transient: transient, eofWith: eofWith}
		rd := &frame.Reader{ByteReader: tr}
		if err := rd.Initialize(); err != nil {
			t.Fatalf("BROKEN: %v", err)
		}
		var got []ref.Frame
		sawTransient := 0
		fail := func(format string, a ...interface{}) {
			msg := fmt.Sprintf(format, a...)
			evid.ReplayNote("C05", "TestC05DataTogetherWithAnError", fmt.Sprintf("stream %x pieces %v eofWithLast=%v transientWithPiece=%d\n%s", stream, sizes, eofWith, transient, msg))
			t.Fatalf("stream of %d valid frames (%d bytes) in pieces %v, io.EOF in the call of the last piece: %v, transient error in the call of piece %d: %s", n, len(stream), sizes, eofWith, transient, msg)
		}
		for calls := 0; ; calls++ {
			if calls > len(stream)+10 {
				fail("the reader does not come to an end")
			}
			fr, err := safeRead(rd)
			if err == nil {
				g, _, ferr := gen.FromLib(fr)
				if ferr != nil {
					fail("unreadable result: %v", ferr)
				}
				got = append(got, g)
				continue
			}
			var re frame.ReadError
			if asReadError(err, &re) {
				continue
			}
			if err == errTransient {
				sawTransient++
				continue
			}
			if err == io.EOF {
				break
			}
			fail("unexpected error %v", err)
		}
		if len(got) != len(want) {
			fail("%d of the %d frames were yielded before the end of the stream was reported (bytes that arrive in the same call as an error are part of the stream)", len(got), len(want))
		}
		for i := range want {
			if !bytes.Equal(got[i].Bytes(), want[i].Bytes()) {
				fail("frame %d yielded as %x, the stream holds %x", i, got[i].Bytes(), want[i].Bytes())
			}
		}
		var cls []string
		if eofWith {
			cls = append(cls, "eof-together-with-the-last-bytes")
		}
		if tr.fired {
			if sawTransient != 1 {
				fail("the transport reported its transient error once (together with piece %d); the reader returned it %d times", transient, sawTransient)
			}
			cls = append(cls, "transient-error-together-with-bytes")
		}
		rec.Case(true, evid.Hash(stream, []byte(fmt.Sprint(sizes, eofWith, transient))), cls...)
		if rec.WantSample("dataerr") {
			rec.Sample("dataerr", map[string]interface{}{"frames": n, "pieces": sizes, "eof_with_last": eofWith, "transient_piece": transient})
		}
	})
}
