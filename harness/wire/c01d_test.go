package wire

import (
	"bytes"
	"fmt"
	"io"
	"testing"

	"github.com/bluenviron/gomavlib/v3/pkg/frame"
	"github.com/bluenviron/gomavlib/v3/pkg/message"
	"pgregory.net/rapid"

	"verifharness/evid"
	"verifharness/gen"
	"verifharness/ref"
)

// TestC01DialectRoundTrip: frames holding decoded dialect messages: the writer must emit the
// reference layout around the reference encoding of the message, the reader must give back a frame
// equal field for field (message in canonical form).
func TestC01DialectRoundTrip(t *testing.T) {
	rec := evid.New(t, "C01", "frames whose message is a decoded dialect message (generated values of every type of common / ardupilotmega / test / a big-id user dialect): bytes handed to the ByteWriter == reference header ++ reference encoding ++ checksum ++ signature block; reading them back yields the same header fields, signature block and the canonical message; non-trivial = every case; distinct by hash of the bytes")
	rec.Require("v1", "v2", "signed", "id>=65536")
	dpool := pool(t)
	evid.Check(t, rec, evid.N(40000, 200000), func(t *rapid.T) {
		drawBufSize(t)
		di := drawDialect(t, dpool)
		f, lay, val := validFrame(t, di, gen.FrameOpts{}, nil)
		f.Payload = lay.Encode(val, f.V2)
		f.Checksum = f.ChecksumFor(lay.CRCExtra)
		lf := gen.ToLib(f)
		switch ff := lf.(type) {
		case *frame.V1Frame:
			ff.Message = val.(message.Message)
		case *frame.V2Frame:
			ff.Message = val.(message.Message)
		}
		w, err := writeOne(lf, di.rw)
		if err != nil {
			t.Fatalf("write of %s (%s) failed: %v", gen.Describe(f), lay.MsgName, err)
		}
		want := f.Bytes()
		if len(w.calls) != 1 || !bytes.Equal(w.calls[0], want) {
			evid.ReplayNote("C01", "TestC01DialectRoundTrip", fmt.Sprintf("%s %+v\n got %x\nwant %x", lay.MsgName, val, w.all(), want))
			t.Fatalf("%s %+v: emitted bytes differ from the spec layout:\n got  %x\n want %x", lay.MsgName, val, w.all(), want)
		}
		res, terr, herr := readAll(&chunkReader{data: want, failAt: -1}, di.rw, nil, len(want)+2)
		if herr != nil || terr != io.EOF || len(res) != 1 || res[0].err != nil {
			t.Fatalf("%s: reading back %x: results=%d err=%v harness=%v end=%v", lay.MsgName, want, len(res), firstErr(res), herr, terr)
		}
		g, m, err := gen.FromLib(res[0].fr)
		if err != nil || m == nil {
			t.Fatalf("%s: frame read back is malformed or raw: %v", lay.MsgName, err)
		}
		canon := lay.Canonical(val, f.V2)
		if !ref.EqualMsg(m, canon) {
			t.Fatalf("%s: message read back %+v, canonical form of what was written %+v", lay.MsgName, m, canon)
		}
		// the frame read back carries the checksum of the canonical re-encoding
		wf := f
		wf.Payload = lay.Encode(canon, f.V2)
		wf.Checksum = wf.ChecksumFor(lay.CRCExtra)
		g.Payload, wf.Payload = nil, nil
		if !gen.SameFrame(g, wf) {
			t.Fatalf("%s: header fields read back %s, written %s", lay.MsgName, gen.Describe(g), gen.Describe(wf))
		}
		cls := []string{"v1"}
		if f.V2 {
			cls = []string{"v2"}
		}
		if f.Signed() {
			cls = append(cls, "signed")
		}
		if f.ID >= 65536 {
			cls = append(cls, "id>=65536")
		}
		rec.Case(true, evid.Hash(want), cls...)
		if rec.WantSample("dialect-frame") && len(want) < 80 {
			rec.Sample("dialect-frame", map[string]interface{}{"message": lay.MsgName, "value": fmt.Sprintf("%+v", val), "bytes": fmt.Sprintf("%x", want)})
		}
	})
}
