package wire

import (
	"bytes"
	"fmt"
	"io"
	"testing"

	"github.com/bluenviron/gomavlib/v3/pkg/dialect"
	"github.com/bluenviron/gomavlib/v3/pkg/frame"
	"github.com/bluenviron/gomavlib/v3/pkg/message"
	"pgregory.net/rapid"

	"verifharness/evid"
	"verifharness/gen"
	"verifharness/ref"
)

// writeOne writes a frame through a fresh frame.Writer and returns the recorded calls.
func writeOne(fr frame.Frame, drw *dialect.ReadWriter) (w *recWriter, err error) {
	return writeOneKeyed(fr, drw, nil)
}

// writeOneKeyed: the forwarding writer belongs to an endpoint that signs what it originates (its own key,
// ids and link id are configured); a frame passed to Write is forwarded, not originated.
func writeOneKeyed(fr frame.Frame, drw *dialect.ReadWriter, own *[32]byte) (w *recWriter, err error) {
	w = &recWriter{}
	fw := &frame.Writer{ByteWriter: w, DialectRW: drw}
	if own != nil {
		fw.OutVersion, fw.OutSystemID, fw.OutComponentID, fw.OutSignatureLinkID, fw.OutKey = frame.V2, 201, 7, 9, keyOf(own)
	}
	if err = fw.Initialize(); err != nil {
		return w, fmt.Errorf("BROKEN: writer init: %v", err)
	}
	defer func() {
		if r := recover(); r != nil {
			err = panicErr{r}
		}
	}()
	err = fw.Write(fr)
	return w, err
}

// checkRoundTrip is the C01 oracle for one well-formed flat frame without dialect.
func checkRawRoundTrip(f ref.Frame, drw *dialect.ReadWriter) error {
	return checkRawRoundTripObj(f, drw, false)
}

// checkRawRoundTripObj: with staleSig the library object of an unsigned v2 frame carries left-over
// signature fields (as a frame has whose signed flag was cleared, or that went through FixFrame on a keyed
// node): the layout is governed by the flag, so the bytes must still be the unsigned layout.
func checkRawRoundTripObj(f ref.Frame, drw *dialect.ReadWriter, staleSig bool) error {
	want := f.Bytes()
	lf := gen.ToLib(f)
	if v2, ok := lf.(*frame.V2Frame); ok && staleSig && !f.Signed() {
		v2.Signature = &frame.V2Signature{1, 2, 3, 4, 5, 6}
		v2.SignatureLinkID = 9
		v2.SignatureTimestamp = 123456
	}
	w, err := writeOne(lf, drw)
	if err != nil {
		return fmt.Errorf("write of a well-formed frame failed: %v", err)
	}
	if len(w.calls) != 1 {
		return fmt.Errorf("writer issued %d transport writes for one frame", len(w.calls))
	}
	if !bytes.Equal(w.calls[0], want) {
		return fmt.Errorf("layout differs from the spec:\n got  %x\n want %x", w.calls[0], want)
	}
	if f.V2 && f.Incompat&^1 != 0 {
		return nil // unknown incompat flags: writer layout only (a reader must discard them)
	}
	res, terr, herr := readAll(&chunkReader{data: want, failAt: -1}, drw, nil, len(want)+2)
	if herr != nil {
		return herr
	}
	if terr != io.EOF {
		return fmt.Errorf("reader ended with %v, want io.EOF", terr)
	}
	if len(res) != 1 || res[0].err != nil {
		return fmt.Errorf("reader returned %d results (first err %v), want exactly one frame", len(res), firstErr(res))
	}
	if res[0].start != 0 || res[0].end != len(want) {
		return fmt.Errorf("reader consumed [%d,%d) of %d bytes", res[0].start, res[0].end, len(want))
	}
	g, m, err := gen.FromLib(res[0].fr)
	if err != nil {
		return fmt.Errorf("frame read back is malformed: %v", err)
	}
	if m != nil {
		return fmt.Errorf("frame read back has a decoded message although raw was expected")
	}
	if !gen.SameFrame(f, g) {
		return fmt.Errorf("frame read back differs:\n got  %s\n want %s", gen.Describe(g), gen.Describe(f))
	}
	// the accessor methods of the frame interface say what the fields say
	fr := res[0].fr
	if fr.GetSystemID() != f.Sys || fr.GetComponentID() != f.Comp || fr.GetSequenceNumber() != f.Seq || fr.GetChecksum() != f.Checksum {
		return fmt.Errorf("accessors of the frame read back: system %d component %d sequence %d checksum %#04x, the frame has %d/%d/%d/%#04x", fr.GetSystemID(), fr.GetComponentID(), fr.GetSequenceNumber(), fr.GetChecksum(), f.Sys, f.Comp, f.Seq, f.Checksum)
	}
	if raw := rawOf(fr); raw == nil || raw.ID != f.ID || !bytes.Equal(raw.Payload, f.Payload) {
		return fmt.Errorf("GetMessage() of the frame read back is not the raw message (id %d, payload %x)", f.ID, f.Payload)
	}
	for _, extra := range []byte{0, f.Seq, 0xFF} {
		if got, want := fr.GenerateChecksum(extra), f.ChecksumFor(extra); got != want {
			return fmt.Errorf("GenerateChecksum(%d) = %#04x, X.25 over the frame with that CRC_EXTRA is %#04x", extra, got, want)
		}
	}
	if v2, ok := fr.(*frame.V2Frame); ok && v2.IsSigned() != f.Signed() {
		return fmt.Errorf("IsSigned() = %v, the signed flag is %v", v2.IsSigned(), f.Signed())
	}
	return nil
}

func firstErr(res []result) error {
	for _, r := range res {
		if r.err != nil {
			return r.err
		}
	}
	return nil
}

func TestC01RawRoundTrip(t *testing.T) {
	rec := evid.New(t, "C01", "rapid-generated flat frames (version, every header byte, id, payload 0..255, checksum, signature block) written by frame.Writer and compared with the reference serializer, then read back; non-trivial = payload non-empty or signed or a non-zero header byte; distinct by hash of the frame bytes")
	rec.Require("v1", "v2-unsigned", "v2-signed", "len255", "len0", "id>=65536", "unsigned-with-leftover-signature-fields")
	_, ardu := dialects(t)
	evid.Check(t, rec, evid.N(150000, 600000), func(t *rapid.T) {
		readBufSize = 512
		f := gen.RawFrame(t, gen.FrameOpts{AnyFlags: rapid.IntRange(0, 9).Draw(t, "anyflags") == 0})
		// with a dialect configured, ids outside the dialect stay raw: pick the configuration
		var drw *dialect.ReadWriter
		withDialect := rapid.Bool().Draw(t, "dialect")
		if withDialect {
			if _, in := ardu.layouts[f.ID]; in {
				withDialect = false
			} else {
				drw = ardu.rw
			}
		}
		stale := f.V2 && !f.Signed() && rapid.IntRange(0, 3).Draw(t, "stale_sig_fields") == 0
		if err := checkRawRoundTripObj(f, drw, stale); err != nil {
			evid.ReplayNote("C01", "TestC01RawRoundTrip", gen.Describe(f)+"\n"+err.Error())
			t.Fatalf("%s\n%v", gen.Describe(f), err)
		}
		cls := []string{"v1"}
		if f.V2 {
			cls = []string{"v2-unsigned"}
			if f.Signed() {
				cls = []string{"v2-signed"}
			}
		}
		if len(f.Payload) == 255 {
			cls = append(cls, "len255")
		}
		if len(f.Payload) == 0 {
			cls = append(cls, "len0")
		}
		if f.ID >= 65536 {
			cls = append(cls, "id>=65536")
		}
		if withDialect {
			cls = append(cls, "dialect-configured-id-outside")
		}
		if stale {
			cls = append(cls, "unsigned-with-leftover-signature-fields")
		}
		b := f.Bytes()
		nt := len(f.Payload) > 0 || f.Signed() || f.Seq != 0 || f.Sys != 0 || f.Comp != 0
		rec.Case(nt, evid.Hash(b), cls...)
		if rec.WantSample(cls[0]) {
			rec.Sample(cls[0], gen.Describe(f))
		}
	})
}

// TestC01Enumerations covers the finite sub-spaces completely.
func TestC01Enumerations(t *testing.T) {
	rec := evid.New(t, "C01", "complete enumerations: every value of each header byte, every payload length, every v1 id, every v2 id (thorough; stride in quick), timestamps 2^k and 2^k-1")
	fail := func(f ref.Frame, err error) {
		evid.ReplayNote("C01", "TestC01Enumerations", gen.Describe(f)+"\n"+err.Error())
		t.Fatalf("%s\n%v", gen.Describe(f), err)
	}
	base := func(v2, signed bool) ref.Frame {
		f := ref.Frame{V2: v2, Seq: 0x11, Sys: 0x22, Comp: 0x33, ID: 0x44, Payload: []byte{1, 2, 3, 0xFD, 0xFE}, Checksum: 0xA55A}
		if v2 {
			f.Compat = 0x55
			f.ID = 0x445566
		}
		if signed {
			f.Incompat = 1
			f.LinkID = 0x77
			f.Timestamp = 0x0102030405060
			f.Sig = [6]byte{9, 8, 7, 6, 5, 4}
		}
		return f
	}
	variants := []struct{ v2, signed bool }{{false, false}, {true, false}, {true, true}}
	n := int64(0)
	for _, vr := range variants {
		for b := 0; b < 256; b++ {
			for field := 0; field < 12; field++ {
				f := base(vr.v2, vr.signed)
				switch field {
				case 0:
					f.Seq = byte(b)
				case 1:
					f.Sys = byte(b)
				case 2:
					f.Comp = byte(b)
				case 3:
					f.Checksum = uint16(b)
				case 4:
					f.Checksum = uint16(b) << 8
				case 5:
					if !vr.v2 {
						continue
					}
					f.Compat = byte(b)
				case 6:
					if !vr.signed {
						continue
					}
					f.LinkID = byte(b)
				case 7:
					if !vr.signed {
						continue
					}
					f.Sig[b%6] = byte(b)
				case 8:
					f.Payload = bytes.Repeat([]byte{byte(b)}, 3)
				case 9: // payload length b with a recognisable ramp
					f.Payload = make([]byte, b)
					for i := range f.Payload {
						f.Payload[i] = byte(i + 1)
					}
				case 10: // payload length b, all zero (no truncation at frame level)
					f.Payload = make([]byte, b)
				case 11:
					if vr.v2 {
						continue
					}
					f.ID = uint32(b)
				}
				if err := checkRawRoundTrip(f, nil); err != nil {
					fail(f, err)
				}
				n++
				rec.Case(true, evid.Hash(f.Bytes()), "header-byte-enum")
			}
		}
		rec.Sample("header-byte-enum", gen.Describe(base(vr.v2, vr.signed)))
	}
	rec.Exhaustive("each of seq/sys/comp/compat/link id/checksum lo/hi byte over 0..255 with the others fixed, per {v1,v2,v2 signed}")
	rec.Exhaustive("every payload length 0..255 (ramp and all-zero contents), per {v1,v2,v2 signed}")
	rec.Exhaustive("every v1 message id 0..255")
	// timestamps
	for k := 0; k <= 48; k++ {
		for _, ts := range []uint64{(uint64(1) << uint(k)) - 1, (uint64(1) << uint(k)) & (1<<48 - 1)} {
			f := base(true, true)
			f.Timestamp = ts
			if err := checkRawRoundTrip(f, nil); err != nil {
				fail(f, err)
			}
			rec.Case(true, evid.Hash(f.Bytes()), "timestamp-enum")
		}
	}
	rec.Exhaustive("signature timestamps 2^k-1 and 2^k for k=0..48")
	// v2 ids
	stride := uint32(1)
	if !evid.Thorough() {
		stride = 251 // co-prime stride in quick; boundaries added below
	}
	shard, shards := evid.Shard()
	ids := 0
	check := func(id uint32, signed bool) {
		f := base(true, signed)
		f.ID = id
		f.Payload = []byte{byte(id), byte(id >> 8), byte(id >> 16)}
		if err := checkRawRoundTrip(f, nil); err != nil {
			fail(f, err)
		}
		ids++
	}
	for id := uint32(shard) * stride; id < 1<<24; id += stride * uint32(shards) {
		check(id, id&1 == 1)
	}
	for k := uint(0); k < 24; k++ {
		for _, d := range []int64{-1, 0, 1} {
			id := int64(1)<<k + d
			if id >= 0 && id < 1<<24 {
				check(uint32(id), false)
			}
		}
	}
	rec.Evals(int64(ids))
	rec.Class("v2-id-enum", int64(ids))
	if stride == 1 {
		rec.Exhaustive("all 2^24 v2 message ids (split across shards)")
	} else {
		rec.Note("quick tier: v2 ids with stride 251 plus 2^k-1,2^k,2^k+1")
	}
	_ = n
}

// TestC01Unrepresentable: frames the chosen version cannot carry are refused, nothing is emitted.
func TestC01Unrepresentable(t *testing.T) {
	rec := evid.New(t, "C01", "frames a version cannot represent (v1 id>255; v2 id>=2^24; payload longer than 255 bytes): Write must return an error and hand zero bytes to the ByteWriter; distinct by (class,id,len)")
	rec.Require("v1-id>255", "v2-id>=2^24", "payload>255")
	common, _ := dialects(t)
	evid.Check(t, rec, evid.N(20000, 100000), func(t *rapid.T) {
		readBufSize = 512
		f := gen.RawFrame(t, gen.FrameOpts{})
		kind := rapid.SampledFrom([]string{"v1-id>255", "v2-id>=2^24", "payload>255"}).Draw(t, "kind")
		switch kind {
		case "v1-id>255":
			f.V2, f.Incompat, f.Compat = false, 0, 0
			f.ID = rapid.OneOf(rapid.SampledFrom([]uint32{256, 257, 511, 512, 65535, 65536, 1 << 24, 1<<32 - 1}), rapid.Uint32Range(256, 1<<32-1), gen.UnrepresentableV1ID()).Draw(t, "bigid")
		case "v2-id>=2^24":
			if !f.V2 {
				f.V2 = true
			}
			f.ID = rapid.OneOf(rapid.SampledFrom([]uint32{1 << 24, 1<<24 + 1, 1<<24 + 255, 1 << 25, 1<<32 - 1, 1 << 31}), rapid.Uint32Range(1<<24, 1<<32-1), gen.UnrepresentableV2ID()).Draw(t, "bigid")
		case "payload>255":
			n := rapid.OneOf(rapid.SampledFrom([]int{256, 257, 300, 511, 512, 513, 600, 1000, 70000}), rapid.IntRange(256, 2000)).Draw(t, "biglen")
			f.Payload = make([]byte, n)
			for i := range f.Payload {
				f.Payload[i] = byte(i*7 + 1)
			}
		}
		var drw *dialect.ReadWriter
		if rapid.Bool().Draw(t, "dialect") {
			drw = common.rw
		}
		w, err := writeOne(gen.ToLib(f), drw)
		desc := fmt.Sprintf("%s: v2=%v id=%d payloadlen=%d", kind, f.V2, f.ID, len(f.Payload))
		if _, isPanic := err.(panicErr); isPanic {
			evid.ReplayNote("C01", "TestC01Unrepresentable", desc+"\n"+err.Error())
			t.Fatalf("%s: Write panicked: %v", desc, err)
		}
		if err == nil {
			evid.ReplayNote("C01", "TestC01Unrepresentable", desc+"\nno error; emitted "+fmt.Sprintf("%x", w.all()))
			t.Fatalf("%s: Write accepted an unrepresentable frame and emitted %d bytes: %x", desc, len(w.all()), head(w.all(), 24))
		}
		if len(w.all()) != 0 {
			t.Fatalf("%s: Write returned %v but %d bytes reached the ByteWriter", desc, err, len(w.all()))
		}
		rec.Case(true, evid.HashS(kind, fmt.Sprint(f.V2, f.ID, len(f.Payload))), kind)
		rec.Sample(kind, desc)
	})
	// decoded message on a v1 frame with id > 255 (dialect present): same rule
	for _, m := range common.rw.Dialect.Messages {
		if m.GetID() <= 255 {
			continue
		}
		w, err := writeOne(&frame.V1Frame{Message: m}, common.rw)
		if err == nil || len(w.all()) != 0 {
			t.Fatalf("v1 frame with decoded %T (id %d): err=%v, %d bytes emitted", m, m.GetID(), err, len(w.all()))
		}
		rec.Case(true, evid.HashS("v1-decoded", fmt.Sprint(m.GetID())), "v1-id>255", "v1-decoded-id>255")
	}
	var _ message.Message
}

func head(b []byte, n int) []byte {
	if len(b) > n {
		return b[:n]
	}
	return b
}

var _ = io.EOF

// TestC01StreamRoundTrip: several frames written through one writer into one stream and read back through
// one reader (whose 512-byte window is refilled while frames are being parsed), in generated chunkings.
func TestC01StreamRoundTrip(t *testing.T) {
	rec := evid.New(t, "C01", "2..12 generated frames (biased to long payloads) written by one frame.Writer into one byte stream == concatenation of the reference layouts; one frame.Reader reads the stream back in generated chunkings and must return each frame equal field for field; non-trivial = stream longer than the reader's 512-byte window; distinct by hash of the stream")
	rec.Require("longer-than-window", "reader-holding-the-key-first-timestamp-below-the-window-length", "reader-holding-the-key-ordinary-timestamps")
	evid.Check(t, rec, evid.N(15000, 80000), func(t *rapid.T) {
		drawBufSize(t)
		n := rapid.IntRange(2, 12).Draw(t, "n")
		// one case in three: every frame is signed with one key, stamped in non-decreasing order from a start that may
		// lie in the first ten seconds of the 48-bit range, and the reader holds that key
		var key *frame.V2Key
		var refKey [32]byte
		ts := uint64(0)
		keyedCls := ""
		if rapid.IntRange(0, 2).Draw(t, "reader_holds_key") == 0 {
			copy(refKey[:], gen.Bytes(t, 32, "key"))
			key = frame.NewV2Key(refKey[:])
			if rapid.Bool().Draw(t, "small_start") {
				ts = uint64(rapid.IntRange(1, 999999).Draw(t, "ts_start_small"))
				keyedCls = "reader-holding-the-key-first-timestamp-below-the-window-length"
			} else {
				ts = gen.Timestamp48().Draw(t, "ts_start")
				keyedCls = "reader-holding-the-key-ordinary-timestamps"
			}
		}
		w := &recWriter{}
		fw := &frame.Writer{ByteWriter: w}
		if err := fw.Initialize(); err != nil {
			t.Fatalf("BROKEN: %v", err)
		}
		var frames []ref.Frame
		var want []byte
		for i := 0; i < n; i++ {
			o := gen.FrameOpts{}
			if key != nil {
				o = gen.FrameOpts{Version: 2, Signed: 2}
			}
			f := gen.RawFrame(t, o)
			if rapid.Bool().Draw(t, "long") {
				f.Payload = gen.Bytes(t, rapid.IntRange(200, 255).Draw(t, "plen_long"), "payload_long")
			}
			if key != nil && i > 0 && rapid.IntRange(0, 4).Draw(t, "same_frame_again") == 0 {
				// the frame just written goes out once more, byte for byte (same timestamp, same signature): a
				// reader holding the key reads every copy back
				f = frames[i-1]
			} else if key != nil {
				if i > 0 {
					ts += uint64(rapid.IntRange(0, 2500000).Draw(t, "ts_step"))
				}
				if ts >= 1<<48 {
					ts = 1<<48 - 1
				}
				f.Timestamp = ts
				f.Sig = f.SignatureFor(refKey)
			}
			if err := fw.Write(gen.ToLib(f)); err != nil {
				t.Fatalf("write %d failed: %v", i, err)
			}
			frames = append(frames, f)
			want = append(want, f.Bytes()...)
		}
		if !bytes.Equal(w.all(), want) {
			t.Fatalf("stream differs from the concatenated reference layouts")
		}
		sizes := rapid.SliceOfN(rapid.OneOf(rapid.IntRange(1, 40), rapid.IntRange(100, 700)), 0, 30).Draw(t, "chunks")
		res, terr, herr := readAll(&chunkReader{data: want, sizes: sizes, failAt: -1}, nil, key, len(want)+2)
		if herr != nil || terr != io.EOF {
			t.Fatalf("reading back: %v / %v", herr, terr)
		}
		if len(res) != n {
			t.Fatalf("%d frames written, %d results read back (chunks %v)", n, len(res), sizes)
		}
		for i, r := range res {
			if r.err != nil {
				if key != nil {
					evid.ReplayNote("C01", "TestC01StreamRoundTrip", fmt.Sprintf("reader holding the key, frames stamped in non-decreasing order from %d: frame %d (timestamp %d) read back as error %v", frames[0].Timestamp, i, frames[i].Timestamp, r.err))
				}
				t.Fatalf("frame %d (timestamp %d, first %d, reader holds the key: %v) read back as error %v", i, frames[i].Timestamp, frames[0].Timestamp, key != nil, r.err)
			}
			g, _, err := gen.FromLib(r.fr)
			if err != nil || !gen.SameFrame(g, frames[i]) {
				evid.ReplayNote("C01", "TestC01StreamRoundTrip", fmt.Sprintf("stream %x chunks %v frame %d: got %s want %s", want, sizes, i, gen.Describe(g), gen.Describe(frames[i])))
				t.Fatalf("frame %d of %d (stream of %d bytes, chunks %v) read back differently:\n got  %s\n want %s", i, n, len(want), sizes, gen.Describe(g), gen.Describe(frames[i]))
			}
		}
		var cls []string
		if len(want) > 512 {
			cls = append(cls, "longer-than-window")
		}
		if keyedCls != "" {
			cls = append(cls, keyedCls)
		}
		rec.Case(len(want) > 512, evid.Hash(want, []byte(fmt.Sprint(sizes))), cls...)
		if len(want) > 512 && rec.WantSample("stream") {
			rec.Sample("stream", map[string]interface{}{"frames": n, "bytes": len(want), "chunks": sizes})
		}
	})
}
