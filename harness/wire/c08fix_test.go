package wire

import (
	"fmt"
	"io"
	"sync"
	"testing"

	gomavlib "github.com/bluenviron/gomavlib/v3"
	"github.com/bluenviron/gomavlib/v3/pkg/frame"
	"github.com/bluenviron/gomavlib/v3/pkg/message"
	"pgregory.net/rapid"

	"verifharness/evid"
	"verifharness/gen"
	"verifharness/ref"
)

// idleRWC blocks reads until closed and swallows writes.
type idleRWC struct {
	once sync.Once
	done chan struct{}
}

func newIdleRWC() *idleRWC { return &idleRWC{done: make(chan struct{})} }

func (c *idleRWC) Read(p []byte) (int, error) {
	<-c.done
	return 0, io.EOF
}
func (c *idleRWC) Write(p []byte) (int, error) { return len(p), nil }
func (c *idleRWC) Close() error {
	c.once.Do(func() { close(c.done) })
	return nil
}

func TestC08FixFrame(t *testing.T) {
	fixFrameProperty(t, "C08", "TestC08FixFrame", []string{"message", "message", "message", "identity", "sig-fields", "header-after-forwarding", "fix-a-copy"}, evid.N(25000, 100000))
}

// TestC06FixFrameSigns is the signing half of the same scenario under C06: whatever was edited or left alone,
// a frame passed through FixFrame on a node with an outgoing key verifies under that key at the next hop.
func TestC06FixFrameSigns(t *testing.T) {
	fixFrameProperty(t, "C06", "TestC06FixFrameSigns", []string{"message", "identity", "sig-fields", "header-after-forwarding", "fix-a-copy"}, evid.N(6000, 30000))
}

func fixFrameProperty(t *testing.T, pid, testName string, editKinds []string, cases int) {
	rec := evid.New(t, pid, "a received dialect frame is edited (new field values of the same or another message type) and passed to Node.FixFrame, then written; the next hop (with the outgoing key as incoming key when the frame arrived signed) must deliver the edited message; non-trivial = the edit changes the payload; distinct by hash of (input frame, edited payload, key)")
	if pid == "C08" {
		rec.Require("signed+outkey", "unsigned", "v1", "type-changed", "edit-identity-signed+outkey", "edit-sig-fields-signed+outkey", "edit-header-after-forwarding", "edit-fix-a-copy-signed+outkey")
	} else {
		rec.Require("signed+outkey", "edit-identity-signed+outkey", "edit-sig-fields-signed+outkey", "edit-header-after-forwarding-signed+outkey")
	}
	dpool := pool(t)
	type nodeKey struct {
		d    int
		v2   bool
		keyd bool
	}
	fixKey := [32]byte{0xAB, 1, 2, 3, 4}
	nodes := map[nodeKey]*gomavlib.Node{}
	defer func() {
		for _, n := range nodes {
			n.Close()
		}
	}()
	nodeFor := func(k nodeKey) *gomavlib.Node {
		if n, ok := nodes[k]; ok {
			return n
		}
		n := &gomavlib.Node{
			Endpoints:        []gomavlib.EndpointConf{gomavlib.EndpointCustom{ReadWriteCloser: newIdleRWC()}},
			Dialect:          dpool[k.d].rw.Dialect,
			OutVersion:       gomavlib.V2,
			OutSystemID:      10,
			HeartbeatDisable: true,
		}
		if k.keyd {
			n.OutKey = keyOf(&fixKey)
		}
		if err := n.Initialize(); err != nil {
			t.Fatalf("BROKEN: node init: %v", err)
		}
		go func() {
			for range n.Events() {
			}
		}()
		nodes[k] = n
		return n
	}
	evid.Check(t, rec, cases, func(t *rapid.T) {
		readBufSize = 512
		dIdx := rapid.SampledFrom([]int{0, 0, 1, 1, 2, 3, 3}).Draw(t, "dialect")
		di := dpool[dIdx]
		keyd := pid == "C06" || rapid.Bool().Draw(t, "outkey")
		o := gen.FrameOpts{}
		f, lay, _ := validFrame(t, di, o, &fixKey)
		foreign := f.Signed() && keyd && rapid.IntRange(0, 3).Draw(t, "foreign_key") == 0
		if foreign {
			// the frame arrives signed by somebody else (this hop does not verify); the node re-signs it with its own key
			f.Sig = f.SignatureFor([32]byte{0xEE, 1})
		}
		in := f.Bytes()
		var inKey *[32]byte
		if f.Signed() && keyd {
			inKey = &fixKey
		}
		readKey := inKey
		if foreign {
			readKey = nil
		}
		fr, _, err := readOne(in, di, readKey)
		if err != nil {
			evid.ReplayNote(pid, testName, fmt.Sprintf("input %x\n%v", in, err))
			t.Fatalf("a frame that is valid by the reference (checksum for the dialect's definition, payload in one of the encodings a reader accepts) is refused: %v (input %x)", err, in)
		}
		// the application edits the message
		newLay := lay
		cls := []string{}
		editKind := rapid.SampledFrom(editKinds).Draw(t, "edit_kind")
		if editKind == "fix-a-copy" {
			// a router keeps the received frame to pass it on as it is, and re-stamps an edited copy of it for another
			// link; fixing the copy must leave the frame it was copied from alone
			n := nodeFor(nodeKey{dIdx, true, keyd})
			w0, err := writeOne(fr, di.rw)
			if err != nil {
				t.Fatalf("writing the received frame failed: %v", err)
			}
			before := append([]byte(nil), w0.all()...)
			var cp frame.Frame
			switch ff := fr.(type) {
			case *frame.V1Frame:
				c := *ff
				c.SystemID ^= 0x55
				cp = &c
			case *frame.V2Frame:
				c := *ff
				c.SystemID ^= 0x55
				cp = &c
			}
			if err := n.FixFrame(cp); err != nil {
				t.Fatalf("FixFrame failed on a copy of a received %s frame: %v", lay.MsgName, err)
			}
			w1, err := writeOne(fr, di.rw)
			if err != nil {
				t.Fatalf("writing the received frame failed after its copy was fixed: %v", err)
			}
			if string(w1.all()) != string(before) {
				evid.ReplayNote(pid, testName, fmt.Sprintf("input %x\nforwarded before %x\nforwarded after a copy was fixed %x", in, before, w1.all()))
				t.Fatalf("a received %s frame goes out as %x; after a copy of it was edited and passed to FixFrame it goes out as %x (input %x)", lay.MsgName, before, w1.all(), in)
			}
			c := "edit-fix-a-copy"
			if f.Signed() && keyd {
				c += "-signed+outkey"
			}
			rec.Case(f.Signed() && keyd, evid.Hash(in, []byte("copy"), []byte{b2i(keyd)}), c)
			return
		}
		if editKind != "message" {
			// edits that leave message and checksum untouched: FixFrame must still produce a signature that
			// verifies under the outgoing key (it covers link id, timestamp and key as well)
			if f.Signed() && editKind == "sig-fields" {
				ff := fr.(*frame.V2Frame)
				ff.SignatureLinkID = gen.Byte().Draw(t, "new_link")
				ff.SignatureTimestamp = gen.Timestamp48().Draw(t, "new_ts")
			}
			n := nodeFor(nodeKey{dIdx, true, keyd})
			if editKind == "header-after-forwarding" {
				// a router forwards the frame as it is, then rewrites its origin and forwards it elsewhere: header
				// fields are covered by checksum and signature like everything else
				if err := n.WriteFrameAll(fr); err != nil {
					t.Fatalf("forwarding the received %s frame failed: %v", lay.MsgName, err)
				}
				switch ff := fr.(type) {
				case *frame.V1Frame:
					ff.SystemID, ff.ComponentID, ff.SequenceNumber = gen.Byte().Draw(t, "new_sys"), gen.Byte().Draw(t, "new_comp"), gen.Byte().Draw(t, "new_seq")
				case *frame.V2Frame:
					ff.SystemID, ff.ComponentID, ff.SequenceNumber = gen.Byte().Draw(t, "new_sys"), gen.Byte().Draw(t, "new_comp"), gen.Byte().Draw(t, "new_seq")
				}
			}
			if err := n.FixFrame(fr); err != nil {
				t.Fatalf("FixFrame failed on an unedited %s frame: %v", lay.MsgName, err)
			}
			w, err := writeOne(fr, di.rw)
			if err != nil {
				t.Fatalf("writing the fixed frame failed: %v", err)
			}
			if _, _, err := readOne(w.all(), di, inKey); err != nil {
				evid.ReplayNote(pid, testName, fmt.Sprintf("input %x edit=%s forwarded %x\n%v", in, editKind, w.all(), err))
				t.Fatalf("after a %s edit + FixFrame the next hop (inKey=%v) rejects %x: %v (input %x)", editKind, inKey != nil, w.all(), err, in)
			}
			c := "edit-" + editKind
			if f.Signed() && keyd {
				c += "-signed+outkey"
			}
			rec.Case(f.Signed() && keyd, evid.Hash(in, []byte(editKind), []byte{b2i(keyd)}), c)
			return
		}
		if rapid.IntRange(0, 3).Draw(t, "change_type") == 0 {
			id := di.ids[rapid.IntRange(0, len(di.ids)-1).Draw(t, "newmsg")]
			if f.V2 || id <= 255 {
				newLay = di.layouts[id]
			}
		}
		if newLay != lay {
			cls = append(cls, "type-changed")
		}
		edited := gen.Value(t, newLay).(message.Message)
		switch ff := fr.(type) {
		case *frame.V1Frame:
			ff.Message = edited
			ff.SequenceNumber = gen.Byte().Draw(t, "newseq")
			cls = append(cls, "v1")
		case *frame.V2Frame:
			ff.Message = edited
			ff.SequenceNumber = gen.Byte().Draw(t, "newseq")
		}
		n := nodeFor(nodeKey{dIdx, true, keyd})
		if err := n.FixFrame(fr); err != nil {
			t.Fatalf("FixFrame failed on an edited %s frame: %v", newLay.MsgName, err)
		}
		w, err := writeOne(fr, di.rw)
		if err != nil {
			t.Fatalf("writing the fixed frame failed: %v", err)
		}
		out := w.all()
		fr2, p2, err := readOne(out, di, inKey)
		if err != nil {
			evid.ReplayNote(pid, testName, fmt.Sprintf("input %x\nedited %+v\nforwarded %x\n%v", in, edited, out, err))
			t.Fatalf("after edit + FixFrame the next hop (inKey=%v) rejects %x: %v\n input %x edited to %s %+v", inKey != nil, out, err, in, newLay.MsgName, edited)
		}
		want := newLay.Canonical(edited, f.V2)
		if !ref.EqualMsg(fr2.GetMessage(), want) {
			t.Fatalf("next hop decoded %+v, the edited message is %+v", fr2.GetMessage(), want)
		}
		if p2.ID != edited.GetID() {
			t.Fatalf("forwarded id %d, edited message id %d", p2.ID, edited.GetID())
		}
		switch {
		case f.Signed() && keyd:
			cls = append(cls, "signed+outkey")
		case f.Signed():
			cls = append(cls, "signed-nokey")
		case f.V2:
			cls = append(cls, "unsigned")
		}
		rec.Case(string(p2.Payload) != string(f.Payload) || p2.ID != f.ID, evid.Hash(in, p2.Payload, []byte{byte(p2.ID), b2i(keyd)}), cls...)
		if rec.WantSample("fixframe") {
			rec.Sample("fixframe", map[string]interface{}{"input": fmt.Sprintf("%x", in), "edited_to": newLay.MsgName, "forwarded": fmt.Sprintf("%x", out), "outkey": keyd})
		}
	})
}

func b2i(b bool) byte {
	if b {
		return 1
	}
	return 0
}
