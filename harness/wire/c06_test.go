package wire

import (
	"bytes"
	"fmt"
	"io"
	"testing"
	"time"

	"github.com/bluenviron/gomavlib/v3/pkg/frame"
	"github.com/bluenviron/gomavlib/v3/pkg/message"
	"github.com/bluenviron/gomavlib/v3/pkg/streamwriter"
	"pgregory.net/rapid"

	"verifharness/evid"
	"verifharness/gen"
	"verifharness/ref"
)

func drawKey(t *rapid.T, label string) [32]byte {
	var k [32]byte
	switch rapid.IntRange(0, 4).Draw(t, label+"_kind") {
	case 0:
	case 1:
		for i := range k {
			k[i] = 0xFF
		}
	default:
		copy(k[:], rapid.SliceOfN(rapid.Byte(), 32, 32).Draw(t, label))
	}
	return k
}

func runKeyed(stream []byte, di *dialectInfo, key *[32]byte) ([]ref.Frame, int, error) {
	var res []result
	var terr, herr error
	cr := &chunkReader{data: stream, failAt: -1}
	if di != nil {
		res, terr, herr = readAll(cr, di.rw, keyObj(key), len(stream)+2)
	} else {
		res, terr, herr = readAll(cr, nil, keyObj(key), len(stream)+2)
	}
	if herr != nil {
		return nil, 0, herr
	}
	if terr != io.EOF {
		return nil, 0, fmt.Errorf("reader ended with %v, want io.EOF", terr)
	}
	nerr := 0
	for _, r := range res {
		if r.err != nil {
			nerr++
		}
	}
	del, err := judge(stream, res, di, key)
	return del, nerr, err
}

func TestC06Reader(t *testing.T) {
	rec := evid.New(t, "C06", "frames signed by the reference (SHA-256 formula) must be delivered under the key; v1 frames, unsigned frames, frames signed under a key differing in one bit, every single-bit flip of a signed frame and permuted signatures must yield parse errors and no frame; non-trivial = a rejected variant; distinct by hash of (key, stream)")
	rec.Require("tamper-header", "tamper-payload", "tamper-checksum", "tamper-linkid", "tamper-timestamp", "tamper-signature", "tamper-signature-2bits", "tamper-signature-byte", "forged-payload-enumerated-sig-byte", "v1", "unsigned", "other-key", "valid-delivered", "history-on-one-reader")
	dpool := pool(t)
	evid.Check(t, rec, evid.N(1200, 5000), func(t *rapid.T) {
		readBufSize = 512
		key := drawKey(t, "key")
		var di *dialectInfo
		var f ref.Frame
		if rapid.Bool().Draw(t, "dialect") {
			di = drawDialect(t, dpool)
			f, _, _ = validFrame(t, di, gen.FrameOpts{Version: 2, Signed: 2}, &key)
		} else {
			f = gen.RawFrame(t, gen.FrameOpts{Version: 2, Signed: 2})
		}
		f.Sig = f.SignatureFor(key)
		data := f.Bytes()
		// library's own signature function agrees with the formula
		lf := gen.ToLib(f).(*frame.V2Frame)
		if got := [6]byte(*lf.GenerateSignature(keyOf(&key))); got != f.Sig {
			t.Fatalf("GenerateSignature = %x, SHA-256 formula gives %x for %s", got, f.Sig, gen.Describe(f))
		}
		del, _, err := runKeyed(data, di, &key)
		if err != nil {
			t.Fatalf("valid signed frame %x: %v", data, err)
		}
		if len(del) != 1 || !gen.SameFrame(del[0], f) {
			t.Fatalf("a frame signed per the formula was not delivered: %s", gen.Describe(f))
		}
		rec.Case(false, 0, "valid-delivered")
		reject := func(class string, stream []byte) {
			del, nerr, err := runKeyed(stream, di, &key)
			if err != nil {
				evid.ReplayNote("C06", "TestC06Reader", fmt.Sprintf("key %x\noriginal %x\nvariant  %x (%s)\n%v", key, data, stream, class, err))
				t.Fatalf("%s: key %x stream %x: %v", class, key, stream, err)
			}
			if len(del) != 0 {
				t.Fatalf("%s: %d frame(s) delivered from %x", class, len(del), stream)
			}
			if nerr == 0 {
				t.Fatalf("%s: no parse error reported for %x", class, stream)
			}
			rec.Case(true, evid.Hash(key[:], stream), class)
		}
		// v1 frame, unsigned frame
		v1 := f
		v1.V2, v1.Incompat, v1.Compat = false, 0, 0
		v1.ID &= 0xFF
		if di != nil {
			if l := di.layouts[v1.ID]; l != nil {
				v1.Payload = make([]byte, l.BaseSize)
				v1.Checksum = v1.ChecksumFor(l.CRCExtra)
			}
		}
		reject("v1", v1.Bytes())
		un := f
		un.Incompat = 0
		if di != nil {
			if l := di.layouts[un.ID]; l != nil {
				un.Checksum = un.ChecksumFor(l.CRCExtra)
			}
		}
		reject("unsigned", un.Bytes())
		// signed under a key differing in one bit
		other := key
		bit := rapid.IntRange(0, 255).Draw(t, "keybit")
		other[bit/8] ^= 1 << uint(bit%8)
		g := f
		g.Sig = g.SignatureFor(other)
		reject("other-key", g.Bytes())
		// signature permuted
		g = f
		g.Sig = [6]byte{f.Sig[1], f.Sig[2], f.Sig[3], f.Sig[4], f.Sig[5], f.Sig[0]}
		if g.Sig != f.Sig {
			reject("sig-rotated", g.Bytes())
		}
		// every single-bit flip
		hdr := 10
		pl := len(f.Payload)
		classOf := func(i int) string {
			switch {
			case i < hdr:
				return "tamper-header"
			case i < hdr+pl:
				return "tamper-payload"
			case i < hdr+pl+2:
				return "tamper-checksum"
			case i == hdr+pl+2:
				return "tamper-linkid"
			case i < hdr+pl+9:
				return "tamper-timestamp"
			}
			return "tamper-signature"
		}
		var idx []int
		if len(data) <= 70 {
			for i := range data {
				idx = append(idx, i)
			}
		} else {
			for i := 0; i < hdr; i++ {
				idx = append(idx, i)
			}
			for k := 0; k < 24; k++ {
				idx = append(idx, rapid.IntRange(hdr, hdr+pl-1).Draw(t, "flipbyte"))
			}
			for i := hdr + pl; i < len(data); i++ {
				idx = append(idx, i)
			}
		}
		bad := make([]byte, len(data))
		for _, i := range idx {
			for b := 0; b < 8; b++ {
				copy(bad, data)
				bad[i] ^= 1 << uint(b)
				reject(classOf(i), bad)
			}
		}
		// the signature itself: every pair of flipped bits, and every other value of every signature byte
		// (a comparison that is weaker than byte-wise equality of all 48 bits lets some of these through)
		sigOff := hdr + pl + 9
		for a := 0; a < 48; a++ {
			for b := a + 1; b < 48; b++ {
				copy(bad, data)
				bad[sigOff+a/8] ^= 1 << uint(a%8)
				bad[sigOff+b/8] ^= 1 << uint(b%8)
				reject("tamper-signature-2bits", bad)
			}
		}
		for i := 0; i < 6; i++ {
			for v := 0; v < 256; v++ {
				if byte(v) == data[sigOff+i] {
					continue
				}
				copy(bad, data)
				bad[sigOff+i] = byte(v)
				reject("tamper-signature-byte", bad)
			}
		}
		// a tampered payload combined with every value of one signature byte (a forger's enumeration)
		if pl > 0 {
			pi := hdr + rapid.IntRange(0, pl-1).Draw(t, "forge_byte")
			si := sigOff + rapid.IntRange(0, 5).Draw(t, "forge_sig")
			for v := 0; v < 256; v++ {
				copy(bad, data)
				bad[pi] ^= 0x40
				bad[si] = byte(v)
				reject("forged-payload-enumerated-sig-byte", bad)
			}
		}
		// one reader, a history: the genuine frame, then the same frame damaged outside its signature block (the
		// block it carries was valid a moment ago - for another frame), then a complete v1 frame whose bytes contain
		// marker values, then a second genuine frame. Only the two genuine frames may be delivered, and both must be:
		// what was refused leaves nothing behind
		{
			dmg := append([]byte(nil), data...)
			di0 := rapid.IntRange(3, hdr+pl+1).Draw(t, "history_damage_byte") // header behind length and incompat flags (which decide the framing), payload or checksum
			dmg[di0] ^= 1 << uint(rapid.IntRange(0, 7).Draw(t, "history_damage_bit"))
			v1m := ref.Frame{Seq: 1, Sys: 2, Comp: 3, ID: 200, Payload: []byte{0xFD, 0x09, 0x00, 0xFE, 0x05, 0xFD, 0xFD, 0x00, 0x01}, Checksum: 0xFDFE}
			f2 := f
			f2.Seq++
			f2.Timestamp = f.Timestamp // an equal timestamp is inside the window (and cannot overflow 48 bits)
			if di != nil {
				if l := di.layouts[f2.ID]; l != nil {
					f2.Checksum = f2.ChecksumFor(l.CRCExtra)
				}
			}
			f2.Sig = f2.SignatureFor(key)
			var stream []byte
			stream = append(stream, data...)
			stream = append(stream, dmg...)
			stream = append(stream, v1m.Bytes()...)
			stream = append(stream, f2.Bytes()...)
			del, _, err := runKeyed(stream, di, &key)
			if err != nil {
				evid.ReplayNote("C06", "TestC06Reader", fmt.Sprintf("key %x\nhistory %x\n%v", key, stream, err))
				t.Fatalf("history genuine, damaged copy (byte %d), v1 frame, genuine: key %x stream %x: %v", di0, key, stream, err)
			}
			if len(del) != 2 || !gen.SameFrame(del[0], f) || !gen.SameFrame(del[1], f2) {
				evid.ReplayNote("C06", "TestC06Reader", fmt.Sprintf("key %x\nhistory %x\ndelivered %d frames", key, stream, len(del)))
				t.Fatalf("history genuine, damaged copy (byte %d flipped), complete v1 frame with marker bytes inside, genuine: %d frames delivered, want exactly the two genuine ones; stream %x", di0, len(del), stream)
			}
			rec.Case(true, evid.Hash(key[:], stream), "history-on-one-reader")
		}
		if rec.WantSample("signed") {
			rec.Sample("signed", map[string]interface{}{"key": fmt.Sprintf("%x", key), "frame": fmt.Sprintf("%x", data), "flipped_bytes": len(idx)})
		}
	})
}

func since2015(tm time.Time) uint64 {
	return uint64(tm.Sub(time.Date(2015, 1, 1, 0, 0, 0, 0, time.UTC)) / (10 * time.Microsecond))
}

// TestC06Writers: keyed writers emit frames that verify by the formula.
func TestC06Writers(t *testing.T) {
	rec := evid.New(t, "C06", "frame.Writer.WriteMessage with OutKey and streamwriter.Writer with Key write generated message sequences; each emitted frame is parsed by the reference: signed flag, configured link id, timestamp within the wall-clock bracket of the call (10us units since 2015-01-01 UTC), signature == SHA-256 formula; non-trivial = every case; distinct by hash of emitted bytes")
	rec.Require("frame.Writer", "streamwriter.Writer", "frame.ReadWriter", "raw-message-ending-in-zero")
	dpool := pool(t)
	evid.Check(t, rec, evid.N(6000, 30000), func(t *rapid.T) {
		readBufSize = 512
		key := drawKey(t, "key")
		di := drawDialect(t, dpool)
		link := gen.Byte().Draw(t, "link")
		sys := byte(rapid.IntRange(1, 255).Draw(t, "sys"))
		comp := gen.Byte().Draw(t, "comp")
		w := &recWriter{}
		kind := rapid.SampledFrom([]string{"streamwriter.Writer", "frame.Writer", "frame.ReadWriter"}).Draw(t, "writer_kind")
		useStream := kind == "streamwriter.Writer"
		// the deprecated writers are given a key and ids but no version now and then: whatever they make of that
		// (they pick version 2), a writer that has a key signs
		outVer := frame.V2
		if !useStream && rapid.IntRange(0, 3).Draw(t, "version_left_unset") == 0 {
			outVer = 0
		}
		var write func(m message.Message) error
		if kind == "frame.ReadWriter" {
			rw := &frame.ReadWriter{ByteReadWriter: struct {
				io.Reader
				io.Writer
			}{bytes.NewReader(nil), w}, DialectRW: di.rw, OutVersion: outVer, OutSystemID: sys, OutComponentID: comp, OutSignatureLinkID: link, OutKey: keyObj(&key)}
			if err := rw.Initialize(); err != nil {
				if outVer == 0 {
					t.Skip("a keyed writer without a version is refused: nothing is written")
				}
				t.Fatalf("BROKEN: %v", err)
			}
			write = rw.WriteMessage
		} else if useStream {
			fw := &frame.Writer{ByteWriter: w, DialectRW: di.rw}
			if err := fw.Initialize(); err != nil {
				t.Fatalf("BROKEN: %v", err)
			}
			sw := &streamwriter.Writer{FrameWriter: fw, Version: streamwriter.V2, SystemID: sys, ComponentID: comp, SignatureLinkID: link, Key: keyObj(&key)}
			if err := sw.Initialize(); err != nil {
				t.Fatalf("streamwriter.Initialize with a key and V2: %v", err)
			}
			write = sw.Write
		} else {
			fw := &frame.Writer{ByteWriter: w, DialectRW: di.rw, OutVersion: outVer, OutSystemID: sys, OutComponentID: comp, OutSignatureLinkID: link, OutKey: keyObj(&key)}
			if err := fw.Initialize(); err != nil {
				if outVer == 0 {
					t.Skip("a keyed writer without a version is refused: nothing is written")
				}
				t.Fatalf("BROKEN: %v", err)
			}
			write = fw.WriteMessage
		}
		n := rapid.IntRange(1, 6).Draw(t, "nmsg")
		var prev uint64
		for i := 0; i < n; i++ {
			msgID := di.ids[rapid.IntRange(0, len(di.ids)-1).Draw(t, "msgidx")]
			lay := di.layouts[msgID]
			val := gen.Value(t, lay).(message.Message)
			// a third of the messages are handed over already encoded (a raw message with an id the dialect knows),
			// in canonical form, untruncated, or with further zero bytes at the end
			rawForm := rapid.SampledFrom([]string{"", "", "", "", "raw-canonical", "raw-untruncated", "raw-zero-padded"}).Draw(t, "raw_form")
			if rawForm != "" {
				pl := lay.Encode(val, true)
				switch rawForm {
				case "raw-untruncated":
					pl = lay.EncodeFull(val, true)
				case "raw-zero-padded":
					pl = append(append([]byte{}, pl...), make([]byte, rapid.IntRange(1, 3).Draw(t, "pad"))...)
				}
				if len(pl) <= 255 {
					val = &message.MessageRaw{ID: msgID, Payload: pl}
					if len(pl) > 1 && pl[len(pl)-1] == 0 {
						rec.Class("raw-message-ending-in-zero", 1)
					}
				}
			}
			before := since2015(time.Now())
			ncalls := len(w.calls)
			if err := write(val); err != nil {
				t.Fatalf("keyed write of %s failed: %v", lay.MsgName, err)
			}
			after := since2015(time.Now())
			if len(w.calls) != ncalls+1 {
				t.Fatalf("%d transport writes for one message", len(w.calls)-ncalls)
			}
			out := w.calls[ncalls]
			p, k, err := ref.Parse(out)
			if err != nil || k != len(out) {
				t.Fatalf("emitted bytes are not one frame: %x (%v)", out, err)
			}
			if !p.V2 || p.Incompat != 1 {
				t.Fatalf("keyed writer emitted incompat flags %#x (v2=%v)", p.Incompat, p.V2)
			}
			if p.LinkID != link {
				t.Fatalf("link id %d, configured %d", p.LinkID, link)
			}
			if p.Timestamp < before || p.Timestamp > after+1 {
				t.Fatalf("timestamp %d outside the bracket [%d,%d] of the call (10us units since 2015-01-01 UTC)", p.Timestamp, before, after)
			}
			if p.Timestamp < prev {
				t.Fatalf("timestamp decreased on a link: %d after %d", p.Timestamp, prev)
			}
			prev = p.Timestamp
			if want := p.SignatureFor(key); p.Sig != want {
				t.Fatalf("signature %x does not verify: formula gives %x; frame %x", p.Sig, want, out)
			}
			if p.Checksum != p.ChecksumFor(lay.CRCExtra) {
				t.Fatalf("checksum %#04x wrong for %s", p.Checksum, lay.MsgName)
			}
			cls := kind
			rec.Case(true, evid.Hash(out), cls)
			if rec.WantSample(cls) {
				rec.Sample(cls, map[string]interface{}{"message": lay.MsgName, "bytes": fmt.Sprintf("%x", out)})
			}
		}
	})
}

func timeNow() time.Time { return time.Now() }

// keyedWriter builds one of the two keyed message writers over w.
func keyedWriter(w io.Writer, di *dialectInfo, useStream bool, key [32]byte, link byte) (func(message.Message) error, error) {
	if useStream {
		fw := &frame.Writer{ByteWriter: w, DialectRW: di.rw}
		if err := fw.Initialize(); err != nil {
			return nil, err
		}
		sw := &streamwriter.Writer{FrameWriter: fw, Version: streamwriter.V2, SystemID: 1, SignatureLinkID: link, Key: keyObj(&key)}
		if err := sw.Initialize(); err != nil {
			return nil, err
		}
		return sw.Write, nil
	}
	fw := &frame.Writer{ByteWriter: w, DialectRW: di.rw, OutVersion: frame.V2, OutSystemID: 1, OutSignatureLinkID: link, OutKey: keyObj(&key)}
	if err := fw.Initialize(); err != nil {
		return nil, err
	}
	return fw.WriteMessage, nil
}

func heartbeatValue(di *dialectInfo) message.Message {
	v, _ := di.layouts[0].Decode([]byte{1, 2, 3, 4, 5, 6, 7, 8, 9}, true)
	return v.(message.Message)
}

// theKeyObject is one key variable of the application that is filled with the secret in force and handed to
// whatever needs it (a configuration struct that lives as long as the program): its content changes from case to
// case, its address never does. Every other case uses it; the rest build a key value of their own (keyOf).
var theKeyObject frame.V2Key
var keyObjCalls int

func keyObj(k *[32]byte) *frame.V2Key {
	if k == nil {
		return nil
	}
	if k[1]&1 == 1 {
		return keyOf(k)
	}
	keyObjCalls++
	copy(theKeyObject[:], k[:])
	return &theKeyObject
}
