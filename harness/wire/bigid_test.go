package wire

import (
	"github.com/bluenviron/gomavlib/v3/pkg/dialect"
	"github.com/bluenviron/gomavlib/v3/pkg/message"
)

// A user dialect whose message ids use the upper part of the 24-bit id space (no shipped
// dialect goes beyond 60053): anything that handles only 16 bits of the id shows up here.

type BigEnum uint64

type MessageBigA struct {
	Counter uint32
	Name    string  `mavlen:"6"`
	Flag    BigEnum `mavenum:"uint8"`
}

func (*MessageBigA) GetID() uint32 { return 65536 }

type MessageBigB struct {
	Val   [3]int16
	Extra uint64 `mavext:"true"`
}

func (*MessageBigB) GetID() uint32 { return 0x812345 }

type MessageBigC struct {
	X float32
	Y uint8
}

func (*MessageBigC) GetID() uint32 { return 0xFFFFFF }

type MessageBigD struct {
	A uint16
	B int8
	C string
	D [1]uint8 // a real one-element array: its length byte is part of CRC_EXTRA
	E string   `mavlen:"1"` // char[1], not a scalar char
	F [1]uint32
}

func (*MessageBigD) GetID() uint32 { return 0x010000 + 77 }

type MessageBigSmall struct {
	A uint8
}

func (*MessageBigSmall) GetID() uint32 { return 77 } // shares its low byte / low 16 bits with others

// ids at the edges of one byte and of two bytes: nothing may treat 255 / 256 / 65535 differently from their neighbours
type MessageEdge254 struct{ A uint16 }

func (*MessageEdge254) GetID() uint32 { return 254 }

type MessageEdge255 struct {
	A uint16
	B uint8
}

func (*MessageEdge255) GetID() uint32 { return 255 }

type MessageEdge256 struct{ A uint32 }

func (*MessageEdge256) GetID() uint32 { return 256 }

type MessageEdge65535 struct {
	A uint8
	S string `mavlen:"4"`
}

func (*MessageEdge65535) GetID() uint32 { return 65535 }

type MessageEdgeZero struct{ A int32 }

func (*MessageEdgeZero) GetID() uint32 { return 0 }

// enum fields of every wire type an enum may have, signed ones included, in the base part of a message (in the shipped
// dialects the only signed enum fields are extensions, which do not take part in CRC_EXTRA)
type MessageBigEnums struct {
	Mode    BigEnum `mavenum:"int8"`
	Cmd     BigEnum `mavenum:"int32"`
	Flags   BigEnum `mavenum:"uint16"`
	Wide    BigEnum `mavenum:"uint64"`
	Medium  BigEnum `mavenum:"uint32"`
	Small   BigEnum `mavenum:"uint8"`
	Counter uint8
	Later   BigEnum `mavenum:"int8" mavext:"true"`
}

func (*MessageBigEnums) GetID() uint32 { return 0x020000 + 5 }

var bigDialect = &dialect.Dialect{Version: 7, Messages: []message.Message{
	&MessageBigA{}, &MessageBigB{}, &MessageBigC{}, &MessageBigD{}, &MessageBigSmall{},
	&MessageBigEnums{}, &MessageEdge254{}, &MessageEdge255{}, &MessageEdge256{}, &MessageEdge65535{}, &MessageEdgeZero{},
}}
