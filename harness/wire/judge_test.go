package wire

import (
	"bytes"
	"fmt"

	"github.com/bluenviron/gomavlib/v3/pkg/frame"

	"verifharness/gen"
	"verifharness/ref"
)

// judge is the consumed-span oracle shared by C02, C05 and C06: every delivered frame must be
// exactly the bytes consumed by that call, acceptable to the independent reference (checksum
// with the reference CRC_EXTRA when the id is in the dialect, SHA-256 signature when a key is
// set) and decoded as the reference decodes it; every call must make progress.
// It returns the flat frames delivered, in order.
func judge(data []byte, res []result, di *dialectInfo, key *[32]byte) ([]ref.Frame, error) {
	var delivered []ref.Frame
	pos := 0
	for i, r := range res {
		if r.start != pos {
			return nil, fmt.Errorf("call %d: span starts at %d, previous ended at %d", i, r.start, pos)
		}
		if r.end <= r.start {
			return nil, fmt.Errorf("call %d consumed no byte (span [%d,%d)) and returned err=%v", i, r.start, r.end, r.err)
		}
		if r.end > len(data) {
			return nil, fmt.Errorf("call %d: span end %d beyond the stream (%d)", i, r.end, len(data))
		}
		pos = r.end
		if r.err != nil {
			continue
		}
		span := data[r.start:r.end]
		p, n, err := ref.Parse(span)
		if err != nil || n != len(span) {
			return nil, fmt.Errorf("call %d delivered a frame but the %d bytes it consumed are not exactly one frame (ref: n=%d err=%v): %x", i, len(span), n, err, span)
		}
		if p.V2 && p.Incompat&^1 != 0 {
			return nil, fmt.Errorf("call %d delivered a frame with unknown incompat flags %#x", i, p.Incompat)
		}
		if key != nil {
			if !p.V2 || !p.Signed() {
				return nil, fmt.Errorf("call %d delivered an unsigned/v1 frame although a key is configured: %x", i, span)
			}
			if p.Sig != p.SignatureFor(*key) {
				return nil, fmt.Errorf("call %d delivered a frame whose signature does not verify under the key: %x", i, span)
			}
		}
		g, m, err := gen.FromLib(r.fr)
		if err != nil {
			return nil, fmt.Errorf("call %d: malformed frame object: %v", i, err)
		}
		hdr := func(a, b ref.Frame) bool {
			return a.V2 == b.V2 && a.Incompat == b.Incompat && a.Compat == b.Compat && a.Seq == b.Seq && a.Sys == b.Sys &&
				a.Comp == b.Comp && a.ID == b.ID && a.LinkID == b.LinkID && a.Timestamp == b.Timestamp && a.Sig == b.Sig
		}
		if !hdr(g, p) {
			return nil, fmt.Errorf("call %d: delivered header fields differ from the consumed bytes:\n got  %s\n want %s", i, gen.Describe(g), gen.Describe(p))
		}
		var lay *ref.Layout
		if di != nil {
			lay = di.layouts[p.ID]
		}
		if lay != nil {
			if want := p.ChecksumFor(lay.CRCExtra); p.Checksum != want {
				return nil, fmt.Errorf("call %d delivered %s (id %d, in dialect) with checksum %#04x, reference says %#04x: %x", i, lay.MsgName, p.ID, p.Checksum, want, span)
			}
			if m == nil {
				return nil, fmt.Errorf("call %d: message id %d is in the dialect but was delivered raw", i, p.ID)
			}
			want, derr := lay.Decode(p.Payload, p.V2)
			if derr != nil {
				return nil, fmt.Errorf("call %d delivered a frame whose payload the reference cannot decode: %v", i, derr)
			}
			if !ref.EqualMsg(m, want) {
				return nil, fmt.Errorf("call %d: decoded message differs from the reference decoding of payload %x:\n got  %+v\n want %+v", i, p.Payload, m, want)
			}
			// the frame object carries a checksum of its own: it is the one of the frame this object stands for -
			// the received header with the message in its version's encoding (the received payload itself
			// whenever that is how the message is encoded)
			q := p
			q.Payload = lay.Encode(want, p.V2)
			if wantSum := q.ChecksumFor(lay.CRCExtra); g.Checksum != wantSum {
				return nil, fmt.Errorf("call %d delivered %s (v2=%v) consumed as %x: the frame object says checksum %#04x; the frame with this header and this message (payload %x) has %#04x, the consumed bytes carry %#04x", i, lay.MsgName, p.V2, span, g.Checksum, q.Payload, wantSum, p.Checksum)
			}
		} else {
			if m != nil {
				return nil, fmt.Errorf("call %d: id %d not in dialect but delivered decoded", i, p.ID)
			}
			if !bytes.Equal(g.Payload, p.Payload) || g.Checksum != p.Checksum {
				return nil, fmt.Errorf("call %d: raw frame differs from consumed bytes", i)
			}
		}
		delivered = append(delivered, p)
	}
	return delivered, nil
}

func keyOf(k *[32]byte) *frame.V2Key {
	if k == nil {
		return nil
	}
	if k[0]&1 == 1 {
		// half of the keys are loaded the way an application does it: through NewV2Key from a buffer that is
		// wiped afterwards; the key must be the bytes it was built from, not a view of that buffer
		buf := append([]byte{}, k[:]...)
		key := frame.NewV2Key(buf)
		for i := range buf {
			buf[i] = 0
		}
		return key
	}
	kk := frame.V2Key(*k)
	return &kk
}
