package wire

import (
	"bytes"
	"fmt"
	"io"
	"sort"
	"testing"

	"pgregory.net/rapid"

	"github.com/bluenviron/gomavlib/v3/pkg/dialect"
	"github.com/bluenviron/gomavlib/v3/pkg/dialects/common"
	"github.com/bluenviron/gomavlib/v3/pkg/frame"
	"github.com/bluenviron/gomavlib/v3/pkg/streamwriter"

	"verifharness/evid"
	"verifharness/ref"
)

const windowTicks = 1000000

// windowModel is the reference model of the replay window.
type windowModel struct {
	has    bool
	newest uint64
}

// step returns whether a correctly signed frame with timestamp ts must be accepted.
func (m *windowModel) step(ts uint64) bool {
	if m.has && m.newest > ts && m.newest-ts > windowTicks {
		return false
	}
	if !m.has || ts > m.newest {
		m.has, m.newest = true, ts
	}
	return true
}

var c07Key = [32]byte{7, 7, 7, 1, 2, 3}

// verbatimDup[i] makes history element i (when its timestamp equals its predecessor's) the predecessor's exact bytes.
var verbatimDup = map[int]bool{}

// transportGap[i]: before history element i the transport reports one error (a read deadline, a serial
// hiccup) and then goes on; the reader is the same object, so the link's window is the same too.
var transportGap = map[int]bool{}

// sharedKeyForHistories, when set, is the key object the history reader is given (instead of a key value of its own).
var sharedKeyForHistories *frame.V2Key

// linkOf picks the signature link id of the i-th frame of a history: the replay window belongs to the
// reader (the link), not to the link id a frame claims, so histories mix link ids.
func linkOf(seq byte) byte { return []byte{3, 3, 0, 255, 7, 3, 200, 1}[int(seq)%8] }

// historyRawID[i], when set, is the message id of the i-th frame of a history read without a dialect: the window is the
// link's, whatever message a frame carries (radio status reports, heartbeats, time synchronisation, ... included).
var historyRawID = map[int]uint32{}

func signedAt(ts uint64, seq byte) []byte {
	if id, ok := historyRawID[int(seq)]; ok {
		return signedAtID(ts, seq, id)
	}
	return signedAtID(ts, seq, 70001)
}

// historySeq[i], when set, is the sequence number the i-th frame of a history carries (the position still decides
// link id and content): the window is about timestamps; sequence numbers that restart, repeat or stand still (a
// second signer behind the link, a sender that never counts) are none of its business.
var historySeq = map[int]byte{}

func signedAtID(ts uint64, seq byte, id uint32) []byte {
	wireSeq := seq
	if s, ok := historySeq[int(seq)]; ok {
		wireSeq = s
	}
	f := ref.Frame{V2: true, Incompat: 1, Seq: wireSeq, Sys: 9, Comp: 8, ID: id, Payload: []byte{seq, 1}, Checksum: 0x1234, LinkID: linkOf(seq), Timestamp: ts}
	f.Sig = f.SignatureFor(c07Key)
	return f.Bytes()
}

// signedKnownAt is a correctly signed, canonical HEARTBEAT of the common dialect (a message the reader's dialect knows).
func signedKnownAt(di *dialectInfo, ts uint64, seq byte) []byte {
	f := ref.Frame{V2: true, Incompat: 1, Seq: seq, Sys: 9, Comp: 8, ID: 0, Payload: []byte{1, 2, 3, 4, 5, 6, 7, 8, 9}, LinkID: linkOf(seq), Timestamp: ts}
	f.Checksum = f.ChecksumFor(di.layouts[0].CRCExtra)
	f.Sig = f.SignatureFor(c07Key)
	return f.Bytes()
}

// historyFrameKinds[i] refines known[i] for runHistoryDialect: 0/1 heartbeat, 2 known message with a checksum for
// another definition, 3 SETUP_SIGNING.
var historyFrameKinds = map[int]int{}

// signedKnownUntruncatedAt is a correctly signed HEARTBEAT whose sender did not strip the trailing zero byte (legal): the
// dialect reader hands it on in canonical form, and judges its signature by the bytes that arrived.
func signedKnownUntruncatedAt(di *dialectInfo, ts uint64, seq byte) []byte {
	f := ref.Frame{V2: true, Incompat: 1, Seq: seq, Sys: 9, Comp: 8, ID: 0, Payload: []byte{1, 2, 3, 4, 5, 6, 7, 8, 0}, LinkID: linkOf(seq), Timestamp: ts}
	f.Checksum = f.ChecksumFor(di.layouts[0].CRCExtra)
	f.Sig = f.SignatureFor(c07Key)
	return f.Bytes()
}

func signedKnownWrongChecksumAt(di *dialectInfo, ts uint64, seq byte) []byte {
	f := ref.Frame{V2: true, Incompat: 1, Seq: seq, Sys: 9, Comp: 8, ID: 0, Payload: []byte{1, 2, 3, 4, 5, 6, 7, 8, 9}, LinkID: linkOf(seq), Timestamp: ts}
	f.Checksum = f.ChecksumFor(di.layouts[0].CRCExtra ^ 0x5A)
	f.Sig = f.SignatureFor(c07Key)
	return f.Bytes()
}

func setupSigningStamp(ts uint64, i int) uint64 {
	switch i % 4 {
	case 0:
		return 1 // "start counting here": far below anything on the link
	case 1:
		return ts + 50000000
	case 2:
		if ts > 30000000 {
			return ts - 30000000
		}
		return 1 << 40
	}
	return 1<<48 - 1
}

func signedSetupSigningAt(di *dialectInfo, ts uint64, seq byte, stamp uint64) []byte {
	lay := di.layouts[256]
	f := ref.Frame{V2: true, Incompat: 1, Seq: seq, Sys: 9, Comp: 8, ID: 256, LinkID: linkOf(seq), Timestamp: ts}
	f.Payload = lay.Encode(&common.MessageSetupSigning{TargetSystem: 1, TargetComponent: 1, SecretKey: [32]uint8{1, 2, 3}, InitialTimestamp: stamp}, true)
	f.Checksum = f.ChecksumFor(lay.CRCExtra)
	f.Sig = f.SignatureFor(c07Key)
	return f.Bytes()
}

// runHistory feeds the history through one reader and compares each decision with the model.
func runHistory(hist []uint64, frames map[uint64][]byte) (string, error) {
	return runHistoryDialect(hist, nil, nil)
}

// runHistoryDialect: with di != nil the reader has a dialect; known[i] says whether the i-th frame carries a message
// of that dialect or one the dialect does not contain (delivered raw). The window belongs to the link either way.
func runHistoryDialect(hist []uint64, di *dialectInfo, known []bool) (string, error) {
	var stream []byte
	var lens []int
	var prevBytes []byte
	var pre windowModel
	refusedForChecksum := map[int]bool{}
	for i, ts := range hist {
		b := signedAt(ts, byte(i)) // link id depends on the position
		if di != nil {
			b = signedAtID(ts, byte(i), 70001) // a message the dialect does not contain
		}
		if di != nil && known[i] {
			b = signedKnownAt(di, ts, byte(i))
			switch historyFrameKinds[i] {
			case 2:
				// a peer built against another revision of the message: correctly signed, its checksum does not
				// fit this dialect - refused for that, and none of the window's business. Only where it could not
				// have moved the window anyway (not newer than the newest), so that nothing depends on whether a
				// refused frame counts as "accepted" for the window.
				if pre.has && ts <= pre.newest && pre.newest-ts <= windowTicks {
					b = signedKnownWrongChecksumAt(di, ts, byte(i))
					refusedForChecksum[i] = true
				}
			case 4:
				b = signedKnownUntruncatedAt(di, ts, byte(i))
			case 3:
				// SETUP_SIGNING passing by: its payload names a key and a timestamp of its own, which are the
				// application's to act on; the link's window follows the frames' signature timestamps
				b = signedSetupSigningAt(di, ts, byte(i), setupSigningStamp(ts, i))
			}
		}
		if i > 0 && hist[i-1] == ts && verbatimDup[i] {
			b = prevBytes // the same frame once more, byte for byte (a duplicated datagram)
			delete(refusedForChecksum, i)
			if refusedForChecksum[i-1] {
				refusedForChecksum[i] = true
			}
		}
		if !refusedForChecksum[i] {
			pre.step(ts)
		}
		prevBytes = b
		stream = append(stream, b...)
		lens = append(lens, len(b))
	}
	var drw *dialect.ReadWriter
	if di != nil {
		drw = di.rw
	}
	var tr map[int]bool
	if len(transportGap) > 0 {
		tr = map[int]bool{}
		off := 0
		for i, l := range lens {
			if transportGap[i] {
				tr[off] = true
			}
			off += l
		}
	}
	hk := keyOf(&c07Key)
	if sharedKeyForHistories != nil {
		hk = sharedKeyForHistories
	}
	res, terr, herr := readAll(&chunkReader{data: stream, failAt: -1, transient: tr}, drw, hk, len(stream)+2+len(tr))
	if herr != nil {
		return "", herr
	}
	if terr != io.EOF {
		return "", fmt.Errorf("reader ended with %v", terr)
	}
	if len(res) != len(hist) {
		return "", fmt.Errorf("%d results for %d frames", len(res), len(hist))
	}
	var m windowModel
	pos := 0
	cls := ""
	for i, ts := range hist {
		r := res[i]
		if r.start != pos || r.end != pos+lens[i] {
			return "", fmt.Errorf("frame %d: consumed [%d,%d), expected [%d,%d)", i, r.start, r.end, pos, pos+lens[i])
		}
		pos = r.end
		hadNewest, newest := m.has, m.newest
		if refusedForChecksum[i] {
			if r.err == nil {
				return "", fmt.Errorf("step %d: a correctly signed frame whose checksum does not fit the dialect's definition was delivered", i)
			}
			continue
		}
		want := m.step(ts)
		got := r.err == nil
		if got != want {
			verdict := map[bool]string{true: "accepted", false: "refused"}
			return "", fmt.Errorf("step %d of history %v (reader has a dialect: %v, frames carrying a message of it: %v): timestamp %d was %s (err=%v) but must be %s (newest accepted so far: %d, present=%v)",
				i, hist, di != nil, known, ts, verdict[got], r.err, verdict[want], newest, hadNewest)
		}
		if hadNewest {
			switch {
			case ts < newest && newest-ts < windowTicks:
				cls += "I" // older but inside the window
			case ts < newest && newest-ts == windowTicks:
				cls += "B" // exactly on the boundary
			case ts < newest && newest-ts == windowTicks+1:
				cls += "O"
			case ts == newest:
				cls += "E"
			}
			if newest < windowTicks {
				cls += "S" // newest smaller than the window
			}
		}
	}
	return cls, nil
}

// runHistoryOnALink: the same history read by the reading half of a link (frame.ReadWriter with both keys) on which
// this side has already sent signed frames - stamped with the local clock, which has nothing to do with the peer's.
// The window is about what the reader has accepted; what the link has sent is none of its business.
func runHistoryOnALink(di *dialectInfo, hist []uint64, sentBefore int, viaStream bool) error {
	var stream []byte
	for i, ts := range hist {
		stream = append(stream, signedAtID(ts, byte(i), 70001)...) // a message the link's dialect does not contain
	}
	rw := &frame.ReadWriter{ByteReadWriter: struct {
		io.Reader
		io.Writer
	}{bytes.NewReader(stream), io.Discard}, DialectRW: di.rw, InKey: keyOf(&c07Key), OutVersion: frame.V2, OutSystemID: 1, OutSignatureLinkID: 2, OutKey: keyOf(&c07Key)}
	if err := rw.Initialize(); err != nil {
		return fmt.Errorf("BROKEN: %v", err)
	}
	for k := 0; k < sentBefore; k++ {
		var err error
		if viaStream {
			sw := &streamwriter.Writer{FrameWriter: rw.Writer, Version: streamwriter.V2, SystemID: 1, SignatureLinkID: 2, Key: keyOf(&c07Key)}
			if err = sw.Initialize(); err == nil {
				err = sw.Write(heartbeatValue(di))
			}
		} else {
			err = rw.WriteMessage(heartbeatValue(di))
		}
		if err != nil {
			return fmt.Errorf("BROKEN: write on the link: %v", err)
		}
	}
	var m windowModel
	for i, ts := range hist {
		fr, err := rw.Read()
		var re frame.ReadError
		if err != nil && !asReadError(err, &re) {
			return fmt.Errorf("history %v on a link: frame %d: reader ended with %v", hist, i, err)
		}
		hadNewest, newest := m.has, m.newest
		want := m.step(ts)
		if got := err == nil && fr != nil; got != want {
			verdict := map[bool]string{true: "accepted", false: "refused"}
			return fmt.Errorf("step %d of history %v, read by the reading half of a frame.ReadWriter on which %d signed frames had been sent before (stamped with the local clock; through streamwriter: %v): timestamp %d was %s (err=%v) but must be %s (newest accepted so far: %d, present=%v)",
				i, hist, sentBefore, viaStream, ts, verdict[got], err, verdict[want], newest, hadNewest)
		}
	}
	return nil
}

var c07Alphabet = []uint64{0, 1, 5, 999999, 1000000, 1000001, 2000000, 2000001, 3000000, 1 << 32,
	1<<48 - 1000001, 1<<48 - 1000000, 1<<48 - 1}

func TestC07WindowEnumerated(t *testing.T) {
	verbatimDup = map[int]bool{}
	depth := evid.N(4, 5)
	rec := evid.New(t, "C07", fmt.Sprintf("all histories of correctly signed frames with timestamps from a 13-value boundary alphabet up to depth %d; every accept/'too old' decision compared with a big-integer model of the window", depth))
	frames := map[uint64][]byte{}
	for _, ts := range c07Alphabet {
		frames[ts] = signedAt(ts, 0)
	}
	shard, shards := evid.Shard()
	hist := make([]uint64, 0, depth)
	n, idx := int64(0), 0
	counts := map[rune]int64{}
	var walk func()
	walk = func() {
		if len(hist) == depth {
			idx++
			if idx%shards != shard {
				return
			}
			cls, err := runHistory(hist, frames)
			if err != nil {
				evid.ReplayNote("C07", "TestC07WindowEnumerated", err.Error())
				t.Fatalf("%v", err)
			}
			for _, c := range cls {
				counts[c]++
			}
			n++
			return
		}
		for _, ts := range c07Alphabet {
			hist = append(hist, ts)
			walk()
			hist = hist[:len(hist)-1]
		}
	}
	walk()
	rec.Evals(n)
	rec.Class("enumerated-history", n)
	rec.Class("step-inside-window", counts['I'])
	rec.Class("step-on-boundary", counts['B'])
	rec.Class("step-just-outside", counts['O'])
	rec.Class("step-equal", counts['E'])
	rec.Class("newest-below-window", counts['S'])
	rec.Case(true, 1, "enum")
	rec.Case(true, 2, "enum")
	rec.Exhaustive(fmt.Sprintf("all 13^%d timestamp histories over the boundary alphabet (prefixes included)", depth))
	rec.Sample("enumerated-history", []uint64{5, 6, 5, 2000000})
}

func TestC07WindowRandom(t *testing.T) {
	rec := evid.New(t, "C07", "rapid histories (<=40 frames) mixing boundary values, random 48-bit timestamps and newest+-delta around 1,000,000; model comparison at every step; non-trivial = some frame older than newest but inside the window, on the boundary, or newest < 1,000,000; distinct by hash of the history")
	rec.Require("inside-window", "on-boundary", "just-outside", "newest-below-window", "forged-interleaved", "dialect-reader-known+unknown-messages", "frame-repeated-byte-for-byte", "run-of-8+-stale-frames-with-rising-timestamps", "transport-error-between-frames", "same-key-stored-again-between-frames", "application-restamps-received-frames", "second-link-with-the-same-key-object", "history-with-setup-signing-or-foreign-checksum-frames", "history-read-by-a-link-that-has-sent-signed-frames")
	common, _ := dialects(t)
	evid.Check(t, rec, evid.N(40000, 200000), func(t *rapid.T) {
		readBufSize = 512
		n := rapid.IntRange(1, 40).Draw(t, "n")
		var hist []uint64
		var m windowModel
		sawDup, sawStaleRun := false, false
		verbatimDup = map[int]bool{}
		transportGap = map[int]bool{}
		// the messages the frames carry: one id of the common dialect (or any other id) per case, carried by about
		// half of the frames, the rest carry an id no dialect has
		historyRawID = map[int]uint32{}
		historySeq = map[int]byte{}
		defer func() { historyRawID = map[int]uint32{}; historySeq = map[int]byte{} }()
		if rapid.Bool().Draw(t, "sequence_numbers_of_their_own") {
			for i := 0; i < n; i++ {
				historySeq[i] = byte(rapid.SampledFrom([]int{0, 0, 1, 7, 254, 255, i, i + 100}).Draw(t, "wire_seq"))
			}
		}
		caseID := common.ids[rapid.IntRange(0, len(common.ids)-1).Draw(t, "message_id_of_the_case")]
		if rapid.IntRange(0, 9).Draw(t, "any_id") == 0 {
			caseID = uint32(rapid.IntRange(0, 1<<24-1).Draw(t, "message_id_any"))
		}
		for i := 0; i < n; i++ {
			if rapid.Bool().Draw(t, "carries_the_case_id") {
				historyRawID[i] = caseID
			}
		}
		staleRun := 0
		var staleNext uint64
		for i := 0; i < n; i++ {
			var ts uint64
			kind := rapid.IntRange(0, 5).Draw(t, "kind")
			if staleRun > 0 {
				kind = -1
			}
			switch kind {
			case -1: // inside a run of stale frames whose timestamps rise (someone replaying an old recording)
				ts = staleNext
				staleNext += uint64(rapid.IntRange(1, 500).Draw(t, "stale_step"))
				staleRun--
			case 0:
				ts = rapid.SampledFrom(c07Alphabet).Draw(t, "alpha")
			case 1:
				ts = rapid.Uint64Range(0, 1<<48-1).Draw(t, "rnd")
			case 4: // the previous frame again, byte for byte
				if i > 0 {
					ts = hist[i-1]
					verbatimDup[i] = true
					sawDup = true
				}
			case 5: // start a run of 8..14 stale frames with rising timestamps
				if m.has && m.newest > 3*windowTicks && i+9 < n {
					staleRun = rapid.IntRange(8, 14).Draw(t, "stale_run")
					staleNext = m.newest - windowTicks - uint64(rapid.IntRange(10000, 1000000).Draw(t, "stale_back"))
					ts = staleNext
					staleNext += 7
					staleRun--
					sawStaleRun = true
				} else {
					ts = rapid.Uint64Range(0, 1<<48-1).Draw(t, "rnd2")
				}
			default:
				d := rapid.OneOf(rapid.Int64Range(-1000003, -999997), rapid.Int64Range(-3, 3), rapid.Int64Range(-2000000, 2000000)).Draw(t, "delta")
				v := int64(m.newest) + d
				if v < 0 {
					v = 0
				}
				if v > 1<<48-1 {
					v = 1<<48 - 1
				}
				ts = uint64(v)
			}
			hist = append(hist, ts)
			m.step(ts)
		}
		// forged frames (wrong signature, arbitrary timestamps incl. far-future ones) interleaved at generated
		// positions: each must be refused and must leave the window untouched
		forged := map[int]uint64{}
		if rapid.Bool().Draw(t, "with_forged") {
			nf := rapid.IntRange(1, 4).Draw(t, "nforged")
			for k := 0; k < nf; k++ {
				pos := rapid.IntRange(0, len(hist)).Draw(t, "forged_pos")
				forged[pos] = rapid.OneOf(rapid.SampledFrom([]uint64{1<<48 - 1, 1 << 47, 1 << 40}), rapid.Uint64Range(0, 1<<48-1)).Draw(t, "forged_ts")
			}
		}
		if len(forged) > 0 {
			if err := runHistoryForged(hist, forged); err != nil {
				evid.ReplayNote("C07", "TestC07WindowRandom", err.Error())
				t.Fatalf("%v", err)
			}
			rec.Class("forged-interleaved", 1)
		}
		cls, err := runHistory(hist, nil)
		if err != nil {
			evid.ReplayNote("C07", "TestC07WindowRandom", err.Error())
			t.Fatalf("%v", err)
		}
		var cs []string
		if rapid.IntRange(0, 2).Draw(t, "read_by_a_link_that_has_sent") == 0 {
			if err := runHistoryOnALink(common, hist, rapid.IntRange(1, 3).Draw(t, "sent_before"), rapid.Bool().Draw(t, "sent_through_streamwriter")); err != nil {
				evid.ReplayNote("C07", "TestC07WindowRandom", err.Error())
				t.Fatalf("%v", err)
			}
			cs = append(cs, "history-read-by-a-link-that-has-sent-signed-frames")
		}
		// the same history with the transport failing once at up to three places between frames
		if rapid.Bool().Draw(t, "with_transport_gaps") {
			for k := rapid.IntRange(1, 3).Draw(t, "ngaps"); k > 0; k-- {
				transportGap[rapid.IntRange(1, len(hist)).Draw(t, "gap_before")%len(hist)] = true
			}
			_, err := runHistory(hist, nil)
			gaps := fmt.Sprint(transportGap)
			transportGap = map[int]bool{}
			if err != nil {
				msg := fmt.Sprintf("with one transport error (after which the transport went on) before the elements %s: %v", gaps, err)
				evid.ReplayNote("C07", "TestC07WindowRandom", msg)
				t.Fatalf("%s", msg)
			}
			cs = append(cs, "transport-error-between-frames")
		}
		// the same history while the application stores the link's key into the reader again (the same 32 bytes,
		// a new value: what a configuration reload does): the window belongs to the link, not to the key object
		if rapid.IntRange(0, 2).Draw(t, "key_stored_again") == 0 {
			at := map[int]bool{}
			for k := rapid.IntRange(1, 3).Draw(t, "nrekey"); k > 0; k-- {
				at[rapid.IntRange(1, len(hist)).Draw(t, "rekey_before")] = true
			}
			readAllHook = func(rd *frame.Reader, call int) {
				if at[call] {
					rd.InKey = keyOf(&c07Key)
				}
			}
			_, err := runHistory(hist, nil)
			readAllHook = nil
			if err != nil {
				msg := fmt.Sprintf("with the same key stored into Reader.InKey again before the calls %v: %v", at, err)
				evid.ReplayNote("C07", "TestC07WindowRandom", msg)
				t.Fatalf("%s", msg)
			}
			cs = append(cs, "same-key-stored-again-between-frames")
		}
		// the same history while the application re-stamps every frame it has received (a forwarder that signs
		// with its own clock does that to the frame value it was given): the frame is the application's, the
		// window is the reader's
		if rapid.IntRange(0, 2).Draw(t, "application_restamps_received_frames") == 0 {
			stamps := rapid.SliceOfN(rapid.OneOf(rapid.SampledFrom([]uint64{0, 1, 1 << 47, 1<<48 - 1}), rapid.Uint64Range(0, 1<<48-1)), 1, 8).Draw(t, "stamps")
			readAllGot = func(fr frame.Frame, call int) {
				if ff, ok := fr.(*frame.V2Frame); ok {
					ff.SignatureTimestamp = stamps[call%len(stamps)]
					ff.SignatureLinkID ^= 0x5A
				}
			}
			_, err := runHistory(hist, nil)
			readAllGot = nil
			if err != nil {
				msg := fmt.Sprintf("with the application overwriting the signature timestamp of every frame it received (values %v): %v", stamps, err)
				evid.ReplayNote("C07", "TestC07WindowRandom", msg)
				t.Fatalf("%s", msg)
			}
			cs = append(cs, "application-restamps-received-frames")
		}
		// a second link whose reader was given the same key object as the first: what the first link accepted is
		// none of its business ("none yet" for its first frame, whatever that frame's timestamp is)
		if rapid.IntRange(0, 2).Draw(t, "second_link_same_key_object") == 0 {
			shared := keyOf(&c07Key)
			first := signedAt(rapid.SampledFrom([]uint64{1<<48 - 1, 1 << 47, 1 << 40}).Draw(t, "first_link_ts"), 1)
			if res, _, herr := readAll(&chunkReader{data: first, failAt: -1}, nil, shared, 4); herr != nil || len(res) != 1 || res[0].err != nil {
				t.Fatalf("BROKEN: first link: %v %v", herr, res)
			}
			sharedKeyForHistories = shared
			_, err := runHistory(hist, nil)
			sharedKeyForHistories = nil
			if err != nil {
				msg := fmt.Sprintf("on a second reader that was given the same key object as a reader that had accepted a frame of another link before: %v", err)
				evid.ReplayNote("C07", "TestC07WindowRandom", msg)
				t.Fatalf("%s", msg)
			}
			cs = append(cs, "second-link-with-the-same-key-object")
		}
		// the same history on a reader that has a dialect, the frames carrying known and unknown messages
		if rapid.Bool().Draw(t, "with_dialect") {
			known := rapid.SliceOfN(rapid.Bool(), len(hist), len(hist)).Draw(t, "known_message")
			historyFrameKinds = map[int]int{}
			special := false
			for i := range hist {
				if known[i] {
					historyFrameKinds[i] = rapid.SampledFrom([]int{1, 1, 1, 2, 2, 3, 4, 4}).Draw(t, "frame_kind")
					special = special || historyFrameKinds[i] >= 2
				}
			}
			_, err := runHistoryDialect(hist, common, known)
			historyFrameKinds = map[int]int{}
			if special {
				cs = append(cs, "history-with-setup-signing-or-foreign-checksum-frames")
			}
			if err != nil {
				evid.ReplayNote("C07", "TestC07WindowRandom", err.Error())
				t.Fatalf("%v", err)
			}
			nk := 0
			for _, k := range known {
				if k {
					nk++
				}
			}
			if nk > 0 && nk < len(known) {
				cs = append(cs, "dialect-reader-known+unknown-messages")
			}
		}
		has := func(c rune) bool {
			for _, x := range cls {
				if x == c {
					return true
				}
			}
			return false
		}
		if has('I') {
			cs = append(cs, "inside-window")
		}
		if has('B') {
			cs = append(cs, "on-boundary")
		}
		if has('O') {
			cs = append(cs, "just-outside")
		}
		if has('S') {
			cs = append(cs, "newest-below-window")
		}
		if sawDup {
			cs = append(cs, "frame-repeated-byte-for-byte")
		}
		if sawStaleRun {
			cs = append(cs, "run-of-8+-stale-frames-with-rising-timestamps")
		}
		var hb []byte
		for _, ts := range hist {
			for k := 0; k < 6; k++ {
				hb = append(hb, byte(ts>>(8*uint(k))))
			}
		}
		rec.Case(len(cs) > 0, evid.Hash(hb), cs...)
		if len(cs) > 0 && rec.WantSample("history") && len(hist) <= 8 {
			rec.Sample("history", map[string]interface{}{"timestamps": hist, "classes": cs})
		}
	})
}

// TestC07WriterTimestamps: outgoing signed frames carry 10us ticks since 2015-01-01 UTC, never decreasing on a link.
func TestC07WriterTimestamps(t *testing.T) {
	rec := evid.New(t, "C07", "sequences of keyed writes on streamwriter.Writer and frame.Writer (stand-alone, or the writing half of a frame.ReadWriter whose reading half accepts, between the writes, correctly signed frames of a peer whose clock is 1 s .. 1 year ahead or at the largest 48-bit value): each timestamp lies in the wall-clock bracket of its call in 10us ticks since 2015-01-01 UTC and never decreases along the link; distinct by (writer kind, sequence length, first timestamp)")
	common, _ := dialects(t)
	rec.Require("writer-of-a-link-that-accepted-frames-stamped-ahead-of-the-local-clock")
	evid.Check(t, rec, evid.N(600, 4000), func(t *rapid.T) {
		readBufSize = 512
		useStream := rapid.Bool().Draw(t, "streamwriter")
		w := &recWriter{}
		write, err := keyedWriter(w, common, useStream, c07Key, 5)
		if err != nil {
			t.Fatalf("BROKEN: %v", err)
		}
		// one case in three: the writer is the writing half of a link (frame.ReadWriter with both keys) whose reading
		// half accepts, between the writes, correctly signed frames of a peer whose clock is ahead of (or behind) the
		// local one; what goes out is stamped with the local time of the write all the same
		var link *frame.ReadWriter
		inbox := &bytes.Buffer{}
		onLink := rapid.IntRange(0, 2).Draw(t, "writer_of_a_link") == 0
		var peerAhead uint64
		acceptedAhead := false
		if onLink {
			link = &frame.ReadWriter{ByteReadWriter: struct {
				io.Reader
				io.Writer
			}{inbox, w}, DialectRW: common.rw, InKey: keyOf(&c07Key),
				OutVersion: frame.V2, OutSystemID: 1, OutSignatureLinkID: 5, OutKey: keyOf(&c07Key)}
			if err := link.Initialize(); err != nil {
				t.Fatalf("BROKEN: %v", err)
			}
			write = link.WriteMessage
			if useStream {
				sw := &streamwriter.Writer{FrameWriter: link.Writer, Version: streamwriter.V2, SystemID: 1, SignatureLinkID: 5, Key: keyOf(&c07Key)}
				if err := sw.Initialize(); err != nil {
					t.Fatalf("BROKEN: %v", err)
				}
				write = sw.Write
			}
			// 1 s, 1 min, 1 h, 1 year ahead, or the largest 48-bit value
			peerAhead = rapid.SampledFrom([]uint64{100000, 6000000, 360000000, 3153600000000, 0}).Draw(t, "peer_clock_ahead_by")
		}
		n := rapid.OneOf(rapid.IntRange(2, 60), rapid.IntRange(260, 700)).Draw(t, "n")
		var prev, first uint64
		for i := 0; i < n; i++ {
			if onLink && (i == 1 || rapid.IntRange(0, 3).Draw(t, "incoming_frame") == 0) {
				its := since2015(timeNow()) + peerAhead
				if peerAhead == 0 {
					its = 1<<48 - 1
				}
				if rapid.IntRange(0, 5).Draw(t, "peer_behind") == 0 && i != 1 {
					its = since2015(timeNow()) - 300
				}
				inbox.Write(signedKnownAt(common, its, byte(i)))
				if fr, rerr := link.Read(); rerr == nil && fr != nil && its > since2015(timeNow()) {
					acceptedAhead = true
				}
			}
			before := since2015(timeNow())
			if err := write(heartbeatValue(common)); err != nil {
				t.Fatalf("write: %v", err)
			}
			after := since2015(timeNow())
			p, _, perr := ref.Parse(w.calls[len(w.calls)-1])
			if perr != nil {
				t.Fatalf("emitted bytes do not parse: %v", perr)
			}
			if p.Timestamp < before || p.Timestamp > after+1 {
				msg := fmt.Sprintf("write %d (streamwriter=%v, writing half of a frame.ReadWriter=%v, the reading half accepted frames stamped ahead of the local clock=%v): timestamp %d outside [%d,%d] (10us ticks since 2015-01-01 UTC at the time of the write)", i, useStream, onLink, acceptedAhead, p.Timestamp, before, after)
				evid.ReplayNote("C07", "TestC07WriterTimestamps", msg)
				t.Fatalf("%s", msg)
			}
			if p.Timestamp < prev {
				t.Fatalf("timestamp decreased on the link: %d after %d (write %d)", p.Timestamp, prev, i)
			}
			if i == 0 {
				first = p.Timestamp
			}
			prev = p.Timestamp
		}
		wcls := []string{"writer-sequence"}
		if acceptedAhead {
			wcls = append(wcls, "writer-of-a-link-that-accepted-frames-stamped-ahead-of-the-local-clock")
		}
		rec.Case(true, evid.HashS(fmt.Sprint(useStream, onLink, n, first)), wcls...)
		if rec.WantSample("writer-sequence") {
			rec.Sample("writer-sequence", map[string]interface{}{"streamwriter": useStream, "writes": n, "first_ts": first, "last_ts": prev})
		}
	})
}

// runHistoryForged is runHistory with unauthenticated frames inserted: forged[pos] is the timestamp of a
// frame with a wrong signature placed before history element pos.
func runHistoryForged(hist []uint64, forged map[int]uint64) error {
	var stream []byte
	type item struct {
		ts     uint64
		forged bool
		n      int
	}
	var items []item
	add := func(ts uint64, isForged bool, seq byte) {
		b := signedAt(ts, seq)
		if isForged && (ts+uint64(seq))%2 == 1 {
			// not even signed: a v2 frame without the signed flag (a peer that stopped signing, an unkeyed station on
			// the same link) - refused like any other unauthenticated frame, and as little the window's business
			f := ref.Frame{V2: true, Seq: seq, Sys: 9, Comp: 8, ID: 70001, Payload: []byte{seq, 1}, Checksum: 0x1234}
			b = f.Bytes()
		} else if isForged {
			b[len(b)-1] ^= 0x5A
		}
		stream = append(stream, b...)
		items = append(items, item{ts, isForged, len(b)})
	}
	for i := 0; i <= len(hist); i++ {
		if ts, ok := forged[i]; ok {
			add(ts, true, byte(100+i))
		}
		if i < len(hist) {
			add(hist[i], false, byte(i))
		}
	}
	res, terr, herr := readAll(&chunkReader{data: stream, failAt: -1}, nil, keyOf(&c07Key), len(stream)+2)
	if herr != nil {
		return herr
	}
	if terr != io.EOF || len(res) != len(items) {
		return fmt.Errorf("%d results for %d frames (end %v)", len(res), len(items), terr)
	}
	var m windowModel
	for i, it := range items {
		got := res[i].err == nil
		if it.forged {
			if got {
				return fmt.Errorf("history %v with forged frames %v: a frame with a wrong signature (ts %d) was accepted", hist, forged, it.ts)
			}
			continue
		}
		want := m.step(it.ts)
		if got != want {
			return fmt.Errorf("history %v with forged (unauthenticated) frames at %v: authentic frame with timestamp %d accepted=%v, must be accepted=%v (newest authentic so far %d): a frame that failed authentication influenced the window (err=%v)", hist, forged, it.ts, got, want, m.newest, res[i].err)
		}
	}
	return nil
}

// TestC07LongLink: the window holds for as long as the link lives. One reader accepts a long run of frames
// (timestamps rising by a few ticks each) and at generated points - right after the 255th, 256th, 257th, 65535th,
// 65536th, 65537th, 131072nd ... accepted frame and at random places - a recorded frame far older than the newest
// arrives: it must be refused every time, and the run goes on undisturbed.
func TestC07LongLink(t *testing.T) {
	rec := evid.New(t, "C07", "one keyed reader, 70,000 (quick) / 140,000 (thorough) correctly signed frames with rising timestamps and stale probes (newest - window - 1..1000 ticks) after exactly 1, 2, 255, 256, 257, 65535, 65536, 65537 (131071, 131072, 131073) accepted frames and at 30 generated places; every decision must equal the window model; non-trivial = a probe after more than 65536 accepted frames; distinct by hash of the probe positions")
	rec.Require("stale-frame-after-more-than-65536-accepted-frames")
	total := evid.N(70000, 140000)
	evid.Check(t, rec, evid.N(1, 3), func(t *rapid.T) {
		readBufSize = 512
		probes := map[int]bool{1: true, 2: true, 255: true, 256: true, 257: true, 65535: true, 65536: true, 65537: true, 131071: true, 131072: true, 131073: true}
		for k := 0; k < 30; k++ {
			probes[rapid.IntRange(1, total-1).Draw(t, "probe_after")] = true
		}
		ts := uint64(rapid.Uint64Range(5000000, 1<<40).Draw(t, "ts0"))
		var stream []byte
		var hist []uint64
		var lens []int
		var m windowModel
		var want []bool
		add := func(x uint64, seq byte) {
			b := signedAt(x, seq)
			stream = append(stream, b...)
			lens = append(lens, len(b))
			hist = append(hist, x)
			want = append(want, m.step(x))
		}
		accepted, deep := 0, false
		for accepted < total {
			ts += uint64(1 + accepted%5)
			add(ts, byte(accepted))
			accepted++
			if probes[accepted] {
				add(ts-windowTicks-uint64(1+accepted%1000), byte(accepted+7))
				if accepted > 65536 {
					deep = true
				}
			}
		}
		res, terr, herr := readAll(&chunkReader{data: stream, failAt: -1}, nil, keyOf(&c07Key), len(hist)+2)
		if herr != nil || terr != io.EOF || len(res) != len(hist) {
			t.Fatalf("reading %d frames: %d results, %v / %v", len(hist), len(res), herr, terr)
		}
		acc := 0
		for i, r := range res {
			if got := r.err == nil; got != want[i] {
				verdict := map[bool]string{true: "accepted", false: "refused"}
				msg := fmt.Sprintf("frame %d of the link (timestamp %d, after %d accepted frames, newest accepted %d): %s (err=%v), must be %s", i, hist[i], acc, hist[maxInt(i-1, 0)], verdict[got], r.err, verdict[want[i]])
				evid.ReplayNote("C07", "TestC07LongLink", msg)
				t.Fatalf("%s", msg)
			}
			if want[i] {
				acc++
			}
		}
		var cls []string
		if deep {
			cls = append(cls, "stale-frame-after-more-than-65536-accepted-frames")
		}
		var pb []byte
		for p := range probes {
			pb = append(pb, byte(p), byte(p>>8), byte(p>>16))
		}
		sort.Slice(pb, func(i, j int) bool { return pb[i] < pb[j] })
		rec.Case(deep, evid.Hash(pb), cls...)
		if rec.WantSample("long-link") {
			rec.Sample("long-link", map[string]interface{}{"frames": len(hist), "probes": len(probes)})
		}
	})
}

func maxInt(a, b int) int {
	if a > b {
		return a
	}
	return b
}
