package wire

import (
	"bytes"
	"fmt"
	"sync"
	"sync/atomic"
	"testing"

	"github.com/bluenviron/gomavlib/v3/pkg/frame"
	"github.com/bluenviron/gomavlib/v3/pkg/message"
	"github.com/bluenviron/gomavlib/v3/pkg/streamwriter"

	"verifharness/evid"
	"verifharness/ref"
)

// TestC02ConcurrentLinks: independent links (each with its own writer and reader, as the channels of a
// node have) running in parallel goroutines must not influence each other's checksums, signatures or
// bytes: everything a link emits is checked against the reference, everything reference-valid is delivered.
func TestC02ConcurrentLinks(t *testing.T) {
	rec := evid.New(t, "C02", "8 independent links in 8 goroutines, each writing messages through its own keyed or unkeyed streamwriter and reading reference-built frames through its own reader, all at once: every emitted frame must carry the reference checksum (and signature) and its own link's identity, every reference-valid frame must be delivered; non-trivial = every frame checked; distinct by (link, index)")
	common, _ := dialects(t)
	const links = 8
	n := evid.N(15000, 60000)
	var wg sync.WaitGroup
	var failure atomic.Value
	var checked int64
	for l := 0; l < links; l++ {
		wg.Add(1)
		go func(l int) {
			defer wg.Done()
			var key *[32]byte
			if l%2 == 1 {
				key = &[32]byte{byte(l), 9}
			}
			w := &recWriter{}
			fw := &frame.Writer{ByteWriter: w, DialectRW: common.rw}
			if err := fw.Initialize(); err != nil {
				failure.Store("BROKEN: " + err.Error())
				return
			}
			sw := &streamwriter.Writer{FrameWriter: fw, Version: streamwriter.V2, SystemID: byte(10 + l), ComponentID: byte(100 + l), SignatureLinkID: byte(l), Key: keyOf(key)}
			if err := sw.Initialize(); err != nil {
				failure.Store("BROKEN: " + err.Error())
				return
			}
			lay := common.layouts[0]
			for i := 0; i < n && failure.Load() == nil; i++ {
				// outgoing
				v, _ := lay.Decode([]byte{byte(i), byte(i >> 8), byte(l), 0, 6, 8, 0, 0, 3}, true)
				w.calls = w.calls[:0]
				if err := sw.Write(v.(message.Message)); err != nil {
					failure.Store(fmt.Sprintf("link %d write %d: %v", l, i, err))
					return
				}
				p, nb, err := ref.Parse(w.calls[0])
				if err != nil || nb != len(w.calls[0]) {
					failure.Store(fmt.Sprintf("link %d frame %d does not parse: %x", l, i, w.calls[0]))
					return
				}
				if p.Sys != byte(10+l) || p.Comp != byte(100+l) || p.Seq != byte(i) || !bytes.Equal(p.Payload, lay.Encode(v, true)) {
					failure.Store(fmt.Sprintf("link %d frame %d carries another link's content: %x", l, i, w.calls[0]))
					return
				}
				if p.Checksum != p.ChecksumFor(lay.CRCExtra) {
					failure.Store(fmt.Sprintf("link %d frame %d: checksum %#04x is not the X.25 value %#04x (links running concurrently)", l, i, p.Checksum, p.ChecksumFor(lay.CRCExtra)))
					return
				}
				if key != nil && (p.LinkID != byte(l) || p.Sig != p.SignatureFor(*key)) {
					failure.Store(fmt.Sprintf("link %d frame %d: signature does not verify (links running concurrently): %x", l, i, w.calls[0]))
					return
				}
				// incoming: the same bytes must be accepted by this link's own reader
				res, _, herr := readAll(&chunkReader{data: w.calls[0], failAt: -1}, common.rw, keyOf(key), 10)
				if herr != nil || len(res) != 1 || res[0].err != nil {
					failure.Store(fmt.Sprintf("link %d frame %d: a reference-valid frame was not delivered (err %v): %x", l, i, firstErr(res), w.calls[0]))
					return
				}
				atomic.AddInt64(&checked, 1)
			}
		}(l)
	}
	wg.Wait()
	if f := failure.Load(); f != nil {
		evid.ReplayNote("C02", "TestC02ConcurrentLinks", f.(string))
		t.Fatalf("%s", f.(string))
	}
	rec.Evals(checked)
	rec.Class("concurrent-link-frame", checked)
	rec.Case(true, 1, "concurrent")
	rec.Case(true, 2, "concurrent")
	rec.Sample("concurrent-link-frame", fmt.Sprintf("%d links x %d heartbeat frames written, verified and read back in parallel", links, n))
}
