package wire

import (
	"bytes"
	"fmt"
	"io"
	"reflect"
	"testing"

	"github.com/bluenviron/gomavlib/v3/pkg/x25"
	"pgregory.net/rapid"

	"verifharness/evid"
	"verifharness/gen"
	"verifharness/ref"
)

// TestC02HashStep: all 2^24 three-byte inputs. The map (b0,b1) -> 16-bit register is a bijection,
// so this drives the step function through every (register, next byte) pair via the public API.
func TestC02HashStep(t *testing.T) {
	rec := evid.New(t, "C02", "x25 hash vs bitwise CRC-16/MCRF4XX over all 2^24 three-byte inputs (= every (register state, next byte) pair of the step function)")
	shard, shards := evid.Shard()
	seen := make([]bool, 1<<16)
	h := x25.New()
	n := int64(0)
	for a := shard; a < 256; a += shards {
		ra := ref.CRCStep(ref.CRCInit, byte(a))
		for b := 0; b < 256; b++ {
			rb := ref.CRCStep(ra, byte(b))
			seen[rb] = true
			for c := 0; c < 256; c++ {
				want := ref.CRCStep(rb, byte(c))
				h.Reset()
				h.Write([]byte{byte(a), byte(b), byte(c)})
				if got := h.Sum16(); got != want {
					evid.ReplayNote("C02", t.Name(), fmt.Sprintf("input %02x%02x%02x got %#04x want %#04x", a, b, c, got, want))
					t.Fatalf("x25(%02x %02x %02x) = %#04x, CRC-16/MCRF4XX = %#04x", a, b, c, got, want)
				}
				n++
			}
		}
	}
	if shards == 1 {
		for s, ok := range seen {
			if !ok {
				t.Fatalf("BROKEN: register state %#04x not reached by two-byte prefixes", s)
			}
		}
	}
	rec.Evals(n)
	rec.Class("hash-step", n)
	rec.Case(true, 1, "hash-step-enum")
	rec.Case(true, 2, "hash-step-enum")
	rec.Exhaustive("all 2^24 (CRC register, next byte) pairs of the x25 step function")
	rec.Sample("hash-step", "x25(00 00 00) .. x25(ff ff ff) each equal to the bitwise reference")
}

func TestC02HashIncremental(t *testing.T) {
	rec := evid.New(t, "C02", "random byte strings 0..600 bytes hashed in random splits: incremental == one-shot == reference; Sum/Sum16/Reset/Size/BlockSize consistent; non-trivial = at least 2 chunks; distinct by hash of data+splits")
	if got := ref.CRC([]byte("123456789")); got != 0x6F91 {
		t.Fatalf("BROKEN: reference CRC check value %#x", got)
	}
	h0 := x25.New()
	h0.Write([]byte("123456789"))
	if h0.Sum16() != 0x6F91 {
		t.Fatalf("x25(\"123456789\") = %#04x, catalogue check value of CRC-16/MCRF4XX is 0x6f91", h0.Sum16())
	}
	evid.Check(t, rec, evid.N(60000, 300000), func(t *rapid.T) {
		readBufSize = 512
		n := rapid.OneOf(rapid.IntRange(0, 600), rapid.IntRange(0, 20)).Draw(t, "n")
		data := gen.Bytes(t, n, "data")
		want := ref.CRC(data)
		h := x25.New()
		if rapid.Bool().Draw(t, "dirty") { // Reset must bring back the initial state
			h.Write([]byte{1, 2, 3})
			h.Reset()
		}
		pos, chunks := 0, 0
		var splits []byte
		for pos < len(data) {
			k := rapid.IntRange(0, len(data)-pos).Draw(t, "chunk")
			h.Write(data[pos : pos+k])
			pos += k
			chunks++
			splits = append(splits, byte(k), byte(k>>8))
			if chunks > 40 {
				h.Write(data[pos:])
				pos = len(data)
			}
		}
		if got := h.Sum16(); got != want {
			t.Fatalf("incremental x25 over %x = %#04x, reference %#04x", data, got, want)
		}
		prefix := []byte{0xAA}
		if s := h.Sum(prefix); !bytes.Equal(s, []byte{0xAA, byte(want), byte(want >> 8)}) {
			t.Fatalf("Sum = %x, want aa %02x %02x", s, byte(want), byte(want>>8))
		}
		if h.Sum16() != want {
			t.Fatalf("Sum changed the state")
		}
		if h.Size() != 2 || h.BlockSize() != 1 {
			t.Fatalf("Size/BlockSize = %d/%d", h.Size(), h.BlockSize())
		}
		rec.Case(chunks >= 2, evid.Hash(data, splits), "incremental")
	})
	rec.Sample("incremental", "e.g. 600 random bytes written in up to 40 random chunks")
}

// validFrame draws a message value of the dialect, encodes it with the reference and wraps it in
// a frame carrying the reference checksum.
func validFrame(t *rapid.T, di *dialectInfo, o gen.FrameOpts, key *[32]byte) (ref.Frame, *ref.Layout, interface{}) {
	f := gen.RawFrame(t, o)
	id := di.ids[rapid.IntRange(0, len(di.ids)-1).Draw(t, "msgidx")]
	if !f.V2 && id > 255 {
		// a v1 frame cannot carry it: use the first id <= 255 after it, or switch the case to v2
		found := false
		for _, c := range di.ids {
			if c <= 255 && (c >= id%256 || !found) {
				id, found = c, true
				if c >= id%256 {
					break
				}
			}
		}
		if !found {
			f.V2 = true
			f.Incompat, f.Compat = 0, 0
		}
	}
	lay := di.layouts[id]
	val := gen.Value(t, lay)
	f.ID = id
	f.Payload = lay.Encode(val, f.V2)
	if f.V2 && rapid.IntRange(0, 14).Draw(t, "all_zero_message") == 0 {
		// a message whose fields are all zero: its v2 payload is one zero byte, and a sender that strips that one
		// too (length 0) says the same thing
		val = reflect.New(lay.Type).Interface()
		f.Payload = lay.Encode(val, true)
		if rapid.Bool().Draw(t, "length_zero") {
			f.Payload = []byte{}
		}
		f.Checksum = f.ChecksumFor(lay.CRCExtra)
		if f.Signed() && key != nil {
			f.Sig = f.SignatureFor(*key)
		}
		return f, lay, val
	}
	if f.V2 && rapid.IntRange(0, 5).Draw(t, "untruncated") == 0 {
		f.Payload = lay.EncodeFull(val, true) // legal: senders may skip truncation
	}
	if f.V2 && rapid.IntRange(0, 9).Draw(t, "sender_has_a_newer_definition") == 0 {
		// the sender's dialect has extension fields this one does not know yet: bytes behind the last known field,
		// to be ignored by a receiver
		if full := lay.EncodeFull(val, true); len(full) < 255 {
			k := rapid.IntRange(1, minInt(12, 255-len(full))).Draw(t, "unknown_extension_bytes")
			tail := rapid.SliceOfN(rapid.Byte(), k, k).Draw(t, "unknown_extension")
			tail[k-1] |= 1
			f.Payload = append(append([]byte(nil), full...), tail...)
			f.Checksum = f.ChecksumFor(lay.CRCExtra)
			if f.Signed() && key != nil {
				f.Sig = f.SignatureFor(*key)
			}
			return f, lay, val
		}
	}
	if rapid.IntRange(0, 4).Draw(t, "dirty_strings") == 0 {
		// legal as well: whatever a sender left behind the terminator of a string field (the field ends at its
		// first NUL); such a payload is not the one the library would have produced
		full := lay.EncodeFull(val, f.V2)
		if dirtyStrings(t, lay, full, f.V2) {
			if f.V2 {
				for len(full) > 1 && full[len(full)-1] == 0 {
					full = full[:len(full)-1]
				}
			}
			if len(full) <= 255 {
				f.Payload = full
			}
		}
	}
	f.Checksum = f.ChecksumFor(lay.CRCExtra)
	if f.Signed() && key != nil {
		f.Sig = f.SignatureFor(*key)
	}
	return f, lay, val
}

// dirtyStrings overwrites the bytes after the first NUL of every string field that has room for it with non-zero
// junk and reports whether it changed anything.
func dirtyStrings(t *rapid.T, lay *ref.Layout, payload []byte, v2 bool) bool {
	changed := false
	off := 0
	for _, fl := range lay.Fields {
		if fl.Ext && !v2 {
			break
		}
		size := fl.Size()
		if fl.IsString && fl.ArrayLen > 1 && off+size <= len(payload) {
			region := payload[off : off+size]
			if z := bytes.IndexByte(region, 0); z >= 0 && z+1 < len(region) {
				for k := z + 1; k < len(region); k++ {
					region[k] = byte(rapid.IntRange(1, 255).Draw(t, "junk_after_nul"))
				}
				changed = true
			}
		}
		off += size
	}
	return changed
}

func TestC02Gate(t *testing.T) {
	rec := evid.New(t, "C02", "a reference-encoded, reference-checksummed dialect message must be delivered decoded; every single-bit flip of its bytes (plus byte substitutions, checksum swaps, foreign CRC_EXTRA) is fed to the reader and judged by the consumed-span oracle: a frame is delivered only if the bytes consumed are a frame the reference accepts; non-trivial = a damaged frame; distinct by hash of the damaged bytes")
	rec.Require("flip-header", "flip-payload", "flip-checksum", "valid-delivered", "foreign-crc-extra", "flip-signature-block", "id>=65536", "signed-with-wrong-checksum", "valid-delivered-split", "non-canonical-frame-re-emitted", "non-canonical-v1-frame-re-emitted", "same-frame-several-times-in-a-row")
	dpool := pool(t)
	maxFlipLen := 80
	evid.Check(t, rec, evid.N(5000, 15000), func(t *rapid.T) {
		drawBufSize(t)
		di := drawDialect(t, dpool)
		f, lay, _ := validFrame(t, di, gen.FrameOpts{}, nil)
		data := f.Bytes()
		runOn := func(stream []byte) ([]ref.Frame, error) {
			res, terr, herr := readAll(&chunkReader{data: stream, failAt: -1}, di.rw, nil, len(stream)+2)
			if herr != nil {
				return nil, herr
			}
			if terr != io.EOF {
				return nil, fmt.Errorf("reader ended with %v, want io.EOF", terr)
			}
			return judge(stream, res, di, nil)
		}
		// completeness, also when the frame arrives in two transport reads split at any offset
		for cut := 1; cut < len(data) && len(data) <= maxFlipLen; cut++ {
			res, terr, herr := readAll(&chunkReader{data: data, sizes: []int{cut, len(data)}, failAt: -1}, di.rw, nil, len(data)+2)
			if herr != nil || terr != io.EOF {
				t.Fatalf("split at %d: %v / %v", cut, herr, terr)
			}
			d2, jerr := judge(data, res, di, nil)
			if jerr != nil || len(d2) != 1 || !gen.SameFrame(d2[0], f) {
				evid.ReplayNote("C02", "TestC02Gate", fmt.Sprintf("frame %x split after byte %d: delivered %d (%v)", data, cut, len(d2), jerr))
				t.Fatalf("a well-formed %s frame with the reference checksum, arriving in two reads split after byte %d, was not delivered as such (delivered %d, %v): %x", lay.MsgName, cut, len(d2), jerr, data)
			}
			rec.Class("valid-delivered-split", 1)
		}
		// the checksum gate is independent of link signing: a correctly SIGNED frame with a wrong checksum is refused
		if f.V2 {
			gkey := [32]byte{0x5C, 1, 2}
			g := f
			g.Incompat |= 1
			g.LinkID, g.Timestamp = 7, 3000000
			g.Checksum = g.ChecksumFor(lay.CRCExtra)
			g.Sig = g.SignatureFor(gkey)
			okRes, _, _ := readAll(&chunkReader{data: g.Bytes(), failAt: -1}, di.rw, keyOf(&gkey), len(data)+30)
			if d3, jerr := judge(g.Bytes(), okRes, di, &gkey); jerr != nil || len(d3) != 1 {
				t.Fatalf("signed frame with the reference checksum not delivered under the key: %v", jerr)
			}
			g.Checksum ^= uint16(rapid.IntRange(1, 0xFFFF).Draw(t, "signed_crc_damage"))
			g.Sig = g.SignatureFor(gkey) // signature valid for the damaged frame (a sender with another definition of the message)
			badRes, _, _ := readAll(&chunkReader{data: g.Bytes(), failAt: -1}, di.rw, keyOf(&gkey), len(data)+30)
			d4, jerr := judge(g.Bytes(), badRes, di, &gkey)
			if jerr != nil || len(d4) != 0 {
				evid.ReplayNote("C02", "TestC02Gate", fmt.Sprintf("signed frame with wrong checksum %x: %v delivered=%d", g.Bytes(), jerr, len(d4)))
				t.Fatalf("a validly signed %s frame carrying a wrong checksum was delivered (incoming key configured): %x (%v)", lay.MsgName, g.Bytes(), jerr)
			}
			rec.Case(true, evid.Hash(g.Bytes(), []byte("signed")), "signed-with-wrong-checksum")
		}
		del, err := runOn(data)
		if err != nil {
			t.Fatalf("valid frame %s (%s): %v", gen.Describe(f), lay.MsgName, err)
		}
		if len(del) != 1 || !gen.SameFrame(del[0], f) {
			t.Fatalf("a well-formed frame with the reference checksum was not delivered: %s (%s) bytes %x; delivered %d", gen.Describe(f), lay.MsgName, data, len(del))
		}
		rec.Case(false, 0, "valid-delivered")
		// the same frame two to four times in a row, byte for byte (a transmitter that sends a prepared buffer, a
		// sender that leaves the sequence number alone, a log recorded from two links): every copy is a well-formed
		// frame with the right checksum, and every copy is delivered
		{
			k := rapid.IntRange(2, 4).Draw(t, "copies")
			var rep []byte
			for i := 0; i < k; i++ {
				rep = append(rep, data...)
			}
			del, err := runOn(rep)
			if err != nil || len(del) != k {
				evid.ReplayNote("C02", "TestC02Gate", fmt.Sprintf("frame %x sent %d times in a row: %d delivered (%v)", data, k, len(del), err))
				t.Fatalf("a well-formed %s frame with the reference checksum arrives %d times in a row, byte for byte: %d of the copies were delivered (%v): %x", lay.MsgName, k, len(del), err, data)
			}
			rec.Class("same-frame-several-times-in-a-row", 1)
		}
		// generation: the frame the reader delivered, written again by a writer with the same dialect, carries
		// the checksum of the bytes that go out (whatever form the payload arrived in)
		{
			res, _, herr := readAll(&chunkReader{data: data, failAt: -1}, di.rw, nil, len(data)+2)
			if herr != nil || len(res) != 1 || res[0].err != nil {
				t.Fatalf("BROKEN: re-reading the valid frame: %v", herr)
			}
			w, werr := writeOne(res[0].fr, di.rw)
			if werr != nil {
				t.Fatalf("writing the delivered %s frame again failed: %v", lay.MsgName, werr)
			}
			out := w.all()
			p, nb, perr := ref.Parse(out)
			if perr != nil || nb != len(out) {
				t.Fatalf("the delivered %s frame written again is not one whole frame: %x", lay.MsgName, out)
			}
			if want := p.ChecksumFor(lay.CRCExtra); p.Checksum != want {
				evid.ReplayNote("C02", "TestC02Gate", fmt.Sprintf("received %x\nre-emitted %x\nchecksum %#04x, X.25 over the emitted bytes + CRC_EXTRA gives %#04x", data, out, p.Checksum, want))
				t.Fatalf("%s frame %x read and written again goes out as %x: it carries checksum %#04x, but X.25 over its length..payload plus CRC_EXTRA is %#04x", lay.MsgName, data, out, p.Checksum, want)
			}
			canon := lay.Encode(mustDecode(t, lay, f.Payload, f.V2), f.V2)
			if !bytes.Equal(f.Payload, canon) {
				rec.Class("non-canonical-frame-re-emitted", 1)
				if !f.V2 {
					rec.Class("non-canonical-v1-frame-re-emitted", 1)
				}
			}
		}
		if f.ID >= 65536 {
			rec.Class("id>=65536", 1)
		}
		hdrLen := 6
		if f.V2 {
			hdrLen = 10
		}
		classOf := func(i int) string {
			switch {
			case i < hdrLen:
				return "flip-header"
			case i < hdrLen+len(f.Payload):
				return "flip-payload"
			case i < hdrLen+len(f.Payload)+2:
				return "flip-checksum"
			}
			return "flip-signature-block"
		}
		// single-bit flips: all of them for short frames, a sample of bytes for long ones
		var idx []int
		if len(data) <= maxFlipLen {
			for i := range data {
				idx = append(idx, i)
			}
		} else {
			for i := 0; i < hdrLen; i++ {
				idx = append(idx, i)
			}
			for k := 0; k < 40; k++ {
				idx = append(idx, rapid.IntRange(hdrLen, len(data)-1).Draw(t, "flipbyte"))
			}
			idx = append(idx, hdrLen+len(f.Payload), hdrLen+len(f.Payload)+1)
		}
		bad := make([]byte, len(data))
		for _, i := range idx {
			for bit := 0; bit < 8; bit++ {
				copy(bad, data)
				bad[i] ^= 1 << uint(bit)
				del, err := runOn(bad)
				if err != nil {
					evid.ReplayNote("C02", "TestC02Gate", fmt.Sprintf("original %x\ndamaged  %x (byte %d bit %d)\n%v", data, bad, i, bit, err))
					t.Fatalf("frame %x with byte %d bit %d flipped (%s): %v", data, i, bit, classOf(i), err)
				}
				_ = del
				rec.Case(true, evid.Hash(bad), classOf(i))
			}
		}
		// byte substitutions
		for k := 0; k < 6; k++ {
			copy(bad, data)
			i := rapid.IntRange(1, len(data)-1).Draw(t, "subst_i")
			bad[i] = gen.Byte().Draw(t, "subst_v")
			if _, err := runOn(bad); err != nil {
				t.Fatalf("frame %x with byte %d := %#x: %v", data, i, bad[i], err)
			}
			if bad[i] != data[i] {
				rec.Case(true, evid.Hash(bad), "byte-substitution")
			}
		}
		// checksum bytes swapped
		copy(bad, data)
		c := hdrLen + len(f.Payload)
		bad[c], bad[c+1] = bad[c+1], bad[c]
		if _, err := runOn(bad); err != nil {
			t.Fatalf("frame %x with checksum bytes swapped: %v", data, err)
		}
		if bad[c] != bad[c+1] {
			rec.Case(true, evid.Hash(bad), "checksum-swapped")
		}
		// checksum computed with another message's CRC_EXTRA
		other := di.layouts[di.ids[rapid.IntRange(0, len(di.ids)-1).Draw(t, "other")]]
		if other.CRCExtra != lay.CRCExtra {
			g := f
			g.Checksum = f.ChecksumFor(other.CRCExtra)
			del, err := runOn(g.Bytes())
			if err != nil {
				t.Fatalf("frame of %s checksummed with CRC_EXTRA of %s: %v", lay.MsgName, other.MsgName, err)
			}
			if len(del) != 0 && del[0].ID == f.ID {
				t.Fatalf("frame of %s checksummed with the CRC_EXTRA of %s was delivered", lay.MsgName, other.MsgName)
			}
			rec.Case(true, evid.Hash(g.Bytes(), []byte("x")), "foreign-crc-extra")
		}
		if rec.WantSample("gate") {
			rec.Sample("gate", map[string]interface{}{"message": lay.MsgName, "frame": fmt.Sprintf("%x", data), "flips": len(idx) * 8})
		}
	})
}

func mustDecode(t *rapid.T, lay *ref.Layout, payload []byte, v2 bool) interface{} {
	v, err := lay.Decode(payload, v2)
	if err != nil {
		t.Fatalf("BROKEN: reference cannot decode its own payload: %v", err)
	}
	return v
}

func minInt(a, b int) int {
	if a < b {
		return a
	}
	return b
}
