package wire

import (
	"fmt"
	"io"
	"testing"

	"pgregory.net/rapid"

	"verifharness/evid"
	"verifharness/gen"
	"verifharness/ref"
)

// TestC08SameContentInBothVersions: a vehicle that switches from Mavlink 1 to Mavlink 2 while it repeats the same
// status sends the same payload bytes in a v1 frame and then in a v2 frame - and a sender need not cut trailing zeros,
// so the v2 payload may be byte for byte the v1 payload, zero at the end included. Each frame is forwarded by its own
// merits: whatever the router emits for it carries the checksum of the bytes that go out and says what came in.
func TestC08SameContentInBothVersions(t *testing.T) {
	rec := evid.New(t, "C08", "a dialect message (id <= 255) whose full-size v1 payload ends in a zero byte arrives on one link as v1 frame(s) and v2 frame(s) with identical payload bytes (the v2 sender did not truncate) in generated orders of 2..5 frames; every frame is read by one dialect reader and written by a dialect writer: each emitted frame keeps version and header, carries X.25 over its own bytes + CRC_EXTRA, and decodes to the message sent; non-trivial = a v2 frame right after a v1 frame; distinct by hash of the stream")
	rec.Require("v2-frame-right-after-a-v1-frame-with-the-same-payload-bytes")
	dpool := pool(t)
	evid.Check(t, rec, evid.N(1500, 8000), func(t *rapid.T) {
		readBufSize = 512
		di := drawDialect(t, dpool)
		var small []uint32
		for _, id := range di.ids {
			if id <= 255 && di.layouts[id].BaseSize > 1 {
				small = append(small, id)
			}
		}
		if len(small) == 0 {
			t.Skip("dialect without v1-capable messages")
		}
		lay := di.layouts[small[rapid.IntRange(0, len(small)-1).Draw(t, "msg")]]
		val := gen.Value(t, lay)
		p := lay.EncodeFull(val, false)
		for k := rapid.IntRange(1, 3).Draw(t, "zero_tail"); k > 0 && k <= len(p); k-- {
			p[len(p)-k] = 0
		}
		v, err := lay.Decode(p, false)
		if err != nil {
			t.Fatalf("BROKEN: %v", err)
		}
		p = lay.Encode(v, false) // canonical v1 payload: full base size
		if len(p) == 0 || p[len(p)-1] != 0 {
			t.Skip("payload does not end in zero")
		}
		order := rapid.SliceOfN(rapid.Bool(), 2, 5).Draw(t, "versions") // false: v1, true: v2
		var stream []byte
		var sent []ref.Frame
		after := false
		for i, v2 := range order {
			f := ref.Frame{V2: v2, Seq: byte(40 + i), Sys: 9, Comp: 3, ID: layID(di, lay), Payload: p}
			f.Checksum = f.ChecksumFor(lay.CRCExtra)
			sent = append(sent, f)
			stream = append(stream, f.Bytes()...)
			if i > 0 && v2 && !order[i-1] {
				after = true
			}
		}
		res, terr, herr := readAll(&chunkReader{data: stream, failAt: -1}, di.rw, nil, len(stream)+2)
		fail := func(format string, a ...interface{}) {
			msg := fmt.Sprintf(format, a...)
			evid.ReplayNote("C08", "TestC08SameContentInBothVersions", fmt.Sprintf("stream %x (%s, versions %v)\n%s", stream, lay.MsgName, order, msg))
			t.Fatalf("%s frames with the payload %x in the versions %v (true = v2, not truncated): %s", lay.MsgName, p, order, msg)
		}
		if herr != nil || terr != io.EOF || len(res) != len(sent) {
			fail("%d results for %d frames (%v / %v)", len(res), len(sent), herr, terr)
		}
		for i, r := range res {
			if r.err != nil {
				fail("frame %d refused: %v", i, r.err)
			}
			w, werr := writeOne(r.fr, di.rw)
			if werr != nil {
				fail("frame %d: forwarding refused: %v", i, werr)
			}
			out := w.all()
			q, nb, perr := ref.Parse(out)
			if perr != nil || nb != len(out) {
				fail("frame %d goes out as %x, not one whole frame", i, out)
			}
			if q.V2 != sent[i].V2 || q.Seq != sent[i].Seq || q.Sys != 9 || q.Comp != 3 || q.ID != sent[i].ID {
				fail("frame %d goes out with another header: %x", i, out)
			}
			if want := q.ChecksumFor(lay.CRCExtra); q.Checksum != want {
				fail("frame %d (v2=%v) goes out as %x: it carries checksum %#04x, X.25 over its own length..payload plus CRC_EXTRA is %#04x - the next hop refuses it", i, q.V2, out, q.Checksum, want)
			}
			m, derr := lay.Decode(q.Payload, q.V2)
			if derr != nil || !ref.EqualMsg(m, v) {
				fail("frame %d goes out saying %+v, it came in saying %+v", i, m, v)
			}
		}
		var cls []string
		if after {
			cls = append(cls, "v2-frame-right-after-a-v1-frame-with-the-same-payload-bytes")
		}
		rec.Case(after, evid.Hash(stream), cls...)
		if after && rec.WantSample("versions") {
			rec.Sample("versions", map[string]interface{}{"message": lay.MsgName, "payload": fmt.Sprintf("%x", p), "versions": order})
		}
	})
}

func layID(di *dialectInfo, l *ref.Layout) uint32 {
	for id, x := range di.layouts {
		if x == l {
			return id
		}
	}
	return 0
}
