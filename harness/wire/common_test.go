package wire

import (
	"bufio"
	"bytes"
	"errors"
	"fmt"
	"io"
	"reflect"
	"sync"
	"testing"

	"github.com/bluenviron/gomavlib/v3/pkg/dialect"
	"github.com/bluenviron/gomavlib/v3/pkg/dialects/ardupilotmega"
	"github.com/bluenviron/gomavlib/v3/pkg/dialects/common"
	testdialect "github.com/bluenviron/gomavlib/v3/pkg/dialects/test"
	"github.com/bluenviron/gomavlib/v3/pkg/frame"
	"github.com/bluenviron/gomavlib/v3/pkg/message"
	"pgregory.net/rapid"

	"verifharness/ref"
)

// recWriter records every Write call separately.
type recWriter struct {
	calls [][]byte
	fail  int // fail the n-th call (1-based), 0 = never
	err   error
	// failNext: the next call sends nothing, returns this error and is not recorded
	failNext error
	refused  int
}

func (w *recWriter) Write(p []byte) (int, error) {
	if w.failNext != nil {
		err := w.failNext
		w.failNext = nil
		w.refused++
		return 0, err
	}
	if w.fail > 0 && len(w.calls)+1 == w.fail {
		w.calls = append(w.calls, nil)
		return 0, w.err
	}
	w.calls = append(w.calls, append([]byte(nil), p...))
	return len(p), nil
}

func (w *recWriter) all() []byte {
	var b []byte
	for _, c := range w.calls {
		b = append(b, c...)
	}
	return b
}

// dialectInfo bundles a library dialect codec with reference layouts by id.
type dialectInfo struct {
	name    string
	rw      *dialect.ReadWriter
	layouts map[uint32]*ref.Layout
	ids     []uint32
}

var (
	dialectsOnce sync.Once
	dCommon      *dialectInfo
	dArdu        *dialectInfo
	dTest        *dialectInfo
	dBig         *dialectInfo
)

func mkDialect(name string, d *dialect.Dialect) *dialectInfo {
	rw := &dialect.ReadWriter{Dialect: d}
	if err := rw.Initialize(); err != nil {
		panic(fmt.Sprintf("BROKEN: dialect %s does not initialize: %v", name, err))
	}
	di := &dialectInfo{name: name, rw: rw, layouts: map[uint32]*ref.Layout{}}
	for _, m := range d.Messages {
		l, err := ref.LayoutOf(reflect.TypeOf(m).Elem())
		if err != nil {
			panic(fmt.Sprintf("BROKEN: reference cannot lay out %T: %v", m, err))
		}
		di.layouts[m.GetID()] = l
		di.ids = append(di.ids, m.GetID())
	}
	return di
}

func dialects(t testing.TB) (*dialectInfo, *dialectInfo) {
	dialectsOnce.Do(func() {
		dCommon = mkDialect("common", common.Dialect)
		dArdu = mkDialect("ardupilotmega", ardupilotmega.Dialect)
		dTest = mkDialect("test", testdialect.Dialect)
		dBig = mkDialect("bigid", bigDialect)
	})
	return dCommon, dArdu
}

// pool returns the dialects the wire checks draw from.
func pool(t testing.TB) []*dialectInfo {
	dialects(t)
	return []*dialectInfo{dCommon, dArdu, dTest, dBig}
}

func drawDialect(t *rapid.T, tb []*dialectInfo) *dialectInfo {
	// the one-message test dialect is picked less often
	i := rapid.SampledFrom([]int{0, 0, 0, 1, 1, 1, 2, 3, 3}).Draw(t, "dialect_idx")
	return tb[i]
}

// chunkReader hands out the stream in the given chunk sizes (then 1 byte at a time when the
// sizes run out) and optionally fails with err at byte offset failAt (failAt < 0: plain EOF at the end).
type chunkReader struct {
	data   []byte
	pos    int
	sizes  []int
	i      int
	failAt int
	err    error
	drawn  int
	// transient: offsets before which the transport reports errTransient exactly once and then goes on.
	transient map[int]bool
	fired     int
}

var errTransient = errors.New("transient transport error")

func (c *chunkReader) Read(p []byte) (int, error) {
	limit := len(c.data)
	if c.failAt >= 0 && c.failAt < limit {
		limit = c.failAt
	}
	if c.transient[c.pos] {
		delete(c.transient, c.pos)
		c.fired++
		return 0, errTransient
	}
	for off := range c.transient {
		if off > c.pos && off < limit {
			limit = off
		}
	}
	if c.pos >= limit {
		if c.failAt >= 0 {
			return 0, c.err
		}
		return 0, io.EOF
	}
	n := 1
	if c.i < len(c.sizes) {
		n = c.sizes[c.i]
		c.i++
	} else if c.sizes == nil {
		n = len(p)
	}
	if n < 1 {
		n = 1
	}
	if n > len(p) {
		n = len(p)
	}
	if n > limit-c.pos {
		n = limit - c.pos
	}
	copy(p, c.data[c.pos:c.pos+n])
	c.pos += n
	c.drawn += n
	return n, nil
}

// span is one Read result with the input bytes it consumed.
type result struct {
	fr    frame.Frame
	err   error
	start int
	end   int
}

// readAll drains a reader built over cr; the harness owns the bufio.Reader so it can measure
// what each call consumed. It stops at the first error that is not a frame.ReadError and returns it.
// readAllHook, when set, runs before every Read of readAll (a test's way of touching the reader between calls).
var readAllHook func(rd *frame.Reader, call int)

// readAllGot, when set, is handed every frame readAll receives, right after the Read that returned it.
var readAllGot func(fr frame.Frame, call int)

func readAll(cr *chunkReader, drw *dialect.ReadWriter, key *frame.V2Key, maxCalls int) ([]result, error, error) {
	br := bufio.NewReaderSize(cr, readBufSize)
	rd := &frame.Reader{BufByteReader: br, DialectRW: drw, InKey: key}
	if err := rd.Initialize(); err != nil {
		return nil, nil, fmt.Errorf("BROKEN: reader init: %v", err)
	}
	var out []result
	consumed := 0
	for calls := 0; ; calls++ {
		if calls > maxCalls {
			return out, nil, fmt.Errorf("more than %d calls without exhausting the stream", maxCalls)
		}
		if readAllHook != nil {
			readAllHook(rd, calls)
		}
		fr, err := safeRead(rd)
		now := cr.drawn - br.Buffered()
		r := result{fr: fr, err: err, start: consumed, end: now}
		consumed = now
		if err != nil {
			if _, ok := err.(panicErr); ok {
				return out, nil, err
			}
			var re frame.ReadError
			if asReadError(err, &re) {
				if fr != nil {
					return out, nil, fmt.Errorf("frame returned together with a ReadError")
				}
				out = append(out, r)
				continue
			}
			if err == errTransient && cr.transient != nil {
				// the transport recovered: the same reader goes on
				continue
			}
			return out, err, nil
		}
		if fr == nil {
			return out, nil, fmt.Errorf("nil frame with nil error")
		}
		if readAllGot != nil {
			readAllGot(fr, calls)
		}
		out = append(out, r)
	}
}

type panicErr struct{ v interface{} }

func (p panicErr) Error() string { return fmt.Sprintf("panic: %v", p.v) }

func safeRead(rd *frame.Reader) (fr frame.Frame, err error) {
	defer func() {
		if r := recover(); r != nil {
			fr, err = nil, panicErr{r}
		}
	}()
	return rd.Read()
}

func asReadError(err error, target *frame.ReadError) bool {
	re, ok := err.(frame.ReadError)
	if ok {
		*target = re
	}
	return ok
}

func rawOf(fr frame.Frame) *message.MessageRaw {
	m, _ := fr.GetMessage().(*message.MessageRaw)
	return m
}

var _ = bytes.Equal

// readBufSize is the size of the caller-supplied bufio.Reader handed to frame.Reader (the public
// BufByteReader field); any size bufio accepts is a legal configuration. drawBufSize picks one per case.
var readBufSize = 512

func drawBufSize(t *rapid.T) {
	readBufSize = rapid.SampledFrom([]int{512, 512, 512, 16, 17, 24, 32, 64, 100, 256, 280, 300, 4096}).Draw(t, "bufio_size")
}
