package wire

import (
	"bytes"
	"fmt"
	"io"
	"reflect"
	"testing"

	"github.com/bluenviron/gomavlib/v3/pkg/dialect"
	"github.com/bluenviron/gomavlib/v3/pkg/frame"
	"github.com/bluenviron/gomavlib/v3/pkg/message"
	"pgregory.net/rapid"

	"verifharness/evid"
	"verifharness/gen"
	"verifharness/ref"
)

// readOne reads a stream that must contain exactly one deliverable frame.
func readOne(stream []byte, di *dialectInfo, key *[32]byte) (frame.Frame, ref.Frame, error) {
	var drw *dialect.ReadWriter
	if di != nil {
		drw = di.rw
	}
	res, terr, herr := readAll(&chunkReader{data: stream, failAt: -1}, drw, keyOf(key), len(stream)+2)
	if herr != nil {
		return nil, ref.Frame{}, herr
	}
	if terr != io.EOF {
		return nil, ref.Frame{}, fmt.Errorf("reader ended with %v", terr)
	}
	del, err := judge(stream, res, di, key)
	if err != nil {
		return nil, ref.Frame{}, err
	}
	if len(res) != 1 || len(del) != 1 {
		return nil, ref.Frame{}, fmt.Errorf("%d results, %d delivered (first error: %v)", len(res), len(del), firstErr(res))
	}
	return res[0].fr, del[0], nil
}

// nonCanonical rewrites a canonical payload into one of the encodings a reader must accept.
func nonCanonical(t *rapid.T, lay *ref.Layout, val interface{}, v2 bool) ([]byte, string) {
	canon := lay.Encode(val, v2)
	full := lay.EncodeFull(val, v2)
	families := []string{"canonical", "post-nul"}
	if v2 {
		families = append(families, "untruncated", "partly-stripped", "zero-tail-beyond-ext", "nonzero-tail-beyond-ext", "empty-for-zero")
	}
	fam := rapid.SampledFrom(families).Draw(t, "family")
	switch fam {
	case "untruncated":
		if !bytes.Equal(full, canon) {
			return full, fam
		}
	case "partly-stripped":
		if len(full)-len(canon) >= 2 {
			k := rapid.IntRange(1, len(full)-len(canon)-1).Draw(t, "keepzeros")
			return full[:len(canon)+k], fam
		}
	case "zero-tail-beyond-ext":
		if len(full) < 255 {
			k := rapid.IntRange(1, 255-len(full)).Draw(t, "extra")
			return append(append([]byte(nil), full...), make([]byte, k)...), fam
		}
	case "nonzero-tail-beyond-ext":
		if len(full) < 255 {
			k := rapid.IntRange(1, 255-len(full)).Draw(t, "extra")
			tail := rapid.SliceOfN(rapid.Byte(), k, k).Draw(t, "tail")
			tail[k-1] |= 1
			return append(append([]byte(nil), full...), tail...), fam
		}
	case "empty-for-zero":
		allZero := true
		for _, b := range full {
			if b != 0 {
				allZero = false
			}
		}
		if allZero {
			return nil, fam
		}
	case "post-nul":
		// garbage after the terminator of a string field that does not fill its array
		out := append([]byte(nil), full...)
		p, changed := 0, false
		for _, f := range lay.Fields {
			if f.Ext && !v2 {
				continue
			}
			if f.IsString && f.ArrayLen > 1 {
				end := 0
				for end < f.ArrayLen && out[p+end] != 0 {
					end++
				}
				for i := end + 1; i < f.ArrayLen; i++ {
					out[p+i] = byte(0x41 + i%20)
					changed = true
				}
			}
			p += f.Size()
		}
		if changed {
			if v2 {
				return ref.Truncate(out), fam
			}
			return out, fam
		}
	}
	return canon, "canonical"
}

func TestC08Hops(t *testing.T) {
	rec := evid.New(t, "C08", "frames a reader accepts (raw with arbitrary checksum/signature; dialect messages in canonical and every non-canonical encoding family) are passed through 1..4 hops of frame.Reader -> frame.Writer.Write with a dialect present or absent per hop; oracles: header fields preserved, bytes identical on dialect-less hops, reference-valid checksum for the payload actually sent on dialect hops, same decoded message at the next hop; non-trivial = dialect hop whose received payload differs from the canonical re-encoding; distinct by hash of (input bytes, hop configuration)")
	rec.Require("fam-untruncated", "fam-partly-stripped", "fam-zero-tail-beyond-ext", "fam-nonzero-tail-beyond-ext", "fam-post-nul", "fam-empty-for-zero", "fam-raw-signed", "hop-without-dialect", "hop-with-dialect", "v1", "hop-that-signs-what-it-originates")
	dpool := pool(t)
	evid.Check(t, rec, evid.N(60000, 250000), func(t *rapid.T) {
		readBufSize = 512
		di := drawDialect(t, dpool)
		var f ref.Frame
		var lay *ref.Layout
		fam := "raw"
		if rapid.IntRange(0, 4).Draw(t, "rawframe") == 0 {
			f = gen.RawFrame(t, gen.FrameOpts{})
			for di.layouts[f.ID] != nil {
				f.ID = (f.ID + 1) & 0xFF
			}
			if f.Signed() {
				fam = "raw-signed"
			}
		} else {
			var val interface{}
			f, lay, val = validFrame(t, di, gen.FrameOpts{}, nil)
			f.Payload, fam = nonCanonical(t, lay, val, f.V2)
			f.Checksum = f.ChecksumFor(lay.CRCExtra)
		}
		nhops := rapid.IntRange(1, 4).Draw(t, "hops")
		in := f.Bytes()
		first := in
		var cls []string
		cls = append(cls, "fam-"+fam)
		if !f.V2 {
			cls = append(cls, "v1")
		}
		var orig interface{}
		if lay != nil {
			orig, _ = lay.Decode(f.Payload, f.V2)
		}
		fail := func(format string, a ...interface{}) {
			msg := fmt.Sprintf(format, a...)
			evid.ReplayNote("C08", "TestC08Hops", fmt.Sprintf("input %x family %s\n%s", first, fam, msg))
			t.Fatalf("input frame %x (%s, family %s): %s", first, gen.Describe(f), fam, msg)
		}
		var hops []bool
		for h := 0; h < nhops; h++ {
			withDialect := rapid.Bool().Draw(t, "hop_dialect")
			hops = append(hops, withDialect)
			var hd *dialectInfo
			if withDialect {
				hd = di
				cls = append(cls, "hop-with-dialect")
			} else {
				cls = append(cls, "hop-without-dialect")
			}
			fr, pin, err := readOne(in, hd, nil)
			if err != nil {
				fail("hop %d (dialect=%v) did not accept %x: %v", h, withDialect, in, err)
			}
			var drw *dialect.ReadWriter
			if hd != nil {
				drw = hd.rw
			}
			var own *[32]byte
			if rapid.IntRange(0, 2).Draw(t, "hop_signs_its_own") == 0 {
				k := [32]byte{}
				copy(k[:], rapid.SliceOfN(rapid.Byte(), 32, 32).Draw(t, "hop_key"))
				own = &k
				cls = append(cls, "hop-that-signs-what-it-originates")
			}
			w, err := writeOneKeyed(fr, drw, own)
			if err != nil {
				fail("hop %d: writing the frame just read failed: %v", h, err)
			}
			if len(w.calls) != 1 {
				fail("hop %d: %d transport writes", h, len(w.calls))
			}
			out := w.calls[0]
			pout, n, err := ref.Parse(out)
			if err != nil || n != len(out) {
				fail("hop %d: forwarded bytes are not one frame: %x", h, out)
			}
			if pout.V2 != pin.V2 || pout.Incompat != pin.Incompat || pout.Compat != pin.Compat || pout.Seq != pin.Seq ||
				pout.Sys != pin.Sys || pout.Comp != pin.Comp || pout.ID != pin.ID {
				fail("hop %d changed header fields:\n in  %s\n out %s", h, gen.Describe(pin), gen.Describe(pout))
			}
			if pin.Signed() && (pout.LinkID != pin.LinkID || pout.Timestamp != pin.Timestamp) {
				fail("hop %d changed the signature link id / timestamp", h)
			}
			if !withDialect || lay == nil {
				if !bytes.Equal(out, in) {
					fail("hop %d (no decoding involved; the hop's writer has a key of its own for what it originates: %v) altered the bytes:\n in  %x\n out %x", h, own != nil, in, out)
				}
			} else {
				if want := pout.ChecksumFor(lay.CRCExtra); pout.Checksum != want {
					fail("hop %d forwarded %s with checksum %#04x, but the payload actually sent (%x) needs %#04x", h, lay.MsgName, pout.Checksum, pout.Payload, want)
				}
				got, derr := lay.Decode(pout.Payload, pout.V2)
				if derr != nil {
					fail("hop %d forwarded an undecodable payload: %v", h, derr)
				}
				if !ref.EqualMsg(got, orig) {
					fail("hop %d changed the message:\n in  %+v\n out %+v", h, orig, got)
				}
			}
			in = out
		}
		// the next hop (a dialect reader) must accept and decode to the same message
		if _, _, err := readOne(in, di, nil); err != nil {
			fail("after %d hops %v the next hop rejects the forwarded frame %x: %v", nhops, hops, in, err)
		}
		nt := fam != "raw" && fam != "raw-signed" && fam != "canonical"
		if nt {
			any := false
			for _, h := range hops {
				any = any || h
			}
			nt = any
		}
		rec.Case(nt, evid.Hash(first, []byte(fmt.Sprint(hops))), cls...)
		if nt && rec.WantSample(fam) {
			rec.Sample(fam, map[string]interface{}{"input": fmt.Sprintf("%x", first), "hops_with_dialect": hops, "message": lay.MsgName})
		}
	})
}

// TestC08BatchForward: a router reads several frames from a link before it forwards them (they sit in
// queues meanwhile); what is forwarded must still be what was received.
func TestC08BatchForward(t *testing.T) {
	rec := evid.New(t, "C08", "2..8 frames (raw with arbitrary checksum/signature, or dialect messages) arrive in one stream in generated chunkings and are ALL read before any of them is written to the next link (as happens when frames wait in event and write queues); without a dialect the forwarded stream must be byte-identical, with a dialect every forwarded frame must carry a reference-valid checksum and decode to the same message; non-trivial = stream longer than the reader's 512-byte window; distinct by hash of the stream")
	rec.Require("longer-than-window", "with-dialect", "without-dialect", "repeated-message+application-edits-a-kept-frame")
	dpool := pool(t)
	evid.Check(t, rec, evid.N(8000, 40000), func(t *rapid.T) {
		drawBufSize(t)
		di := drawDialect(t, dpool)
		withDialect := rapid.Bool().Draw(t, "dialect")
		n := rapid.IntRange(2, 8).Draw(t, "n")
		var in []byte
		var frames []ref.Frame
		var lays []*ref.Layout
		repeats := 0
		for i := 0; i < n; i++ {
			var f ref.Frame
			var lay *ref.Layout
			if i > 0 && lays[i-1] != nil && !frames[i-1].Signed() && rapid.IntRange(0, 3).Draw(t, "repeat_previous") == 0 {
				// the sender repeats itself (a command sent twice, a status that has not changed): the same
				// message again, under the next sequence number
				f, lay = frames[i-1], lays[i-1]
				f.Seq++
				f.Checksum = f.ChecksumFor(lay.CRCExtra)
				repeats++
			} else if rapid.Bool().Draw(t, "rawframe") {
				f = gen.RawFrame(t, gen.FrameOpts{})
				for di.layouts[f.ID] != nil {
					f.ID = (f.ID + 1) & 0xFF
				}
				if rapid.Bool().Draw(t, "long") {
					f.Payload = gen.Bytes(t, rapid.IntRange(180, 255).Draw(t, "plen_long"), "payload_long")
				}
			} else {
				f, lay, _ = validFrame(t, di, gen.FrameOpts{}, nil)
			}
			frames = append(frames, f)
			lays = append(lays, lay)
			in = append(in, f.Bytes()...)
		}
		sizes := rapid.SliceOfN(rapid.OneOf(rapid.IntRange(1, 60), rapid.IntRange(100, 600)), 0, 30).Draw(t, "chunks")
		var hd *dialectInfo
		var drw *dialect.ReadWriter
		if withDialect {
			hd, drw = di, di.rw
		}
		res, terr, herr := readAll(&chunkReader{data: in, sizes: sizes, failAt: -1}, drw, nil, len(in)+2)
		if herr != nil || terr != io.EOF || len(res) != n {
			t.Fatalf("reading %d frames: %d results, %v / %v", n, len(res), herr, terr)
		}
		if _, err := judge(in, res, hd, nil); err != nil {
			t.Fatalf("%v", err)
		}
		// only now forward everything through one writer
		w := &recWriter{}
		fw := &frame.Writer{ByteWriter: w, DialectRW: drw}
		if err := fw.Initialize(); err != nil {
			t.Fatalf("BROKEN: %v", err)
		}
		// the application keeps some frames for itself and works on their messages (they are its own now); the
		// others go on as they came
		kept := map[int]bool{}
		if withDialect {
			for i, r := range res {
				if r.err == nil && lays[i] != nil && rapid.IntRange(0, 3).Draw(t, "application_keeps_and_edits") == 0 {
					if _, raw := r.fr.GetMessage().(*message.MessageRaw); !raw {
						kept[i] = true
						reflect.ValueOf(r.fr.GetMessage()).Elem().Set(reflect.ValueOf(gen.Value(t, lays[i])).Elem())
					}
				}
			}
		}
		var fwdIdx []int
		for i, r := range res {
			if r.err != nil {
				t.Fatalf("frame %d rejected: %v", i, r.err)
			}
			if kept[i] {
				continue
			}
			if err := fw.Write(r.fr); err != nil {
				t.Fatalf("forwarding frame %d failed: %v", i, err)
			}
			fwdIdx = append(fwdIdx, i)
		}
		out := w.all()
		if !withDialect {
			if !bytes.Equal(out, in) {
				evid.ReplayNote("C08", "TestC08BatchForward", fmt.Sprintf("in  %x\nout %x\nchunks %v", in, out, sizes))
				t.Fatalf("%d frames read (chunks %v) and then forwarded without a dialect: the bytes differ\n in  %x\n out %x", n, sizes, in, out)
			}
		} else {
			for k, b := range w.calls {
				i := fwdIdx[k]
				p, nb, err := ref.Parse(b)
				if err != nil || nb != len(b) {
					t.Fatalf("forwarded frame %d is not one whole frame", i)
				}
				if lays[i] == nil {
					if !bytes.Equal(b, frames[i].Bytes()) {
						t.Fatalf("frame %d (id outside the dialect) altered while waiting to be forwarded:\n in  %x\n out %x", i, frames[i].Bytes(), b)
					}
					continue
				}
				if p.Checksum != p.ChecksumFor(lays[i].CRCExtra) {
					t.Fatalf("forwarded frame %d: checksum not valid for the payload sent", i)
				}
				got, derr := lays[i].Decode(p.Payload, p.V2)
				want, _ := lays[i].Decode(frames[i].Payload, frames[i].V2)
				if derr != nil || !ref.EqualMsg(got, want) {
					evid.ReplayNote("C08", "TestC08BatchForward", fmt.Sprintf("in  %x\nframe %d forwarded as %x\nframes the application kept and edited: %v", in, i, b, kept))
					t.Fatalf("forwarded frame %d (%s) decodes to %+v, it arrived as %+v (frames the application kept for itself and edited, not forwarded: %v)", i, lays[i].MsgName, got, want, kept)
				}
			}
		}
		cls := []string{"without-dialect"}
		if withDialect {
			cls = []string{"with-dialect"}
		}
		if len(in) > 512 {
			cls = append(cls, "longer-than-window")
		}
		if repeats > 0 && len(kept) > 0 {
			cls = append(cls, "repeated-message+application-edits-a-kept-frame")
		}
		rec.Case(len(in) > 512, evid.Hash(in, []byte(fmt.Sprint(sizes, withDialect))), cls...)
		if len(in) > 512 && rec.WantSample("batch") {
			rec.Sample("batch", map[string]interface{}{"frames": n, "bytes": len(in), "chunks": sizes, "dialect": withDialect})
		}
	})
}
