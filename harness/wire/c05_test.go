package wire

import (
	"bufio"
	"bytes"
	"errors"
	"fmt"
	"io"
	"net"
	"os"
	"syscall"
	"testing"

	"github.com/bluenviron/gomavlib/v3/pkg/dialect"
	"github.com/bluenviron/gomavlib/v3/pkg/frame"
	"pgregory.net/rapid"

	"verifharness/evid"
	"verifharness/gen"
	"verifharness/ref"
)

type segment struct {
	kind  string
	bytes []byte
	valid bool // must be delivered when it stands alone between non-marker junk
}

// streamCase is a generated stream plus its configuration.
type streamCase struct {
	di      *dialectInfo
	key     *[32]byte
	segs    []segment
	data    []byte
	cleanly bool // only valid frames and non-marker junk: completeness is asserted
	ts0     uint64
	// wholeRejects: a clean stream that also holds complete frames which are refused as a whole (wrong checksum for
	// a known message, wrong signature, v1 or unsigned under a key): completeness still holds
	wholeRejects bool
}

func nonMarkerJunk(t *rapid.T, label string) []byte {
	n := rapid.IntRange(1, 12).Draw(t, label+"_n")
	b := rapid.SliceOfN(rapid.Byte(), n, n).Draw(t, label)
	for i := range b {
		if b[i] == 0xFD || b[i] == 0xFE {
			b[i] = 0x55
		}
	}
	return b
}

func drawStream(t *rapid.T, dpool []*dialectInfo) *streamCase {
	sc := &streamCase{}
	if rapid.IntRange(0, 3).Draw(t, "has_dialect") > 0 {
		sc.di = drawDialect(t, dpool)
	}
	if rapid.IntRange(0, 3).Draw(t, "has_key") == 0 {
		var k [32]byte
		copy(k[:], rapid.SliceOfN(rapid.Byte(), 32, 32).Draw(t, "key"))
		sc.key = &k
	}
	sc.cleanly = rapid.IntRange(0, 2).Draw(t, "cleanly") == 0
	sc.wholeRejects = sc.cleanly && rapid.Bool().Draw(t, "complete_refused_frames_between")
	nseg := rapid.IntRange(1, 8).Draw(t, "nseg")
	// the sender's clock: anywhere, including a counter that started at boot a moment ago
	ts := uint64(rapid.OneOf(rapid.Uint64Range(2000000, 1<<40), rapid.Uint64Range(1, 999999), rapid.Uint64Range(0, 3000000),
		rapid.Uint64Range(1<<46, 1<<48-2000000)).Draw(t, "ts0")) // ... or one that runs years ahead of the receiver's
	sc.ts0 = ts
	forceDialect := false
	mkValid := func() (ref.Frame, string) {
		o := gen.FrameOpts{}
		if sc.key != nil {
			o = gen.FrameOpts{Version: 2, Signed: 2}
		}
		var f ref.Frame
		kind := "valid-raw"
		if sc.di != nil && (forceDialect || rapid.Bool().Draw(t, "in_dialect")) {
			f, _, _ = validFrame(t, sc.di, o, sc.key)
			kind = "valid-dialect"
		} else {
			f = gen.RawFrame(t, o)
			if sc.di != nil {
				for sc.di.layouts[f.ID] != nil { // keep it outside the dialect
					f.ID = (f.ID + 1) & 0xFF
					if f.V2 {
						f.ID += 70000
					}
				}
			}
		}
		if sc.key != nil {
			ts += uint64(rapid.IntRange(0, 1000).Draw(t, "dts"))
			f.Timestamp = ts
			f.Sig = f.SignatureFor(*sc.key)
		}
		return f, kind
	}
	for i := 0; i < nseg; i++ {
		choices := []string{"valid", "valid", "junk"}
		if sc.cleanly && sc.wholeRejects {
			// complete frames that are refused as a whole: whatever they contain, the frames after them are found
			if sc.di != nil {
				choices = append(choices, "badcrc-known")
			}
			if sc.key != nil {
				choices = append(choices, "badsig", "v1-under-key", "unsigned-under-key")
			}
		}
		if !sc.cleanly {
			choices = append(choices, "truncated", "badcrc", "badsig", "badflag", "markerjunk", "glued")
			if sc.di != nil && sc.key == nil {
				choices = append(choices, "v1-wrong-length")
			}
		}
		segKind := rapid.SampledFrom(choices).Draw(t, "segkind")
		switch segKind {
		case "valid":
			f, kind := mkValid()
			sc.segs = append(sc.segs, segment{kind: kind, bytes: f.Bytes(), valid: true})
			if rapid.IntRange(0, 5).Draw(t, "the_same_frame_again") == 0 {
				// byte for byte, sequence number and all (a sender that never counts, a log replayed twice): each
				// copy is a frame of the stream
				sc.segs = append(sc.segs, segment{kind: kind, bytes: f.Bytes(), valid: true})
			}
			if sc.cleanly || rapid.Bool().Draw(t, "sep") {
				sc.segs = append(sc.segs, segment{kind: "junk", bytes: nonMarkerJunk(t, "sepjunk")})
			}
		case "glued":
			for k := 0; k < 2; k++ {
				f, kind := mkValid()
				sc.segs = append(sc.segs, segment{kind: kind, bytes: f.Bytes(), valid: true})
			}
		case "junk":
			sc.segs = append(sc.segs, segment{kind: "junk", bytes: nonMarkerJunk(t, "junk")})
		case "truncated":
			f, _ := mkValid()
			b := f.Bytes()
			cut := rapid.IntRange(1, len(b)-1).Draw(t, "cut")
			sc.segs = append(sc.segs, segment{kind: "truncated", bytes: b[:cut]})
		case "badcrc":
			f, _ := mkValid()
			f.Checksum ^= uint16(rapid.IntRange(1, 0xFFFF).Draw(t, "crcx"))
			if f.Signed() && sc.key != nil {
				f.Sig = f.SignatureFor(*sc.key)
			}
			sc.segs = append(sc.segs, segment{kind: "badcrc", bytes: f.Bytes()})
		case "badcrc-known":
			forceDialect = true
			f, _ := mkValid()
			forceDialect = false
			f.Checksum ^= uint16(rapid.IntRange(1, 0xFFFF).Draw(t, "crcx"))
			if f.Signed() && sc.key != nil {
				f.Sig = f.SignatureFor(*sc.key)
			}
			sc.segs = append(sc.segs, segment{kind: "badcrc", bytes: f.Bytes()})
		case "v1-under-key", "unsigned-under-key":
			// a well-formed frame that a keyed reader refuses for what it is; header and payload bytes are whatever
			// the sender put there, marker values included
			f := gen.RawFrame(t, gen.FrameOpts{Version: 1})
			if segKind == "unsigned-under-key" {
				f = gen.RawFrame(t, gen.FrameOpts{Version: 2, Signed: 1})
			}
			hot := []byte{0xFD, 0xFE, 0xFD, 1, 0}
			f.Seq = rapid.OneOf(rapid.SampledFrom(hot), rapid.Byte()).Draw(t, "uk_seq")
			f.Sys = rapid.OneOf(rapid.SampledFrom(hot), rapid.Byte()).Draw(t, "uk_sys")
			f.Comp = rapid.OneOf(rapid.SampledFrom(hot), rapid.Byte()).Draw(t, "uk_comp")
			if sc.di != nil {
				for sc.di.layouts[f.ID] != nil {
					f.ID = (f.ID + 1) & 0xFF
				}
			}
			sc.segs = append(sc.segs, segment{kind: "refused-under-key", bytes: f.Bytes()})
		case "badsig":
			f, _ := mkValid()
			if f.Signed() {
				f.Sig[rapid.IntRange(0, 5).Draw(t, "sigi")] ^= byte(rapid.IntRange(1, 255).Draw(t, "sigx"))
			}
			sc.segs = append(sc.segs, segment{kind: "badsig", bytes: f.Bytes()})
		case "v1-wrong-length":
			// a v1 frame of a message the dialect knows, with a checksum that fits its bytes, whose payload is longer
			// or shorter than the definition (a peer with another revision of the message): rejected input like any
			// other - a parse error, never the end of the stream
			var ids []uint32
			for _, id := range sc.di.ids {
				if id <= 255 {
					ids = append(ids, id)
				}
			}
			if len(ids) > 0 {
				id := ids[rapid.IntRange(0, len(ids)-1).Draw(t, "wl_id")]
				lay := sc.di.layouts[id]
				f := gen.RawFrame(t, gen.FrameOpts{Version: 1})
				f.V2, f.ID = false, id
				n := lay.BaseSize + rapid.SampledFrom([]int{-2, -1, 1, 2, 9}).Draw(t, "wl_delta")
				if n < 0 {
					n = lay.BaseSize + 1
				}
				if n > 255 {
					n = lay.BaseSize - 1
				}
				f.Payload = gen.Bytes(t, n, "wl_payload")
				f.Checksum = f.ChecksumFor(lay.CRCExtra)
				sc.segs = append(sc.segs, segment{kind: "v1-wrong-length", bytes: f.Bytes()})
			}
		case "badflag":
			f, _ := mkValid()
			if f.V2 {
				f.Incompat |= byte(rapid.IntRange(1, 127).Draw(t, "flag")) << 1
			}
			sc.segs = append(sc.segs, segment{kind: "badflag", bytes: f.Bytes()})
		case "markerjunk":
			n := rapid.IntRange(1, 14).Draw(t, "mj_n")
			b := rapid.SliceOfN(rapid.SampledFrom([]byte{0xFD, 0xFE, 0, 1, 2, 9, 0xFF, 0x33}), n, n).Draw(t, "mj")
			sc.segs = append(sc.segs, segment{kind: "markerjunk", bytes: b})
		}
	}
	for _, s := range sc.segs {
		sc.data = append(sc.data, s.bytes...)
	}
	return sc
}

type feedResult struct {
	res  []result
	terr error
	cr   *chunkReader
}

// otherLinkFirst: before a keyed stream is read, another reader holding the same key object accepts a frame stamped
// far ahead (set per case).
var (
	otherLinkFirst bool
	otherLinkReads int
)

func feed(sc *streamCase, data []byte, sizes []int, failAt int, ferr error) (feedResult, error) {
	cr := &chunkReader{data: data, sizes: sizes, failAt: failAt, err: ferr}
	var drw = (*dialectInfo)(nil)
	_ = drw
	var res []result
	var terr, herr error
	ko := keyOf(sc.key)
	if ko != nil && otherLinkFirst {
		// another link of the application, given the same key object, has been reading for a while: its peer's clock
		// is far ahead. What a reader yields is a function of its own stream.
		f := ref.Frame{V2: true, Incompat: 1, Seq: 1, Sys: 3, Comp: 4, ID: 70001, Payload: []byte{1, 2}, Checksum: 0x4242, LinkID: 9, Timestamp: 1 << 47}
		f.Sig = f.SignatureFor(*sc.key)
		or := &frame.Reader{BufByteReader: bufio.NewReader(bytes.NewReader(f.Bytes())), InKey: ko}
		if err := or.Initialize(); err != nil {
			return feedResult{}, fmt.Errorf("BROKEN: %v", err)
		}
		if _, err := or.Read(); err != nil {
			return feedResult{}, fmt.Errorf("BROKEN: the other link's frame was refused: %v", err)
		}
		otherLinkReads++
	}
	if sc.di != nil {
		res, terr, herr = readAll(cr, sc.di.rw, ko, len(data)+2)
	} else {
		res, terr, herr = readAll(cr, nil, ko, len(data)+2)
	}
	return feedResult{res, terr, cr}, herr
}

func sameResults(a, b []result) error {
	if len(a) != len(b) {
		return fmt.Errorf("%d results vs %d", len(a), len(b))
	}
	for i := range a {
		if (a[i].err == nil) != (b[i].err == nil) || a[i].start != b[i].start || a[i].end != b[i].end {
			return fmt.Errorf("result %d: (frame=%v span [%d,%d)) vs (frame=%v span [%d,%d))", i,
				a[i].err == nil, a[i].start, a[i].end, b[i].err == nil, b[i].start, b[i].end)
		}
	}
	return nil
}

var errInjected = errors.New("injected transport error")

// checkStream applies the whole C05 oracle to one stream under several feedings.
func checkStream(t *rapid.T, sc *streamCase, rec *evid.Rec) error {
	return checkStreamSizes(t, sc, rec, nil, -1)
}

// checkStreamSizes is checkStream with explicit chunk sizes and fault offset for callers without a rapid.T (fuzzing).
func checkStreamSizes(t *rapid.T, sc *streamCase, rec *evid.Rec, fixedSizes []int, fixedFault int) error {
	data := sc.data
	// (i) whole
	whole, herr := feed(sc, data, nil, -1, nil)
	if herr != nil {
		return fmt.Errorf("whole feeding: %v", herr)
	}
	if whole.terr != io.EOF {
		return fmt.Errorf("whole feeding ended with %v, want io.EOF", whole.terr)
	}
	delivered, err := judge(data, whole.res, sc.di, sc.key)
	if err != nil {
		return fmt.Errorf("whole feeding: %v", err)
	}
	if len(whole.res) > len(data) {
		return fmt.Errorf("%d calls for a stream of %d bytes", len(whole.res)+1, len(data))
	}
	// (ii) one byte per transport read
	one, herr := feed(sc, data, []int{}, -1, nil)
	if herr != nil {
		return fmt.Errorf("byte-wise feeding: %v", herr)
	}
	if one.terr != io.EOF {
		return fmt.Errorf("byte-wise feeding ended with %v", one.terr)
	}
	if err := sameResults(whole.res, one.res); err != nil {
		return fmt.Errorf("results depend on the splitting (whole vs byte-wise): %v", err)
	}
	// (iii) generated chunk sizes
	var sizes []int
	if t != nil || fixedSizes != nil {
		if t != nil {
			sizes = rapid.SliceOfN(rapid.OneOf(rapid.IntRange(1, 16), rapid.IntRange(1, 600)), 0, 40).Draw(t, "chunks")
		} else {
			sizes = fixedSizes
		}
		if len(sizes) == 0 {
			sizes = []int{1}
		}
		ch, herr := feed(sc, data, sizes, -1, nil)
		if herr != nil {
			return fmt.Errorf("chunked feeding %v: %v", sizes, herr)
		}
		if ch.terr != io.EOF {
			return fmt.Errorf("chunked feeding ended with %v", ch.terr)
		}
		if err := sameResults(whole.res, ch.res); err != nil {
			return fmt.Errorf("results depend on the splitting (whole vs chunks %v): %v", sizes, err)
		}
	}
	// completeness on clean streams
	if sc.cleanly {
		var want [][]byte
		for _, s := range sc.segs {
			if s.valid {
				want = append(want, s.bytes)
			}
		}
		if len(delivered) != len(want) {
			return fmt.Errorf("stream of %d valid frames separated by non-marker junk delivered %d frames", len(want), len(delivered))
		}
		for i := range want {
			if string(delivered[i].Bytes()) != string(want[i]) {
				return fmt.Errorf("frame %d delivered out of order or altered: got %x want %x", i, delivered[i].Bytes(), want[i])
			}
		}
	}
	// (iv) transport fault at offset k
	if (t != nil || fixedFault >= 0) && len(data) > 0 {
		k := fixedFault % len(data)
		if t != nil {
			k = rapid.IntRange(0, len(data)-1).Draw(t, "fault_at")
		}
		// whatever value the transport fails with - also the errors a descriptor reports when a system call was
		// interrupted or has nothing yet - it is the caller's to see, as it is
		var ferr error = errInjected
		if t != nil {
			ferr = rapid.SampledFrom([]error{errInjected, errInjected, syscall.EINTR, syscall.EAGAIN, &os.PathError{Op: "read", Path: "/dev/ttyUSB0", Err: syscall.EAGAIN},
				os.ErrDeadlineExceeded, io.ErrUnexpectedEOF, &net.OpError{Op: "read", Net: "tcp", Err: syscall.ECONNRESET}}).Draw(t, "fault_value")
		}
		ft, herr := feed(sc, data, sizes, k, ferr)
		if herr != nil {
			return fmt.Errorf("fault at %d (%v): %v", k, ferr, herr)
		}
		if ft.terr != ferr { //nolint:errorlint // the very value
			return fmt.Errorf("transport error %#v injected at offset %d: reader ended with %#v, not the transport's own error", ferr, k, ft.terr)
		}
		if _, err := judge(data[:k], ft.res, sc.di, sc.key); err != nil {
			return fmt.Errorf("fault at %d: %v", k, err)
		}
		if rec != nil {
			rec.Class("fault-injected", 1)
		}
	}
	// (v) the transport fails once between two results and then goes on: the same reader delivers the
	// same results as over a transport that never failed, and each failure is reported once, as itself
	if t != nil && len(whole.res) > 0 {
		nf := rapid.IntRange(1, 3).Draw(t, "transient_n")
		tr := map[int]bool{}
		for i := 0; i < nf; i++ {
			j := rapid.IntRange(0, len(whole.res)).Draw(t, "transient_at")
			if j == 0 {
				tr[0] = true
			} else {
				tr[whole.res[j-1].end] = true
			}
		}
		want := len(tr)
		cr := &chunkReader{data: data, sizes: sizes, failAt: -1, transient: tr}
		var drw *dialect.ReadWriter
		if sc.di != nil {
			drw = sc.di.rw
		}
		res, terr, herr := readAll(cr, drw, keyOf(sc.key), len(data)+8)
		if herr != nil {
			return fmt.Errorf("transient transport errors: %v", herr)
		}
		if terr != io.EOF {
			return fmt.Errorf("after %d transient transport errors between results the reader ended with %v, want io.EOF at the end of the stream", want, terr)
		}
		if cr.fired != want {
			return fmt.Errorf("BROKEN: %d of %d transient errors fired", cr.fired, want)
		}
		if err := sameResults(whole.res, res); err != nil {
			return fmt.Errorf("a transport error between two results, after which the transport went on, changed what the same reader delivers: %v", err)
		}
		if rec != nil {
			rec.Class("transport-recovers-after-error-between-results", 1)
		}
	}
	// classification
	if rec != nil {
		straddle := false
		if len(sizes) > 0 {
			bounds := map[int]bool{}
			p := 0
			for _, s := range sizes {
				p += s
				bounds[p] = true
			}
			for _, r := range whole.res {
				if r.err == nil {
					for b := r.start + 1; b < r.end; b++ {
						if bounds[b] {
							straddle = true
						}
					}
				}
			}
		}
		cls := []string{}
		kinds := map[string]bool{}
		for _, s := range sc.segs {
			kinds[s.kind] = true
		}
		for k := range kinds {
			cls = append(cls, "seg-"+k)
		}
		if straddle {
			cls = append(cls, "frame-straddles-read-boundary")
		}
		if sc.cleanly {
			cls = append(cls, "clean-stream")
		}
		if sc.key != nil && sc.ts0 < 1000000 {
			cls = append(cls, "keyed-sender-clock-below-the-window-length")
		}
		if sc.key != nil && sc.ts0 >= 1<<46 {
			cls = append(cls, "keyed-sender-clock-years-ahead")
		}
		if sc.key != nil {
			cls = append(cls, "keyed")
		}
		if sc.di != nil {
			cls = append(cls, "dialect")
		}
		nt := straddle || kinds["markerjunk"] || kinds["truncated"]
		rec.Case(nt, evid.Hash(data, []byte(fmt.Sprint(sizes))), cls...)
		if nt && rec.WantSample("stream") {
			var ks []string
			for _, s := range sc.segs {
				ks = append(ks, fmt.Sprintf("%s:%d", s.kind, len(s.bytes)))
			}
			rec.Sample("stream", map[string]interface{}{"segments": ks, "chunks": sizes, "results": len(whole.res), "delivered": len(delivered)})
		}
	}
	return nil
}

func TestC05Streams(t *testing.T) {
	rec := evid.New(t, "C05", "streams from a grammar (valid raw/dialect/signed frames, truncated frames, damaged checksum/signature/flags, junk with and without markers, glued frames) fed whole, byte-wise, in generated chunks and with a transport error injected at a generated offset; oracles: no panic, progress, consumed-span exactness against the reference, identical (kind,span) sequences across feedings, completeness on clean streams, the transport's own error surfaces; non-trivial = a delivered frame straddles a read boundary, or markers inside noise, or a truncated frame; distinct by hash of (stream, chunking)")
	rec.Require("frame-straddles-read-boundary", "seg-markerjunk", "seg-truncated", "clean-stream", "keyed", "dialect", "fault-injected", "seg-badcrc", "seg-badsig", "seg-v1-wrong-length", "keyed-sender-clock-below-the-window-length", "seg-refused-under-key", "keyed-sender-clock-years-ahead", "another-reader-with-the-same-key-object-far-ahead")
	dpool := pool(t)
	evid.Check(t, rec, evid.N(40000, 150000), func(t *rapid.T) {
		drawBufSize(t)
		sc := drawStream(t, dpool)
		otherLinkFirst = rapid.IntRange(0, 3).Draw(t, "other_link_with_the_same_key_object_first") == 0
		otherLinkReads = 0
		defer func() {
			if otherLinkReads > 0 {
				rec.Class("another-reader-with-the-same-key-object-far-ahead", 1)
			}
			otherLinkFirst = false
		}()
		if err := checkStream(t, sc, rec); err != nil {
			var ks []string
			for _, s := range sc.segs {
				ks = append(ks, fmt.Sprintf("%s:%x", s.kind, s.bytes))
			}
			evid.ReplayNote("C05", "TestC05Streams", fmt.Sprintf("segments %v\ndialect=%v key=%v\n%v", ks, sc.di != nil, sc.key != nil, err))
			t.Fatalf("stream %x (dialect=%v key=%v): %v", sc.data, sc.di != nil, sc.key != nil, err)
		}
	})
}

// TestC05SmallAlphabet enumerates every stream over a marker-rich alphabet up to a length.
func TestC05SmallAlphabet(t *testing.T) {
	rec := evid.New(t, "C05", "every stream over the alphabet {FD,FE,00,01,09,FF} up to length 6 (7 in thorough), with and without dialect, whole vs byte-wise feeding")
	alphabet := []byte{0xFD, 0xFE, 0x00, 0x01, 0x09, 0xFF}
	maxLen := evid.N(6, 7)
	common, _ := dialects(t)
	shard, shards := evid.Shard()
	n := int64(0)
	buf := make([]byte, 0, maxLen)
	var walk func(depth int)
	idx := 0
	walk = func(depth int) {
		if len(buf) > 0 {
			idx++
			if idx%shards == shard {
				for _, di := range []*dialectInfo{nil, common} {
					sc := &streamCase{di: di, data: append([]byte(nil), buf...)}
					if err := checkStream(nil, sc, nil); err != nil {
						evid.ReplayNote("C05", "TestC05SmallAlphabet", fmt.Sprintf("stream %x dialect=%v\n%v", buf, di != nil, err))
						t.Fatalf("stream %x dialect=%v: %v", buf, di != nil, err)
					}
					n++
				}
			}
		}
		if depth == maxLen {
			return
		}
		for _, a := range alphabet {
			buf = append(buf, a)
			walk(depth + 1)
			buf = buf[:len(buf)-1]
		}
	}
	walk(0)
	rec.Evals(n)
	rec.Class("small-alphabet-stream", n)
	rec.Case(true, 1, "small-alphabet-enum")
	rec.Case(true, 2, "small-alphabet-enum")
	rec.Exhaustive(fmt.Sprintf("all streams over {FD,FE,00,01,09,FF} of length 1..%d, x {no dialect, common}", maxLen))
	rec.Sample("small-alphabet-stream", "fd 09 00 00 fe 01 (and every other string over the alphabet)")
}
