package wire

import (
	"bytes"
	"fmt"
	"io"
	"testing"

	"github.com/bluenviron/gomavlib/v3/pkg/frame"
	"pgregory.net/rapid"

	"verifharness/evid"
	"verifharness/gen"
	"verifharness/ref"
)

// TestC01ReadWriterKeys: a frame.ReadWriter obtained either way (ReadWriter.Initialize or the deprecated
// NewReadWriter) writes with its outgoing settings and reads with its incoming ones: which frames it reads back is a
// matter of its incoming key alone - with none, every well-formed frame written comes back equal.
func TestC01ReadWriterKeys(t *testing.T) {
	rec := evid.New(t, "C01", "frame.ReadWriter built by Initialize and by NewReadWriter with every combination of incoming key {none, K} and outgoing key {none, K, another}: 2..8 generated frames (v1, unsigned v2, v2 signed with K) are written through it into a buffer and read back through it; without an incoming key every frame comes back equal field for field, with one exactly the frames signed with it; both ways of building it behave alike; non-trivial = outgoing key without incoming key; distinct by hash of the stream and configuration")
	rec.Require("outgoing-key-without-incoming-key", "built-by-NewReadWriter")
	evid.Check(t, rec, evid.N(3000, 15000), func(t *rapid.T) {
		readBufSize = 512
		var k1, k2 [32]byte
		copy(k1[:], gen.Bytes(t, 32, "key"))
		k2 = k1
		k2[5] ^= 0x40
		inKind := rapid.IntRange(0, 1).Draw(t, "incoming_key")
		outKind := rapid.IntRange(0, 2).Draw(t, "outgoing_key")
		deprecated := rapid.Bool().Draw(t, "NewReadWriter")
		var inKey, outKey *frame.V2Key
		if inKind == 1 {
			inKey = frame.NewV2Key(k1[:])
		}
		switch outKind {
		case 1:
			outKey = frame.NewV2Key(k1[:])
		case 2:
			outKey = frame.NewV2Key(k2[:])
		}
		buf := &bytes.Buffer{}
		var rw *frame.ReadWriter
		var err error
		if deprecated {
			rw, err = frame.NewReadWriter(frame.ReadWriterConf{ReadWriter: buf, InKey: inKey, OutVersion: frame.V2, OutSystemID: 3, OutKey: outKey}) //nolint:staticcheck
		} else {
			rw = &frame.ReadWriter{ByteReadWriter: buf, InKey: inKey, OutVersion: frame.V2, OutSystemID: 3, OutKey: outKey}
			err = rw.Initialize()
		}
		if err != nil {
			t.Fatalf("a ReadWriter with incoming key %v and outgoing key %v is refused: %v", inKind, outKind, err)
		}
		n := rapid.IntRange(2, 8).Draw(t, "frames")
		var sent []ref.Frame
		var accept []bool
		ts := uint64(8000000)
		for i := 0; i < n; i++ {
			f := gen.RawFrame(t, gen.FrameOpts{})
			if f.Signed() {
				ts += 5
				f.Timestamp = ts
				f.Sig = f.SignatureFor(k1)
			}
			if werr := rw.WriteFrame(gen.ToLib(f)); werr != nil {
				t.Fatalf("write %d refused: %v", i, werr)
			}
			sent = append(sent, f)
			accept = append(accept, inKey == nil || f.Signed())
		}
		desc := fmt.Sprintf("incomingKey=%v outgoingKey=%d (0 none, 1 the same, 2 another) builtByNewReadWriter=%v", inKey != nil, outKind, deprecated)
		for i, f := range sent {
			fr, rerr := rw.Read()
			var re frame.ReadError
			if rerr != nil && !asReadError(rerr, &re) {
				t.Fatalf("%s: reading frame %d: %v", desc, i, rerr)
			}
			if got := rerr == nil; got != accept[i] {
				msg := fmt.Sprintf("%s: frame %d (%s) written through the ReadWriter and read back through it: accepted=%v (%v), by its incoming key alone it must be accepted=%v", desc, i, gen.Describe(f), got, rerr, accept[i])
				evid.ReplayNote("C01", "TestC01ReadWriterKeys", msg)
				t.Fatalf("%s", msg)
			}
			if rerr == nil {
				g, _, ferr := gen.FromLib(fr)
				if ferr != nil || !gen.SameFrame(g, f) {
					t.Fatalf("%s: frame %d read back as %s, written %s", desc, i, gen.Describe(g), gen.Describe(f))
				}
			}
		}
		if _, rerr := rw.Read(); rerr != io.EOF {
			t.Fatalf("%s: after the last frame the ReadWriter returns %v, want io.EOF", desc, rerr)
		}
		var cls []string
		if inKey == nil && outKey != nil {
			cls = append(cls, "outgoing-key-without-incoming-key")
		}
		if deprecated {
			cls = append(cls, "built-by-NewReadWriter")
		}
		rec.Case(inKey == nil && outKey != nil, evid.Hash(buf.Bytes(), []byte(desc)), cls...)
		if rec.WantSample("rw-keys") {
			rec.Sample("rw-keys", desc)
		}
	})
}
