// Package evid counts, classifies and samples the cases a check explores and writes the
// per-shard statistics the driver merges into /verif/evidence/<id>.json.
package evid

import (
	"encoding/binary"
	"encoding/json"
	"flag"
	"fmt"
	"hash/fnv"
	"os"
	"path/filepath"
	"sort"
	"strconv"
	"sync"
	"testing"

	"pgregory.net/rapid"
)

const fpCap = 400000

// Rec records what one test explored.
type Rec struct {
	mu        sync.Mutex
	ID        string
	Test      string
	evals     int64
	classes   map[string]int64
	fps       map[uint64]struct{}
	fpDropped int64
	samples   []map[string]interface{}
	perClass  map[string]int
	required  []string
	exhaust   []string
	notes     []string
	rule      string
	flushed   bool
}

// New creates a recorder and registers its flush at the end of the test.
func New(t testing.TB, id string, rule string) *Rec {
	r := &Rec{ID: id, Test: t.Name(), classes: map[string]int64{}, fps: map[uint64]struct{}{},
		perClass: map[string]int{}, rule: rule}
	t.Cleanup(func() { r.Flush() })
	return r
}

// Hash returns a 64-bit fingerprint of the parts.
func Hash(parts ...[]byte) uint64 {
	h := fnv.New64a()
	var l [4]byte
	for _, p := range parts {
		binary.LittleEndian.PutUint32(l[:], uint32(len(p)))
		h.Write(l[:])
		h.Write(p)
	}
	return h.Sum64()
}

// HashS is Hash over strings.
func HashS(parts ...string) uint64 {
	bs := make([][]byte, len(parts))
	for i, p := range parts {
		bs[i] = []byte(p)
	}
	return Hash(bs...)
}

// Case counts one evaluated case. nontrivial cases contribute their fingerprint to the distinct set.
func (r *Rec) Case(nontrivial bool, fp uint64, classes ...string) {
	r.mu.Lock()
	defer r.mu.Unlock()
	r.evals++
	for _, c := range classes {
		r.classes[c]++
	}
	if nontrivial {
		r.classes["nontrivial"]++
		if len(r.fps) < fpCap {
			r.fps[fp] = struct{}{}
		} else if _, ok := r.fps[fp]; !ok {
			r.fpDropped++
		}
	} else {
		r.classes["trivial"]++
	}
}

// Class bumps a class counter without counting an evaluation.
func (r *Rec) Class(c string, n int64) {
	r.mu.Lock()
	defer r.mu.Unlock()
	r.classes[c] += n
}

// Evals adds evaluations that are not individually fingerprinted (sub-checks of a case).
func (r *Rec) Evals(n int64) {
	r.mu.Lock()
	defer r.mu.Unlock()
	r.evals += n
}

// Sample keeps up to two written-out cases per class (16 overall).
func (r *Rec) Sample(class string, v interface{}) {
	r.mu.Lock()
	defer r.mu.Unlock()
	if r.perClass[class] >= 2 || len(r.samples) >= 16 {
		return
	}
	r.perClass[class]++
	r.samples = append(r.samples, map[string]interface{}{"class": class, "case": v})
}

// WantSample tells whether Sample(class, ...) would keep the value (to avoid rendering cost).
func (r *Rec) WantSample(class string) bool {
	r.mu.Lock()
	defer r.mu.Unlock()
	return r.perClass[class] < 2 && len(r.samples) < 16
}

// Require names classes that must be non-empty after the run; the driver turns an empty one into exit 2.
func (r *Rec) Require(classes ...string) {
	r.mu.Lock()
	defer r.mu.Unlock()
	r.required = append(r.required, classes...)
}

// Exhaustive records a sub-space that was enumerated completely.
func (r *Rec) Exhaustive(desc string) {
	r.mu.Lock()
	defer r.mu.Unlock()
	r.exhaust = append(r.exhaust, desc)
}

// Note attaches free text to the evidence.
func (r *Rec) Note(format string, a ...interface{}) {
	r.mu.Lock()
	defer r.mu.Unlock()
	if len(r.notes) < 20 {
		r.notes = append(r.notes, fmt.Sprintf(format, a...))
	}
}

// Count returns the number of evaluations so far.
func (r *Rec) Count() int64 {
	r.mu.Lock()
	defer r.mu.Unlock()
	return r.evals
}

type statsFile struct {
	ID         string                   `json:"id"`
	Test       string                   `json:"test"`
	Shard      string                   `json:"shard"`
	Evals      int64                    `json:"evals"`
	Classes    map[string]int64         `json:"classes"`
	Distinct   int                      `json:"distinct"`
	FPDropped  int64                    `json:"fp_dropped"`
	Samples    []map[string]interface{} `json:"samples"`
	Required   []string                 `json:"required"`
	Exhaustive []string                 `json:"exhaustive"`
	Notes      []string                 `json:"notes"`
	Rule       string                   `json:"rule"`
	FPFile     string                   `json:"fp_file"`
}

// Flush writes the statistics to $VERIF_STATS_DIR (no-op when unset).
func (r *Rec) Flush() {
	r.mu.Lock()
	defer r.mu.Unlock()
	if r.flushed {
		return
	}
	r.flushed = true
	dir := os.Getenv("VERIF_STATS_DIR")
	if dir == "" {
		return
	}
	shard := os.Getenv("VERIF_SHARD")
	if shard == "" {
		shard = "0"
	}
	base := fmt.Sprintf("%s.%s.%s", r.ID, sanitize(r.Test), shard)
	fps := make([]uint64, 0, len(r.fps))
	for k := range r.fps {
		fps = append(fps, k)
	}
	sort.Slice(fps, func(i, j int) bool { return fps[i] < fps[j] })
	buf := make([]byte, 8*len(fps))
	for i, v := range fps {
		binary.LittleEndian.PutUint64(buf[8*i:], v)
	}
	fpFile := filepath.Join(dir, base+".fp")
	_ = os.WriteFile(fpFile, buf, 0o644)
	sf := statsFile{ID: r.ID, Test: r.Test, Shard: shard, Evals: r.evals, Classes: r.classes, Distinct: len(fps),
		FPDropped: r.fpDropped, Samples: r.samples, Required: r.required, Exhaustive: r.exhaust, Notes: r.notes,
		Rule: r.rule, FPFile: fpFile}
	js, _ := json.MarshalIndent(sf, "", " ")
	_ = os.WriteFile(filepath.Join(dir, base+".json"), js, 0o644)
}

func sanitize(s string) string {
	b := []byte(s)
	for i, c := range b {
		if !(c >= 'a' && c <= 'z' || c >= 'A' && c <= 'Z' || c >= '0' && c <= '9' || c == '_' || c == '-') {
			b[i] = '_'
		}
	}
	return string(b)
}

// Thorough tells whether the thorough tier is running.
func Thorough() bool { return os.Getenv("VERIF_TIER") == "thorough" }

// N picks a count by tier.
func N(quick, thorough int) int {
	if Thorough() {
		return thorough
	}
	return quick
}

// Shard returns (index, total) of this process among the shards of a run.
func Shard() (int, int) {
	i, _ := strconv.Atoi(os.Getenv("VERIF_SHARD"))
	n, _ := strconv.Atoi(os.Getenv("VERIF_SHARDS"))
	if n <= 0 {
		n = 1
	}
	return i, n
}

// Seed returns VERIF_SEED (default 1) combined with the shard index, for the few places that
// need a number outside rapid (codegen variation); never used for random choices inside a property.
func Seed() int64 {
	s, err := strconv.ParseInt(os.Getenv("VERIF_SEED"), 10, 64)
	if err != nil {
		s = 1
	}
	return s
}

// Check runs a rapid property with a given number of cases and reports a broken run
// (fewer cases than requested) as such.
func Check(t *testing.T, r *Rec, n int, prop func(*rapid.T)) {
	t.Helper()
	if err := flag.Set("rapid.checks", strconv.Itoa(n)); err != nil {
		t.Fatalf("BROKEN: cannot set rapid.checks: %v", err)
	}
	var calls int64
	var mu sync.Mutex
	rapid.Check(t, func(rt *rapid.T) {
		mu.Lock()
		calls++
		mu.Unlock()
		prop(rt)
	})
	if !t.Failed() && calls < int64(n) {
		t.Errorf("BROKEN: rapid ran %d cases, %d requested", calls, n)
	}
}

// ReplayNote writes a human-readable description of a failing case next to the statistics so the
// driver can attach it to the replay file. The last call wins (rapid's final run is the shrunk one).
func ReplayNote(id string, test string, text string) {
	dir := os.Getenv("VERIF_STATS_DIR")
	if dir == "" {
		return
	}
	shard := os.Getenv("VERIF_SHARD")
	if shard == "" {
		shard = "0"
	}
	_ = os.WriteFile(filepath.Join(dir, fmt.Sprintf("%s.%s.%s.replaynote", id, sanitize(test), shard)), []byte(text), 0o644)
}
