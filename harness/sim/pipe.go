// Package sim holds the in-memory transports, loopback peers, event recorder and goroutine
// inspection used by the node-level checks (C10-C16).
package sim

import (
	"errors"
	"io"
	"sync"
	"sync/atomic"
	"time"
)

// ErrClosed is returned by a Pipe after Close.
var ErrClosed = errors.New("sim: pipe closed")

// Pipe is a duplex in-memory transport for EndpointCustom. The node reads what the test feeds and
// the test sees every Write call of the node as one record.
//
// The read side and the write side have locks of their own and share nothing but an atomic "closed" flag that
// both only load: like two directions of a wire, they do not order the node's reader goroutine and its writer
// goroutine with respect to each other (a single lock would, and the race detector would then see a
// happens-before edge between them that no real transport provides).
type Pipe struct {
	mu   sync.Mutex // write side and close bookkeeping
	cond *sync.Cond

	rmu   sync.Mutex // read side
	rcond *sync.Cond

	in       [][]byte
	readErr  error
	readErrs int // how many Reads returned readErr
	// errWithLast is returned together with the last byte of the pending input (FeedWithError)
	errWithLast error
	oneShotErr  error // returned by exactly one Read call (FailNextRead)
	fed         int
	taken       int
	reading     int // readers parked in Read

	writes       [][]byte
	writeTimes   []time.Time
	gateClosed   bool
	allow        int    // writes that may pass the closed gate (AllowWrites)
	partialN     int    // while partialErr is set every Write takes this many bytes ...
	partialErr   error  // ... and fails with this error (a congested link with a write deadline)
	partial      []byte // the bytes taken that way, in order
	parked       int    // writers parked on the gate
	failAt       map[int]error
	writeCalls   int
	alwaysFail   error
	closeCount   int
	closeErrOnce bool
	closeErr     error         // returned by Close (FailClose); the pipe closes all the same
	closeDelay   time.Duration // Close stays inside the device for this long (SetCloseDelay)
	closeDone    int           // Close calls that have returned
	closed       atomic.Bool
	readsIssued  int
	active       int           // Write calls currently inside the transport
	overlaps     int           // how often a Write began while another was still in progress
	writeDelay   time.Duration // each Write stays inside the transport for this long
}

// NewPipe creates an open pipe.
func NewPipe() *Pipe {
	p := &Pipe{failAt: map[int]error{}}
	p.cond = sync.NewCond(&p.mu)
	p.rcond = sync.NewCond(&p.rmu)
	return p
}

// Feed queues one chunk; each chunk is handed to the node by a separate Read (split if larger than the buffer).
func (p *Pipe) Feed(b []byte) {
	if len(b) == 0 {
		return
	}
	p.rmu.Lock()
	p.in = append(p.in, append([]byte(nil), b...))
	p.fed += len(b)
	p.rmu.Unlock()
	p.rcond.Broadcast()
}

// FailReads makes Read return err once everything fed so far has been taken (and on every later call).
func (p *Pipe) FailReads(err error) {
	p.rmu.Lock()
	p.readErr = err
	p.rmu.Unlock()
	p.rcond.Broadcast()
}

// FailNextRead makes exactly one Read call (the pending one, or the next) return err once the queued input is gone.
func (p *Pipe) FailNextRead(err error) {
	p.rmu.Lock()
	p.oneShotErr = err
	p.rmu.Unlock()
	p.rcond.Broadcast()
}

// FeedWithError queues b; the Read call that hands out its last byte returns err along with the data.
func (p *Pipe) FeedWithError(b []byte, err error) {
	p.rmu.Lock()
	p.in = append(p.in, append([]byte(nil), b...))
	p.fed += len(b)
	p.errWithLast = err
	p.rmu.Unlock()
	p.rcond.Broadcast()
}

// ReadErrors is how many Read calls returned the injected error so far.
func (p *Pipe) ReadErrors() int {
	p.rmu.Lock()
	defer p.rmu.Unlock()
	return p.readErrs
}

// ClearReadError lets reads block again (a "reconnected" custom transport).
func (p *Pipe) ClearReadError() {
	p.rmu.Lock()
	p.readErr = nil
	p.rmu.Unlock()
}

// Read implements io.Reader.
func (p *Pipe) Read(b []byte) (int, error) {
	p.rmu.Lock()
	defer p.rmu.Unlock()
	p.readsIssued++
	for len(p.in) == 0 && !p.closed.Load() && p.readErr == nil && p.oneShotErr == nil {
		p.reading++
		p.rcond.Broadcast()
		p.rcond.Wait()
		p.reading--
	}
	if len(p.in) > 0 {
		n := copy(b, p.in[0])
		if n == len(p.in[0]) {
			p.in = p.in[1:]
		} else {
			p.in[0] = p.in[0][n:]
		}
		p.taken += n
		p.rcond.Broadcast()
		if len(p.in) == 0 && p.errWithLast != nil {
			// the io.Reader contract allows data and an error in the same call
			err := p.errWithLast
			p.errWithLast = nil
			p.readErrs++
			return n, err
		}
		return n, nil
	}
	if p.closed.Load() {
		return 0, ErrClosed
	}
	p.readErrs++
	if p.oneShotErr != nil {
		err := p.oneShotErr
		p.oneShotErr = nil
		return 0, err
	}
	return 0, p.readErr
}

// Write implements io.Writer: one record per call; may park on the gate or fail as scripted.
func (p *Pipe) Write(b []byte) (int, error) {
	p.mu.Lock()
	if p.active > 0 {
		p.overlaps++
	}
	p.active++
	delay := p.writeDelay
	p.mu.Unlock()
	if delay > 0 {
		time.Sleep(delay) // a slow, byte-oriented transport: the call is in progress for a while
	}
	p.mu.Lock()
	defer p.mu.Unlock()
	defer func() { p.active-- }()
	p.writeCalls++
	call := p.writeCalls
	for p.gateClosed && p.allow == 0 && !p.closed.Load() {
		p.parked++
		p.cond.Broadcast()
		p.cond.Wait()
		p.parked--
	}
	if p.gateClosed && p.allow > 0 {
		p.allow--
	}
	if p.closed.Load() {
		return 0, ErrClosed
	}
	if err, ok := p.failAt[call]; ok {
		return 0, err
	}
	if p.alwaysFail != nil {
		return 0, p.alwaysFail
	}
	if p.partialErr != nil {
		k := p.partialN
		if k > len(b) {
			k = len(b)
		}
		p.partial = append(p.partial, b[:k]...)
		p.cond.Broadcast()
		return k, p.partialErr
	}
	p.writes = append(p.writes, append([]byte(nil), b...))
	p.writeTimes = append(p.writeTimes, time.Now())
	p.cond.Broadcast()
	return len(b), nil
}

// Close implements io.Closer; it unblocks parked readers and writers.
func (p *Pipe) Close() error {
	p.mu.Lock()
	p.closeCount++
	p.closed.Store(true)
	err := p.closeErr
	if p.closeErrOnce {
		p.closeErr, p.closeErrOnce = nil, false
	}
	d := p.closeDelay
	p.mu.Unlock()
	p.cond.Broadcast()
	p.rmu.Lock() // a reader is either past its check of the flag and waiting, or will see the flag
	p.rmu.Unlock()
	p.rcond.Broadcast()
	if d > 0 {
		time.Sleep(d) // e.g. a serial port draining its output queue
	}
	p.mu.Lock()
	p.closeDone++
	p.mu.Unlock()
	return err
}

// SetCloseDelay makes Close take d to return; the handle counts as in use until then (Released).
func (p *Pipe) SetCloseDelay(d time.Duration) {
	p.mu.Lock()
	p.closeDelay = d
	p.mu.Unlock()
}

// Released reports whether a Close call has returned.
func (p *Pipe) Released() bool {
	p.mu.Lock()
	defer p.mu.Unlock()
	return p.closeDone > 0
}

// FailClose makes Close report err (a device that is already gone when it gets closed).
func (p *Pipe) FailClose(err error) {
	p.mu.Lock()
	p.closeErr = err
	p.mu.Unlock()
}

// FailCloseOnce makes the first Close report err (a close that releases the transport and still reports an error:
// EINTR from close(2), a flush that failed); later calls report nothing.
func (p *Pipe) FailCloseOnce(err error) {
	p.mu.Lock()
	p.closeErr = err
	p.closeErrOnce = true
	p.mu.Unlock()
}

// CloseCount returns how often Close was called.
func (p *Pipe) CloseCount() int {
	p.mu.Lock()
	defer p.mu.Unlock()
	return p.closeCount
}

// BlockWrites closes the gate: Write calls park until UnblockWrites.
func (p *Pipe) BlockWrites() {
	p.mu.Lock()
	p.gateClosed = true
	p.mu.Unlock()
}

// AllowWrites lets exactly k more Write calls pass the closed gate (a link that recovers for a moment).
func (p *Pipe) AllowWrites(k int) {
	p.mu.Lock()
	p.allow += k
	p.mu.Unlock()
	p.cond.Broadcast()
}

// SetPartialWrites: from now on every Write takes n bytes and fails with err; err == nil ends it.
func (p *Pipe) SetPartialWrites(n int, err error) {
	p.mu.Lock()
	p.partialN, p.partialErr = n, err
	p.mu.Unlock()
}

// PartialBytes returns the bytes taken by partial writes so far.
func (p *Pipe) PartialBytes() int {
	p.mu.Lock()
	defer p.mu.Unlock()
	return len(p.partial)
}

// UnblockWrites opens the gate.
func (p *Pipe) UnblockWrites() {
	p.mu.Lock()
	p.gateClosed = false
	p.mu.Unlock()
	p.cond.Broadcast()
}

// FailWriteCall makes the call-th Write call (1-based, counted over the pipe's life) return err.
func (p *Pipe) FailWriteCall(call int, err error) {
	p.mu.Lock()
	p.failAt[call] = err
	p.mu.Unlock()
}

// FailNextWrite makes the next Write call fail and returns its call number.
func (p *Pipe) FailNextWrite(err error) int {
	p.mu.Lock()
	defer p.mu.Unlock()
	p.failAt[p.writeCalls+1] = err
	return p.writeCalls + 1
}

// WriteCalls returns how many Write calls were issued (including failed and parked ones).
func (p *Pipe) WriteCalls() int {
	p.mu.Lock()
	defer p.mu.Unlock()
	return p.writeCalls
}

// Writes returns a snapshot of the successful Write records.
func (p *Pipe) Writes() [][]byte {
	p.mu.Lock()
	defer p.mu.Unlock()
	return append([][]byte(nil), p.writes...)
}

// WriteTimes returns the completion times of the successful writes.
func (p *Pipe) WriteTimes() []time.Time {
	p.mu.Lock()
	defer p.mu.Unlock()
	return append([]time.Time(nil), p.writeTimes...)
}

// NumWrites returns the number of successful writes.
func (p *Pipe) NumWrites() int {
	p.mu.Lock()
	defer p.mu.Unlock()
	return len(p.writes)
}

func (p *Pipe) waitFor(timeout time.Duration, pred func() bool) bool {
	deadline := time.Now().Add(timeout)
	timer := time.AfterFunc(timeout, func() { p.mu.Lock(); p.mu.Unlock(); p.cond.Broadcast() }) //nolint:staticcheck // see Recorder.WaitFor
	defer timer.Stop()
	p.mu.Lock()
	defer p.mu.Unlock()
	for !pred() {
		if time.Now().After(deadline) {
			return false
		}
		p.cond.Wait()
	}
	return true
}

// WaitWrites waits until at least n writes succeeded.
func (p *Pipe) WaitWrites(n int, timeout time.Duration) bool {
	return p.waitFor(timeout, func() bool { return len(p.writes) >= n })
}

// WaitParkedWriter waits until a Write call is parked on the closed gate.
func (p *Pipe) WaitParkedWriter(timeout time.Duration) bool {
	return p.waitFor(timeout, func() bool { return p.parked > 0 })
}

// WaitDrained waits until every fed byte has been taken by the node and a reader is parked again.
func (p *Pipe) WaitDrained(timeout time.Duration) bool {
	deadline := time.Now().Add(timeout)
	timer := time.AfterFunc(timeout, func() { p.rmu.Lock(); p.rmu.Unlock(); p.rcond.Broadcast() }) //nolint:staticcheck // see Recorder.WaitFor
	defer timer.Stop()
	p.rmu.Lock()
	defer p.rmu.Unlock()
	for !(p.taken == p.fed && (p.reading > 0 || p.closed.Load())) {
		if time.Now().After(deadline) {
			return false
		}
		p.rcond.Wait()
	}
	return true
}

// ReaderParked tells whether a Read is currently blocked.
func (p *Pipe) ReaderParked() bool {
	p.rmu.Lock()
	defer p.rmu.Unlock()
	return p.reading > 0
}

var _ io.ReadWriteCloser = (*Pipe)(nil)

// SetWriteDelay makes every Write call stay in progress for d.
func (p *Pipe) SetWriteDelay(d time.Duration) {
	p.mu.Lock()
	p.writeDelay = d
	p.mu.Unlock()
}

// Overlaps returns how often a Write call began while another Write on this transport was in progress
// (a transport has a single writer at any time; anything else can interleave frames on a byte stream).
func (p *Pipe) Overlaps() int {
	p.mu.Lock()
	defer p.mu.Unlock()
	return p.overlaps
}

// WaitWriteCalls waits until at least n Write calls were issued (successful or not).
func (p *Pipe) WaitWriteCalls(n int, timeout time.Duration) bool {
	return p.waitFor(timeout, func() bool { return p.writeCalls >= n })
}
