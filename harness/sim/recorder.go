package sim

import (
	"sync"
	"time"

	gomavlib "github.com/bluenviron/gomavlib/v3"
)

// Rec is one observed event.
type Rec struct {
	T  time.Time
	Ev gomavlib.Event
}

// Pacing decides how the recorder consumes events.
type Pacing struct {
	Kind  string        // "fast", "sleep", "bursty"
	Sleep time.Duration // per event ("sleep") or per burst ("bursty")
	Burst int
}

// Recorder drains Node.Events() and keeps everything it saw.
type Recorder struct {
	mu     sync.Mutex
	cond   *sync.Cond
	recs   []Rec
	closed bool
	paused bool
	parked bool
	wake   chan struct{}
	done   chan struct{}
	onEv   func(gomavlib.Event)
}

// StartRecorder starts consuming. onEvent (optional) runs in the consumer goroutine for each event.
func StartRecorder(n *gomavlib.Node, p Pacing, onEvent func(gomavlib.Event)) *Recorder {
	r := &Recorder{done: make(chan struct{}), onEv: onEvent, wake: make(chan struct{}, 1)}
	r.cond = sync.NewCond(&r.mu)
	events := n.Events()
	go func() {
		defer close(r.done)
		k := 0
		for {
			// a paused consumer does not receive at all: events stay undelivered from the node's point of view
			r.mu.Lock()
			for r.paused {
				r.parked = true
				r.cond.Broadcast()
				r.cond.Wait()
			}
			r.parked = false
			r.mu.Unlock()
			select {
			case <-r.wake:
				continue
			case ev, ok := <-events:
				if !ok {
					r.mu.Lock()
					r.closed = true
					r.mu.Unlock()
					r.cond.Broadcast()
					return
				}
				r.mu.Lock()
				r.recs = append(r.recs, Rec{time.Now(), ev})
				r.mu.Unlock()
				r.cond.Broadcast()
				if r.onEv != nil {
					r.onEv(ev)
				}
				k++
				switch p.Kind {
				case "sleep":
					time.Sleep(p.Sleep)
				case "bursty":
					if p.Burst > 0 && k%p.Burst == 0 {
						time.Sleep(p.Sleep)
					}
				}
			}
		}
	}()
	return r
}

// Pause makes the consumer stop receiving events (it may take the one it is just receiving). It may be
// called from the onEvent callback. Use WaitPaused to be sure that nothing more is taken.
func (r *Recorder) Pause() {
	r.mu.Lock()
	r.paused = true
	r.mu.Unlock()
	select {
	case r.wake <- struct{}{}:
	default:
	}
}

// WaitPaused waits until the consumer goroutine is parked (not receiving).
func (r *Recorder) WaitPaused(timeout time.Duration) bool {
	deadline := time.Now().Add(timeout)
	timer := time.AfterFunc(timeout, func() { r.mu.Lock(); r.mu.Unlock(); r.cond.Broadcast() }) //nolint:staticcheck // taking the lock first: the waiter is then either before its deadline check or already waiting
	defer timer.Stop()
	r.mu.Lock()
	defer r.mu.Unlock()
	for !r.parked {
		if time.Now().After(deadline) {
			return false
		}
		r.cond.Wait()
	}
	return true
}

// Resume lets the consumer continue.
func (r *Recorder) Resume() {
	r.mu.Lock()
	r.paused = false
	r.mu.Unlock()
	r.cond.Broadcast()
}

// Snapshot returns the events seen so far.
func (r *Recorder) Snapshot() []Rec {
	r.mu.Lock()
	defer r.mu.Unlock()
	return append([]Rec(nil), r.recs...)
}

// Closed tells whether the event channel was closed (range ended).
func (r *Recorder) Closed() bool {
	r.mu.Lock()
	defer r.mu.Unlock()
	return r.closed
}

// WaitClosed waits for the end of the event stream.
func (r *Recorder) WaitClosed(timeout time.Duration) bool {
	select {
	case <-r.done:
		return true
	case <-time.After(timeout):
		return false
	}
}

// WaitFor waits until pred holds over the recorded events.
func (r *Recorder) WaitFor(timeout time.Duration, pred func([]Rec) bool) bool {
	deadline := time.Now().Add(timeout)
	timer := time.AfterFunc(timeout, func() { r.mu.Lock(); r.mu.Unlock(); r.cond.Broadcast() }) //nolint:staticcheck // taking the lock first: the waiter is then either before its deadline check or already waiting
	defer timer.Stop()
	r.mu.Lock()
	defer r.mu.Unlock()
	for !pred(r.recs) {
		if time.Now().After(deadline) || r.closed {
			return pred(r.recs)
		}
		r.cond.Wait()
	}
	return true
}
