package sim

import (
	"sync"
	"time"
)

// StallMonitor observes how regularly this process gets to run: a goroutine that wants to wake every 2 ms records
// every wake-up that came much later. Timing verdicts (an idle expiry that came "too early", a kept-alive channel
// that was closed) are only sound when neither the harness nor the node was held up by the machine in the window
// they are about; with a stall in the window they are inconclusive.
type StallMonitor struct {
	mu    sync.Mutex
	gaps  []stallGap
	stop  chan struct{}
	done  chan struct{}
	limit time.Duration
	// gate is held by the monitor while it reads the clock and by Pause..Resume: a test that patches time.Now
	// (rewriting its machine code) must not do so while another goroutine is executing it
	gate    sync.Mutex
	resumed bool
}

// Pause stops the monitor from reading the clock until Resume (no gaps are recorded in between).
func (m *StallMonitor) Pause() { m.gate.Lock() }

// Resume lets the monitor go on; the time it was paused for is not a gap.
func (m *StallMonitor) Resume() {
	m.resumed = true
	m.gate.Unlock()
}

type stallGap struct {
	from, to time.Time
}

// StartStallMonitor records every scheduling gap longer than limit.
func StartStallMonitor(limit time.Duration) *StallMonitor {
	m := &StallMonitor{stop: make(chan struct{}), done: make(chan struct{}), limit: limit}
	go func() {
		defer close(m.done)
		last := time.Now()
		for {
			select {
			case <-m.stop:
				return
			default:
			}
			time.Sleep(2 * time.Millisecond)
			m.gate.Lock()
			now := time.Now()
			if m.resumed {
				m.resumed = false
				last = now
			}
			m.gate.Unlock()
			if now.Sub(last) > fineLimit {
				m.mu.Lock()
				m.gaps = append(m.gaps, stallGap{last, now})
				m.mu.Unlock()
			}
			last = now
		}
	}()
	return m
}

// Stop ends the monitor.
func (m *StallMonitor) Stop() {
	close(m.stop)
	<-m.done
}

// StalledBetween reports whether a recorded gap of at least the monitor's main limit overlaps [from, to].
func (m *StallMonitor) StalledBetween(from, to time.Time) bool {
	return m.StalledBetweenOver(from, to, m.limit)
}

// StalledBetweenOver reports whether a recorded gap of at least min overlaps [from, to] (gaps are recorded from
// fineLimit upwards).
func (m *StallMonitor) StalledBetweenOver(from, to time.Time, min time.Duration) bool {
	m.mu.Lock()
	defer m.mu.Unlock()
	for _, g := range m.gaps {
		if g.to.Sub(g.from) >= min && g.to.After(from) && g.from.Before(to) {
			return true
		}
	}
	return false
}

// fineLimit is the smallest scheduling gap that is recorded at all.
const fineLimit = 6 * time.Millisecond

// Count is the number of recorded gaps of at least the main limit.
func (m *StallMonitor) Count() int {
	m.mu.Lock()
	defer m.mu.Unlock()
	n := 0
	for _, g := range m.gaps {
		if g.to.Sub(g.from) >= m.limit {
			n++
		}
	}
	return n
}
