package sim

import (
	"runtime"
	"strings"
	"time"
)

// LibGoroutines returns the stacks of live goroutines that were started by gomavlib or by the
// pion transport library (their "created by" line names such a function).
func LibGoroutines() []string {
	buf := make([]byte, 1<<20)
	for {
		n := runtime.Stack(buf, true)
		if n < len(buf) {
			buf = buf[:n]
			break
		}
		buf = make([]byte, 2*len(buf))
	}
	var out []string
	for _, g := range strings.Split(string(buf), "\n\n") {
		i := strings.LastIndex(g, "created by ")
		if i < 0 {
			continue
		}
		creator := g[i:]
		if strings.Contains(creator, "github.com/bluenviron/gomavlib/v3") || strings.Contains(creator, "github.com/pion/transport") {
			out = append(out, g)
		}
	}
	return out
}

// HarnessGoroutines returns the stacks of the goroutines that are inside harness code (for the report of a scenario
// that did not finish: which side was waiting for which).
func HarnessGoroutines() []string {
	buf := make([]byte, 1<<20)
	for {
		n := runtime.Stack(buf, true)
		if n < len(buf) {
			buf = buf[:n]
			break
		}
		buf = make([]byte, 2*len(buf))
	}
	var out []string
	for _, g := range strings.Split(string(buf), "\n\n") {
		if strings.Contains(g, "verifharness/node.") && !strings.Contains(g, "sim.HarnessGoroutines") {
			out = append(out, g)
		}
	}
	return out
}

// WaitNoLibGoroutines polls until no library goroutine is left or the timeout expires; it returns the leftovers.
func WaitNoLibGoroutines(timeout time.Duration) []string {
	deadline := time.Now().Add(timeout)
	for {
		gs := LibGoroutines()
		if len(gs) == 0 || time.Now().After(deadline) {
			return gs
		}
		time.Sleep(5 * time.Millisecond)
	}
}
