package sim

import (
	"fmt"
	"net"
	"os"
	"path/filepath"
	"sync"
	"syscall"
	"time"
)

// Peer is a loopback TCP or UDP client talking to a node's server endpoint (or a server-side
// connection accepted by a Listener when the node is the client).
type Peer struct {
	Conn net.Conn

	mu     sync.Mutex
	rx     []byte
	rxErr  error
	done   chan struct{}
	closed bool
}

func startPeer(c net.Conn) *Peer {
	p := &Peer{Conn: c, done: make(chan struct{})}
	go func() {
		defer close(p.done)
		buf := make([]byte, 65536)
		for {
			n, err := c.Read(buf)
			p.mu.Lock()
			p.rx = append(p.rx, buf[:n]...)
			if err != nil {
				p.rxErr = err
				p.mu.Unlock()
				return
			}
			p.mu.Unlock()
		}
	}()
	return p
}

// Dial connects a peer to a server endpoint ("tcp4" or "udp4").
func Dial(network, addr string) (*Peer, error) {
	c, err := net.DialTimeout(network, addr, 5*time.Second)
	if err != nil {
		return nil, err
	}
	return startPeer(c), nil
}

// Send writes bytes to the node.
func (p *Peer) Send(b []byte) error {
	_, err := p.Conn.Write(b)
	return err
}

// Close closes the connection and waits for the receive loop.
func (p *Peer) Close() {
	p.mu.Lock()
	already := p.closed
	p.closed = true
	p.mu.Unlock()
	if !already {
		p.Conn.Close()
	}
	<-p.done
}

// Received returns everything the node has sent so far.
func (p *Peer) Received() []byte {
	p.mu.Lock()
	defer p.mu.Unlock()
	return append([]byte(nil), p.rx...)
}

// RxError returns the error that ended the receive loop (nil while it runs).
func (p *Peer) RxError() error {
	p.mu.Lock()
	defer p.mu.Unlock()
	return p.rxErr
}

// WaitRxEnd waits until the node's side of the connection ended (EOF/reset seen by the peer).
func (p *Peer) WaitRxEnd(timeout time.Duration) bool {
	select {
	case <-p.done:
		return true
	case <-time.After(timeout):
		return false
	}
}

// LocalLabel returns the label the node gives to the channel of this peer.
func (p *Peer) LocalLabel(udp bool) string {
	proto := "tcp"
	if udp {
		proto = "udp"
	}
	return fmt.Sprintf("%s:%s", proto, p.Conn.LocalAddr())
}

// ---- ports ----

// Loopback ports are handed out from blocks of 256 ports. A process owns a block by holding an
// exclusive flock on its lock file for as long as it lives (the kernel drops the lock when the
// process dies, so there is no stale state), which keeps concurrently running check processes
// (shards, other properties, sensitivity runs) off each other's ports.
const (
	portBase   = 10000
	portBlock  = 256
	portBlocks = 85 // 10000..31759: below the ephemeral range, above the ports the repository's own tests use
)

var (
	portMu     sync.Mutex
	portDir    = filepath.Join(os.TempDir(), "verif-ports")
	ownBlocks  []int
	blockFiles []*os.File // kept open: closing would drop the lock
	portNext   int
)

func acquireBlock() bool {
	os.MkdirAll(portDir, 0o777) //nolint:errcheck
	start := (os.Getpid() * 31) % portBlocks
	for k := 0; k < portBlocks; k++ {
		b := (start + k) % portBlocks
		f, err := os.OpenFile(filepath.Join(portDir, fmt.Sprintf("block-%d.lock", b)), os.O_CREATE|os.O_RDWR, 0o666)
		if err != nil {
			continue
		}
		if err := syscall.Flock(int(f.Fd()), syscall.LOCK_EX|syscall.LOCK_NB); err != nil {
			f.Close()
			continue
		}
		ownBlocks = append(ownBlocks, b)
		blockFiles = append(blockFiles, f)
		return true
	}
	return false
}

// FreePort returns a loopback port from a block owned by this process that is currently free for both
// TCP and UDP. Ports are reused within the process once the sockets of earlier scenarios are closed.
func FreePort() int {
	portMu.Lock()
	defer portMu.Unlock()
	for attempt := 0; attempt < 4; attempt++ {
		if len(ownBlocks) == 0 && !acquireBlock() {
			panic("BROKEN: no free port block (too many check processes at once)")
		}
		total := len(ownBlocks) * portBlock
		for tries := 0; tries < total; tries++ {
			idx := portNext % total
			portNext++
			port := portBase + ownBlocks[idx/portBlock]*portBlock + idx%portBlock
			if CanBind(port) {
				return port
			}
		}
		if !acquireBlock() {
			break
		}
	}
	panic("BROKEN: no free port")
}

// CanBind tells whether both a TCP listener and a UDP socket can be bound on the port right now.
func CanBind(port int) bool {
	addr := fmt.Sprintf("127.0.0.1:%d", port)
	l, err := net.Listen("tcp4", addr)
	if err != nil {
		return false
	}
	l.Close()
	pc, err := net.ListenPacket("udp4", addr)
	if err != nil {
		return false
	}
	pc.Close()
	return true
}

// Addr renders a loopback address.
func Addr(port int) string { return fmt.Sprintf("127.0.0.1:%d", port) }

// WrapConn starts a Peer over an accepted connection.
func WrapConn(c net.Conn) *Peer { return startPeer(c) }
