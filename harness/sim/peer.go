package sim

import (
	"fmt"
	"net"
	"os"
	"path/filepath"
	"strconv"
	"strings"
	"sync"
	"time"
)

// Peer is a loopback TCP or UDP client talking to a node's server endpoint (or a server-side
// connection accepted by a Listener when the node is the client).
type Peer struct {
	Conn net.Conn

	mu     sync.Mutex
	rx     []byte
	rxErr  error
	done   chan struct{}
	closed bool
}

func startPeer(c net.Conn) *Peer {
	p := &Peer{Conn: c, done: make(chan struct{})}
	go func() {
		defer close(p.done)
		buf := make([]byte, 65536)
		for {
			n, err := c.Read(buf)
			p.mu.Lock()
			p.rx = append(p.rx, buf[:n]...)
			if err != nil {
				p.rxErr = err
				p.mu.Unlock()
				return
			}
			p.mu.Unlock()
		}
	}()
	return p
}

// Dial connects a peer to a server endpoint ("tcp4" or "udp4").
func Dial(network, addr string) (*Peer, error) {
	c, err := net.DialTimeout(network, addr, 5*time.Second)
	if err != nil {
		return nil, err
	}
	return startPeer(c), nil
}

// Send writes bytes to the node.
func (p *Peer) Send(b []byte) error {
	_, err := p.Conn.Write(b)
	return err
}

// Close closes the connection and waits for the receive loop.
func (p *Peer) Close() {
	p.mu.Lock()
	already := p.closed
	p.closed = true
	p.mu.Unlock()
	if !already {
		p.Conn.Close()
	}
	<-p.done
}

// Received returns everything the node has sent so far.
func (p *Peer) Received() []byte {
	p.mu.Lock()
	defer p.mu.Unlock()
	return append([]byte(nil), p.rx...)
}

// RxError returns the error that ended the receive loop (nil while it runs).
func (p *Peer) RxError() error {
	p.mu.Lock()
	defer p.mu.Unlock()
	return p.rxErr
}

// WaitRxEnd waits until the node's side of the connection ended (EOF/reset seen by the peer).
func (p *Peer) WaitRxEnd(timeout time.Duration) bool {
	select {
	case <-p.done:
		return true
	case <-time.After(timeout):
		return false
	}
}

// LocalLabel returns the label the node gives to the channel of this peer.
func (p *Peer) LocalLabel(udp bool) string {
	proto := "tcp"
	if udp {
		proto = "udp"
	}
	return fmt.Sprintf("%s:%s", proto, p.Conn.LocalAddr())
}

// ---- ports ----

var (
	portMu   sync.Mutex
	portNext int
	portDir  = filepath.Join(os.TempDir(), "verif-ports")
)

const (
	portBase  = 10000
	portCount = 22000 // 10000..31999: below the ephemeral range, above the ports the repository's own tests use
)

// reserve claims a port for this process across all concurrently running check processes
// (a lock file named after the port, holding our pid; stale files of dead processes are reclaimed).
func reserve(port int) bool {
	os.MkdirAll(portDir, 0o777) //nolint:errcheck
	name := filepath.Join(portDir, strconv.Itoa(port))
	// the lock file appears atomically with its content (hard link of a private temp file), so that a
	// concurrent process never sees an empty file and mistakes it for a stale one
	tmp := filepath.Join(portDir, fmt.Sprintf(".tmp-%d-%d", os.Getpid(), port))
	if err := os.WriteFile(tmp, []byte(strconv.Itoa(os.Getpid())), 0o666); err != nil {
		return false
	}
	defer os.Remove(tmp)
	for attempt := 0; attempt < 2; attempt++ {
		if err := os.Link(tmp, name); err == nil {
			return true
		}
		b, rerr := os.ReadFile(name)
		if rerr != nil {
			continue
		}
		pid, _ := strconv.Atoi(strings.TrimSpace(string(b)))
		if pid <= 0 || pid == os.Getpid() {
			return false // ours already, or unreadable: leave it alone
		}
		if _, serr := os.Stat(fmt.Sprintf("/proc/%d", pid)); serr == nil {
			return false // owner alive
		}
		os.Remove(name) // owner gone: stale
	}
	return false
}

// FreePort returns a loopback port reserved for this process (no other check process will be
// handed the same one while we live) that is currently free for both TCP and UDP.
func FreePort() int {
	portMu.Lock()
	defer portMu.Unlock()
	if portNext == 0 {
		portNext = (os.Getpid()*7919)%portCount + 1
	}
	for tries := 0; tries < portCount; tries++ {
		port := portBase + portNext%portCount
		portNext++
		if CanBind(port) && reserve(port) {
			return port
		}
	}
	panic("BROKEN: no free port")
}

// CanBind tells whether both a TCP listener and a UDP socket can be bound on the port right now.
func CanBind(port int) bool {
	addr := fmt.Sprintf("127.0.0.1:%d", port)
	l, err := net.Listen("tcp4", addr)
	if err != nil {
		return false
	}
	l.Close()
	pc, err := net.ListenPacket("udp4", addr)
	if err != nil {
		return false
	}
	pc.Close()
	return true
}

// Addr renders a loopback address.
func Addr(port int) string { return fmt.Sprintf("127.0.0.1:%d", port) }

// WrapConn starts a Peer over an accepted connection.
func WrapConn(c net.Conn) *Peer { return startPeer(c) }
