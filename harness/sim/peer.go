package sim

import (
	"fmt"
	"net"
	"os"
	"strconv"
	"sync"
	"time"
)

// Peer is a loopback TCP or UDP client talking to a node's server endpoint (or a server-side
// connection accepted by a Listener when the node is the client).
type Peer struct {
	Conn net.Conn

	mu     sync.Mutex
	rx     []byte
	rxErr  error
	done   chan struct{}
	closed bool
}

func startPeer(c net.Conn) *Peer {
	p := &Peer{Conn: c, done: make(chan struct{})}
	go func() {
		defer close(p.done)
		buf := make([]byte, 65536)
		for {
			n, err := c.Read(buf)
			p.mu.Lock()
			p.rx = append(p.rx, buf[:n]...)
			if err != nil {
				p.rxErr = err
				p.mu.Unlock()
				return
			}
			p.mu.Unlock()
		}
	}()
	return p
}

// Dial connects a peer to a server endpoint ("tcp4" or "udp4").
func Dial(network, addr string) (*Peer, error) {
	c, err := net.DialTimeout(network, addr, 5*time.Second)
	if err != nil {
		return nil, err
	}
	return startPeer(c), nil
}

// Send writes bytes to the node.
func (p *Peer) Send(b []byte) error {
	_, err := p.Conn.Write(b)
	return err
}

// Close closes the connection and waits for the receive loop.
func (p *Peer) Close() {
	p.mu.Lock()
	already := p.closed
	p.closed = true
	p.mu.Unlock()
	if !already {
		p.Conn.Close()
	}
	<-p.done
}

// Received returns everything the node has sent so far.
func (p *Peer) Received() []byte {
	p.mu.Lock()
	defer p.mu.Unlock()
	return append([]byte(nil), p.rx...)
}

// RxError returns the error that ended the receive loop (nil while it runs).
func (p *Peer) RxError() error {
	p.mu.Lock()
	defer p.mu.Unlock()
	return p.rxErr
}

// WaitRxEnd waits until the node's side of the connection ended (EOF/reset seen by the peer).
func (p *Peer) WaitRxEnd(timeout time.Duration) bool {
	select {
	case <-p.done:
		return true
	case <-time.After(timeout):
		return false
	}
}

// LocalLabel returns the label the node gives to the channel of this peer.
func (p *Peer) LocalLabel(udp bool) string {
	proto := "tcp"
	if udp {
		proto = "udp"
	}
	return fmt.Sprintf("%s:%s", proto, p.Conn.LocalAddr())
}

// ---- ports ----

var (
	portMu   sync.Mutex
	portNext int
)

// FreePort returns a loopback port from this shard's private range that is currently free for
// both TCP and UDP.
func FreePort() int {
	portMu.Lock()
	defer portMu.Unlock()
	shard, _ := strconv.Atoi(os.Getenv("VERIF_SHARD"))
	base := 10000 + (shard%16)*1400
	for tries := 0; tries < 1400; tries++ {
		port := base + portNext%1400
		portNext++
		if CanBind(port) {
			return port
		}
	}
	panic("BROKEN: no free port in the shard's range")
}

// CanBind tells whether both a TCP listener and a UDP socket can be bound on the port right now.
func CanBind(port int) bool {
	addr := fmt.Sprintf("127.0.0.1:%d", port)
	l, err := net.Listen("tcp4", addr)
	if err != nil {
		return false
	}
	l.Close()
	pc, err := net.ListenPacket("udp4", addr)
	if err != nil {
		return false
	}
	pc.Close()
	return true
}

// Addr renders a loopback address.
func Addr(port int) string { return fmt.Sprintf("127.0.0.1:%d", port) }

// WrapConn starts a Peer over an accepted connection.
func WrapConn(c net.Conn) *Peer { return startPeer(c) }
