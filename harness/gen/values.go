package gen

import (
	"math"
	"reflect"

	"pgregory.net/rapid"

	"verifharness/ref"
)

var f32Special = []uint32{0, 0x80000000, 0x7F800000, 0xFF800000, 0x7FC00000, 0x7FA00001, 0xFFC12345, 1, 0x007FFFFF, 0x3F800000, 0x7F7FFFFF}
var f64Special = []uint64{0, 1 << 63, 0x7FF0000000000000, 0xFFF0000000000000, 0x7FF8000000000000, 0x7FF4000000000001,
	0xFFF8000000012345, 1, 0x000FFFFFFFFFFFFF, 0x3FF0000000000000, 0x7FEFFFFFFFFFFFFF}

func uintOfWidth(t *rapid.T, bits int, label string) uint64 {
	max := uint64(math.MaxUint64)
	if bits < 64 {
		max = 1<<uint(bits) - 1
	}
	switch rapid.IntRange(0, 4).Draw(t, label+"_k") {
	case 0:
		return rapid.SampledFrom([]uint64{0, 1, max, max - 1, max/2 + 1, max / 2}).Draw(t, label)
	case 1:
		return rapid.Uint64Range(0, 255).Draw(t, label) & max
	default:
		return rapid.Uint64Range(0, max).Draw(t, label)
	}
}

var stringAlphabet = []rune{'a', 'b', 'Z', '0', ' ', '_', 0, 1, 0x7f, 0xe9, 0x20ac, 0x1F600, 0xfffd}

func stringFor(t *rapid.T, declared int, label string) string {
	n := rapid.IntRange(0, declared+3).Draw(t, label+"_len")
	if rapid.IntRange(0, 3).Draw(t, label+"_exact") == 0 {
		n = declared
	}
	rs := rapid.SliceOfN(rapid.SampledFrom(stringAlphabet), n, n).Draw(t, label)
	return string(rs)
}

func fillElem(t *rapid.T, f ref.Field, v reflect.Value, label string) {
	switch {
	case f.IsEnum:
		// enum values may exceed their wire width: the wire imposes the reduction
		if rapid.IntRange(0, 5).Draw(t, label+"_wide") == 0 {
			v.SetUint(uintOfWidth(t, 64, label))
		} else {
			v.SetUint(uintOfWidth(t, 8*f.ElemSize, label))
		}
	case f.Float && f.ElemSize == 4:
		var bits uint32
		if rapid.Bool().Draw(t, label+"_sp") {
			bits = rapid.SampledFrom(f32Special).Draw(t, label)
		} else {
			bits = rapid.Uint32().Draw(t, label)
		}
		*(v.Addr().Interface().(*float32)) = math.Float32frombits(bits)
	case f.Float:
		var bits uint64
		if rapid.Bool().Draw(t, label+"_sp") {
			bits = rapid.SampledFrom(f64Special).Draw(t, label)
		} else {
			bits = rapid.Uint64().Draw(t, label)
		}
		*(v.Addr().Interface().(*float64)) = math.Float64frombits(bits)
	case f.Signed:
		u := uintOfWidth(t, 8*f.ElemSize, label)
		shift := uint(64 - 8*f.ElemSize)
		v.SetInt(int64(u<<shift) >> shift)
	default:
		v.SetUint(uintOfWidth(t, 8*f.ElemSize, label))
	}
}

// Value fills a new *struct of the layout's type. mode: 0 random, 1 all zero, 2 one-hot
// (a single field/element non-zero), 3 every byte distinct-ish.
func Value(t *rapid.T, l *ref.Layout) interface{} {
	out := reflect.New(l.Type)
	v := out.Elem()
	mode := rapid.SampledFrom([]int{0, 0, 0, 0, 1, 2, 2, 3}).Draw(t, "mode")
	if mode == 1 || len(l.Fields) == 0 {
		return out.Interface()
	}
	hot := -1
	if mode == 2 {
		hot = rapid.IntRange(0, len(l.Fields)-1).Draw(t, "hot")
	}
	for i, f := range l.Fields {
		if hot >= 0 && i != hot {
			continue
		}
		fv := v.Field(f.GoIndex)
		label := f.Name
		switch {
		case f.IsString:
			decl := f.ArrayLen
			if decl == 0 {
				decl = 1
			}
			fv.SetString(stringFor(t, decl, label))
		case f.ArrayLen > 0:
			if hot >= 0 {
				j := rapid.IntRange(0, f.ArrayLen-1).Draw(t, "hot_elem")
				fillElem(t, f, fv.Index(j), label)
				continue
			}
			if mode == 3 {
				for j := 0; j < f.ArrayLen; j++ {
					fillSeq(f, fv.Index(j), uint64(i*37+j+1))
				}
				continue
			}
			// sparse arrays keep the draw count low for long arrays
			dense := f.ArrayLen <= 16 || rapid.Bool().Draw(t, label+"_dense")
			for j := 0; j < f.ArrayLen; j++ {
				if dense || j == 0 || j == f.ArrayLen-1 {
					fillElem(t, f, fv.Index(j), label)
				}
			}
		default:
			if mode == 3 {
				fillSeq(f, fv, uint64(i*37+1))
				continue
			}
			fillElem(t, f, fv, label)
		}
	}
	return out.Interface()
}

func fillSeq(f ref.Field, v reflect.Value, n uint64) {
	pat := n * 0x0101010101010101
	switch {
	case f.IsEnum:
		v.SetUint(pat)
	case f.Float && f.ElemSize == 4:
		*(v.Addr().Interface().(*float32)) = math.Float32frombits(uint32(pat))
	case f.Float:
		*(v.Addr().Interface().(*float64)) = math.Float64frombits(pat)
	case f.Signed:
		shift := uint(64 - 8*f.ElemSize)
		v.SetInt(int64(pat<<shift) >> shift)
	default:
		shift := uint(64 - 8*f.ElemSize)
		v.SetUint(pat << shift >> shift)
	}
}
