// Package gen holds the rapid generators and library adapters shared by the checks.
package gen

import (
	"fmt"

	"github.com/bluenviron/gomavlib/v3/pkg/frame"
	"github.com/bluenviron/gomavlib/v3/pkg/message"
	"pgregory.net/rapid"

	"verifharness/ref"
)

// Byte is a byte biased towards marker and boundary values.
func Byte() *rapid.Generator[byte] {
	return rapid.OneOf(rapid.SampledFrom([]byte{0, 1, 0x7F, 0x80, 0xFD, 0xFE, 0xFF}), rapid.Byte(), rapid.Byte())
}

// PayloadLen is a payload length biased to the boundaries.
func PayloadLen() *rapid.Generator[int] {
	return rapid.OneOf(rapid.SampledFrom([]int{0, 1, 2, 9, 253, 254, 255}), rapid.IntRange(0, 255), rapid.IntRange(0, 40))
}

// Bytes draws n bytes; style picks among random, zero-tailed, marker-rich contents.
func Bytes(t *rapid.T, n int, label string) []byte {
	if n == 0 {
		return nil
	}
	style := rapid.IntRange(0, 5).Draw(t, label+"_style")
	var b []byte
	switch style {
	case 0:
		b = make([]byte, n) // all zero
	case 1:
		b = make([]byte, n)
		for i := range b {
			b[i] = 0xFF
		}
	default:
		b = rapid.SliceOfN(Byte(), n, n).Draw(t, label)
	}
	if style == 2 && n > 1 { // trailing zeros
		k := rapid.IntRange(1, n).Draw(t, label+"_ztail")
		for i := n - k; i < n; i++ {
			b[i] = 0
		}
	}
	return b
}

// MsgID draws a message id for the version.
func MsgID(v2 bool) *rapid.Generator[uint32] {
	if !v2 {
		return rapid.OneOf(rapid.SampledFrom([]uint32{0, 1, 127, 128, 254, 255}), rapid.Uint32Range(0, 255))
	}
	return rapid.OneOf(
		rapid.SampledFrom([]uint32{0, 1, 255, 256, 257, 0xFFFF, 0x10000, 0x10001, 0xFF00FF, 0xFFFFFE, 0xFFFFFF}),
		rapid.Uint32Range(0, 0xFFFFFF), rapid.Uint32Range(0, 400))
}

// Timestamp48 draws a 48-bit signature timestamp biased to byte boundaries.
func Timestamp48() *rapid.Generator[uint64] {
	return rapid.OneOf(
		rapid.SampledFrom([]uint64{0, 1, 255, 256, 1 << 16, 1<<24 - 1, 1 << 24, 1 << 32, 1<<32 - 1, 1 << 40, 1<<40 - 1, 1<<48 - 1, 1<<48 - 2}),
		rapid.Uint64Range(0, 1<<48-1),
		rapid.Custom(func(t *rapid.T) uint64 {
			k := rapid.IntRange(0, 47).Draw(t, "bit")
			return uint64(1) << uint(k)
		}))
}

// FrameOpts restricts RawFrame.
type FrameOpts struct {
	Version  int // 0 any, 1, 2
	Signed   int // 0 any, 1 never, 2 always (v2 only)
	AnyFlags bool
}

// RawFrame draws a flat frame with an arbitrary checksum.
func RawFrame(t *rapid.T, o FrameOpts) ref.Frame {
	var f ref.Frame
	switch o.Version {
	case 1:
		f.V2 = false
	case 2:
		f.V2 = true
	default:
		f.V2 = rapid.Bool().Draw(t, "v2")
	}
	f.Seq = Byte().Draw(t, "seq")
	f.Sys = Byte().Draw(t, "sys")
	f.Comp = Byte().Draw(t, "comp")
	f.ID = MsgID(f.V2).Draw(t, "id")
	f.Payload = Bytes(t, PayloadLen().Draw(t, "plen"), "payload")
	f.Checksum = rapid.Uint16().Draw(t, "checksum")
	if f.V2 {
		f.Compat = Byte().Draw(t, "compat")
		signed := false
		switch o.Signed {
		case 1:
		case 2:
			signed = true
		default:
			signed = rapid.Bool().Draw(t, "signed")
		}
		if o.AnyFlags {
			f.Incompat = Byte().Draw(t, "incompat") &^ 1
		}
		if signed {
			f.Incompat |= 1
			f.LinkID = Byte().Draw(t, "link")
			f.Timestamp = Timestamp48().Draw(t, "ts")
			copy(f.Sig[:], rapid.SliceOfN(Byte(), 6, 6).Draw(t, "sig"))
		}
	}
	return f
}

// ToLib converts a flat frame to the library's frame type with a raw message.
func ToLib(f ref.Frame) frame.Frame {
	msg := &message.MessageRaw{ID: f.ID, Payload: f.Payload}
	if !f.V2 {
		return &frame.V1Frame{SequenceNumber: f.Seq, SystemID: f.Sys, ComponentID: f.Comp, Message: msg, Checksum: f.Checksum}
	}
	out := &frame.V2Frame{IncompatibilityFlag: f.Incompat, CompatibilityFlag: f.Compat, SequenceNumber: f.Seq,
		SystemID: f.Sys, ComponentID: f.Comp, Message: msg, Checksum: f.Checksum}
	if f.Signed() {
		out.SignatureLinkID = f.LinkID
		out.SignatureTimestamp = f.Timestamp
		sig := frame.V2Signature(f.Sig)
		out.Signature = &sig
	}
	return out
}

// FromLib flattens a library frame. The message is returned separately when it is not raw
// (Payload is then nil).
func FromLib(fr frame.Frame) (ref.Frame, message.Message, error) {
	var f ref.Frame
	var m message.Message
	switch ff := fr.(type) {
	case *frame.V1Frame:
		f.Seq, f.Sys, f.Comp, f.Checksum = ff.SequenceNumber, ff.SystemID, ff.ComponentID, ff.Checksum
		m = ff.Message
	case *frame.V2Frame:
		f.V2 = true
		f.Incompat, f.Compat = ff.IncompatibilityFlag, ff.CompatibilityFlag
		f.Seq, f.Sys, f.Comp, f.Checksum = ff.SequenceNumber, ff.SystemID, ff.ComponentID, ff.Checksum
		m = ff.Message
		if ff.Signature != nil {
			if !f.Signed() {
				return f, nil, fmt.Errorf("signature present on a frame without the signed flag")
			}
			f.LinkID, f.Timestamp, f.Sig = ff.SignatureLinkID, ff.SignatureTimestamp, [6]byte(*ff.Signature)
		} else if f.Signed() {
			return f, nil, fmt.Errorf("signed flag without signature")
		} else if ff.SignatureLinkID != 0 || ff.SignatureTimestamp != 0 {
			return f, nil, fmt.Errorf("signature fields set on an unsigned frame")
		}
	default:
		return f, nil, fmt.Errorf("unknown frame type %T", fr)
	}
	if m == nil {
		return f, nil, fmt.Errorf("nil message")
	}
	f.ID = m.GetID()
	if raw, ok := m.(*message.MessageRaw); ok {
		if len(raw.Payload) > 0 {
			f.Payload = append([]byte(nil), raw.Payload...)
		}
		return f, nil, nil
	}
	return f, m, nil
}

// SameFrame compares flat frames (nil payload == empty payload).
func SameFrame(a, b ref.Frame) bool {
	if a.V2 != b.V2 || a.Incompat != b.Incompat || a.Compat != b.Compat || a.Seq != b.Seq || a.Sys != b.Sys ||
		a.Comp != b.Comp || a.ID != b.ID || a.Checksum != b.Checksum || a.LinkID != b.LinkID ||
		a.Timestamp != b.Timestamp || a.Sig != b.Sig || len(a.Payload) != len(b.Payload) {
		return false
	}
	for i := range a.Payload {
		if a.Payload[i] != b.Payload[i] {
			return false
		}
	}
	return true
}

// Describe renders a flat frame for samples and failure messages.
func Describe(f ref.Frame) string {
	v := "v1"
	if f.V2 {
		v = "v2"
	}
	s := fmt.Sprintf("%s seq=%d sys=%d comp=%d id=%d len=%d crc=%#04x payload=%x", v, f.Seq, f.Sys, f.Comp, f.ID,
		len(f.Payload), f.Checksum, f.Payload)
	if f.V2 {
		s += fmt.Sprintf(" incompat=%#x compat=%#x", f.Incompat, f.Compat)
	}
	if f.Signed() {
		s += fmt.Sprintf(" link=%d ts=%d sig=%x", f.LinkID, f.Timestamp, f.Sig)
	}
	return s
}

// ToLibEntry returns a shallow copy of a library frame so that a second write does not see
// fields a first write may have filled in.
func ToLibEntry(fr frame.Frame) frame.Frame {
	switch ff := fr.(type) {
	case *frame.V1Frame:
		c := *ff
		return &c
	case *frame.V2Frame:
		c := *ff
		return &c
	}
	return fr
}

// UnrepresentableV1ID draws a message id a v1 frame cannot carry: anything above 255, with the values that make
// narrowing mistakes visible - ids whose low byte, low two bytes or low three bytes look harmless (a zero middle
// byte, a zero middle pair), single bits, and the full 32-bit range.
func UnrepresentableV1ID() *rapid.Generator[uint32] {
	return rapid.OneOf(
		rapid.Uint32Range(256, 70000),
		rapid.Uint32Range(256, 1<<24-1),
		rapid.Uint32Range(1<<24, 1<<32-1),
		rapid.Custom(func(t *rapid.T) uint32 { // zero bits in the middle, something on top
			top := rapid.Uint32Range(1, 255).Draw(t, "top")
			low := rapid.Uint32Range(0, 255).Draw(t, "low")
			shift := rapid.SampledFrom([]uint{8, 16, 24}).Draw(t, "shift")
			return top<<shift | low
		}),
		rapid.SampledFrom([]uint32{256, 257, 0x100, 0x1FF, 0xFF00, 0x10000, 0x10005, 0x50007, 0xFF00FF, 0x800000, 0xFFFFFF, 0x1000000, 0x1000036, 0xAB0000FF, 0x80000000, 0xFFFFFFFF}),
	)
}

// UnrepresentableV2ID draws a message id beyond 24 bits, likewise.
func UnrepresentableV2ID() *rapid.Generator[uint32] {
	return rapid.OneOf(
		rapid.Uint32Range(1<<24, 1<<25),
		rapid.Uint32Range(1<<24, 1<<32-1),
		rapid.Custom(func(t *rapid.T) uint32 {
			return rapid.Uint32Range(1, 255).Draw(t, "top")<<24 | rapid.Uint32Range(0, 255).Draw(t, "low")
		}),
		rapid.SampledFrom([]uint32{1 << 24, 1<<24 + 1, 0x1000036, 0x80000000, 0xFF000000, 0xFFFFFFFF}),
	)
}
