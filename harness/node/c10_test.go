package node

import (
	"fmt"
	"net"
	"reflect"
	"strings"
	"sync"
	"testing"
	"time"

	gomavlib "github.com/bluenviron/gomavlib/v3"
	"github.com/bluenviron/gomavlib/v3/pkg/dialects/ardupilotmega"
	"github.com/bluenviron/gomavlib/v3/pkg/dialects/common"
	"github.com/bluenviron/gomavlib/v3/pkg/dialects/minimal"
	"pgregory.net/rapid"

	"verifharness/evid"
	"verifharness/ref"
	"verifharness/sim"
)

type seg struct {
	kind  string // valid-raw valid-debug badcrc badsig junk
	bytes []byte
	idx   int  // for valid ones
	own   bool // the sender uses the node's own system / component id
}

type chanSpec struct {
	kind   string // custom tcp udp
	tag    byte
	script []seg
	chunks []int // split sizes for custom/tcp; segments per datagram for udp
	// udp: every datagram carries as many whole segments as fit into 512 bytes
	fullDatagrams bool
	maxDatagram   int
	startDelay    time.Duration
	disconnect    bool
	early         bool // tcp: the peer half-closes right after its last byte instead of waiting for the events
	pipe          *sim.Pipe
	peer          *sim.Peer
}

func (c *chanSpec) valid() []int {
	var out []int
	for _, s := range c.script {
		if strings.HasPrefix(s.kind, "valid") {
			out = append(out, s.idx)
		}
	}
	return out
}

func (c *chanSpec) rejected() int {
	n := 0
	for _, s := range c.script {
		if !strings.HasPrefix(s.kind, "valid") {
			n++
		}
	}
	return n
}

// counters for evidence classes (reset by the test that reads them)
var longJunkScripts, repeatedValid int

func drawScript(t *rapid.T, tag byte, withDialect bool, key *[32]byte, maxSeg int, heartbeats bool) []seg {
	n := rapid.IntRange(0, maxSeg).Draw(t, "nseg")
	var out []seg
	idx := 0
	// every sender signs with its own clock: the links' timestamps are minutes apart from each other
	ts := uint64(5000000) + uint64(tag)*40000000
	if n > 0 && rapid.IntRange(0, 5).Draw(t, "link_starts_with_a_long_run_of_junk") == 0 {
		// what a link may say before its first frame: the boot banner of a modem, a terminal session, line noise -
		// hundreds of bytes that are no frame, each reported, none of them a reason to give up the link
		m := rapid.IntRange(256, 420).Draw(t, "long_junk_len")
		b := rapid.SliceOfN(rapid.Byte(), m, m).Draw(t, "long_junk")
		for j := range b {
			if b[j] == 0xFD || b[j] == 0xFE {
				b[j] = 0x42
			}
		}
		out = append(out, seg{kind: "junk", bytes: b})
		longJunkScripts++
	}
	for i := 0; i < n; i++ {
		kinds := []string{"valid-raw", "valid-raw", "junk"}
		if withDialect {
			kinds = append(kinds, "valid-debug", "valid-debug", "badcrc", "badcrc-noncanonical")
		}
		if key != nil {
			kinds = append(kinds, "badsig", "unsigned", "badsig-future", "unsigned-v1")
		}
		if heartbeats {
			kinds = append(kinds, "valid-hb", "valid-hb")
		}
		k := rapid.SampledFrom(kinds).Draw(t, "segkind")
		v2 := key != nil || rapid.Bool().Draw(t, "v2")
		ts += uint64(rapid.IntRange(0, 50).Draw(t, "dts"))
		switch k {
		case "valid-hb":
			// an ArduPilot heartbeat from a sender this channel has not seen yet (component = index)
			l := lay(0)
			f := ref.Frame{V2: v2, Seq: byte(idx), Sys: 50 + tag, Comp: byte(idx), ID: 0}
			f.Payload = l.Encode(&minimal.MessageHeartbeat{Type: 2, Autopilot: 3, SystemStatus: 4, MavlinkVersion: 3}, v2)
			f.Checksum = f.ChecksumFor(l.CRCExtra)
			if key != nil {
				f.V2, f.Incompat, f.LinkID, f.Timestamp = true, 1, tag, ts
				f.Payload = l.Encode(&minimal.MessageHeartbeat{Type: 2, Autopilot: 3, SystemStatus: 4, MavlinkVersion: 3}, true)
				f.Checksum = f.ChecksumFor(l.CRCExtra)
				f.Sig = f.SignatureFor(*key)
			}
			out = append(out, seg{kind: k, bytes: f.Bytes(), idx: idx})
			idx++
		case "valid-raw", "valid-debug":
			tsUse := ts
			if key != nil && rapid.IntRange(0, 7).Draw(t, "ten_seconds_older_than_the_newest") == 0 {
				tsUse = ts - 1000000 // exactly on the edge of the window (or inside it): accepted
			}
			f := tagged(tag, idx, strings.TrimPrefix(k, "valid-"), v2, key, tsUse)
			if k == "valid-debug" && f.V2 && rapid.IntRange(0, 5).Draw(t, "sender_knows_more_extension_fields") == 0 {
				// the sender's definition of the message has extension fields this dialect does not know: bytes behind
				// the last known field, ignored by a receiver, covered by the checksum as sent
				tail := rapid.SliceOfN(rapid.Byte(), 1, 4).Draw(t, "unknown_extension_bytes")
				tail[len(tail)-1] |= 1
				f.Payload = append(lay(debugMsgID).EncodeFull(debugValue(tag, idx), true), tail...)
				f.Checksum = f.ChecksumFor(lay(debugMsgID).CRCExtra)
				if key != nil {
					f.Sig = f.SignatureFor(*key)
				}
			}
			own := false
			if rapid.IntRange(0, 5).Draw(t, "sender_uses_the_node's_own_ids") == 0 {
				own = true
				// another station configured with the same system and component id as this node (or the node's own
				// frames coming back over a loop): frames like all others
				f.Sys, f.Comp = 11, 1
				if k == "valid-debug" {
					f.Checksum = f.ChecksumFor(lay(debugMsgID).CRCExtra)
				}
				if key != nil {
					f.Sig = f.SignatureFor(*key)
				}
			}
			if f.V2 {
				// the compatibility flags are the sender's business: a receiver ignores what it does not know
				f.Compat = rapid.SampledFrom([]byte{0, 0, 0, 1, 2, 0x80, 0xFF}).Draw(t, "compat_flags")
				if f.Compat != 0 {
					if k == "valid-debug" {
						f.Checksum = f.ChecksumFor(lay(debugMsgID).CRCExtra)
					}
					if key != nil {
						f.Sig = f.SignatureFor(*key)
					}
				}
			}
			out = append(out, seg{kind: k, bytes: f.Bytes(), idx: idx, own: own})
			idx++
		case "badcrc-noncanonical":
			// a complete v2 frame whose payload keeps the zero bytes a sender may leave at the end, with one payload
			// bit damaged on the way: its checksum no longer fits, so it is rejected input like any other
			f := tagged(tag, 9995, "debug", true, key, ts)
			f.Payload = lay(debugMsgID).EncodeFull(debugValue(tag, 9995), true)
			f.Checksum = f.ChecksumFor(lay(debugMsgID).CRCExtra)
			f.Payload[rapid.IntRange(0, 3).Draw(t, "dmg_byte")] ^= 1 << uint(rapid.IntRange(0, 7).Draw(t, "dmg_bit"))
			if key != nil {
				f.Sig = f.SignatureFor(*key)
			}
			out = append(out, seg{kind: k, bytes: f.Bytes()})
		case "badcrc":
			f := tagged(tag, 9999, "debug", v2, key, ts)
			f.Checksum ^= uint16(rapid.IntRange(1, 0xFFFF).Draw(t, "crcx"))
			if key != nil {
				f.Sig = f.SignatureFor(*key)
			}
			out = append(out, seg{kind: k, bytes: f.Bytes()})
		case "badsig-future":
			// wrong signature and a timestamp far in the future: must be a parse error and must not
			// make the channel refuse the authentic frames that follow
			f := tagged(tag, 9996, "raw", true, key, ts+uint64(rapid.OneOf(rapid.Uint64Range(2000000, 1<<40), rapid.Just(uint64(1)<<47)).Draw(t, "future")))
			f.Sig[2] ^= 0x11
			out = append(out, seg{kind: k, bytes: f.Bytes()})
		case "badsig":
			f := tagged(tag, 9998, "raw", true, key, ts)
			f.Sig[rapid.IntRange(0, 5).Draw(t, "sigi")] ^= byte(rapid.IntRange(1, 255).Draw(t, "sigx"))
			out = append(out, seg{kind: k, bytes: f.Bytes()})
		case "unsigned":
			f := tagged(tag, 9997, "raw", true, nil, 0)
			if id := rapid.SampledFrom([]uint32{0, 0, 109, 166, 0}).Draw(t, "unsigned_message"); id != 0 && withDialect && lay(id) != nil {
				// the status reports a telemetry radio puts on the link (RADIO_STATUS, RADIO) are frames like all others:
				// unsigned, they do not pass a node that has an incoming key - in either protocol version
				l := lay(id)
				f = ref.Frame{V2: rapid.Bool().Draw(t, "unsigned_v2"), Seq: byte(idx), Sys: 51, Comp: 68, ID: id}
				f.Payload = l.Encode(reflect.New(l.Type).Interface(), f.V2)
				f.Checksum = f.ChecksumFor(l.CRCExtra)
			}
			out = append(out, seg{kind: k, bytes: f.Bytes()})
		case "unsigned-v1":
			// a complete v1 frame (v1 cannot be signed) whose bytes happen to contain marker values: refused as a
			// whole, it takes nothing of what follows with it
			f := ref.Frame{Seq: byte(idx), Sys: 50 + tag, Comp: 1, ID: 222, Payload: []byte{0xFD, 0x09, 0x00, 0xFE, 0x05, 0xFD, 0xFD, 0x00, 0x01}, Checksum: 0xFDFE}
			out = append(out, seg{kind: k, bytes: f.Bytes()})
		case "junk":
			m := rapid.IntRange(1, 6).Draw(t, "junklen")
			b := rapid.SliceOfN(rapid.Byte(), m, m).Draw(t, "junk")
			for j := range b {
				if b[j] == 0xFD || b[j] == 0xFE {
					b[j] = 0x42
				}
			}
			out = append(out, seg{kind: k, bytes: b})
		}
		// a valid frame may come several times in a row as well, byte for byte (a sender that never advances its
		// sequence number and reports an unchanged state): every copy is a frame of its own
		if last := out[len(out)-1]; (last.kind == "valid-raw" || last.kind == "valid-debug") && rapid.IntRange(0, 4).Draw(t, "valid_frame_repeated") == 0 {
			for k := rapid.IntRange(1, 3).Draw(t, "valid_repeats"); k > 0; k-- {
				out = append(out, seg{kind: last.kind, bytes: last.bytes, idx: last.idx, own: last.own})
				repeatedValid++
			}
		}
		// a sender that repeats itself: the refused frame just generated arrives once more, byte for byte (a beacon
		// with a hard-coded frame, a log replayed in a loop) - each copy is refused and reported on its own
		if last := out[len(out)-1]; !strings.HasPrefix(last.kind, "valid") && last.kind != "junk" && rapid.IntRange(0, 3).Draw(t, "refused_frame_repeated") == 0 {
			for k := rapid.IntRange(1, 2).Draw(t, "repeats"); k > 0; k-- {
				out = append(out, seg{kind: last.kind, bytes: last.bytes})
			}
		}
	}
	return out
}

func (c *chanSpec) stream() []byte {
	var b []byte
	for _, s := range c.script {
		b = append(b, s.bytes...)
	}
	return b
}

// feed delivers the script to the node through the channel's transport.
func (c *chanSpec) feed(udpAddr, tcpAddr string) error {
	time.Sleep(c.startDelay)
	switch c.kind {
	case "custom":
		data := c.stream()
		i := 0
		for len(data) > 0 {
			n := len(data)
			if i < len(c.chunks) && c.chunks[i] < n {
				n = c.chunks[i]
			}
			i++
			c.pipe.Feed(data[:n])
			data = data[n:]
		}
	case "tcp":
		p, err := sim.Dial("tcp4", tcpAddr)
		if err != nil {
			return fmt.Errorf("BROKEN: dial: %v", err)
		}
		c.peer = p
		data := c.stream()
		i := 0
		for len(data) > 0 {
			n := len(data)
			if i < len(c.chunks) && c.chunks[i] < n {
				n = c.chunks[i]
			}
			i++
			if err := p.Send(data[:n]); err != nil {
				return fmt.Errorf("BROKEN: send: %v", err)
			}
			data = data[n:]
		}
		if c.early {
			if tc, ok := p.Conn.(*net.TCPConn); ok {
				tc.CloseWrite() //nolint:errcheck
			}
		}
	case "udp":
		p, err := sim.Dial("udp4", udpAddr)
		if err != nil {
			return fmt.Errorf("BROKEN: dial: %v", err)
		}
		c.peer = p
		// a UDP channel exists only once a datagram arrived: always send a non-marker hello byte first
		if err := p.Send([]byte{0x01}); err != nil {
			return fmt.Errorf("BROKEN: send: %v", err)
		}
		// datagrams carry one or several whole segments (never more than 512 bytes, the size of the reader's
		// buffer: a longer datagram cannot be received in one piece); how many is taken from the chunk list
		for i, k := 0, 0; i < len(c.script); k++ {
			want := 1
			if k < len(c.chunks) {
				want = c.chunks[k] // 1..40 segments, as many as fit
			}
			if c.fullDatagrams {
				want = 40
			}
			dg := append([]byte{}, c.script[i].bytes...)
			i++
			for n := 1; n < want && i < len(c.script) && len(dg)+len(c.script[i].bytes) <= 512; n++ {
				dg = append(dg, c.script[i].bytes...)
				i++
			}
			if len(dg) > c.maxDatagram {
				c.maxDatagram = len(dg)
			}
			if err := p.Send(dg); err != nil {
				return fmt.Errorf("BROKEN: send: %v", err)
			}
			time.Sleep(200 * time.Microsecond)
		}
	}
	return nil
}

type c10World struct {
	streamReq bool
	outV1     bool
	specs     []*chanSpec
	key       *[32]byte
	dialect   bool
	pacing    sim.Pacing
	pauseMs   int
	writers   int
}

func (w *c10World) describe() string {
	var b strings.Builder
	fmt.Fprintf(&b, "dialect=%v inKey=%v outV1=%v pacing=%+v pause=%dms writers=%d\n", w.dialect, w.key != nil, w.outV1, w.pacing, w.pauseMs, w.writers)
	for i, c := range w.specs {
		fmt.Fprintf(&b, " channel %d (%s, tag %d, delay %v, disconnect %v early %v, chunks %v):", i, c.kind, c.tag, c.startDelay, c.disconnect, c.early, c.chunks)
		for _, s := range c.script {
			if strings.HasPrefix(s.kind, "valid") {
				fmt.Fprintf(&b, " %s#%d", s.kind, s.idx)
			} else {
				fmt.Fprintf(&b, " %s(%x)", s.kind, head(s.bytes, 8))
			}
		}
		b.WriteString("\n")
	}
	return b.String()
}

func renderEvents(recs []sim.Rec, chanIdx map[*gomavlib.Channel]int) string {
	var b strings.Builder
	for i, r := range recs {
		ch := eventChannel(r.Ev)
		ci, ok := chanIdx[ch]
		who := fmt.Sprint(ci)
		if !ok {
			who = "?" + ch.String()
		}
		extra := ""
		switch e := r.Ev.(type) {
		case *gomavlib.EventFrame:
			if tag, idx, ok := identify(e.Frame); ok {
				extra = fmt.Sprintf(" tag=%d idx=%d", tag, idx)
			} else {
				extra = fmt.Sprintf(" id=%d", e.Frame.GetMessage().GetID())
			}
		case *gomavlib.EventParseError:
			extra = " " + e.Error.Error()
		case *gomavlib.EventChannelClose:
			extra = fmt.Sprintf(" err=%v", e.Error)
		}
		fmt.Fprintf(&b, "  %3d ch%s %s%s\n", i, who, evName(r.Ev), extra)
		if i > 400 {
			b.WriteString("  ...\n")
			break
		}
	}
	return b.String()
}

func TestC10EventStream(t *testing.T) {
	rec := evid.New(t, "C10", "scripted scenarios on a real Node: 1..4 channels (custom in-memory transports, TCP-server and UDP-server peers on loopback) each fed a generated script of valid tagged frames, complete frames with wrong checksum / wrong signature / missing signature and non-marker junk in generated chunkings (UDP: datagrams of one to many whole segments, up to 512 bytes), a consumer with generated pacing (fast, sleeping, bursty, paused then resumed), concurrent WriteMessageAll callers, late-connecting and disconnecting TCP peers; per channel the event sequence must match Open (Frame|ParseError)* Close?, frames == the valid frames of that channel's script in order with the channel's tag, rejected input only as ParseError, exactly one Close for a disconnected peer and nothing after it; non-trivial = >=2 channels with >=1 rejected segment and a non-fast consumer; distinct by hash of the scripts")
	rec.Require("multi-channel+rejected+slow-consumer", "custom", "tcp", "udp", "inkey", "inkey+out-v1", "disconnect", "paused-consumer", "concurrent-writers", "stream-requests-enabled", "link-drops-right-after-last-byte+stream-requests", "udp-datagram-of-several-frames-over-280-bytes", "link-starting-with-256+-bytes-of-junk", "valid-frame-repeated-byte-for-byte")
	evid.Check(t, rec, evid.N(400, 1000), func(t *rapid.T) {
		drawNodeInit(t)
		w := &c10World{}
		w.dialect = rapid.IntRange(0, 3).Draw(t, "dialect") > 0
		w.outV1 = rapid.IntRange(0, 2).Draw(t, "out_v1") == 0
		w.streamReq = w.dialect && rapid.Bool().Draw(t, "stream_requests")
		if rapid.IntRange(0, 3).Draw(t, "inkey") == 0 {
			k := [32]byte{}
			copy(k[:], rapid.SliceOfN(rapid.Byte(), 32, 32).Draw(t, "key"))
			w.key = &k
		}
		nch := rapid.IntRange(1, 4).Draw(t, "nch")
		for i := 0; i < nch; i++ {
			c := &chanSpec{tag: byte(i + 1)}
			c.kind = rapid.SampledFrom([]string{"custom", "custom", "tcp", "tcp", "udp"}).Draw(t, "kind")
			maxSeg := 14
			if c.kind == "udp" && rapid.Bool().Draw(t, "full_datagrams") {
				c.fullDatagrams, maxSeg = true, 30
			}
			c.script = drawScript(t, c.tag, w.dialect, w.key, maxSeg, w.streamReq)
			c.chunks = rapid.SliceOfN(rapid.IntRange(1, 40), 0, 30).Draw(t, "chunks")
			c.startDelay = time.Duration(rapid.IntRange(0, 3000).Draw(t, "delay_us")) * time.Microsecond
			c.disconnect = c.kind == "tcp" && rapid.Bool().Draw(t, "disconnect")
			c.early = c.disconnect && rapid.Bool().Draw(t, "early_disconnect")
			if c.kind == "custom" {
				c.pipe = sim.NewPipe()
			}
			w.specs = append(w.specs, c)
		}
		switch rapid.IntRange(0, 3).Draw(t, "pacing") {
		case 0:
			w.pacing = sim.Pacing{Kind: "fast"}
		case 1:
			w.pacing = sim.Pacing{Kind: "sleep", Sleep: time.Duration(rapid.IntRange(20, 400).Draw(t, "sleep_us")) * time.Microsecond}
		case 2:
			w.pacing = sim.Pacing{Kind: "bursty", Burst: rapid.IntRange(2, 9).Draw(t, "burst"), Sleep: time.Duration(rapid.IntRange(200, 3000).Draw(t, "bsleep_us")) * time.Microsecond}
		case 3:
			w.pacing = sim.Pacing{Kind: "fast"}
			w.pauseMs = rapid.IntRange(5, 40).Draw(t, "pause_ms")
		}
		w.writers = rapid.IntRange(0, 2).Draw(t, "writers")
		if err := watchdog(scenarioLimit, func() error { return runC10(w) }); err != nil {
			evid.ReplayNote("C10", "TestC10EventStream", w.describe()+err.Error())
			t.Fatalf("%s%v", w.describe(), err)
		}
		var cls []string
		kinds := map[string]bool{}
		rejected, disc := 0, false
		for _, c := range w.specs {
			kinds[c.kind] = true
			rejected += c.rejected()
			disc = disc || c.disconnect
		}
		for k := range kinds {
			cls = append(cls, k)
		}
		if w.key != nil {
			cls = append(cls, "inkey")
			if w.outV1 {
				cls = append(cls, "inkey+out-v1")
			}
		}
		if disc {
			cls = append(cls, "disconnect")
		}
		for _, c := range w.specs {
			if c.early && w.streamReq {
				cls = append(cls, "link-drops-right-after-last-byte+stream-requests")
				break
			}
		}
		for _, c := range w.specs {
			if c.maxDatagram > 280 {
				cls = append(cls, "udp-datagram-of-several-frames-over-280-bytes")
				break
			}
		}
		if w.pauseMs > 0 {
			cls = append(cls, "paused-consumer")
		}
		if w.writers > 0 {
			cls = append(cls, "concurrent-writers")
		}
		if w.streamReq {
			cls = append(cls, "stream-requests-enabled")
		}
		nt := len(w.specs) >= 2 && rejected >= 1 && (w.pacing.Kind != "fast" || w.pauseMs > 0)
		if nt {
			cls = append(cls, "multi-channel+rejected+slow-consumer")
		}
		if longJunkScripts > 0 {
			cls = append(cls, "link-starting-with-256+-bytes-of-junk")
			longJunkScripts = 0
		}
		if repeatedValid > 0 {
			cls = append(cls, "valid-frame-repeated-byte-for-byte")
			repeatedValid = 0
		}
		rec.Case(nt, evid.HashS(w.describe()), cls...)
		if nt && rec.WantSample("scenario") {
			rec.Sample("scenario", w.describe())
		}
	})
}

func runC10(w *c10World) error {
	var endpoints []gomavlib.EndpointConf
	var tcpAddr, udpAddr string
	needTCP, needUDP := false, false
	for _, c := range w.specs {
		switch c.kind {
		case "custom":
			endpoints = append(endpoints, gomavlib.EndpointCustom{ReadWriteCloser: c.pipe})
		case "tcp":
			needTCP = true
		case "udp":
			needUDP = true
		}
	}
	if needTCP {
		tcpAddr = sim.Addr(sim.FreePort())
		endpoints = append(endpoints, gomavlib.EndpointTCPServer{Address: tcpAddr})
	}
	if needUDP {
		udpAddr = sim.Addr(sim.FreePort())
		endpoints = append(endpoints, gomavlib.EndpointUDPServer{Address: udpAddr})
	}
	n := &gomavlib.Node{
		Endpoints:           endpoints,
		OutVersion:          gomavlib.V2,
		OutSystemID:         11,
		HeartbeatDisable:    true,
		InKey:               keyOf(w.key),
		StreamRequestEnable: w.streamReq,
	}
	if w.dialect {
		n.Dialect = ardupilotmega.Dialect
	}
	if w.outV1 {
		n.OutVersion = gomavlib.V1 // the incoming key is independent of the outgoing version
	}
	if err := initNode(&n); err != nil {
		return fmt.Errorf("BROKEN: node init: %v", err)
	}
	rec := sim.StartRecorder(n, w.pacing, nil)
	if w.pauseMs > 0 {
		rec.Pause()
		time.AfterFunc(time.Duration(w.pauseMs)*time.Millisecond, rec.Resume)
	}
	// concurrent writers (noise for this property)
	stopWriters := make(chan struct{})
	var wwg sync.WaitGroup
	for i := 0; i < w.writers; i++ {
		wwg.Add(1)
		go func(i int) {
			defer wwg.Done()
			for k := 0; ; k++ {
				select {
				case <-stopWriters:
					return
				default:
				}
				if w.dialect {
					n.WriteMessageAll(&common.MessageDebug{TimeBootMs: uint32(k), Ind: byte(100 + i)}) //nolint:errcheck
				} else {
					n.WriteFrameAll(gen1(byte(100+i), k)) //nolint:errcheck
				}
				time.Sleep(150 * time.Microsecond)
			}
		}(i)
	}
	// feeders
	var fwg sync.WaitGroup
	ferrs := make([]error, len(w.specs))
	for i, c := range w.specs {
		fwg.Add(1)
		go func(i int, c *chanSpec) {
			defer fwg.Done()
			ferrs[i] = c.feed(udpAddr, tcpAddr)
		}(i, c)
	}
	fwg.Wait()
	finish := func() {
		close(stopWriters)
		wwg.Wait()
		for _, c := range w.specs {
			if c.peer != nil {
				c.peer.Close()
			}
		}
	}
	for _, e := range ferrs {
		if e != nil {
			finish()
			closeNode(n, bound) //nolint:errcheck
			return e
		}
	}
	// resolve channels as they open
	resolve := func(recs []sim.Rec) map[*gomavlib.Channel]int {
		m := map[*gomavlib.Channel]int{}
		for _, r := range recs {
			if o, ok := r.Ev.(*gomavlib.EventChannelOpen); ok {
				for i, c := range w.specs {
					switch c.kind {
					case "custom":
						if isPipeChannel(o.Channel, c.pipe) {
							m[o.Channel] = i
						}
					default:
						if c.peer != nil && o.Channel.String() == c.peer.LocalLabel(c.kind == "udp") {
							m[o.Channel] = i
						}
					}
				}
			}
		}
		return m
	}
	// wait until every channel delivered what its script holds
	complete := rec.WaitFor(bound, func(recs []sim.Rec) bool {
		m := resolve(recs)
		got := make([]int, len(w.specs))
		perr := make([]int, len(w.specs))
		opened := make([]bool, len(w.specs))
		for _, r := range recs {
			ch := eventChannel(r.Ev)
			if i, ok := m[ch]; ok {
				opened[i] = true
				switch r.Ev.(type) {
				case *gomavlib.EventFrame:
					got[i]++
				case *gomavlib.EventParseError:
					perr[i]++
				}
			}
		}
		for i, c := range w.specs {
			rej := c.rejected()
			if c.kind == "udp" {
				rej++
			}
			if !opened[i] || got[i] < len(c.valid()) || perr[i] < rej {
				return false
			}
		}
		return true
	})
	// let trailing rejected segments surface, then disconnect the peers that should
	for _, c := range w.specs {
		if c.kind == "custom" {
			c.pipe.WaitDrained(2 * time.Second)
		}
	}
	if complete {
		time.Sleep(2 * time.Millisecond)
	}
	for _, c := range w.specs {
		if c.disconnect && c.peer != nil {
			if tc, ok := c.peer.Conn.(*net.TCPConn); ok {
				tc.CloseWrite() //nolint:errcheck
			}
		}
	}
	discOK := true
	if complete {
		discOK = rec.WaitFor(bound, func(recs []sim.Rec) bool {
			m := resolve(recs)
			closed := map[int]bool{}
			for _, r := range recs {
				if cl, ok := r.Ev.(*gomavlib.EventChannelClose); ok {
					if i, ok := m[cl.Channel]; ok {
						closed[i] = true
					}
				}
			}
			for i, c := range w.specs {
				if c.disconnect && !closed[i] {
					return false
				}
			}
			return true
		})
	}
	preClose := len(rec.Snapshot())
	finish()
	_, cerr := closeNode(n, bound)
	if cerr != nil {
		return cerr
	}
	if !rec.WaitClosed(bound) {
		return fmt.Errorf("event channel was not closed after Node.Close")
	}
	recs := rec.Snapshot()
	m := resolve(recs)
	dump := func() string { return "events:\n" + renderEvents(recs, m) }
	if !complete {
		return fmt.Errorf("not every valid frame of the scripts produced a frame event (and every rejected segment a parse-error event) within %v (lost or stuck)\n%s", bound, dump())
	}
	if !discOK {
		return fmt.Errorf("a disconnected peer's channel produced no close event within %v\n%s", bound, dump())
	}
	// per-channel grammar
	type st struct {
		opened, closed bool
		frames         []int
		perr           int
		closeAt        int
		sreq           int
	}
	states := map[*gomavlib.Channel]*st{}
	for i, r := range recs {
		ch := eventChannel(r.Ev)
		if ch == nil {
			return fmt.Errorf("event %d (%s) has no channel\n%s", i, evName(r.Ev), dump())
		}
		s := states[ch]
		if s == nil {
			s = &st{}
			states[ch] = s
		}
		if s.closed {
			return fmt.Errorf("event %d (%s) arrived for a channel after its close event (event %d)\n%s", i, evName(r.Ev), s.closeAt, dump())
		}
		switch e := r.Ev.(type) {
		case *gomavlib.EventChannelOpen:
			if s.opened {
				return fmt.Errorf("event %d: second open event for the same channel\n%s", i, dump())
			}
			s.opened = true
		default:
			if !s.opened {
				return fmt.Errorf("event %d (%s) precedes the channel's open event\n%s", i, evName(r.Ev), dump())
			}
			switch e := e.(type) {
			case *gomavlib.EventChannelClose:
				s.closed, s.closeAt = true, i
			case *gomavlib.EventParseError:
				if e.Error == nil {
					return fmt.Errorf("event %d: parse error event without error\n%s", i, dump())
				}
				s.perr++
			case *gomavlib.EventFrame:
				if e.Frame == nil {
					return fmt.Errorf("event %d: frame event with nil frame\n%s", i, dump())
				}
				if e.SystemID() != e.Frame.GetSystemID() || e.ComponentID() != e.Frame.GetComponentID() || e.Message() != e.Frame.GetMessage() {
					return fmt.Errorf("event %d: the frame event's SystemID()/ComponentID()/Message() (%d/%d/%T) disagree with its frame (%d/%d/%T)\n%s", i, e.SystemID(), e.ComponentID(), e.Message(), e.Frame.GetSystemID(), e.Frame.GetComponentID(), e.Frame.GetMessage(), dump())
				}
				tag, idx, ok := identify(e.Frame)
				wantSys := 50 + w.specs[m[ch]].tag
				if ok {
					for _, sg := range w.specs[m[ch]].script {
						if sg.own && sg.idx == idx && strings.HasPrefix(sg.kind, "valid-") {
							wantSys = 11
						}
					}
				}
				if e.Frame.GetSystemID() != wantSys {
					return fmt.Errorf("event %d: frame event says system %d, the frame on the wire came from system %d\n%s", i, e.Frame.GetSystemID(), wantSys, dump())
				}
				if _, isHB := e.Frame.GetMessage().(*minimal.MessageHeartbeat); isHB {
					tag, idx, ok = e.Frame.GetSystemID()-50, int(e.Frame.GetComponentID()), true
				}
				ci, known := m[ch]
				if !ok {
					return fmt.Errorf("event %d: frame event with content that was never sent (id %d)\n%s", i, e.Frame.GetMessage().GetID(), dump())
				}
				if !known || w.specs[ci].tag != tag {
					return fmt.Errorf("event %d: frame tagged for channel tag %d was attributed to another channel\n%s", i, tag, dump())
				}
				s.frames = append(s.frames, idx)
			case *gomavlib.EventStreamRequested:
				if !w.streamReq {
					return fmt.Errorf("event %d: stream-requested event although stream requests are disabled", i)
				}
				s.sreq++
			}
		}
	}
	for ch, ci := range m {
		c := w.specs[ci]
		s := states[ch]
		want := c.valid()
		if len(s.frames) != len(want) {
			return fmt.Errorf("channel %d: %d frame events for %d valid frames (got %v)\n%s", ci, len(s.frames), len(want), s.frames, dump())
		}
		for k := range want {
			if s.frames[k] != want[k] {
				return fmt.Errorf("channel %d: frame events out of order / duplicated: got %v want %v\n%s", ci, s.frames, want, dump())
			}
		}
		rej := c.rejected()
		if c.kind == "udp" {
			rej++ // hello byte
		}
		if s.perr < rej {
			return fmt.Errorf("channel %d: %d rejected segments but only %d parse-error events\n%s", ci, rej, s.perr, dump())
		}
		if rej == 0 && s.perr > 0 {
			return fmt.Errorf("channel %d: %d parse-error events although nothing in its input was rejectable\n%s", ci, s.perr, dump())
		}
		nhb := 0
		for _, sg := range c.script {
			if sg.kind == "valid-hb" {
				nhb++
			}
		}
		if s.sreq != nhb {
			return fmt.Errorf("channel %d: %d stream-requested events for %d new ArduPilot senders\n%s", ci, s.sreq, nhb, dump())
		}
		if c.disconnect {
			if !s.closed || s.closeAt >= preClose {
				return fmt.Errorf("channel %d: peer disconnected while the node was open but no close event arrived before Node.Close\n%s", ci, dump())
			}
		}
	}
	if len(m) != len(w.specs) {
		return fmt.Errorf("%d channels resolved for %d transports\n%s", len(m), len(w.specs), dump())
	}
	// channels that are not ours must not exist
	for ch := range states {
		if _, ok := m[ch]; !ok {
			return fmt.Errorf("events for an unknown channel %s\n%s", ch, dump())
		}
	}
	if leftovers := sim.WaitNoLibGoroutines(5 * time.Second); len(leftovers) > 0 {
		return fmt.Errorf("BROKEN-LEAK: %d library goroutines alive after Close:\n%s", len(leftovers), strings.Join(leftovers, "\n\n"))
	}
	return nil
}

// TestC10ConcurrentStreams: several channels decode long runs of the same message type at the same
// time (truncated and full payloads mixed); every frame event must carry exactly the content that
// arrived on its own channel, in order.
func TestC10ConcurrentStreams(t *testing.T) {
	rec := evid.New(t, "C10", "2..4 custom channels each streaming 200..600 tagged DEBUG frames (every other one with a zero-truncated payload) in large chunks from parallel feeders, consumer fast or sleeping: per channel the frame events must be exactly that channel's frames in order (content decoded on one channel must never show bytes that arrived on another); non-trivial = >=3 channels; distinct by hash of the parameters")
	rec.Require("3+channels")
	evid.Check(t, rec, evid.N(40, 200), func(t *rapid.T) {
		drawNodeInit(t)
		nch := rapid.IntRange(2, 4).Draw(t, "nch")
		nfr := rapid.IntRange(200, 600).Draw(t, "frames")
		chunk := rapid.IntRange(16, 400).Draw(t, "chunk")
		v2 := rapid.IntRange(0, 4).Draw(t, "v2") > 0
		slow := rapid.IntRange(0, 3).Draw(t, "slow") == 0
		desc := fmt.Sprintf("channels=%d frames=%d chunk=%d v2=%v slowConsumer=%v", nch, nfr, chunk, v2, slow)
		pipes := make([]*sim.Pipe, nch)
		var endpoints []gomavlib.EndpointConf
		for i := range pipes {
			pipes[i] = sim.NewPipe()
			endpoints = append(endpoints, gomavlib.EndpointCustom{ReadWriteCloser: pipes[i]})
		}
		n := &gomavlib.Node{Endpoints: endpoints, Dialect: ardupilotmega.Dialect, OutVersion: gomavlib.V2, OutSystemID: 11, HeartbeatDisable: true}
		if err := initNode(&n); err != nil {
			t.Fatalf("BROKEN: %v", err)
		}
		pacing := sim.Pacing{Kind: "fast"}
		if slow {
			pacing = sim.Pacing{Kind: "bursty", Burst: 50, Sleep: 200 * time.Microsecond}
		}
		r := sim.StartRecorder(n, pacing, nil)
		var wg sync.WaitGroup
		for i, p := range pipes {
			wg.Add(1)
			go func(i int, p *sim.Pipe) {
				defer wg.Done()
				var stream []byte
				for k := 0; k < nfr; k++ {
					stream = append(stream, tagged(byte(i+1), k, "debug", v2, nil, 0).Bytes()...)
				}
				for len(stream) > 0 {
					c := chunk
					if c > len(stream) {
						c = len(stream)
					}
					p.Feed(stream[:c])
					stream = stream[c:]
				}
			}(i, p)
		}
		wg.Wait()
		ok := r.WaitFor(bound, func(recs []sim.Rec) bool {
			k := 0
			for _, e := range recs {
				switch e.Ev.(type) {
				case *gomavlib.EventFrame, *gomavlib.EventParseError:
					k++
				}
			}
			return k >= nch*nfr
		})
		closeNode(n, bound) //nolint:errcheck
		r.WaitClosed(bound)
		next := make([]int, nch)
		for _, e := range r.Snapshot() {
			switch ev := e.Ev.(type) {
			case *gomavlib.EventParseError:
				t.Fatalf("%s: parse error on a stream of valid frames: %v", desc, ev.Error)
			case *gomavlib.EventFrame:
				ci := -1
				for i, p := range pipes {
					if isPipeChannel(ev.Channel, p) {
						ci = i
					}
				}
				tag, idx, okid := identify(ev.Frame)
				if ci < 0 || !okid || int(tag) != ci+1 || idx != next[ci] {
					evid.ReplayNote("C10", "TestC10ConcurrentStreams", fmt.Sprintf("%s: channel %d expected frame #%d, got tag=%d idx=%d ok=%v: %+v", desc, ci, next[max0(ci)], tag, idx, okid, ev.Frame.GetMessage()))
					t.Fatalf("%s: channel %d: expected its own frame #%d, the event carries tag=%d idx=%d (recognised=%v): %+v — content of another channel / frame", desc, ci, next[max0(ci)], tag, idx, okid, ev.Frame.GetMessage())
				}
				next[ci]++
			}
		}
		if !ok {
			t.Fatalf("%s: only %v of %d frames per channel surfaced within %v", desc, next, nfr, bound)
		}
		var cls []string
		if nch >= 3 {
			cls = append(cls, "3+channels")
		}
		rec.Case(nch >= 3, evid.HashS(desc), cls...)
		rec.Sample("streams", desc)
	})
}

func max0(i int) int {
	if i < 0 {
		return 0
	}
	return i
}
