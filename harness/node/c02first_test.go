package node

import (
	"fmt"
	"testing"

	gomavlib "github.com/bluenviron/gomavlib/v3"
	"github.com/bluenviron/gomavlib/v3/pkg/dialects/ardupilotmega"
	"pgregory.net/rapid"

	"verifharness/evid"
	"verifharness/sim"
)

// TestC02FirstDatagramOfAPeer: a well-formed frame with the right checksum is delivered wherever it stands in what a
// peer sends first. A peer that joins a UDP or TCP server in mid-stream (a serial-to-UDP bridge, a router that batches)
// starts with the tail of a frame or a few stray bytes, and the whole frames behind them - in the same datagram - count.
func TestC02FirstDatagramOfAPeer(t *testing.T) {
	rec := evid.New(t, "C02", "UDP server and TCP server endpoints; a new peer's first datagram (first segment) is the tail of a frame or 1..6 stray bytes followed by 1..6 well-formed DEBUG frames with the reference checksum, a second datagram carries 1..4 more: every whole frame surfaces as a frame event, in order, on one channel; non-trivial = a UDP peer whose first datagram starts with no frame marker; distinct by hash of the parameters")
	rec.Require("udp-first-datagram-starting-mid-frame", "tcp-first-segment-starting-mid-frame")
	evid.Check(t, rec, evid.N(40, 200), func(t *rapid.T) {
		drawNodeInit(t)
		udp := rapid.Bool().Draw(t, "udp")
		tailFirst := rapid.Bool().Draw(t, "starts_with_the_tail_of_a_frame")
		k1 := rapid.IntRange(1, 6).Draw(t, "frames_in_the_first_datagram")
		k2 := rapid.IntRange(1, 4).Draw(t, "frames_in_the_second_datagram")
		desc := fmt.Sprintf("udp=%v startsWithFrameTail=%v framesInFirst=%d framesInSecond=%d", udp, tailFirst, k1, k2)
		port := sim.FreePort()
		var ep gomavlib.EndpointConf = gomavlib.EndpointTCPServer{Address: sim.Addr(port)}
		network := "tcp4"
		if udp {
			ep, network = gomavlib.EndpointUDPServer{Address: sim.Addr(port)}, "udp4"
		}
		n := &gomavlib.Node{Endpoints: []gomavlib.EndpointConf{ep}, Dialect: ardupilotmega.Dialect, OutVersion: gomavlib.V2, OutSystemID: nodeSys, HeartbeatDisable: true}
		if err := initNode(&n); err != nil {
			t.Fatalf("BROKEN: %v", err)
		}
		r := sim.StartRecorder(n, sim.Pacing{Kind: "fast"}, nil)
		defer func() {
			closeNode(n, bound) //nolint:errcheck
			r.WaitClosed(bound)
		}()
		peer, err := sim.Dial(network, sim.Addr(port))
		if err != nil {
			t.Fatalf("BROKEN: dial: %v", err)
		}
		defer peer.Close()
		first := []byte{0x01, 0x7F, 0x33, 0x42, 0x10, 0x11}[:rapid.IntRange(1, 6).Draw(t, "stray_bytes")]
		if tailFirst {
			whole := tagged(1, 900, "debug", true, nil, 0).Bytes()
			first = append([]byte(nil), whole[len(whole)/2:]...)
			for i := range first {
				if first[i] == 0xFD || first[i] == 0xFE {
					first[i] = 0x11
				}
			}
		}
		for i := 0; i < k1; i++ {
			first = append(first, tagged(1, i, "debug", i%2 == 0, nil, 0).Bytes()...)
		}
		var second []byte
		for i := k1; i < k1+k2; i++ {
			second = append(second, tagged(1, i, "debug", true, nil, 0).Bytes()...)
		}
		peer.Send(first)  //nolint:errcheck
		peer.Send(second) //nolint:errcheck
		frames := func(recs []sim.Rec) []int {
			var out []int
			for _, e := range recs {
				if fe, ok := e.Ev.(*gomavlib.EventFrame); ok {
					if _, idx, ok := identify(fe.Frame); ok {
						out = append(out, idx)
					} else {
						out = append(out, -1)
					}
				}
			}
			return out
		}
		r.WaitFor(3*bound/4, func(recs []sim.Rec) bool { return len(frames(recs)) >= k1+k2 })
		got := frames(r.Snapshot())
		var want []int
		for i := 0; i < k1+k2; i++ {
			want = append(want, i)
		}
		if fmt.Sprint(got) != fmt.Sprint(want) {
			msg := fmt.Sprintf("%s\nthe peer's first datagram holds %d well-formed frames behind %d bytes that are no frame, its second one %d more: frame events arrived for %v, want %v", desc, k1, len(first)-len(tagged(1, 0, "debug", true, nil, 0).Bytes())*0, k2, got, want)
			evid.ReplayNote("C02", "TestC02FirstDatagramOfAPeer", msg)
			t.Fatalf("%s", msg)
		}
		opens := 0
		for _, e := range lifecycle(r.Snapshot()) {
			if e.open {
				opens++
			}
		}
		if opens != 1 {
			t.Fatalf("%s: %d channels for one peer", desc, opens)
		}
		cls := []string{"tcp-first-segment-starting-mid-frame"}
		if udp {
			cls = []string{"udp-first-datagram-starting-mid-frame"}
		}
		rec.Case(udp, evid.HashS(desc), cls...)
		if rec.WantSample("first-datagram") {
			rec.Sample("first-datagram", desc)
		}
	})
}
