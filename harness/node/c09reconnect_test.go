package node

import (
	"fmt"
	"io"
	"net"
	"testing"
	"time"

	gomavlib "github.com/bluenviron/gomavlib/v3"
	"github.com/bluenviron/gomavlib/v3/pkg/dialects/ardupilotmega"
	"github.com/bluenviron/gomavlib/v3/pkg/dialects/common"
	"pgregory.net/rapid"

	"verifharness/evid"
	"verifharness/ref"
	"verifharness/sim"
)

// TestC09NewConnectionStartsAtZero: the sequence numbers of a link are 0,1,2,... - and a connection a client endpoint
// makes after the previous one ended is a new link (a new channel, a new receiver counting from its first frame).
func TestC09NewConnectionStartsAtZero(t *testing.T) {
	rec := evid.New(t, "C09", "a node with a TCP client endpoint against a listener of the harness (reconnect delay shortened through the hook); on each of 2..4 successive connections 1..9 messages are written and read back from the socket: version, system id, component id as configured and sequence numbers 0,1,2,... from the first frame of every connection; non-trivial = always; distinct by hash of the parameters")
	rec.Require("second-connection-after-frames-on-the-first")
	evid.Check(t, rec, evid.N(10, 50), func(t *rapid.T) {
		drawNodeInit(t)
		c14Hook()
		conns := rapid.IntRange(2, 4).Draw(t, "connections")
		per := rapid.SliceOfN(rapid.IntRange(1, 9), conns, conns).Draw(t, "messages_per_connection")
		v2 := rapid.Bool().Draw(t, "v2")
		desc := fmt.Sprintf("connections=%d messagesPerConnection=%v v2=%v", conns, per, v2)
		err := watchdog(scenarioLimit, func() error {
			port := sim.FreePort()
			l, err := net.Listen("tcp4", sim.Addr(port))
			if err != nil {
				return fmt.Errorf("BROKEN: listen: %v", err)
			}
			defer l.Close()
			n := &gomavlib.Node{Endpoints: []gomavlib.EndpointConf{gomavlib.EndpointTCPClient{Address: sim.Addr(port)}}, Dialect: ardupilotmega.Dialect,
				OutVersion: gomavlib.V1, OutSystemID: 33, OutComponentID: 44, HeartbeatDisable: true}
			if v2 {
				n.OutVersion = gomavlib.V2
			}
			if err := initNode(&n); err != nil {
				return fmt.Errorf("BROKEN: %v", err)
			}
			r := sim.StartRecorder(n, sim.Pacing{Kind: "fast"}, nil)
			defer func() {
				closeNode(n, bound) //nolint:errcheck
				r.WaitClosed(bound)
			}()
			counter := 0
			for ci := 0; ci < conns; ci++ {
				l.(*net.TCPListener).SetDeadline(time.Now().Add(bound)) //nolint:errcheck
				c, err := l.Accept()
				if err != nil {
					return fmt.Errorf("connection %d: the client endpoint did not connect within %v: %v", ci, bound, err)
				}
				if !r.WaitFor(bound, func(recs []sim.Rec) bool {
					k := 0
					for _, e := range lifecycle(recs) {
						if e.open {
							k++
						}
					}
					return k >= ci+1
				}) {
					c.Close()
					return fmt.Errorf("connection %d: no open event", ci)
				}
				for k := 0; k < per[ci]; k++ {
					if err := n.WriteMessageAll(&common.MessageDebug{TimeBootMs: uint32(counter), Ind: 7}); err != nil {
						c.Close()
						return fmt.Errorf("write refused: %v", err)
					}
					counter++
				}
				var got []byte
				buf := make([]byte, 4096)
				var frames []ref.Frame
				c.SetReadDeadline(time.Now().Add(bound)) //nolint:errcheck
				for len(frames) < per[ci] {
					m, rerr := c.Read(buf)
					got = append(got, buf[:m]...)
					for {
						f, nb, perr := ref.Parse(got)
						if perr != nil {
							break
						}
						frames = append(frames, f)
						got = got[nb:]
					}
					if rerr != nil {
						if rerr == io.EOF || len(frames) >= per[ci] {
							break
						}
						c.Close()
						return fmt.Errorf("connection %d: %d of %d messages arrived (%v)", ci, len(frames), per[ci], rerr)
					}
				}
				c.Close()
				for k, f := range frames {
					if f.V2 != v2 || f.Sys != 33 || f.Comp != 44 || int(f.Seq) != k {
						return fmt.Errorf("connection %d (the %d frames of the connections before it are another link's), frame %d: version 2=%v system %d component %d sequence number %d; configured: version 2=%v system 33 component 44, and a link counts from 0", ci, counter-per[ci]-0*k, k, f.V2, f.Sys, f.Comp, f.Seq, v2)
					}
				}
			}
			return nil
		})
		if err != nil {
			evid.ReplayNote("C09", "TestC09NewConnectionStartsAtZero", desc+"\n"+err.Error())
			t.Fatalf("%s\n%v", desc, err)
		}
		rec.Case(true, evid.HashS(desc), "second-connection-after-frames-on-the-first")
		if rec.WantSample("reconnect") {
			rec.Sample("reconnect", desc)
		}
	})
}
