package node

import (
	"fmt"
	"testing"
	"time"

	gomavlib "github.com/bluenviron/gomavlib/v3"
	"github.com/bluenviron/gomavlib/v3/pkg/dialects/ardupilotmega"
	"pgregory.net/rapid"

	"verifharness/evid"
	"verifharness/ref"
	"verifharness/sim"
)

// TestC16HeartbeatsForWhoeverIsLeft: every open channel receives heartbeats - also the one that is left when the
// others have gone. A TCP server has 2..5 peers; all but 1..2 of them leave, one by one; those that stay must go on
// receiving heartbeats at the configured period; then a new peer joins and receives them too.
func TestC16HeartbeatsForWhoeverIsLeft(t *testing.T) {
	rec := evid.New(t, "C16", "a node with one TCP server endpoint, heartbeats every 15..40 ms, and 2..5 connected peers; all but 1 or 2 leave one after the other (their close events awaited); every peer that stays must receive at least 2 heartbeats in the 12 periods after the last departure (verdict skipped on a recorded stall), and so must a peer that joins afterwards; non-trivial = exactly one peer left; distinct by hash of the parameters")
	rec.Require("exactly-one-peer-left")
	evid.Check(t, rec, evid.N(12, 60), func(t *rapid.T) {
		drawNodeInit(t)
		peers := rapid.IntRange(2, 5).Draw(t, "peers")
		stay := rapid.SampledFrom([]int{1, 1, 1, 2}).Draw(t, "stay")
		if stay >= peers {
			stay = peers - 1
		}
		period := time.Duration(rapid.IntRange(15, 40).Draw(t, "period_ms")) * time.Millisecond
		desc := fmt.Sprintf("tcpPeers=%d staying=%d heartbeatPeriod=%v", peers, stay, period)
		port := sim.FreePort()
		n := &gomavlib.Node{Endpoints: []gomavlib.EndpointConf{gomavlib.EndpointTCPServer{Address: sim.Addr(port)}},
			Dialect: ardupilotmega.Dialect, OutVersion: gomavlib.V2, OutSystemID: nodeSys, HeartbeatPeriod: period}
		if err := initNode(&n); err != nil {
			t.Fatalf("BROKEN: %v", err)
		}
		r := sim.StartRecorder(n, sim.Pacing{Kind: "fast"}, nil)
		defer func() {
			closeNode(n, bound) //nolint:errcheck
			r.WaitClosed(bound)
		}()
		fail := func(format string, a ...interface{}) {
			msg := desc + "\n" + fmt.Sprintf(format, a...)
			evid.ReplayNote("C16", "TestC16HeartbeatsForWhoeverIsLeft", msg)
			t.Fatalf("%s", msg)
		}
		var conns []*sim.Peer
		for i := 0; i < peers; i++ {
			p, err := sim.Dial("tcp4", sim.Addr(port))
			if err != nil {
				t.Fatalf("BROKEN: dial: %v", err)
			}
			conns = append(conns, p)
		}
		defer func() {
			for _, p := range conns {
				p.Close()
			}
		}()
		count := func(open bool) func([]sim.Rec) int {
			return func(recs []sim.Rec) int {
				k := 0
				for _, e := range lifecycle(recs) {
					if e.open == open {
						k++
					}
				}
				return k
			}
		}
		if !r.WaitFor(bound, func(recs []sim.Rec) bool { return count(true)(recs) >= peers }) {
			t.Fatalf("BROKEN: %d peers connected, fewer channels", peers)
		}
		time.Sleep(2 * period)
		for i := stay; i < peers; i++ {
			conns[i].Close()
			if !r.WaitFor(bound, func(recs []sim.Rec) bool { return count(false)(recs) >= i-stay+1 }) {
				fail("peer %d left, no close event", i)
			}
		}
		hbCount := func(p *sim.Peer) int {
			k := 0
			b := p.Received()
			for off := 0; off < len(b); {
				f, nb, err := ref.Parse(b[off:])
				if err != nil {
					break
				}
				if f.ID == 0 && f.Sys == nodeSys {
					k++
				}
				off += nb
			}
			return k
		}
		from := time.Now()
		before := make([]int, stay)
		for i := 0; i < stay; i++ {
			before[i] = hbCount(conns[i])
		}
		time.Sleep(12 * period)
		stalled := stalls.StalledBetweenOver(from, time.Now(), period/2)
		for i := 0; i < stay; i++ {
			if got := hbCount(conns[i]) - before[i]; got < 2 && !stalled {
				fail("%d of %d peers have left; peer %d is still connected and received %d heartbeats in the %v (12 periods) since the last one left", peers-stay, peers, i, got, 12*period)
			}
		}
		// a newcomer
		np, err := sim.Dial("tcp4", sim.Addr(port))
		if err != nil {
			t.Fatalf("BROKEN: dial: %v", err)
		}
		conns = append(conns, np)
		from = time.Now()
		time.Sleep(12 * period)
		if got := hbCount(np); got < 2 && !stalls.StalledBetweenOver(from, time.Now(), period/2) {
			fail("a peer that connected after the others had left received %d heartbeats in 12 periods", got)
		}
		var cls []string
		if stay == 1 {
			cls = append(cls, "exactly-one-peer-left")
		}
		rec.Case(stay == 1, evid.HashS(desc), cls...)
		if rec.WantSample("left") {
			rec.Sample("left", desc)
		}
	})
}
