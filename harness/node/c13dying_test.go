package node

import (
	"errors"
	"fmt"
	"io"
	"strings"
	"sync"
	"sync/atomic"
	"testing"
	"time"

	gomavlib "github.com/bluenviron/gomavlib/v3"
	"github.com/bluenviron/gomavlib/v3/pkg/dialects/ardupilotmega"
	"github.com/bluenviron/gomavlib/v3/pkg/dialects/common"
	"github.com/bluenviron/gomavlib/v3/pkg/frame"
	"pgregory.net/rapid"

	"verifharness/evid"
	"verifharness/ref"
	"verifharness/sim"
)

// TestC13DyingChannelIsolation: "every other channel keeps receiving everything" while a neighbour is failing.
// The application is not taking events, so the close events of the failed channels cannot be delivered and those
// channels stay in their dying state; broadcast and all-but-one writes issued in exactly that window must reach
// every healthy channel.
func TestC13DyingChannelIsolation(t *testing.T) {
	rec := evid.New(t, "C13", "3..6 channels on custom transports; the consumer is paused, then the transport of 1..2 channels fails (read error, optionally with a blocked writer or a failing write as well) so that their close events stay undelivered; 5..40 items are written to all channels / all but one while the failed channels are dying; every healthy channel must receive every item addressed to it, in order, within the bound, every Write call returns promptly, and once the consumer resumes each failed channel is reported by a close event carrying an error; non-trivial = always (writes land in the dying window); distinct by hash of the parameters")
	rec.Require("two-dying-channels", "dying-channel-with-blocked-writer", "writes-all-and-except", "application-away-for-longer-than-the-node's-timeouts")
	evid.Check(t, rec, evid.N(150, 500), func(t *rapid.T) {
		drawNodeInit(t)
		nch := rapid.IntRange(3, 6).Draw(t, "nch")
		nv := rapid.IntRange(1, 2).Draw(t, "victims")
		victims := rapid.Permutation(seqInts(nch)).Draw(t, "victim_order")[:nv]
		gateVictim := rapid.Bool().Draw(t, "victim_writer_blocked")
		warm := rapid.IntRange(0, 8).Draw(t, "warmup")
		nw := rapid.IntRange(5, 40).Draw(t, "writes")
		ops := rapid.SliceOfN(rapid.IntRange(-1, nch-1), nw, nw).Draw(t, "except") // -1: to all; c: all but channel c
		nodeTO := time.Duration(rapid.SampledFrom([]int{0, 0, 10, 25}).Draw(t, "node_timeouts_ms")) * time.Millisecond
		desc := fmt.Sprintf("channels=%d failing=%v writerOfFailingBlocked=%v warmup=%d writes(all=-1/except c)=%v nodeTimeouts=%v (0 = defaults)", nch, victims, gateVictim, warm, ops, nodeTO)
		dyingNodeTimeouts = nodeTO
		err := watchdog(scenarioLimit, func() error { return runC13Dying(nch, victims, gateVictim, warm, ops) })
		dyingNodeTimeouts = 0
		if err != nil {
			evid.ReplayNote("C13", "TestC13DyingChannelIsolation", desc+"\n"+err.Error())
			t.Fatalf("%s\n%v", desc, err)
		}
		cls := []string{"dying-window"}
		if nodeTO > 0 {
			cls = append(cls, "application-away-for-longer-than-the-node's-timeouts")
		}
		if nv == 2 {
			cls = append(cls, "two-dying-channels")
		}
		if gateVictim {
			cls = append(cls, "dying-channel-with-blocked-writer")
		}
		hasAll, hasExc := false, false
		for _, o := range ops {
			hasAll = hasAll || o < 0
			hasExc = hasExc || o >= 0
		}
		if hasAll && hasExc {
			cls = append(cls, "writes-all-and-except")
		}
		rec.Case(true, evid.HashS(desc), cls...)
		if rec.WantSample("dying-window") {
			rec.Sample("dying-window", desc)
		}
	})
}

func seqInts(n int) []int {
	out := make([]int, n)
	for i := range out {
		out[i] = i
	}
	return out
}

// dyingNodeTimeouts, when positive, is what ReadTimeout, WriteTimeout and IdleTimeout of the next runC13Dying node are
// set to; the application then stays away from its events for several times that long.
var dyingNodeTimeouts time.Duration

func runC13Dying(nch int, victims []int, gateVictim bool, warm int, ops []int) error {
	pipes := make([]*sim.Pipe, nch)
	var endpoints []gomavlib.EndpointConf
	for i := range pipes {
		pipes[i] = sim.NewPipe()
		endpoints = append(endpoints, gomavlib.EndpointCustom{ReadWriteCloser: pipes[i]})
	}
	n := &gomavlib.Node{Endpoints: endpoints, Dialect: ardupilotmega.Dialect, OutVersion: gomavlib.V2, OutSystemID: nodeSys, HeartbeatDisable: true,
		ReadTimeout: dyingNodeTimeouts, WriteTimeout: dyingNodeTimeouts, IdleTimeout: dyingNodeTimeouts}
	awayFor := 4 * dyingNodeTimeouts
	if err := initNode(&n); err != nil {
		return fmt.Errorf("BROKEN: %v", err)
	}
	rec := sim.StartRecorder(n, sim.Pacing{Kind: "fast"}, nil)
	defer func() {
		for _, p := range pipes {
			p.UnblockWrites()
		}
		rec.Resume()
		closeNode(n, bound) //nolint:errcheck
		rec.WaitClosed(bound)
	}()
	chans, ok := openCustom(n, rec, pipes)
	if !ok {
		return fmt.Errorf("BROKEN: channels did not open")
	}
	isVictim := map[int]bool{}
	for _, v := range victims {
		isVictim[v] = true
	}
	counter := 0
	write := func(except int) error {
		m := &common.MessageDebug{TimeBootMs: uint32(counter), Ind: 1}
		counter++
		done := make(chan error, 1)
		go func() {
			if except < 0 {
				done <- n.WriteMessageAll(m)
			} else {
				done <- n.WriteMessageExcept(chans[except], m)
			}
		}()
		select {
		case err := <-done:
			return err
		case <-time.After(bound):
			return fmt.Errorf("write %d did not return within %v while channels %v are failing and the application takes no events", counter-1, bound, victims)
		}
	}
	for k := 0; k < warm; k++ {
		if err := write(-1); err != nil {
			return fmt.Errorf("warm-up write: %v", err)
		}
	}
	for i, p := range pipes {
		if !p.WaitWrites(warm, bound) {
			return fmt.Errorf("channel %d: warm-up items missing", i)
		}
	}
	// the application stops taking events; then the victims' transports fail
	rec.Pause()
	if !rec.WaitPaused(bound) {
		return fmt.Errorf("BROKEN: consumer did not pause")
	}
	for _, v := range victims {
		if gateVictim {
			pipes[v].BlockWrites()
		}
		pipes[v].FailReads(errors.New("injected transport read error"))
	}
	for _, v := range victims {
		deadline := time.Now().Add(bound)
		for pipes[v].ReadErrors() == 0 {
			if time.Now().After(deadline) {
				return fmt.Errorf("BROKEN: the reader of channel %d never saw the injected error", v)
			}
			time.Sleep(200 * time.Microsecond)
		}
	}
	time.Sleep(2 * time.Millisecond) // the close events are now waiting for a consumer that does not take them
	// expected per healthy channel
	want := make([][]int, nch)
	for _, exc := range ops {
		c := counter
		if err := write(exc); err != nil {
			return err
		}
		for i := 0; i < nch; i++ {
			if i != exc {
				want[i] = append(want[i], c)
			}
		}
	}
	for i, p := range pipes {
		if isVictim[i] {
			continue
		}
		if !p.WaitWrites(warm+len(want[i]), bound) {
			got, _ := debugCounters(p)
			return fmt.Errorf("healthy channel %d received %d of the %d items addressed to it while channels %v were failing with undelivered close events (got counters %v, want the warm-up 0..%d then %v)", i, p.NumWrites()-warm, len(want[i]), victims, got, warm-1, want[i])
		}
	}
	time.Sleep(2 * time.Millisecond)
	for i, p := range pipes {
		if isVictim[i] {
			continue
		}
		got, err := debugCounters(p)
		if err != nil {
			return fmt.Errorf("channel %d: %v", i, err)
		}
		exp := append(seqInts(warm), want[i]...)
		if fmt.Sprint(got) != fmt.Sprint(exp) {
			return fmt.Errorf("healthy channel %d: wire carries items %v, want %v", i, got, exp)
		}
	}
	// the application stays away for a while longer (several times any timeout the node has been given), then the
	// consumer resumes: every failed channel is reported
	time.Sleep(awayFor)
	for _, v := range victims {
		pipes[v].ClearReadError()
		pipes[v].UnblockWrites()
	}
	rec.Resume()
	okc := rec.WaitFor(bound, func(recs []sim.Rec) bool {
		closed := map[*gomavlib.Channel]bool{}
		for _, r := range recs {
			if c, ok := r.Ev.(*gomavlib.EventChannelClose); ok && c.Error != nil {
				closed[c.Channel] = true
			}
		}
		for _, v := range victims {
			if !closed[chans[v]] {
				return false
			}
		}
		return true
	})
	if !okc {
		return fmt.Errorf("after the consumer resumed, not every failed channel (%v) was reported by a close event carrying an error within %v", victims, bound)
	}
	// the application still holds the handles of the channels that failed: "everything but that one" now simply means
	// everything, and the healthy channels keep receiving it
	base := make([]int, nch)
	for i, p := range pipes {
		base[i] = p.NumWrites()
	}
	const tail = 4
	for k := 0; k < tail; k++ {
		m := &common.MessageDebug{TimeBootMs: uint32(5000 + k), Ind: 1}
		var err error
		if k%2 == 0 {
			err = n.WriteMessageExcept(chans[victims[0]], m)
		} else {
			err = n.WriteFrameExcept(chans[victims[len(victims)-1]], &frame.V2Frame{SequenceNumber: byte(k), SystemID: 3, ComponentID: 4, Message: m})
		}
		if err != nil {
			return fmt.Errorf("write excepting a channel that has failed and been reported: %v", err)
		}
	}
	for i, p := range pipes {
		if isVictim[i] {
			continue
		}
		if !p.WaitWrites(base[i]+tail, bound) {
			return fmt.Errorf("healthy channel %d received %d of %d items written with \"all but <a channel that has failed and been reported closed>\"", i, p.NumWrites()-base[i], tail)
		}
	}
	return nil
}

// debugCounters lists the TimeBootMs counters of the DEBUG messages a transport received, in order.
func debugCounters(p *sim.Pipe) ([]int, error) {
	var out []int
	for k, b := range p.Writes() {
		f, nb, err := ref.Parse(b)
		if err != nil || nb != len(b) {
			return nil, fmt.Errorf("write %d is not one whole frame: %x", k, b)
		}
		if f.ID != debugMsgID {
			return nil, fmt.Errorf("write %d: unexpected message id %d", k, f.ID)
		}
		v, derr := lay(debugMsgID).Decode(f.Payload, f.V2)
		if derr != nil {
			return nil, fmt.Errorf("write %d: %v", k, derr)
		}
		out = append(out, int(v.(*common.MessageDebug).TimeBootMs))
	}
	return out, nil
}

// TestC13BlockedWriterThenReadFailure: a link whose transport has stopped accepting writes (the writer sits inside
// Write) and whose read side then fails is dead; it must be reported closed - it may not stay open, unreported,
// discarding whatever is written to it - and the healthy link beside it keeps receiving everything. The link is a
// serial endpoint (through the opener hook), whose Close releases a blocked Write the way a real device does.
func TestC13BlockedWriterThenReadFailure(t *testing.T) {
	rec := evid.New(t, "C13", "a serial link (hooked opener, in-memory device whose Close releases a blocked Write) beside a healthy custom link: the device stops accepting writes, 3..80 items are written to all links until the writer is parked inside Write, then the device's Read fails; within the bound a close event carrying the read error must arrive for that link, the healthy link must have received every item, and after the reconnect delay a fresh channel on a fresh device handle works again; non-trivial = always; distinct by hash of the parameters")
	rec.Require("blocked-writer-then-read-failure")
	c14Hook()
	evid.Check(t, rec, evid.N(40, 150), func(t *rapid.T) {
		drawNodeInit(t)
		nitems := rapid.IntRange(3, 80).Draw(t, "items")
		after := rapid.IntRange(1, 10).Draw(t, "after")
		desc := fmt.Sprintf("items while blocked=%d, items after the fresh channel=%d", nitems, after)
		err := watchdog(scenarioLimit, func() error { return runC13BlockedThenReadFail(nitems, after) })
		if err != nil {
			evid.ReplayNote("C13", "TestC13BlockedWriterThenReadFailure", desc+"\n"+err.Error())
			t.Fatalf("%s\n%v", desc, err)
		}
		rec.Case(true, evid.HashS(desc), "blocked-writer-then-read-failure")
		if rec.WantSample("blocked-writer-then-read-failure") {
			rec.Sample("blocked-writer-then-read-failure", desc)
		}
	})
}

// TestC11ClosedChannelLeavesNothing is the same scenario read as a fan-out statement: what was written to a channel
// reaches that channel or nothing; a channel that opens later receives only what is written while it exists.
func TestC11ClosedChannelLeavesNothing(t *testing.T) {
	rec := evid.New(t, "C11", "a serial link beside a healthy custom link: the serial device blocks, 3..80 items are written to all links (the serial channel's queue fills behind its parked writer), its Read fails, the channel is closed and a fresh channel opens on a fresh device handle; 1..10 items written afterwards must be exactly what the fresh channel's wire carries - nothing that was queued for the dead channel may surface on another one; non-trivial = always; distinct by hash of the parameters")
	rec.Require("queue-of-a-dead-channel")
	c14Hook()
	evid.Check(t, rec, evid.N(30, 120), func(t *rapid.T) {
		drawNodeInit(t)
		nitems := rapid.IntRange(3, 80).Draw(t, "items")
		after := rapid.IntRange(1, 10).Draw(t, "after")
		desc := fmt.Sprintf("items while blocked=%d, items after the fresh channel=%d", nitems, after)
		err := watchdog(scenarioLimit, func() error { return runC13BlockedThenReadFail(nitems, after) })
		if err != nil {
			evid.ReplayNote("C11", "TestC11ClosedChannelLeavesNothing", desc+"\n"+err.Error())
			t.Fatalf("%s\n%v", desc, err)
		}
		rec.Case(true, evid.HashS(desc), "queue-of-a-dead-channel")
		if rec.WantSample("queue-of-a-dead-channel") {
			rec.Sample("queue-of-a-dead-channel", desc)
		}
	})
}

func runC13BlockedThenReadFail(nitems, after int) error {
	dev := fmt.Sprintf("/dev/ttyC13_%d", atomic.AddInt64(&serialCounter, 1))
	var mu sync.Mutex
	var handles []*sim.Pipe
	serialDevices.Store(dev, func() (io.ReadWriteCloser, error) {
		mu.Lock()
		defer mu.Unlock()
		p := sim.NewPipe()
		handles = append(handles, p)
		return p, nil
	})
	defer serialDevices.Delete(dev)
	healthy := sim.NewPipe()
	n := &gomavlib.Node{Endpoints: []gomavlib.EndpointConf{gomavlib.EndpointSerial{Device: dev, Baud: 57600}, gomavlib.EndpointCustom{ReadWriteCloser: healthy}},
		Dialect: ardupilotmega.Dialect, OutVersion: gomavlib.V2, OutSystemID: nodeSys, HeartbeatDisable: true}
	if err := initNode(&n); err != nil {
		return fmt.Errorf("BROKEN: %v", err)
	}
	rec := sim.StartRecorder(n, sim.Pacing{Kind: "fast"}, nil)
	defer func() {
		mu.Lock()
		for _, h := range handles {
			h.UnblockWrites()
		}
		mu.Unlock()
		closeNode(n, bound) //nolint:errcheck
		rec.WaitClosed(bound)
	}()
	opens := func(recs []sim.Rec) int {
		k := 0
		for _, r := range recs {
			if _, ok := r.Ev.(*gomavlib.EventChannelOpen); ok {
				k++
			}
		}
		return k
	}
	if !rec.WaitFor(bound, func(recs []sim.Rec) bool { return opens(recs) >= 2 }) {
		return fmt.Errorf("BROKEN: channels did not open")
	}
	mu.Lock()
	if len(handles) < 2 { // Initialize probes the device once, the channel uses the second handle
		mu.Unlock()
		return fmt.Errorf("BROKEN: %d serial handles", len(handles))
	}
	devPipe := handles[len(handles)-1]
	mu.Unlock()
	devPipe.BlockWrites()
	for k := 0; k < nitems; k++ {
		if err := n.WriteMessageAll(&common.MessageDebug{TimeBootMs: uint32(k), Ind: 1}); err != nil {
			return fmt.Errorf("write %d: %v", k, err)
		}
		if !healthy.WaitWrites(k+1-20, bound) {
			return fmt.Errorf("the healthy link stopped receiving while the serial link is blocked")
		}
	}
	if !devPipe.WaitParkedWriter(bound) {
		return fmt.Errorf("BROKEN: the serial writer never entered Write")
	}
	readErr := errors.New("injected serial read error")
	devPipe.FailReads(readErr)
	var closeErr error
	if !rec.WaitFor(bound, func(recs []sim.Rec) bool {
		for _, r := range recs {
			if c, ok := r.Ev.(*gomavlib.EventChannelClose); ok && c.Channel.String() != "custom" {
				closeErr = c.Error
				return true
			}
		}
		return false
	}) {
		return fmt.Errorf("the serial link's writer is blocked inside Write and its Read failed, but no close event arrived within %v: the dead link stays open and unreported", bound)
	}
	if closeErr == nil || !strings.Contains(closeErr.Error(), "injected serial read error") {
		return fmt.Errorf("the close event of the serial link says %v, the cause was the read error", closeErr)
	}
	if !healthy.WaitWrites(nitems, bound) {
		return fmt.Errorf("the healthy link received %d of %d items", healthy.NumWrites(), nitems)
	}
	// a fresh channel on a fresh handle, and it works
	if !rec.WaitFor(bound, func(recs []sim.Rec) bool { return opens(recs) >= 3 }) {
		return fmt.Errorf("no fresh serial channel within %v after the dead one was closed", bound)
	}
	mu.Lock()
	fresh := handles[len(handles)-1]
	mu.Unlock()
	if fresh == devPipe {
		return fmt.Errorf("BROKEN: no fresh handle")
	}
	for k := 0; k < after; k++ {
		if err := n.WriteMessageAll(&common.MessageDebug{TimeBootMs: uint32(1000 + k), Ind: 1}); err != nil {
			return fmt.Errorf("write after reopen %d: %v", k, err)
		}
	}
	if !fresh.WaitWrites(after, bound) {
		return fmt.Errorf("the fresh serial channel received %d of %d items", fresh.NumWrites(), after)
	}
	time.Sleep(3 * time.Millisecond)
	got, err := debugCounters(fresh)
	if err != nil {
		return fmt.Errorf("fresh serial channel: %v", err)
	}
	var want []int
	for k := 0; k < after; k++ {
		want = append(want, 1000+k)
	}
	if fmt.Sprint(got) != fmt.Sprint(want) {
		return fmt.Errorf("the fresh channel's wire carries items %v; only %v were written while it existed (what was queued for the dead channel died with it)", got, want)
	}
	if devPipe.CloseCount() < 1 {
		return fmt.Errorf("the dead device handle was never closed")
	}
	return nil
}
