package node

import (
	"bytes"
	"fmt"
	"reflect"
	"sort"
	"testing"
	"time"

	gomavlib "github.com/bluenviron/gomavlib/v3"
	"github.com/bluenviron/gomavlib/v3/pkg/dialects/ardupilotmega"
	"pgregory.net/rapid"

	"verifharness/evid"
	"verifharness/gen"
	"verifharness/ref"
	"verifharness/sim"
)

// A node as a router: frames arrive on one channel, the application hands each received frame to
// WriteFrameExcept / WriteFrameTo unchanged, and the other links carry them on. Whatever version the node itself
// originates, whatever form the payload arrived in, the next hop must get a frame it accepts and that says the same:
// header fields as received, a checksum that fits the bytes that go out, the message the reference decodes from the
// received payload, the signature block untouched. Frames the dialect does not know travel byte for byte.

func TestC08NodeRouting(t *testing.T) {
	nodeRoutingProperty(t, "C08", "TestC08NodeRouting", evid.N(250, 900))
}

// TestC02NodeReemits is the same scenario under C02: every frame the node re-emits carries X.25 over what it emits.
// TestC06NodeRestamps: a keyed node whose router passes every received frame through FixFrame before it forwards
// it (the documented way of taking responsibility for a frame): whatever link id and timestamp a frame carries,
// what leaves each link under the signed flag verifies under the node's outgoing key.
func TestC06NodeRestamps(t *testing.T) {
	nodeRoutingProperty(t, "C06", "TestC06NodeRestamps", evid.N(120, 500))
}

func TestC02NodeReemits(t *testing.T) {
	nodeRoutingProperty(t, "C02", "TestC02NodeReemits", evid.N(120, 500))
}

type routedFrame struct {
	f     ref.Frame
	lay   *ref.Layout // nil: id unknown to the dialect
	forms string
}

func sortedIDs() []uint32 {
	lay(0)
	ids := make([]uint32, 0, len(layouts))
	for id := range layouts {
		ids = append(ids, id)
	}
	sort.Slice(ids, func(i, j int) bool { return ids[i] < ids[j] })
	return ids
}

func drawRoutedFrame(t *rapid.T, ids []uint32, k int) routedFrame {
	v2 := rapid.Bool().Draw(t, "frame_v2")
	f := ref.Frame{V2: v2, Seq: byte(rapid.IntRange(0, 255).Draw(t, "seq")), Sys: byte(rapid.IntRange(1, 255).Draw(t, "sys")), Comp: byte(rapid.IntRange(0, 255).Draw(t, "comp"))}
	if v2 {
		f.Compat = rapid.SampledFrom([]byte{0, 0, 1, 0x80, 0xFF}).Draw(t, "compat")
	}
	if rapid.IntRange(0, 5).Draw(t, "unknown_id") == 0 {
		f.ID = rawTagID
		if !v2 {
			f.ID = 222
		}
		f.Payload = gen.Bytes(t, rapid.IntRange(1, 40).Draw(t, "rawlen"), "rawpayload")
		f.Checksum = uint16(rapid.IntRange(0, 0xFFFF).Draw(t, "rawcrc"))
		return routedFrame{f: f, forms: "unknown-id"}
	}
	var id uint32
	for {
		id = ids[rapid.IntRange(0, len(ids)-1).Draw(t, "msgidx")]
		if v2 || id <= 255 {
			break
		}
	}
	l := layouts[id]
	f.ID = id
	val := gen.Value(t, l)
	forms := "canonical"
	f.Payload = l.Encode(val, v2)
	switch rapid.IntRange(0, 5).Draw(t, "payload_form") {
	case 0:
		if v2 {
			if full := l.EncodeFull(val, true); len(full) <= 255 && !bytes.Equal(full, f.Payload) {
				f.Payload, forms = full, "untruncated"
			}
		}
	case 1:
		if v2 {
			val = reflect.New(l.Type).Interface()
			f.Payload, forms = []byte{}, "all-zero-length-0"
		}
	case 2:
		// junk behind the terminator of a string field
		full := l.EncodeFull(val, v2)
		off, changed := 0, false
		for _, fl := range l.Fields {
			if fl.Ext && !v2 {
				break
			}
			size := fl.Size()
			if fl.IsString && fl.ArrayLen > 1 && off+size <= len(full) {
				region := full[off : off+size]
				if z := bytes.IndexByte(region, 0); z >= 0 && z+1 < len(region) {
					for j := z + 1; j < len(region); j++ {
						region[j] = byte(1 + (j*37+k)%255)
					}
					changed = true
				}
			}
			off += size
		}
		if changed {
			if v2 {
				for len(full) > 1 && full[len(full)-1] == 0 {
					full = full[:len(full)-1]
				}
			}
			if len(full) <= 255 {
				f.Payload, forms = full, "junk-behind-string-terminator"
			}
		}
	}
	f.Checksum = f.ChecksumFor(l.CRCExtra)
	if v2 && rapid.IntRange(0, 4).Draw(t, "signed") == 0 {
		f.Incompat = 1
		f.Checksum = f.ChecksumFor(l.CRCExtra)
		f.LinkID = byte(rapid.OneOf(rapid.IntRange(0, 255), rapid.SampledFrom([]int{0, 0, 255})).Draw(t, "link"))
		f.Timestamp = uint64(5000000 + k)
		f.Sig = f.SignatureFor([32]byte{0x77, 1}) // signed by somebody upstream; this node has no incoming key
		forms += "+signed"
	}
	return routedFrame{f: f, lay: l, forms: forms}
}

func nodeRoutingProperty(t *testing.T, pid, testName string, cases int) {
	rec := evid.New(t, pid, "a Node with a dialect, output version 1 or 2 (generated, independent of the frames' versions) and optionally an outgoing key routes 3..25 generated frames from one custom channel to two others (WriteFrameExcept, or WriteFrameTo each): v1 and v2 frames, compatibility flags, canonical / untruncated / all-zero length-0 payloads, junk behind string terminators, frames signed upstream, ids unknown to the dialect; on each outgoing link every frame must appear once, in order, with the received header fields, a checksum that is X.25 over the emitted bytes plus CRC_EXTRA, a payload the reference decodes to the same message as the received one, the received signature block, and unknown ids byte for byte; non-trivial = a frame whose version differs from the node's output version and whose payload is not canonical or ends in zero; distinct by hash of the fed bytes")
	restamp := pid == "C06"
	if restamp {
		rec.Require("non-canonical-payload", "unknown-id", "signed-upstream", "v2-node", "restamped-frame-with-link-id-0")
	} else {
		rec.Require("frame-version-differs-from-node-output", "non-canonical-payload", "unknown-id", "signed-upstream", "v1-node", "v2-node")
	}
	ids := sortedIDs()
	evid.Check(t, rec, cases, func(t *rapid.T) {
		drawNodeInit(t)
		outV2 := rapid.Bool().Draw(t, "node_out_v2")
		withKey := outV2 && rapid.IntRange(0, 3).Draw(t, "node_outkey") == 0
		useTo := rapid.Bool().Draw(t, "forward_with_WriteFrameTo")
		// the router re-stamps (FixFrame) what it forwards: always under C06, sometimes otherwise
		fix := restamp || rapid.IntRange(0, 3).Draw(t, "router_calls_FixFrame") == 0
		if restamp {
			outV2, withKey = true, true
		}
		nodeKey := [32]byte{0x31, 2, 3}
		nf := rapid.IntRange(3, 25).Draw(t, "nframes")
		var frames []routedFrame
		var fed []byte
		for k := 0; k < nf; k++ {
			rf := drawRoutedFrame(t, ids, k)
			frames = append(frames, rf)
			fed = append(fed, rf.f.Bytes()...)
		}
		desc := fmt.Sprintf("node outV2=%v outKey=%v forwardWithTo=%v routerCallsFixFrame=%v frames=%d", outV2, withKey, useTo, fix, nf)
		fail := func(format string, a ...interface{}) {
			msg := desc + "\n" + fmt.Sprintf(format, a...)
			evid.ReplayNote(pid, testName, msg)
			t.Fatalf("%s", msg)
		}
		pipes := []*sim.Pipe{sim.NewPipe(), sim.NewPipe(), sim.NewPipe()}
		var eps []gomavlib.EndpointConf
		for _, p := range pipes {
			eps = append(eps, gomavlib.EndpointCustom{ReadWriteCloser: p})
		}
		n := &gomavlib.Node{Endpoints: eps, Dialect: ardupilotmega.Dialect, OutVersion: gomavlib.V1, OutSystemID: nodeSys, HeartbeatDisable: true}
		if outV2 {
			n.OutVersion = gomavlib.V2
		}
		if withKey {
			n.OutKey = keyOf(&nodeKey)
		}
		if err := initNode(&n); err != nil {
			t.Fatalf("BROKEN: %v", err)
		}
		// the router: every received frame goes to the other channels as it is
		var chans []*gomavlib.Channel
		routed := make(chan int, 1)
		go func() {
			k := 0
			for ev := range n.Events() {
				switch e := ev.(type) {
				case *gomavlib.EventChannelOpen:
					chans = append(chans, e.Channel)
				case *gomavlib.EventFrame:
					if fix {
						n.FixFrame(e.Frame) //nolint:errcheck // refused for ids the dialect does not know: forwarded as received
					}
					if useTo {
						for _, c := range chans {
							if c != e.Channel {
								n.WriteFrameTo(c, e.Frame) //nolint:errcheck
							}
						}
					} else {
						n.WriteFrameExcept(e.Channel, e.Frame) //nolint:errcheck
					}
					k++
					if k == nf {
						routed <- k
					}
				}
			}
		}()
		defer closeNode(n, bound) //nolint:errcheck
		// all three channels open before traffic starts (the router learns them from the open events)
		for _, p := range pipes {
			if !waitReaderParked(p) {
				t.Fatalf("BROKEN: channel reader did not start")
			}
		}
		// feed in pieces of up to 20 frames' worth so that a backlog never approaches the queue bound
		pipes[0].Feed(fed)
		select {
		case <-routed:
		case <-timeAfter(bound):
			fail("%d frames fed, the application received fewer frame events within %v", nf, bound)
		}
		for c := 1; c <= 2; c++ {
			if !pipes[c].WaitWrites(nf, bound) {
				fail("link %d: %d of %d routed frames reached the wire within %v", c, pipes[c].NumWrites(), nf, bound)
			}
		}
		if pipes[0].NumWrites() != 0 {
			fail("the link the frames came from received %d of them back", pipes[0].NumWrites())
		}
		var cls []string
		for c := 1; c <= 2; c++ {
			ws := pipes[c].Writes()
			if len(ws) != nf {
				fail("link %d: %d transport writes for %d routed frames", c, len(ws), nf)
			}
			for k, b := range ws {
				in := frames[k]
				p, nb, err := ref.Parse(b)
				if err != nil || nb != len(b) {
					fail("link %d frame %d: the transport write is not one whole frame: %x", c, k, b)
				}
				if in.lay == nil {
					if !bytes.Equal(b, in.f.Bytes()) {
						fail("link %d frame %d: a frame the dialect does not know went out as %x, it arrived as %x", c, k, b, in.f.Bytes())
					}
					continue
				}
				if p.V2 != in.f.V2 || p.Seq != in.f.Seq || p.Sys != in.f.Sys || p.Comp != in.f.Comp || p.ID != in.f.ID || p.Compat != in.f.Compat || p.Incompat != in.f.Incompat {
					fail("link %d frame %d (%s, %s): header changed on the way: arrived %s, went out %s", c, k, in.lay.MsgName, in.forms, gen.Describe(in.f), gen.Describe(p))
				}
				if want := p.ChecksumFor(in.lay.CRCExtra); p.Checksum != want {
					fail("link %d frame %d (%s, %s, frame v2=%v on a node that originates v2=%v): goes out as %x with checksum %#04x, X.25 over its bytes plus CRC_EXTRA is %#04x (arrived as %x)", c, k, in.lay.MsgName, in.forms, in.f.V2, outV2, b, p.Checksum, want, in.f.Bytes())
				}
				wantMsg, derr := in.lay.Decode(in.f.Payload, in.f.V2)
				gotMsg, gerr := in.lay.Decode(p.Payload, p.V2)
				if derr != nil || gerr != nil {
					fail("link %d frame %d (%s, %s): payload %x cannot be decoded by the next hop (%v / %v)", c, k, in.lay.MsgName, in.forms, p.Payload, derr, gerr)
				}
				if !ref.EqualMsg(gotMsg, wantMsg) {
					fail("link %d frame %d (%s, %s): the next hop decodes %+v, the received frame said %+v (payload in %x, out %x)", c, k, in.lay.MsgName, in.forms, gotMsg, wantMsg, in.f.Payload, p.Payload)
				}
				if !p.V2 && len(p.Payload) != in.lay.BaseSize {
					fail("link %d frame %d (%s): a v1 frame goes out with %d payload bytes, v1 payloads have the base size %d", c, k, in.lay.MsgName, len(p.Payload), in.lay.BaseSize)
				}
				if in.f.Signed() && fix && withKey {
					if p.LinkID != in.f.LinkID || p.Timestamp != in.f.Timestamp {
						fail("link %d frame %d (%s): FixFrame recomputes checksum and signature; link id / timestamp went from %d / %d to %d / %d", c, k, in.lay.MsgName, in.f.LinkID, in.f.Timestamp, p.LinkID, p.Timestamp)
					}
					if p.Sig != p.SignatureFor(nodeKey) {
						fail("link %d frame %d (%s, arrived with link id %d): passed through FixFrame on a node with an outgoing key and forwarded; it leaves as %x under the signed flag, but its signature does not verify under that key", c, k, in.lay.MsgName, in.f.LinkID, b)
					}
					if in.f.LinkID == 0 {
						cls = append(cls, "restamped-frame-with-link-id-0")
					}
				} else if in.f.Signed() && (p.LinkID != in.f.LinkID || p.Timestamp != in.f.Timestamp || p.Sig != in.f.Sig) {
					fail("link %d frame %d (%s): the signature block changed although the frame was forwarded as received", c, k, in.lay.MsgName)
				}
			}
		}
		differs, noncanon := false, false
		for _, in := range frames {
			if in.lay == nil {
				cls = append(cls, "unknown-id")
				continue
			}
			if in.f.V2 != outV2 {
				cls = append(cls, "frame-version-differs-from-node-output")
			}
			endsZero := len(in.f.Payload) > 0 && in.f.Payload[len(in.f.Payload)-1] == 0
			if in.forms != "canonical" && in.forms != "canonical+signed" || endsZero {
				cls = append(cls, "non-canonical-payload")
				if in.f.V2 != outV2 {
					differs, noncanon = true, true
				}
			}
			if in.f.Signed() {
				cls = append(cls, "signed-upstream")
			}
		}
		if outV2 {
			cls = append(cls, "v2-node")
		} else {
			cls = append(cls, "v1-node")
		}
		seen := map[string]bool{}
		var ucls []string
		for _, c := range cls {
			if !seen[c] {
				seen[c] = true
				ucls = append(ucls, c)
			}
		}
		rec.Case(differs && noncanon, evid.Hash(fed, []byte{b2iNode(outV2), b2iNode(withKey)}), ucls...)
		if differs && noncanon && rec.WantSample("routing") && len(fed) < 400 {
			rec.Sample("routing", map[string]interface{}{"node": desc, "fed": fmt.Sprintf("%x", fed)})
		}
	})
}

func b2iNode(b bool) byte {
	if b {
		return 1
	}
	return 0
}

func waitReaderParked(p *sim.Pipe) bool {
	for k := 0; k < 4000; k++ {
		if p.ReaderParked() {
			return true
		}
		time.Sleep(500 * time.Microsecond)
	}
	return false
}

func timeAfter(d time.Duration) <-chan time.Time { return time.After(d) }
