package node

import (
	"fmt"
	"sync"
	"testing"
	"time"

	gomavlib "github.com/bluenviron/gomavlib/v3"
	"github.com/bluenviron/gomavlib/v3/pkg/dialects/ardupilotmega"
	"github.com/bluenviron/gomavlib/v3/pkg/dialects/common"
	"github.com/bluenviron/gomavlib/v3/pkg/dialects/minimal"
	"pgregory.net/rapid"

	"verifharness/evid"
	"verifharness/ref"
	"verifharness/sim"
)

// runOriginated drives a node that originates application messages (All/To/Except from several
// goroutines), heartbeats and stream requests on 2..4 links and checks every link's byte stream.
func runOriginated(t *rapid.T, rec *evid.Rec, id string) {
	nch := rapid.IntRange(2, 4).Draw(t, "nch")
	v2 := rapid.Bool().Draw(t, "v2")
	var key *[32]byte
	if v2 && rapid.Bool().Draw(t, "keyed") {
		k := [32]byte{}
		copy(k[:], rapid.SliceOfN(rapid.Byte(), 32, 32).Draw(t, "key"))
		key = &k
	}
	sys := byte(rapid.IntRange(1, 255).Draw(t, "sys"))
	comp := byte(rapid.OneOf(rapid.IntRange(0, 255), rapid.SampledFrom([]int{0, 1, 1, 191})).Draw(t, "comp"))
	// what kind of system the node says it is (heartbeat module) has nothing to do with the ids it writes under
	hbType := rapid.SampledFrom([]int{0, 0, 1, 6, 18, 18, 27}).Draw(t, "heartbeat_system_type")
	nmsg := rapid.OneOf(rapid.IntRange(10, 120), rapid.IntRange(450, 800)).Draw(t, "nmsg")
	writers := rapid.IntRange(1, 3).Draw(t, "writers")
	hb := rapid.Bool().Draw(t, "heartbeat")
	sr := rapid.Bool().Draw(t, "streamreq")
	// what the node accepts is configured separately from what it originates: an incoming key says nothing about
	// the version or the signing of outgoing frames
	var inKey *[32]byte
	if rapid.IntRange(0, 2).Draw(t, "incoming_key") == 0 {
		inKey = &[32]byte{0x1E, 0x2E, 3}
	}
	desc := fmt.Sprintf("links=%d v2=%v keyed=%v incomingKey=%v sys=%d comp=%d messages=%d writers=%d heartbeat=%v(system type %d) streamreq=%v", nch, v2, key != nil, inKey != nil, sys, comp, nmsg, writers, hb, hbType, sr)
	pipes := make([]*sim.Pipe, nch)
	var endpoints []gomavlib.EndpointConf
	for i := range pipes {
		pipes[i] = sim.NewPipe()
		endpoints = append(endpoints, gomavlib.EndpointCustom{ReadWriteCloser: pipes[i]})
	}
	outKeyObj, inKeyObj := keyOf(key), keyOf(inKey) // the application's key objects: it may use them for other nodes, now or later
	n := &gomavlib.Node{Endpoints: endpoints, Dialect: ardupilotmega.Dialect, OutVersion: gomavlib.V1, OutSystemID: sys, OutComponentID: comp,
		OutKey: outKeyObj, InKey: inKeyObj, HeartbeatDisable: !hb, HeartbeatPeriod: 3 * time.Millisecond, StreamRequestEnable: sr, HeartbeatSystemType: hbType}
	if v2 {
		n.OutVersion = gomavlib.V2
	}
	before := since2015(time.Now())
	if err := initNode(&n); err != nil {
		t.Fatalf("BROKEN: %v", err)
	}
	r := sim.StartRecorder(n, sim.Pacing{Kind: "fast"}, nil)
	chans, ok := openCustom(n, r, pipes)
	if !ok {
		closeNode(n, bound) //nolint:errcheck
		t.Fatalf("BROKEN: channels did not open")
	}
	if sr {
		hbLay, _ := ref.LayoutOf(refTypeOf(&minimal.MessageHeartbeat{}))
		for i, p := range pipes {
			// the vehicle speaks whichever protocol version it likes (every other one version 1, where nothing requires
			// signed frames): what the node sends in reply is in the node's version
			hv2 := inKey != nil || i%2 == 0
			f := ref.Frame{V2: hv2, Sys: byte(20 + i), Comp: 1, ID: 0}
			f.Payload = hbLay.Encode(&minimal.MessageHeartbeat{Autopilot: 3, SystemStatus: 4}, hv2)
			if inKey != nil {
				f.Incompat, f.LinkID, f.Timestamp = 1, byte(i), 7000000
			}
			f.Checksum = f.ChecksumFor(50)
			if inKey != nil {
				f.Sig = f.SignatureFor(*inKey)
			}
			p.Feed(f.Bytes())
		}
	}
	var wg sync.WaitGroup
	for g := 0; g < writers; g++ {
		wg.Add(1)
		go func(g int) {
			defer wg.Done()
			for k := g; k < nmsg; k += writers {
				m := &common.MessageDebug{TimeBootMs: uint32(k), Ind: byte(g)}
				// flow control: stay far below the queue bound
				for _, p := range pipes {
					_ = p
				}
				switch k % 3 {
				case 0:
					n.WriteMessageAll(m) //nolint:errcheck
				case 1:
					n.WriteMessageTo(chans[k%nch], m) //nolint:errcheck
				case 2:
					n.WriteMessageExcept(chans[k%nch], m) //nolint:errcheck
				}
				if k%16 == 0 {
					time.Sleep(300 * time.Microsecond)
				}
			}
		}(g)
	}
	wg.Wait()
	time.Sleep(8 * time.Millisecond)
	closeNode(n, bound) //nolint:errcheck
	r.WaitClosed(bound)
	if (outKeyObj != nil && [32]byte(*outKeyObj) != *key) || (inKeyObj != nil && [32]byte(*inKeyObj) != *inKey) {
		msg := fmt.Sprintf("%s\nafter Node.Close the key objects the application had handed to the node hold other bytes than before (outgoing: %v, incoming: %v): they are the application's, other nodes may be using them", desc, outKeyObj, inKeyObj)
		evid.ReplayNote(id, "node-originated", msg)
		t.Fatalf("%s", msg)
	}
	after := since2015(time.Now())
	wantComp := comp
	if comp == 0 {
		wantComp = 1
	}
	total := 0
	links := map[byte]bool{}
	wrapped := false
	for c, p := range pipes {
		var link byte
		var prevTS uint64
		for i, b := range p.Writes() {
			f, nb, err := ref.Parse(b)
			fail := func(format string, a ...interface{}) {
				msg := fmt.Sprintf(format, a...)
				evid.ReplayNote(id, "node-originated", desc+"\n"+msg)
				t.Fatalf("%s\nlink %d frame %d (%x): %s", desc, c, i, b, msg)
			}
			if err != nil || nb != len(b) {
				fail("not one whole frame")
			}
			if f.Seq != byte(i) {
				fail("sequence number %d, the link's %d-th originated frame must carry %d", f.Seq, i, byte(i))
			}
			if f.Sys != sys || f.Comp != wantComp {
				fail("system/component %d/%d, configured %d/%d", f.Sys, f.Comp, sys, wantComp)
			}
			if f.V2 != v2 || f.Compat != 0 {
				fail("version/compat flags wrong")
			}
			l := lay(f.ID)
			if l == nil {
				fail("id %d not in the dialect", f.ID)
			}
			if f.Checksum != f.ChecksumFor(l.CRCExtra) {
				fail("checksum wrong for %s", l.MsgName)
			}
			if !v2 && len(f.Payload) != l.BaseSize {
				fail("v1 payload length %d != base size %d", len(f.Payload), l.BaseSize)
			}
			if key != nil {
				if f.Incompat != 1 || f.Sig != f.SignatureFor(*key) {
					fail("frame of a node with an outgoing key is not validly signed")
				}
				if i == 0 {
					link = f.LinkID
				} else if f.LinkID != link {
					fail("link id changed on the channel: %d, earlier frames carry %d", f.LinkID, link)
				}
				if f.Timestamp < before || f.Timestamp > after+1 {
					fail("signature timestamp %d outside the run's bracket [%d,%d]", f.Timestamp, before, after)
				}
				if f.Timestamp < prevTS {
					fail("signature timestamp decreased on the link")
				}
				prevTS = f.Timestamp
			} else if f.V2 && f.Incompat != 0 {
				fail("incompat flags %#x without an outgoing key", f.Incompat)
			}
			total++
			if i >= 256 {
				wrapped = true
			}
		}
		links[link] = true
	}
	var cls []string
	if wrapped {
		cls = append(cls, "wraps-256")
	}
	if key != nil {
		cls = append(cls, "keyed")
	}
	if hb {
		cls = append(cls, "with-heartbeats")
	}
	if sr {
		cls = append(cls, "with-stream-requests")
	}
	if !v2 {
		cls = append(cls, "v1")
	}
	if inKey != nil && !v2 {
		cls = append(cls, "v1-output-with-incoming-key")
	}
	rec.Case(total > 20, evid.HashS(desc), cls...)
	if rec.WantSample("node") {
		rec.Sample("node", map[string]interface{}{"scenario": desc, "frames_checked": total})
	}
}

func since2015(tm time.Time) uint64 {
	return uint64(tm.Sub(time.Date(2015, 1, 1, 0, 0, 0, 0, time.UTC)) / (10 * time.Microsecond))
}

func TestC09NodeOriginated(t *testing.T) {
	rec := evid.New(t, "C09", "node level: 2..4 links, 1..3 goroutines issuing WriteMessageAll/To/Except, heartbeats every 3 ms and stream requests enabled; each link's byte stream parsed by the reference: per link sequence numbers 0,1,2,... over application messages, heartbeats and stream requests alike, configured system/component id (1 when unset), version, zero compat flags, reference checksum, v1 payload = base size; non-trivial = more than 20 frames checked; distinct by hash of the scenario")
	rec.Require("wraps-256", "with-heartbeats", "with-stream-requests", "v1", "keyed", "v1-output-with-incoming-key")
	evid.Check(t, rec, evid.N(120, 400), func(t *rapid.T) { runOriginated(t, rec, "C09") })
}

func TestC06NodeSigning(t *testing.T) {
	rec := evid.New(t, "C06", "node level: every frame a node with an outgoing key puts on a link (application messages, heartbeats, stream requests) carries the signed flag, one constant link id per channel, a timestamp inside the run's wall-clock bracket that never decreases on the link, and a signature that verifies by the SHA-256 formula; non-trivial = more than 20 frames checked; distinct by hash of the scenario")
	rec.Require("keyed")
	evid.Check(t, rec, evid.N(80, 300), func(t *rapid.T) { runOriginated(t, rec, "C06") })
}
