package node

import (
	"fmt"
	"net"
	"testing"
	"time"

	gomavlib "github.com/bluenviron/gomavlib/v3"
	"github.com/bluenviron/gomavlib/v3/pkg/dialects/ardupilotmega"
	"github.com/bluenviron/gomavlib/v3/pkg/dialects/common"
	"pgregory.net/rapid"

	"verifharness/evid"
	"verifharness/sim"
)

// TestC14IdleExpiryWhileWritesFail: a TCP peer that neither sends nor reads. The application keeps writing, the
// socket buffers fill up, writes run into the (short) write timeout - and the peer is still silent: the channel
// must be closed with a timeout once the idle timeout (much longer than the write timeout here) has passed,
// whatever happened on the write side meanwhile.
func TestC14IdleExpiryWhileWritesFail(t *testing.T) {
	rec := evid.New(t, "C14", "TCP server or client endpoint, idle timeout 1.2..1.8 s, write timeout 60..150 ms; the peer never reads and never sends; the application writes 255-byte-payload messages continuously (far more than the socket buffers hold, so writes block and time out well before the idle timeout); a close event must arrive within the bound (on the idle timeout, or earlier on the failed writes, which C13 allows); non-trivial = always; distinct by hash of the parameters")
	rec.Require("silent-peer-that-does-not-read")
	evid.Check(t, rec, evid.N(3, 12), func(t *rapid.T) {
		drawNodeInit(t)
		client := rapid.Bool().Draw(t, "node_is_tcp_client")
		idle := time.Duration(rapid.IntRange(1200, 1800).Draw(t, "idle_timeout_ms")) * time.Millisecond
		wto := time.Duration(rapid.IntRange(60, 150).Draw(t, "write_timeout_ms")) * time.Millisecond
		desc := fmt.Sprintf("nodeIsTCPClient=%v idleTimeout=%v writeTimeout=%v", client, idle, wto)
		if err := watchdog(scenarioLimit, func() error { return runC14IdleWhileWritesFail(client, idle, wto) }); err != nil {
			evid.ReplayNote("C14", "TestC14IdleExpiryWhileWritesFail", desc+"\n"+err.Error())
			t.Fatalf("%s\n%v", desc, err)
		}
		rec.Case(true, evid.HashS(desc), "silent-peer-that-does-not-read")
		if rec.WantSample("idle-while-writes-fail") {
			rec.Sample("idle-while-writes-fail", desc)
		}
	})
}

func runC14IdleWhileWritesFail(client bool, idle, wto time.Duration) error {
	port := sim.FreePort()
	var ep gomavlib.EndpointConf = gomavlib.EndpointTCPServer{Address: sim.Addr(port)}
	var l net.Listener
	if client {
		ep = gomavlib.EndpointTCPClient{Address: sim.Addr(port)}
		var err error
		if l, err = net.Listen("tcp4", sim.Addr(port)); err != nil {
			return fmt.Errorf("BROKEN: listen: %v", err)
		}
		defer l.Close()
	}
	n := &gomavlib.Node{Endpoints: []gomavlib.EndpointConf{ep}, Dialect: ardupilotmega.Dialect, OutVersion: gomavlib.V2, OutSystemID: nodeSys,
		HeartbeatDisable: true, IdleTimeout: idle, WriteTimeout: wto}
	if err := initNode(&n); err != nil {
		return fmt.Errorf("BROKEN: %v", err)
	}
	rec := sim.StartRecorder(n, sim.Pacing{Kind: "fast"}, nil)
	defer func() {
		closeNode(n, bound) //nolint:errcheck
		rec.WaitClosed(bound)
	}()
	before := time.Now()
	var conn net.Conn
	var err error
	if client {
		l.(*net.TCPListener).SetDeadline(time.Now().Add(bound)) //nolint:errcheck
		conn, err = l.Accept()
	} else {
		conn, err = net.DialTimeout("tcp4", sim.Addr(port), bound)
	}
	if err != nil {
		return fmt.Errorf("BROKEN: no connection: %v", err)
	}
	defer conn.Close()
	var ch *gomavlib.Channel
	if !rec.WaitFor(bound, func(recs []sim.Rec) bool {
		for _, r := range recs {
			if o, ok := r.Ev.(*gomavlib.EventChannelOpen); ok {
				ch = o.Channel
				return true
			}
		}
		return false
	}) {
		return fmt.Errorf("BROKEN: no channel for the connection")
	}
	closed := func(recs []sim.Rec) bool {
		for _, e := range lifecycle(recs) {
			if !e.open {
				return true
			}
		}
		return false
	}
	// the application writes for as long as the channel is there (up to the bound)
	stop := time.Now().Add(bound)
	for k := 0; time.Now().Before(stop) && !closed(rec.Snapshot()); k++ {
		m := &common.MessageEncapsulatedData{Seqnr: uint16(k)}
		m.Data[252] = 0xEE
		n.WriteMessageTo(ch, m) //nolint:errcheck
		if k%64 == 63 {
			time.Sleep(200 * time.Microsecond)
		}
	}
	if !closed(rec.Snapshot()) {
		return fmt.Errorf("the peer sent nothing for %v (idle timeout %v) and read nothing, the application's writes ran into the write timeout of %v meanwhile: the channel is still open", time.Since(before), idle, wto)
	}
	// (whether the channel ends on the idle timeout or earlier on the failed writes is the library's choice -
	// C13 allows either; staying open for ever is what the idle timeout excludes)
	return nil
}
