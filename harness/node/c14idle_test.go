package node

import (
	"fmt"
	"net"
	"sync"
	"testing"
	"time"

	gomavlib "github.com/bluenviron/gomavlib/v3"
	"github.com/bluenviron/gomavlib/v3/pkg/dialects/ardupilotmega"
	"github.com/bluenviron/gomavlib/v3/pkg/dialects/common"
	"pgregory.net/rapid"

	"verifharness/evid"
	"verifharness/sim"
)

// TestC14IdleExpiryWhileWritesFail: a TCP peer that neither sends nor reads. The application keeps writing, the
// socket buffers fill up, writes run into the (short) write timeout - and the peer is still silent: the channel
// must be closed with a timeout once the idle timeout (much longer than the write timeout here) has passed,
// whatever happened on the write side meanwhile.
func TestC14IdleExpiryWhileWritesFail(t *testing.T) {
	rec := evid.New(t, "C14", "TCP server or client endpoint, idle timeout 1.2..1.8 s, write timeout 60..150 ms; the peer never reads and never sends; the application writes 255-byte-payload messages continuously (far more than the socket buffers hold, so writes block and time out well before the idle timeout); a close event must arrive within the bound (on the idle timeout, or earlier on the failed writes, which C13 allows); non-trivial = always; distinct by hash of the parameters")
	rec.Require("silent-peer-that-does-not-read")
	evid.Check(t, rec, evid.N(3, 12), func(t *rapid.T) {
		drawNodeInit(t)
		client := rapid.Bool().Draw(t, "node_is_tcp_client")
		idle := time.Duration(rapid.IntRange(1200, 1800).Draw(t, "idle_timeout_ms")) * time.Millisecond
		wto := time.Duration(rapid.IntRange(60, 150).Draw(t, "write_timeout_ms")) * time.Millisecond
		desc := fmt.Sprintf("nodeIsTCPClient=%v idleTimeout=%v writeTimeout=%v", client, idle, wto)
		if err := watchdog(scenarioLimit, func() error { return runC14IdleWhileWritesFail(client, idle, wto) }); err != nil {
			evid.ReplayNote("C14", "TestC14IdleExpiryWhileWritesFail", desc+"\n"+err.Error())
			t.Fatalf("%s\n%v", desc, err)
		}
		rec.Case(true, evid.HashS(desc), "silent-peer-that-does-not-read")
		if rec.WantSample("idle-while-writes-fail") {
			rec.Sample("idle-while-writes-fail", desc)
		}
	})
}

func runC14IdleWhileWritesFail(client bool, idle, wto time.Duration) error {
	port := sim.FreePort()
	var ep gomavlib.EndpointConf = gomavlib.EndpointTCPServer{Address: sim.Addr(port)}
	var l net.Listener
	if client {
		ep = gomavlib.EndpointTCPClient{Address: sim.Addr(port)}
		var err error
		if l, err = net.Listen("tcp4", sim.Addr(port)); err != nil {
			return fmt.Errorf("BROKEN: listen: %v", err)
		}
		defer l.Close()
	}
	n := &gomavlib.Node{Endpoints: []gomavlib.EndpointConf{ep}, Dialect: ardupilotmega.Dialect, OutVersion: gomavlib.V2, OutSystemID: nodeSys,
		HeartbeatDisable: true, IdleTimeout: idle, WriteTimeout: wto}
	if err := initNode(&n); err != nil {
		return fmt.Errorf("BROKEN: %v", err)
	}
	rec := sim.StartRecorder(n, sim.Pacing{Kind: "fast"}, nil)
	defer func() {
		closeNode(n, bound) //nolint:errcheck
		rec.WaitClosed(bound)
	}()
	before := time.Now()
	var conn net.Conn
	var err error
	if client {
		l.(*net.TCPListener).SetDeadline(time.Now().Add(bound)) //nolint:errcheck
		conn, err = l.Accept()
	} else {
		conn, err = net.DialTimeout("tcp4", sim.Addr(port), bound)
	}
	if err != nil {
		return fmt.Errorf("BROKEN: no connection: %v", err)
	}
	defer conn.Close()
	var ch *gomavlib.Channel
	if !rec.WaitFor(bound, func(recs []sim.Rec) bool {
		for _, r := range recs {
			if o, ok := r.Ev.(*gomavlib.EventChannelOpen); ok {
				ch = o.Channel
				return true
			}
		}
		return false
	}) {
		return fmt.Errorf("BROKEN: no channel for the connection")
	}
	closed := func(recs []sim.Rec) bool {
		for _, e := range lifecycle(recs) {
			if !e.open {
				return true
			}
		}
		return false
	}
	// the application writes for as long as the channel is there (up to the bound)
	stop := time.Now().Add(bound)
	for k := 0; time.Now().Before(stop) && !closed(rec.Snapshot()); k++ {
		m := &common.MessageEncapsulatedData{Seqnr: uint16(k)}
		m.Data[252] = 0xEE
		n.WriteMessageTo(ch, m) //nolint:errcheck
		if k%64 == 63 {
			time.Sleep(200 * time.Microsecond)
		}
	}
	if !closed(rec.Snapshot()) {
		return fmt.Errorf("the peer sent nothing for %v (idle timeout %v) and read nothing, the application's writes ran into the write timeout of %v meanwhile: the channel is still open", time.Since(before), idle, wto)
	}
	// (whether the channel ends on the idle timeout or earlier on the failed writes is the library's choice -
	// C13 allows either; staying open for ever is what the idle timeout excludes)
	return nil
}

// TestC14IdleTimeoutIsWhatWasConfigured: the idle timeout is a setting of its own. Here the node also sends
// heartbeats (period left at its default or set to seconds - far longer than the idle timeout); the peer reads
// everything and sends nothing: the channel must be closed with a timeout about one idle timeout after the
// connection was made, not some multiple of another setting later.
func TestC14IdleTimeoutIsWhatWasConfigured(t *testing.T) {
	rec := evid.New(t, "C14", "TCP server or client endpoint with heartbeats enabled (period: default, 2 s or 5 s) and an idle timeout of 150..400 ms; the peer drains what it gets and never sends; the close event must carry a timeout and arrive no earlier than 0.7 idle timeouts and no later than 3 idle timeouts + 1.5 s after the connection was made (the upper limit is skipped when the process was stalled); non-trivial = always; distinct by hash of the parameters")
	rec.Require("heartbeats-enabled-with-a-period-far-above-the-idle-timeout")
	evid.Check(t, rec, evid.N(6, 30), func(t *rapid.T) {
		drawNodeInit(t)
		client := rapid.Bool().Draw(t, "node_is_tcp_client")
		idle := time.Duration(rapid.IntRange(150, 400).Draw(t, "idle_timeout_ms")) * time.Millisecond
		period := time.Duration(rapid.SampledFrom([]int{0, 2, 5}).Draw(t, "heartbeat_period_s")) * time.Second
		desc := fmt.Sprintf("nodeIsTCPClient=%v idleTimeout=%v heartbeatPeriod=%v (0 = default)", client, idle, period)
		if err := watchdog(scenarioLimit, func() error { return runC14IdleConfigured(client, idle, period) }); err != nil {
			evid.ReplayNote("C14", "TestC14IdleTimeoutIsWhatWasConfigured", desc+"\n"+err.Error())
			t.Fatalf("%s\n%v", desc, err)
		}
		rec.Case(true, evid.HashS(desc), "heartbeats-enabled-with-a-period-far-above-the-idle-timeout")
		if rec.WantSample("idle-configured") {
			rec.Sample("idle-configured", desc)
		}
	})
}

func runC14IdleConfigured(client bool, idle, period time.Duration) error {
	port := sim.FreePort()
	var ep gomavlib.EndpointConf = gomavlib.EndpointTCPServer{Address: sim.Addr(port)}
	var l net.Listener
	if client {
		ep = gomavlib.EndpointTCPClient{Address: sim.Addr(port)}
		var err error
		if l, err = net.Listen("tcp4", sim.Addr(port)); err != nil {
			return fmt.Errorf("BROKEN: listen: %v", err)
		}
		defer l.Close()
	}
	n := &gomavlib.Node{Endpoints: []gomavlib.EndpointConf{ep}, Dialect: ardupilotmega.Dialect, OutVersion: gomavlib.V2, OutSystemID: nodeSys,
		IdleTimeout: idle, HeartbeatPeriod: period}
	if err := initNode(&n); err != nil {
		return fmt.Errorf("BROKEN: %v", err)
	}
	rec := sim.StartRecorder(n, sim.Pacing{Kind: "fast"}, nil)
	defer func() {
		closeNode(n, bound) //nolint:errcheck
		rec.WaitClosed(bound)
	}()
	before := time.Now()
	var conn net.Conn
	var err error
	if client {
		l.(*net.TCPListener).SetDeadline(time.Now().Add(bound)) //nolint:errcheck
		conn, err = l.Accept()
	} else {
		conn, err = net.DialTimeout("tcp4", sim.Addr(port), bound)
	}
	if err != nil {
		return fmt.Errorf("BROKEN: no connection: %v", err)
	}
	after := time.Now()
	defer conn.Close()
	go func() { // the peer reads whatever comes and says nothing
		buf := make([]byte, 4096)
		for {
			if _, err := conn.Read(buf); err != nil {
				return
			}
		}
	}()
	closed := func(recs []sim.Rec) bool {
		for _, e := range lifecycle(recs) {
			if !e.open {
				return true
			}
		}
		return false
	}
	limit := 3*idle + 1500*time.Millisecond
	ok := rec.WaitFor(limit+500*time.Millisecond, closed)
	if !ok {
		if stalls.StalledBetweenOver(before, time.Now(), 200*time.Millisecond) {
			rec.WaitFor(bound, closed)
			return nil // inconclusive: the process was held up
		}
		return fmt.Errorf("the peer has sent nothing for %v (idle timeout %v, heartbeats of the node every %v, 0 = default 5 s): the channel is still open", time.Since(after), idle, period)
	}
	for _, e := range lifecycle(rec.Snapshot()) {
		if !e.open {
			if !isTimeout(e.err) {
				return fmt.Errorf("close event carries %v, a silent peer must be reported with a timeout", e.err)
			}
			if d := e.t.Sub(before); d < idle*7/10 {
				return fmt.Errorf("closed %v after the connection attempt began, idle timeout %v", d, idle)
			}
		}
	}
	return nil
}

// TestC14IdleTimeoutDefaultIsItsOwn: a node whose idle timeout is left at its default (60 s) keeps a channel whose
// peer pauses for about a second, whatever the other timeouts of the node are set to (the timeout of connection
// attempts, the write timeout) and whichever way the node was built.
func TestC14IdleTimeoutDefaultIsItsOwn(t *testing.T) {
	rec := evid.New(t, "C14", "each case: TCP server, TCP client and UDP server endpoints of nodes built with Node.Initialize and with the deprecated NewNode(NodeConf) (six nodes side by side), IdleTimeout left unset, ReadTimeout and/or WriteTimeout set to 150..400 ms; the peer sends a frame, pauses for 3 x the larger of the two + 300 ms, sends another one: both surface on one channel and no close event is seen (the default idle timeout is 60 s); non-trivial = node built by NewNode with ReadTimeout set; distinct by hash of the parameters")
	rec.Require("built-by-NewNode-with-ReadTimeout-set", "built-by-Initialize", "tcp-client", "udp-server")
	evid.Check(t, rec, evid.N(4, 20), func(t *rapid.T) {
		rto := time.Duration(rapid.IntRange(150, 400).Draw(t, "read_timeout_ms")) * time.Millisecond
		wto := time.Duration(rapid.IntRange(150, 400).Draw(t, "write_timeout_ms")) * time.Millisecond
		switch rapid.IntRange(0, 3).Draw(t, "which_set") {
		case 0:
			wto = 0
		}
		// ... or set to something that means "never" (a day, a week): a peer that pauses for a second stays all the same
		idleOf := []time.Duration{24 * time.Hour, 0, 168 * time.Hour, 100000 * time.Hour, 0, 0} // per node below, in order
		desc0 := fmt.Sprintf("ReadTimeout=%v WriteTimeout=%v IdleTimeout (0 = unset) of the six nodes=%v", rto, wto, idleOf)
		// every way of building the node and every kind of endpoint, side by side
		type combo struct {
			via    bool
			epKind string
		}
		var combos []combo
		for _, via := range []bool{false, true} {
			for _, k := range []string{"tcp-server", "tcp-client", "udp-server"} {
				combos = append(combos, combo{via, k})
			}
		}
		errs := make([]error, len(combos))
		var wg sync.WaitGroup
		for ci, c := range combos {
			wg.Add(1)
			go func(ci int, viaConf bool, epKind string) {
				defer wg.Done()
				idleSet := idleOf[ci]
				errs[ci] = watchdog(scenarioLimit, func() error {
					port := sim.FreePort()
					var ep gomavlib.EndpointConf
					var l net.Listener
					switch epKind {
					case "tcp-server":
						ep = gomavlib.EndpointTCPServer{Address: sim.Addr(port)}
					case "udp-server":
						ep = gomavlib.EndpointUDPServer{Address: sim.Addr(port)}
					case "tcp-client":
						ep = gomavlib.EndpointTCPClient{Address: sim.Addr(port)}
						var err error
						if l, err = net.Listen("tcp4", sim.Addr(port)); err != nil {
							return fmt.Errorf("BROKEN: listen: %v", err)
						}
						defer l.Close()
					}
					n := &gomavlib.Node{Endpoints: []gomavlib.EndpointConf{ep}, Dialect: ardupilotmega.Dialect, OutVersion: gomavlib.V2, OutSystemID: nodeSys,
						HeartbeatDisable: true, ReadTimeout: rto, WriteTimeout: wto, IdleTimeout: idleSet}
					if err := initNodeVia(&n, viaConf); err != nil {
						return fmt.Errorf("BROKEN: %v", err)
					}
					rec := sim.StartRecorder(n, sim.Pacing{Kind: "fast"}, nil)
					defer func() {
						closeNode(n, bound) //nolint:errcheck
						rec.WaitClosed(bound)
					}()
					var peer *sim.Peer
					if l != nil {
						l.(*net.TCPListener).SetDeadline(time.Now().Add(bound)) //nolint:errcheck
						c, err := l.Accept()
						if err != nil {
							return fmt.Errorf("the client endpoint did not connect within %v: %v", bound, err)
						}
						peer = sim.WrapConn(c)
					} else {
						var err error
						if peer, err = sim.Dial(map[string]string{"tcp-server": "tcp4", "udp-server": "udp4"}[epKind], sim.Addr(port)); err != nil {
							return fmt.Errorf("BROKEN: dial: %v", err)
						}
					}
					defer peer.Close()
					frames := func(recs []sim.Rec) int {
						k := 0
						for _, e := range recs {
							if _, ok := e.Ev.(*gomavlib.EventFrame); ok {
								k++
							}
						}
						return k
					}
					peer.Send(tagged(1, 0, "debug", true, nil, 0).Bytes()) //nolint:errcheck
					if !rec.WaitFor(bound, func(recs []sim.Rec) bool { return frames(recs) >= 1 }) {
						return fmt.Errorf("the peer's first frame did not surface within %v", bound)
					}
					pause := rto
					if wto > pause {
						pause = wto
					}
					pause = 3*pause + 300*time.Millisecond
					time.Sleep(pause)
					peer.Send(tagged(1, 1, "debug", true, nil, 0).Bytes()) //nolint:errcheck
					rec.WaitFor(bound, func(recs []sim.Rec) bool { return frames(recs) >= 2 })
					opens, closes := 0, 0
					var cerr error
					for _, e := range lifecycle(rec.Snapshot()) {
						if e.open {
							opens++
						} else {
							closes++
							cerr = e.err
						}
					}
					if closes > 0 || opens != 1 {
						return fmt.Errorf("the peer paused for %v between two frames; the node's idle timeout was left at its default of 60 s or set to hours (node.IdleTimeout reads %v): %d open and %d close events, the close says: %v", pause, n.IdleTimeout, opens, closes, cerr)
					}
					if frames(rec.Snapshot()) != 2 {
						return fmt.Errorf("the frame sent after a pause of %v did not surface within %v", pause, bound)
					}
					return nil
				})
			}(ci, c.via, c.epKind)
		}
		wg.Wait()
		for ci, err := range errs {
			if err != nil {
				desc := fmt.Sprintf("viaNewNode=%v endpoint=%s %s", combos[ci].via, combos[ci].epKind, desc0)
				evid.ReplayNote("C14", "TestC14IdleTimeoutDefaultIsItsOwn", desc+"\n"+err.Error())
				t.Fatalf("%s\n%v", desc, err)
			}
		}
		cls := []string{"tcp-client", "udp-server", "built-by-Initialize"}
		if rto > 0 {
			cls = append(cls, "built-by-NewNode-with-ReadTimeout-set")
		}
		rec.Case(rto > 0, evid.HashS(desc0), cls...)
		if rec.WantSample("idle-default") {
			rec.Sample("idle-default", desc0)
		}
	})
}
