package node

import (
	"fmt"
	"net"
	"strings"
	"testing"
	"time"

	gomavlib "github.com/bluenviron/gomavlib/v3"
	"github.com/bluenviron/gomavlib/v3/pkg/dialects/ardupilotmega"
	"github.com/bluenviron/gomavlib/v3/pkg/dialects/common"
	"pgregory.net/rapid"

	"verifharness/evid"
	"verifharness/sim"
)

// TestC12Lives closes the same Node value several times in a row: Initialize, traffic, Close, Initialize again (which
// re-creates all private state, as it does on the pinned tree), more traffic, Close. Every Close must behave like
// the first one: nothing that the previous life left behind may keep it from returning and releasing everything.
func TestC12Lives(t *testing.T) {
	rec := evid.New(t, "C12", "one Node value goes through 2..4 lives (Initialize, a TCP peer and a UDP peer talk, optional consumer, Close) on a TCP server + UDP server (+ optionally a refused TCP client) configuration; after every Close: it returned within the bound, Events() is closed, no library goroutine is left, both ports can be bound again, the accepted connection is closed; non-trivial = always (a later life follows an earlier one); distinct by hash of the parameters")
	rec.Require("life-after-life", "life-without-consumer")
	evid.Check(t, rec, evid.N(30, 120), func(t *rapid.T) {
		lives := rapid.IntRange(2, 4).Draw(t, "lives")
		withClient := rapid.Bool().Draw(t, "refused_tcp_client")
		consumers := rapid.SliceOfN(rapid.Bool(), lives, lives).Draw(t, "consumer_per_life")
		frames := rapid.IntRange(0, 10).Draw(t, "frames")
		desc := fmt.Sprintf("lives=%d refusedTCPClient=%v consumerPerLife=%v frames=%d", lives, withClient, consumers, frames)
		tcpPort, udpPort := sim.FreePort(), sim.FreePort()
		eps := []gomavlib.EndpointConf{gomavlib.EndpointTCPServer{Address: sim.Addr(tcpPort)}, gomavlib.EndpointUDPServer{Address: sim.Addr(udpPort)}}
		if withClient {
			eps = append(eps, gomavlib.EndpointTCPClient{Address: sim.Addr(sim.FreePort())})
		}
		n := &gomavlib.Node{Endpoints: eps, Dialect: ardupilotmega.Dialect, OutVersion: gomavlib.V2, OutSystemID: 7, HeartbeatPeriod: 5 * time.Millisecond}
		fail := func(format string, a ...interface{}) {
			msg := desc + "\n" + fmt.Sprintf(format, a...)
			evid.ReplayNote("C12", "TestC12Lives", msg)
			t.Fatalf("%s", msg)
		}
		noConsumer := false
		for life := 1; life <= lives; life++ {
			if err := n.Initialize(); err != nil {
				fail("life %d: Initialize of the closed node failed: %v", life, err)
			}
			var rec *sim.Recorder
			if consumers[life-1] {
				rec = sim.StartRecorder(n, sim.Pacing{Kind: "fast"}, nil)
			} else {
				noConsumer = true
			}
			tp, err := sim.Dial("tcp4", sim.Addr(tcpPort))
			if err != nil {
				fail("life %d: the TCP server does not accept connections: %v", life, err)
			}
			up, err := sim.Dial("udp4", sim.Addr(udpPort))
			if err != nil {
				t.Fatalf("BROKEN: %v", err)
			}
			for k := 0; k < frames; k++ {
				tp.Send(tagged(1, k, "debug", true, nil, 0).Bytes()) //nolint:errcheck
				up.Send(tagged(2, k, "debug", true, nil, 0).Bytes()) //nolint:errcheck
			}
			time.Sleep(time.Duration(rapid.IntRange(0, 8).Draw(t, "life_ms")) * time.Millisecond)
			if knownFinding("pion-udp-accept-close-race") {
				time.Sleep(30 * time.Millisecond) // known finding: a UDP peer must not be pending acceptance at Close
			}
			if _, cerr := closeNode(n, bound); cerr != nil {
				tp.Close()
				up.Close()
				fail("life %d: %v", life, cerr)
			}
			if rec != nil {
				if !rec.WaitClosed(bound) {
					fail("life %d: ranging over Events() did not end after Close", life)
				}
			} else {
				ended := make(chan struct{})
				go func() {
					for range n.Events() {
					}
					close(ended)
				}()
				select {
				case <-ended:
				case <-time.After(bound):
					fail("life %d: Events() is not closed after Close", life)
				}
			}
			if left := sim.WaitNoLibGoroutines(3 * time.Second); len(left) > 0 {
				fail("life %d: %d goroutine(s) started by the library are still alive after Close returned:\n%s", life, len(left), strings.Join(left, "\n\n"))
			}
			for _, port := range []int{tcpPort, udpPort} {
				ok := false
				for k := 0; k < 400 && !ok; k++ {
					ok = sim.CanBind(port)
					if !ok {
						time.Sleep(5 * time.Millisecond)
					}
				}
				if !ok {
					fail("life %d: port %d cannot be bound again after Close", life, port)
				}
			}
			if !tp.WaitRxEnd(bound) {
				fail("life %d: the accepted TCP connection is still open after Close", life)
			}
			tp.Close()
			up.Close()
		}
		cls := []string{"life-after-life"}
		if noConsumer {
			cls = append(cls, "life-without-consumer")
		}
		rec.Case(true, evid.HashS(desc), cls...)
		if rec.WantSample("lives") {
			rec.Sample("lives", desc)
		}
	})
}

// TestC12CloseWithUnsentData: a TCP peer that is alive but does not read, so much written to it that the socket's send
// queue is full and the channel's writer sits inside Write, and a long write timeout (45 s): Close still returns at
// once - it interrupts the write, it does not wait for the peer or for any timeout - and everything is released.
func TestC12CloseWithUnsentData(t *testing.T) {
	rec := evid.New(t, "C12", "TCP server or TCP client endpoint, WriteTimeout 45 s, a peer that never reads while 30000..40000 255-byte-payload messages are written to its channel (send queue full, writer inside Write), then Close: it must return within the bound (20 s, normally milliseconds), no library goroutine may remain, the port can be bound again, the peer sees the connection end; non-trivial = always; distinct by hash of the parameters")
	rec.Require("close-with-a-full-send-queue")
	evid.Check(t, rec, evid.N(3, 12), func(t *rapid.T) {
		drawNodeInit(t)
		client := rapid.Bool().Draw(t, "node_is_tcp_client")
		nmsg := rapid.IntRange(30000, 40000).Draw(t, "messages")
		consumer := rapid.Bool().Draw(t, "consumer")
		desc := fmt.Sprintf("nodeIsTCPClient=%v messages=%d consumer=%v writeTimeout=45s", client, nmsg, consumer)
		fail := func(format string, a ...interface{}) {
			msg := desc + "\n" + fmt.Sprintf(format, a...)
			evid.ReplayNote("C12", "TestC12CloseWithUnsentData", msg)
			t.Fatalf("%s", msg)
		}
		port := sim.FreePort()
		var ep gomavlib.EndpointConf = gomavlib.EndpointTCPServer{Address: sim.Addr(port)}
		var l net.Listener
		if client {
			ep = gomavlib.EndpointTCPClient{Address: sim.Addr(port)}
			var err error
			if l, err = net.Listen("tcp4", sim.Addr(port)); err != nil {
				t.Fatalf("BROKEN: listen: %v", err)
			}
			defer l.Close()
		}
		n := &gomavlib.Node{Endpoints: []gomavlib.EndpointConf{ep}, Dialect: ardupilotmega.Dialect, OutVersion: gomavlib.V2, OutSystemID: 7,
			HeartbeatDisable: true, WriteTimeout: 45 * time.Second}
		if err := initNode(&n); err != nil {
			t.Fatalf("BROKEN: %v", err)
		}
		var conn net.Conn
		var err error
		if client {
			l.(*net.TCPListener).SetDeadline(time.Now().Add(bound)) //nolint:errcheck
			conn, err = l.Accept()
		} else {
			conn, err = net.DialTimeout("tcp4", sim.Addr(port), bound)
		}
		if err != nil {
			closeNode(n, bound) //nolint:errcheck
			t.Fatalf("BROKEN: no connection: %v", err)
		}
		defer conn.Close()
		var rec2 *sim.Recorder
		if consumer {
			rec2 = sim.StartRecorder(n, sim.Pacing{Kind: "fast"}, nil)
		}
		time.Sleep(20 * time.Millisecond) // the channel exists (its open event may be waiting for a consumer)
		for k := 0; k < nmsg; k++ {
			m := &common.MessageEncapsulatedData{Seqnr: uint16(k)}
			m.Data[252] = 0xEE
			n.WriteMessageAll(m) //nolint:errcheck
		}
		if _, cerr := closeNode(n, bound); cerr != nil {
			fail("%v", cerr)
		}
		if rec2 != nil {
			if !rec2.WaitClosed(bound) {
				fail("ranging over Events() did not end after Close")
			}
		} else {
			for range n.Events() {
			}
		}
		if left := sim.WaitNoLibGoroutines(3 * time.Second); len(left) > 0 {
			fail("%d goroutine(s) started by the library are still alive after Close returned:\n%s", len(left), strings.Join(left, "\n\n"))
		}
		if !client {
			ok := false
			for k := 0; k < 400 && !ok; k++ {
				ok = sim.CanBind(port)
				if !ok {
					time.Sleep(5 * time.Millisecond)
				}
			}
			if !ok {
				fail("port %d cannot be bound again after Close", port)
			}
		}
		// the peer drains what was sent and then sees the end of the connection
		conn.SetReadDeadline(time.Now().Add(bound)) //nolint:errcheck
		buf := make([]byte, 1<<16)
		for {
			if _, rerr := conn.Read(buf); rerr != nil {
				if isTimeout(rerr) {
					fail("the connection is still open %v after Close returned", bound)
				}
				break
			}
		}
		rec.Case(true, evid.HashS(desc), "close-with-a-full-send-queue")
		if rec.WantSample("unsent") {
			rec.Sample("unsent", desc)
		}
	})
}
