package node

import (
	"errors"
	"fmt"
	"io"
	"net"
	"os"
	"strings"
	"sync"
	"sync/atomic"
	"syscall"
	"testing"
	"time"

	gomavlib "github.com/bluenviron/gomavlib/v3"
	"github.com/bluenviron/gomavlib/v3/pkg/dialects/ardupilotmega"
	"github.com/bluenviron/gomavlib/v3/pkg/dialects/common"
	"github.com/bluenviron/gomavlib/v3/pkg/dialects/minimal"
	"pgregory.net/rapid"

	"verifharness/evid"
	"verifharness/ref"
	"verifharness/sim"
)

type epSpec struct {
	kind       string // custom tcps udps tcpc udpc serial
	peers      int    // server kinds: peers that connect and talk
	gate       bool   // custom/serial: transport blocks writes
	refused    bool   // client kinds: nothing listens on the address
	unanswered bool   // tcpc: the peer does not answer connection attempts at all (they stay pending until their time budget ends)
	frames     int    // frames fed per transport
	peerGoes   bool   // server kinds: first peer disconnects shortly before the close
	readFault  bool   // serial with a gated transport: the read side fails shortly before Close while the writer is blocked
	// custom: the transport's Read fails shortly before Close (once, or from then on); the node must still close it exactly once
	customFault string
	lateOpen    bool // serial: the device open that follows initialization completes only after Close has begun
	openGate    chan struct{}
	opens       int
	allPipes    []*sim.Pipe
	port        int
	pipe        *sim.Pipe
	listener    net.Listener
	accepted    []*sim.Peer
	peerConns   []*sim.Peer
	mu          sync.Mutex
}

type c12World struct {
	eps              []*epSpec
	consumer         string // none running paused
	pauseAfter       int
	closeAfter       time.Duration
	closeOnPark      bool
	writers          int
	heartbeat        bool
	shortRetry       bool
	writeTO          time.Duration
	hbPeriod         time.Duration
	readTO           time.Duration // 0 = the node's default
	lingerAfterFault bool
	apHB             bool // traffic includes ArduPilot heartbeats from fresh senders: stream requests and their events are in flight
}

// trafficFrame is the k-th frame a transport delivers: a DEBUG message, or (every third frame when apHB is set) an
// ArduPilot heartbeat from a sender not seen before, which makes the node write seven requests and emit an event.
func (w *c12World) trafficFrame(tag byte, k int) []byte {
	if w.apHB && k%3 == 0 {
		l := lay(0)
		f := ref.Frame{V2: true, Seq: byte(k), Sys: 50 + tag, Comp: byte(k + 1), ID: 0}
		f.Payload = l.Encode(&minimal.MessageHeartbeat{Type: 2, Autopilot: 3, SystemStatus: 4, MavlinkVersion: 3}, true)
		f.Checksum = f.ChecksumFor(l.CRCExtra)
		return f.Bytes()
	}
	return tagged(tag, k, "debug", true, nil, 0).Bytes()
}

func (w *c12World) describe() string {
	var b strings.Builder
	fmt.Fprintf(&b, "consumer=%s pauseAfter=%d closeAfter=%v closeOnParkedWriter=%v writers=%d heartbeat=%v(period %v) shortReconnect=%v readTimeout=%v arduPilotHeartbeatsInTraffic=%v\n", w.consumer, w.pauseAfter, w.closeAfter, w.closeOnPark, w.writers, w.heartbeat, w.hbPeriod, w.shortRetry, w.readTO, w.apHB)
	for i, e := range w.eps {
		fmt.Fprintf(&b, " endpoint %d: %s peers=%d gate=%v refused=%v unanswered=%v frames=%d peerDisconnects=%v openCompletesDuringClose=%v readFaultWithBlockedWriter=%v customReadFault=%q\n", i, e.kind, e.peers, e.gate, e.refused, e.unanswered, e.frames, e.peerGoes, e.lateOpen, e.readFault, e.customFault)
	}
	return b.String()
}

// serialRegistry routes the hooked serial opener to the pipes of the running scenario.
var serialRegistry struct {
	sync.Mutex
	open func(device string) (io.ReadWriteCloser, error)
}

// excludedUDPClose counts scenarios in which the known-finding input class was excluded.
var excludedUDPClose int64

func knownFinding(key string) bool {
	for _, k := range strings.Split(os.Getenv("VERIF_KNOWN"), ",") {
		if k == key {
			return true
		}
	}
	return false
}

var serialRegistryFallback func(device string) (io.ReadWriteCloser, error, bool)

func init() {
	gomavlib.VerifSetSerialOpenFunc(func(device string, baud int) (io.ReadWriteCloser, error) {
		if serialRegistryFallback != nil {
			if rwc, err, ok := serialRegistryFallback(device); ok {
				return rwc, err
			}
		}
		serialRegistry.Lock()
		f := serialRegistry.open
		serialRegistry.Unlock()
		if f == nil {
			return nil, errors.New("no such device")
		}
		return f(device)
	})
}

func TestC12Close(t *testing.T) {
	rec := evid.New(t, "C12", "generated node configurations (custom, TCP/UDP server with peers, TCP/UDP client against a live or refusing address, serial through the hook) with traffic, gated (blocked) transports, a consumer that is absent, running or paused, concurrent Write* callers and a generated close point (immediately, after a delay, once a writer is parked in the transport); Close must return within a bound far above normal (on a miss two goroutine dumps prove the deadlock), afterwards no goroutine started by the library is alive, every listening port can be bound again, accepted connections are closed, each custom transport was closed exactly once, Events() is closed, and racing/following Write* calls return; non-trivial = close while a goroutine is known to be blocked (parked writer, paused/absent consumer with pending events, client in back-off); distinct by hash of the scenario")
	rec.Require("blocked-writer", "no-consumer", "paused-consumer", "client-backoff", "open-completes-during-close", "reader-failed-while-writer-blocked", "racing-writers", "tcps", "udps", "tcpc", "udpc", "serial", "custom", "bcast", "stream-request-event-undelivered", "custom-transport-read-failed-before-close", "client-attempt-unanswered", "peer-half-closed", "close-long-after-a-custom-transport-failed-with-its-writer-blocked", "directed-writes-racing")
	evid.Check(t, rec, evid.N(250, 700), func(t *rapid.T) {
		drawNodeInit(t)
		w := &c12World{}
		ne := rapid.IntRange(1, 4).Draw(t, "neps")
		for i := 0; i < ne; i++ {
			e := &epSpec{kind: rapid.SampledFrom([]string{"custom", "custom", "tcps", "udps", "tcpc", "udpc", "serial", "bcast"}).Draw(t, "kind")}
			e.peers = rapid.IntRange(0, 2).Draw(t, "peers")
			e.gate = rapid.IntRange(0, 2).Draw(t, "gate") == 0 || (e.kind == "serial" && rapid.Bool().Draw(t, "gate_serial"))
			e.refused = rapid.Bool().Draw(t, "refused")
			e.unanswered = e.kind == "tcpc" && rapid.IntRange(0, 2).Draw(t, "unanswered") == 0
			e.frames = rapid.IntRange(0, 20).Draw(t, "frames")
			e.peerGoes = rapid.IntRange(0, 3).Draw(t, "peer_goes") == 0
			e.lateOpen = e.kind == "serial" && rapid.IntRange(0, 2).Draw(t, "late_open") == 0
			e.readFault = e.kind == "serial" && e.gate && !e.lateOpen && rapid.IntRange(0, 3).Draw(t, "read_fault") > 0
			if e.kind == "custom" {
				e.customFault = rapid.SampledFrom([]string{"", "", "", "read-error-once", "read-error-persistent"}).Draw(t, "custom_read_fault")
			}
			w.eps = append(w.eps, e)
		}
		w.consumer = rapid.SampledFrom([]string{"none", "running", "running", "paused"}).Draw(t, "consumer")
		w.pauseAfter = rapid.IntRange(0, 6).Draw(t, "pause_after")
		w.closeAfter = time.Duration(rapid.SampledFrom([]int{0, 0, 1, 3, 10, 30, 80}).Draw(t, "close_after_ms")) * time.Millisecond
		w.closeOnPark = rapid.Bool().Draw(t, "close_on_park")
		w.writers = rapid.IntRange(0, 3).Draw(t, "writers")
		w.heartbeat = rapid.IntRange(0, 2).Draw(t, "heartbeat") > 0
		// from "a tick is almost always being handed over" to "rare ticks"
		w.hbPeriod = time.Duration(rapid.SampledFrom([]int{1, 5, 20, 100, 500, 2000}).Draw(t, "hb_period_us")) * time.Microsecond
		w.shortRetry = rapid.IntRange(0, 3).Draw(t, "short_retry") > 0
		w.lingerAfterFault = rapid.IntRange(0, 2).Draw(t, "linger_after_fault") == 0
		w.readTO = time.Duration(rapid.SampledFrom([]int{0, 0, 300, 1000, 1500, 60000, 3600000}).Draw(t, "read_timeout_ms")) * time.Millisecond
		w.apHB = rapid.Bool().Draw(t, "ardupilot_heartbeats")
		// two rare combinations are put together on purpose now and then (a draw like any other, so replay and
		// shrinking see it), so that their classes do not depend on luck
		switch rapid.IntRange(0, 24).Draw(t, "arranged") {
		case 0: // a gated custom transport whose reader fails while a writer sits in it, Close long afterwards
			w.eps[0] = &epSpec{kind: "custom", gate: true, customFault: "read-error-persistent", frames: w.eps[0].frames}
			if w.writers == 0 {
				w.writers = 1
			}
			w.lingerAfterFault = true
		case 1: // a TCP peer that half-closes
			w.eps[0] = &epSpec{kind: "tcps", peers: 1, peerGoes: true, frames: 1}
		}
		var blocked []string
		err := watchdog(scenarioLimit, func() error {
			var e error
			blocked, e = runC12(w)
			return e
		})
		if n := atomic.SwapInt64(&excludedUDPClose, 0); n > 0 {
			rec.Class("excluded:new-udp-peer-pending-at-close(known finding)", n)
		}
		if err != nil {
			evid.ReplayNote("C12", "TestC12Close", w.describe()+err.Error())
			t.Fatalf("%s%v", w.describe(), err)
		}
		cls := append([]string{}, blocked...)
		kinds := map[string]bool{}
		for _, e := range w.eps {
			kinds[e.kind] = true
		}
		for k := range kinds {
			cls = append(cls, k)
		}
		if w.writers > 0 {
			cls = append(cls, "racing-writers")
		}
		if w.apHB && w.consumer != "running" {
			for _, e := range w.eps {
				if e.frames > 0 && (e.kind == "custom" || (e.kind == "tcps" || e.kind == "udps") && e.peers > 0) {
					cls = append(cls, "stream-request-event-undelivered")
					break
				}
			}
		}
		nblocked := 0
		for _, b := range blocked {
			if b != "directed-writes-racing" && b != "peer-half-closed" {
				nblocked++ // the others say that some goroutine was known to be blocked when Close was issued
			}
		}
		rec.Case(nblocked > 0, evid.HashS(w.describe()), cls...)
		if nblocked > 0 && rec.WantSample("scenario") {
			rec.Sample("scenario", map[string]interface{}{"scenario": w.describe(), "blocked_at_close": blocked})
		}
	})
}

func runC12(w *c12World) ([]string, error) {
	restore := func() {}
	if w.shortRetry {
		restore = gomavlib.VerifSetReconnectPeriod(40 * time.Millisecond)
	}
	defer restore()
	var endpoints []gomavlib.EndpointConf
	var cleanup []func()
	defer func() {
		for _, f := range cleanup {
			f()
		}
		serialRegistry.Lock()
		serialRegistry.open = nil
		serialRegistry.Unlock()
	}()
	serialPipes := map[string]*epSpec{}
	var serialOpened int32
	serialRegistry.Lock()
	serialRegistry.open = func(device string) (io.ReadWriteCloser, error) {
		e := serialPipes[device]
		if e == nil {
			return nil, errors.New("no such device")
		}
		atomic.AddInt32(&serialOpened, 1)
		e.mu.Lock()
		e.opens++
		wait := e.lateOpen && e.opens == 2
		e.mu.Unlock()
		if wait {
			<-e.openGate // released by the scenario a few milliseconds after Close was called
		}
		p := sim.NewPipe()
		if e.gate {
			p.BlockWrites()
		}
		e.mu.Lock()
		e.pipe = p
		e.allPipes = append(e.allPipes, p)
		e.mu.Unlock()
		return p, nil
	}
	serialRegistry.Unlock()
	for i, e := range w.eps {
		switch e.kind {
		case "custom":
			e.pipe = sim.NewPipe()
			if e.gate {
				e.pipe.BlockWrites()
			}
			endpoints = append(endpoints, gomavlib.EndpointCustom{ReadWriteCloser: e.pipe})
		case "tcps":
			e.port = sim.FreePort()
			endpoints = append(endpoints, gomavlib.EndpointTCPServer{Address: sim.Addr(e.port)})
		case "udps":
			e.port = sim.FreePort()
			endpoints = append(endpoints, gomavlib.EndpointUDPServer{Address: sim.Addr(e.port)})
		case "tcpc":
			e.port = sim.FreePort()
			if e.unanswered {
				_, release, err := hangingListener(e.port)
				if err != nil {
					return nil, err
				}
				cleanup = append(cleanup, release)
			} else if !e.refused {
				l, err := net.Listen("tcp4", sim.Addr(e.port))
				if err != nil {
					return nil, fmt.Errorf("BROKEN: listen: %v", err)
				}
				e.listener = l
				ee := e
				go func() {
					for {
						c, err := l.Accept()
						if err != nil {
							return
						}
						p := sim.WrapConn(c)
						ee.mu.Lock()
						ee.accepted = append(ee.accepted, p)
						ee.mu.Unlock()
					}
				}()
				cleanup = append(cleanup, func() {
					l.Close()
					ee.mu.Lock()
					for _, p := range ee.accepted {
						p.Close()
					}
					ee.mu.Unlock()
				})
			}
			endpoints = append(endpoints, gomavlib.EndpointTCPClient{Address: sim.Addr(e.port)})
		case "udpc":
			e.port = sim.FreePort()
			endpoints = append(endpoints, gomavlib.EndpointUDPClient{Address: sim.Addr(e.port)})
		case "bcast":
			e.port = sim.FreePort()
			endpoints = append(endpoints, gomavlib.EndpointUDPBroadcast{BroadcastAddress: fmt.Sprintf("127.255.255.255:%d", sim.FreePort()), LocalAddress: sim.Addr(e.port)})
		case "serial":
			e.openGate = make(chan struct{})
			dev := fmt.Sprintf("/dev/ttyVERIF%d", i)
			serialPipes[dev] = e
			endpoints = append(endpoints, gomavlib.EndpointSerial{Device: dev, Baud: 57600})
		}
	}
	n := &gomavlib.Node{Endpoints: endpoints, Dialect: ardupilotmega.Dialect, OutVersion: gomavlib.V2, OutSystemID: 7,
		HeartbeatDisable: !w.heartbeat, HeartbeatPeriod: w.hbPeriod, WriteTimeout: 300 * time.Millisecond,
		StreamRequestEnable: true, ReadTimeout: w.readTO}
	if err := initNode(&n); err != nil {
		return nil, fmt.Errorf("BROKEN: node init: %v", err)
	}
	var rec *sim.Recorder
	var evCount int32
	switch w.consumer {
	case "running":
		rec = sim.StartRecorder(n, sim.Pacing{Kind: "fast"}, nil)
	case "paused":
		var r *sim.Recorder
		r = sim.StartRecorder(n, sim.Pacing{Kind: "fast"}, func(gomavlib.Event) {
			if int(atomic.AddInt32(&evCount, 1)) == w.pauseAfter+1 {
				r.Pause()
			}
		})
		rec = r
		if w.pauseAfter == 0 {
			r.Pause()
		}
	}
	// traffic
	for _, e := range w.eps {
		switch e.kind {
		case "custom":
			for k := 0; k < e.frames; k++ {
				e.pipe.Feed(w.trafficFrame(1, k))
			}
		case "tcps", "udps":
			for pi := 0; pi < e.peers; pi++ {
				network := "tcp4"
				if e.kind == "udps" {
					network = "udp4"
				}
				p, err := sim.Dial(network, sim.Addr(e.port))
				if err != nil {
					return nil, fmt.Errorf("BROKEN: dial %s: %v", e.kind, err)
				}
				e.peerConns = append(e.peerConns, p)
				pp := p
				cleanup = append(cleanup, func() { pp.Close() })
				p.Send([]byte{0x01}) //nolint:errcheck
				for k := 0; k < e.frames; k++ {
					p.Send(w.trafficFrame(2, k)) //nolint:errcheck
				}
			}
		}
	}
	// known finding pion-udp-accept-close-race (see known_findings.txt): closing while the first datagram of a
	// new UDP peer is pending acceptance crashes inside pion/transport. When the finding is listed,
	// that input class is excluded by construction: every UDP peer is given time to be accepted.
	if knownFinding("pion-udp-accept-close-race") {
		for _, e := range w.eps {
			if e.kind == "udps" && len(e.peerConns) > 0 {
				time.Sleep(30 * time.Millisecond)
				excludedUDPClose++
				break
			}
		}
	}
	// racing writers
	stop := make(chan struct{})
	var wg sync.WaitGroup
	var panicked atomic.Value
	var calls int64
	// channels the application knows of (it learns them from open events, so only with a consumer): directed
	// writes go to them, also while and after the node closes
	var knownChans []*gomavlib.Channel
	if rec != nil && w.writers > 0 {
		rec.WaitFor(20*time.Millisecond, func(recs []sim.Rec) bool {
			knownChans = knownChans[:0]
			for _, e := range recs {
				if o, ok := e.Ev.(*gomavlib.EventChannelOpen); ok {
					knownChans = append(knownChans, o.Channel)
				}
			}
			return len(knownChans) > 0
		})
	}
	directed := len(knownChans) > 0
	for i := 0; i < w.writers; i++ {
		wg.Add(1)
		go func(i int) {
			defer wg.Done()
			defer func() {
				if r := recover(); r != nil {
					panicked.Store(fmt.Sprintf("Write* panicked: %v", r))
				}
			}()
			for k := 0; ; k++ {
				select {
				case <-stop:
					return
				default:
				}
				switch (k + i) % 6 {
				case 4:
					if directed {
						n.WriteMessageTo(knownChans[k%len(knownChans)], &common.MessageDebug{TimeBootMs: uint32(k)}) //nolint:errcheck
					}
				case 5:
					if directed {
						n.WriteFrameTo(knownChans[k%len(knownChans)], gen1(7, k)) //nolint:errcheck
					}
				case 0:
					n.WriteMessageAll(&common.MessageDebug{TimeBootMs: uint32(k)}) //nolint:errcheck
				case 1:
					n.WriteFrameAll(gen1(5, k)) //nolint:errcheck
				case 2:
					n.WriteMessageExcept(nil, &common.MessageDebug{TimeBootMs: uint32(k)}) //nolint:errcheck
				case 3:
					n.WriteFrameExcept(nil, gen1(6, k)) //nolint:errcheck
				}
				atomic.AddInt64(&calls, 1)
				if k%8 == 0 {
					time.Sleep(50 * time.Microsecond)
				}
			}
		}(i)
	}
	// close point
	time.Sleep(w.closeAfter)
	var blocked []string
	if directed {
		blocked = append(blocked, "directed-writes-racing")
	}
	if w.closeOnPark {
		for _, e := range w.eps {
			if (e.kind == "custom") && e.gate && (w.writers > 0 || w.heartbeat) {
				if e.pipe.WaitParkedWriter(500 * time.Millisecond) {
					blocked = append(blocked, "blocked-writer")
				}
			}
		}
	}
	for _, e := range w.eps {
		if e.peerGoes && len(e.peerConns) > 0 {
			if tc, ok := e.peerConns[0].Conn.(*net.TCPConn); ok && e.frames%2 == 1 {
				// the peer only ends its sending direction and keeps reading: the node sees the end of the stream,
				// the connection is still the node's to release
				tc.CloseWrite() //nolint:errcheck
				blocked = append(blocked, "peer-half-closed")
			} else {
				e.peerConns[0].Close()
			}
		}
	}
	switch w.consumer {
	case "none":
		blocked = append(blocked, "no-consumer")
	case "paused":
		blocked = append(blocked, "paused-consumer")
	}
	for _, e := range w.eps {
		if (e.kind == "tcpc") && e.unanswered {
			blocked = append(blocked, "client-attempt-unanswered")
		} else if (e.kind == "tcpc") && e.refused {
			blocked = append(blocked, "client-backoff")
		}
	}
	for _, e := range w.eps {
		if e.readFault && (w.writers > 0 || w.heartbeat) {
			e.mu.Lock()
			p := e.pipe
			e.mu.Unlock()
			if p != nil && p.WaitParkedWriter(500*time.Millisecond) {
				if e.frames%2 == 1 {
					p.FailReads(io.EOF) // an unplugged adapter reads as end of file; the handle is still open
				} else {
					p.FailReads(errors.New("injected serial read error"))
				}
				time.Sleep(2 * time.Millisecond)
				blocked = append(blocked, "reader-failed-while-writer-blocked")
			}
		}
	}
	for _, e := range w.eps {
		if e.kind == "custom" && e.customFault != "" {
			if e.frames%2 == 1 {
				e.pipe.FailReads(io.EOF)
			} else {
				e.pipe.FailReads(errors.New("injected custom transport read error"))
			}
			time.Sleep(2 * time.Millisecond)
			if e.customFault == "read-error-once" {
				e.pipe.ClearReadError()
			}
			blocked = append(blocked, "custom-transport-read-failed-before-close")
			if e.gate && w.lingerAfterFault && e.pipe.WaitParkedWriter(300*time.Millisecond) {
				// the writer of the failed channel sits in the transport (which a node does not close while it runs)
				// and the application takes its time - longer than the write timeout - before it closes the node
				time.Sleep(350 * time.Millisecond)
				blocked = append(blocked, "close-long-after-a-custom-transport-failed-with-its-writer-blocked")
			}
		}
	}
	for _, e := range w.eps {
		if e.lateOpen {
			blocked = append(blocked, "open-completes-during-close")
			gate := e.openGate
			time.AfterFunc(3*time.Millisecond, func() { close(gate) })
		}
	}
	dur, cerr := closeNode(n, bound)
	if cerr != nil {
		close(stop)
		return blocked, cerr
	}
	_ = dur
	// writes following the close
	for k := 0; k < 3; k++ {
		done := make(chan struct{})
		go func() {
			defer close(done)
			defer func() {
				if r := recover(); r != nil {
					panicked.Store(fmt.Sprintf("Write* after Close panicked: %v", r))
				}
			}()
			n.WriteMessageAll(&common.MessageDebug{})     //nolint:errcheck
			n.WriteFrameExcept(nil, gen1(1, k))           //nolint:errcheck
			n.WriteMessageTo(nil, &common.MessageDebug{}) //nolint:errcheck
		}()
		select {
		case <-done:
		case <-time.After(bound):
			close(stop)
			return blocked, fmt.Errorf("a Write* call issued after Close did not return within %v", bound)
		}
	}
	close(stop)
	joined := make(chan struct{})
	go func() { wg.Wait(); close(joined) }()
	select {
	case <-joined:
	case <-time.After(bound):
		return blocked, fmt.Errorf("a Write* call racing with Close did not return within %v", bound)
	}
	if p := panicked.Load(); p != nil {
		return blocked, fmt.Errorf("%s", p.(string))
	}
	// events channel closed
	if rec != nil {
		// the consumer may pause itself once more while it handles its last event: keep resuming
		ended := false
		for deadline := time.Now().Add(bound); !ended && time.Now().Before(deadline); {
			rec.Resume()
			ended = rec.WaitClosed(20 * time.Millisecond)
		}
		if !ended {
			return blocked, fmt.Errorf("ranging over Events() did not end after Close")
		}
	} else {
		ended := make(chan struct{})
		go func() {
			for range n.Events() {
			}
			close(ended)
		}()
		select {
		case <-ended:
		case <-time.After(bound):
			return blocked, fmt.Errorf("Events() is not closed after Close (no consumer had been attached)")
		}
	}
	// goroutines
	if left := sim.WaitNoLibGoroutines(3 * time.Second); len(left) > 0 {
		return blocked, fmt.Errorf("%d goroutine(s) started by the library are still alive after Close returned:\n%s", len(left), strings.Join(left, "\n\n"))
	}
	// resources
	for i, e := range w.eps {
		switch e.kind {
		case "custom":
			if c := e.pipe.CloseCount(); c != 1 {
				return blocked, fmt.Errorf("endpoint %d: custom transport closed %d times, want exactly once", i, c)
			}
		case "tcps", "udps", "bcast":
			ok := false
			for k := 0; k < 400 && !ok; k++ {
				ok = sim.CanBind(e.port)
				if !ok {
					time.Sleep(5 * time.Millisecond)
				}
			}
			if !ok {
				return blocked, fmt.Errorf("endpoint %d: port %d cannot be bound again after Close", i, e.port)
			}
			if e.kind == "tcps" {
				for pi, p := range e.peerConns {
					if !p.WaitRxEnd(bound) {
						return blocked, fmt.Errorf("endpoint %d: accepted connection of peer %d still open after Close", i, pi)
					}
				}
			}
		case "tcpc":
			e.mu.Lock()
			acc := append([]*sim.Peer(nil), e.accepted...)
			e.mu.Unlock()
			for _, p := range acc {
				if !p.WaitRxEnd(bound) {
					return blocked, fmt.Errorf("endpoint %d: client connection still open after Close", i)
				}
			}
		case "serial":
			e.mu.Lock()
			ps := append([]*sim.Pipe(nil), e.allPipes...)
			e.mu.Unlock()
			for k, p := range ps {
				if p.CloseCount() < 1 {
					return blocked, fmt.Errorf("endpoint %d: serial device handle %d of %d (opened by the node) is still open after Close returned", i, k, len(ps))
				}
			}
		}
	}
	return blocked, nil
}

// TestC12InitFailure: a node whose initialization fails leaves no listener or goroutine behind.
func TestC12InitFailure(t *testing.T) {
	rec := evid.New(t, "C12", "endpoint lists whose j-th element cannot be initialized (TCP/UDP port already bound, malformed address, serial device that does not open) after 0..3 good endpoints: Initialize must fail, no library goroutine may remain, every port of the earlier endpoints must be bindable again, earlier custom transports closed at most once; non-trivial = at least one good endpoint before the failing one; distinct by hash of the endpoint list")
	rec.Require("fail-after-good", "busy-tcp", "busy-udp", "bad-address", "serial-missing", "odd-broadcast-port", "odd-settings")
	evid.Check(t, rec, evid.N(300, 1000), func(t *rapid.T) {
		drawNodeInit(t)
		ngood := rapid.IntRange(0, 3).Draw(t, "ngood")
		var endpoints []gomavlib.EndpointConf
		var ports []int
		var pipes []*sim.Pipe
		var desc []string
		for i := 0; i < ngood; i++ {
			k := rapid.SampledFrom([]string{"custom", "tcps", "udps", "tcpc", "udpc", "bcast", "bcast"}).Draw(t, "good")
			desc = append(desc, k)
			switch k {
			case "custom":
				p := sim.NewPipe()
				// the transport's Close may report an error although it did close (EINTR from close(2), a final flush
				// that failed): it has been closed, once
				switch rapid.IntRange(0, 3).Draw(t, "close_reports") {
				case 1:
					p.FailCloseOnce(syscall.EINTR)
				case 2:
					p.FailCloseOnce(&os.PathError{Op: "close", Path: "/dev/ttyS9", Err: syscall.EINTR})
				case 3:
					p.FailCloseOnce(errors.New("final flush failed"))
				}
				pipes = append(pipes, p)
				endpoints = append(endpoints, gomavlib.EndpointCustom{ReadWriteCloser: p})
			case "tcps":
				port := sim.FreePort()
				ports = append(ports, port)
				endpoints = append(endpoints, gomavlib.EndpointTCPServer{Address: sim.Addr(port)})
			case "udps":
				port := sim.FreePort()
				ports = append(ports, port)
				endpoints = append(endpoints, gomavlib.EndpointUDPServer{Address: sim.Addr(port)})
			case "bcast":
				port := sim.FreePort()
				ports = append(ports, port)
				endpoints = append(endpoints, gomavlib.EndpointUDPBroadcast{BroadcastAddress: fmt.Sprintf("127.255.255.255:%d", sim.FreePort()), LocalAddress: sim.Addr(port)})
			case "tcpc":
				endpoints = append(endpoints, gomavlib.EndpointTCPClient{Address: sim.Addr(sim.FreePort())})
			case "udpc":
				endpoints = append(endpoints, gomavlib.EndpointUDPClient{Address: sim.Addr(sim.FreePort())})
			}
		}
		bad := rapid.SampledFrom([]string{"busy-tcp", "busy-udp", "bad-address", "bad-address-client", "serial-missing", "bad-broadcast", "odd-broadcast-port", "odd-settings"}).Draw(t, "bad")
		desc = append(desc, "FAIL:"+bad)
		var release func()
		oddPort := 0
		switch bad {
		case "busy-tcp":
			port := sim.FreePort()
			l, err := net.Listen("tcp4", sim.Addr(port))
			if err != nil {
				t.Fatalf("BROKEN: %v", err)
			}
			release = func() { l.Close() }
			endpoints = append(endpoints, gomavlib.EndpointTCPServer{Address: sim.Addr(port)})
		case "busy-udp":
			port := sim.FreePort()
			pc, err := net.ListenPacket("udp4", sim.Addr(port))
			if err != nil {
				t.Fatalf("BROKEN: %v", err)
			}
			release = func() { pc.Close() }
			endpoints = append(endpoints, gomavlib.EndpointUDPServer{Address: sim.Addr(port)})
		case "bad-address":
			endpoints = append(endpoints, gomavlib.EndpointTCPServer{Address: "no-port-here"})
		case "bad-address-client":
			endpoints = append(endpoints, gomavlib.EndpointUDPClient{Address: "no-port-here"})
		case "serial-missing":
			endpoints = append(endpoints, gomavlib.EndpointSerial{Device: "/dev/ttyDOESNOTEXIST", Baud: 57600})
		case "bad-broadcast":
			endpoints = append(endpoints, gomavlib.EndpointUDPBroadcast{BroadcastAddress: "256.1.1.1:5600"})
		case "odd-broadcast-port":
			// a local address that binds fine plus a questionable broadcast port: whether this is accepted or
			// refused, the local port must be free again afterwards
			oddPort = sim.FreePort()
			bp := rapid.SampledFrom([]string{"abc", "0", "65536", "-1", "99999"}).Draw(t, "bport")
			endpoints = append(endpoints, gomavlib.EndpointUDPBroadcast{BroadcastAddress: "127.255.255.255:" + bp, LocalAddress: sim.Addr(oddPort)})
		}
		n := &gomavlib.Node{Endpoints: endpoints, Dialect: common.Dialect, OutVersion: gomavlib.V2, OutSystemID: 7}
		oddSettings := bad == "odd-settings"
		if oddSettings {
			// every endpoint is fine, a setting of one of the node's own modules is questionable: whether that is
			// accepted or refused, a refusal must not leave the endpoints (created before the modules) behind
			switch rapid.IntRange(0, 4).Draw(t, "odd_setting") {
			case 0:
				n.HeartbeatSystemType = rapid.SampledFrom([]int{256, 300, -1, 1 << 20}).Draw(t, "hb_type")
			case 1:
				n.HeartbeatAutopilotType = rapid.SampledFrom([]int{256, -1, 70000}).Draw(t, "hb_autopilot")
			case 2:
				n.HeartbeatPeriod = time.Duration(rapid.SampledFrom([]int{1, 7}).Draw(t, "hb_period_ns")) // positive: a negative period is outside what the node documents
			case 3:
				n.StreamRequestEnable, n.StreamRequestFrequency = true, rapid.SampledFrom([]int{-5, 0, 1 << 20}).Draw(t, "sr_freq")
			case 4:
				n.IdleTimeout, n.ReadTimeout, n.WriteTimeout = 1, 1, 1
			}
		}
		err := initNode(&n)
		if release != nil {
			release()
		}
		if err == nil && (oddPort != 0 || oddSettings) {
			// accepted: then Close has to release everything
			if _, cerr := closeNode(n, bound); cerr != nil {
				t.Fatalf("%v: %v", desc, cerr)
			}
			for range n.Events() {
			}
		} else if err == nil {
			closeNode(n, bound) //nolint:errcheck
			t.Fatalf("%v: Initialize succeeded although the last endpoint cannot be initialized", desc)
		}
		if oddPort != 0 {
			ports = append(ports, oddPort)
		}
		if left := sim.WaitNoLibGoroutines(3 * time.Second); len(left) > 0 {
			t.Fatalf("%v: Initialize failed (%v) but %d library goroutine(s) remain:\n%s", desc, err, len(left), strings.Join(left, "\n\n"))
		}
		for _, port := range ports {
			ok := false
			for k := 0; k < 400 && !ok; k++ {
				ok = sim.CanBind(port)
				if !ok {
					time.Sleep(5 * time.Millisecond)
				}
			}
			if !ok {
				t.Fatalf("%v: Initialize failed (%v) but port %d of an earlier endpoint stays bound", desc, err, port)
			}
		}
		if err == nil {
			err = fmt.Errorf("(accepted)")
		}
		for _, p := range pipes {
			if p.CloseCount() > 1 {
				t.Fatalf("%v: custom transport closed %d times", desc, p.CloseCount())
			}
		}
		cls := []string{strings.TrimSuffix(bad, "-client")}
		if ngood > 0 {
			cls = append(cls, "fail-after-good")
		}
		rec.Case(ngood > 0, evid.HashS(fmt.Sprint(desc)), cls...)
		if rec.WantSample("init-failure") {
			rec.Sample("init-failure", map[string]interface{}{"endpoints": desc, "error": err.Error()})
		}
	})
}
