package node

import (
	"context"
	"fmt"
	"net"
	"sync"
	"testing"
	"time"

	gomavlib "github.com/bluenviron/gomavlib/v3"
	"github.com/bluenviron/gomavlib/v3/pkg/dialects/ardupilotmega"
	"pgregory.net/rapid"

	"verifharness/evid"
	"verifharness/sim"
)

// miniDNS answers every A query with the address currently set (TTL 0) and every other query with "no data".
type miniDNS struct {
	pc net.PacketConn
	mu sync.Mutex
	ip net.IP
	n  int
}

func startMiniDNS() (*miniDNS, error) {
	pc, err := net.ListenPacket("udp4", "127.0.0.1:0")
	if err != nil {
		return nil, err
	}
	d := &miniDNS{pc: pc, ip: net.IPv4(127, 0, 0, 1)}
	go func() {
		buf := make([]byte, 1500)
		for {
			nb, addr, err := pc.ReadFrom(buf)
			if err != nil {
				return
			}
			if nb < 17 {
				continue
			}
			q := buf[:nb]
			// question: name (labels) + type + class
			i := 12
			for i < nb && q[i] != 0 {
				i += int(q[i]) + 1
			}
			if i+5 > nb {
				continue
			}
			qtype := int(q[i+1])<<8 | int(q[i+2])
			qend := i + 5
			resp := append([]byte(nil), q[:qend]...)
			resp[2], resp[3] = 0x85, 0x80 // response, authoritative, recursion available, no error
			resp[4], resp[5] = 0, 1
			resp[6], resp[7], resp[8], resp[9], resp[10], resp[11] = 0, 0, 0, 0, 0, 0
			if qtype == 1 {
				d.mu.Lock()
				ip := d.ip.To4()
				d.n++
				d.mu.Unlock()
				resp[7] = 1
				resp = append(resp, 0xC0, 0x0C, 0, 1, 0, 1, 0, 0, 0, 0, 0, 4, ip[0], ip[1], ip[2], ip[3])
			}
			pc.WriteTo(resp, addr) //nolint:errcheck
		}
	}()
	return d, nil
}

func (d *miniDNS) set(ip net.IP) {
	d.mu.Lock()
	d.ip = ip
	d.mu.Unlock()
}

func (d *miniDNS) queries() int {
	d.mu.Lock()
	defer d.mu.Unlock()
	return d.n
}

var dnsMu sync.Mutex

// TestC14NameLeadsElsewhere: a client endpoint is configured with a host name. The machine behind the name is
// replaced (the name now resolves to another address, the old one is gone): after the connection is lost the
// endpoint must come up again - against whatever the configured name stands for at that time.
func TestC14NameLeadsElsewhere(t *testing.T) {
	rec := evid.New(t, "C14", "a TCP client endpoint whose address is a host name, resolved by a name server inside the test (A records with TTL 0; net.DefaultResolver pointed at it for the duration of the case); 1..3 times the serving machine changes between 127.0.0.1 and 127.0.0.2: the old listener and connection are closed, the name now resolves to the other address where a new listener waits; after every change a close event and then a fresh open event must follow within the bound and the new listener must have accepted a connection; non-trivial = always; distinct by hash of the parameters")
	rec.Require("name-resolves-to-another-address-after-the-connection-was-lost")
	c14Hook()
	evid.Check(t, rec, evid.N(4, 20), func(t *rapid.T) {
		drawNodeInit(t)
		moves := rapid.IntRange(1, 3).Draw(t, "moves")
		desc := fmt.Sprintf("moves=%d", moves)
		ok, err := func() (bool, error) {
			var ok bool
			e := watchdog(scenarioLimit, func() error {
				var e2 error
				ok, e2 = runC14Name(moves)
				return e2
			})
			return ok, e
		}()
		if err != nil {
			evid.ReplayNote("C14", "TestC14NameLeadsElsewhere", desc+"\n"+err.Error())
			t.Fatalf("%s\n%v", desc, err)
		}
		var cls []string
		if ok {
			cls = append(cls, "name-resolves-to-another-address-after-the-connection-was-lost")
		}
		rec.Case(ok, evid.HashS(desc), cls...)
		if rec.WantSample("name") {
			rec.Sample("name", desc)
		}
	})
}

func runC14Name(moves int) (bool, error) {
	dnsMu.Lock()
	defer dnsMu.Unlock()
	dns, err := startMiniDNS()
	if err != nil {
		return false, fmt.Errorf("BROKEN: name server: %v", err)
	}
	defer dns.pc.Close()
	saved := net.DefaultResolver
	net.DefaultResolver = &net.Resolver{PreferGo: true, Dial: func(ctx context.Context, network, address string) (net.Conn, error) {
		var d net.Dialer
		return d.DialContext(ctx, "udp4", dns.pc.LocalAddr().String())
	}}
	defer func() { net.DefaultResolver = saved }()
	ips := []net.IP{net.IPv4(127, 0, 0, 1), net.IPv4(127, 0, 0, 2)}
	port := sim.FreePort()
	listen := func(ip net.IP) (net.Listener, error) {
		return net.Listen("tcp4", fmt.Sprintf("%s:%d", ip, port))
	}
	cur := 0
	l, err := listen(ips[cur])
	if err != nil {
		return false, fmt.Errorf("BROKEN: listen: %v", err)
	}
	defer func() { l.Close() }()
	if probe, perr := listen(ips[1]); perr != nil {
		return false, fmt.Errorf("BROKEN: cannot listen on 127.0.0.2: %v", perr)
	} else {
		probe.Close()
	}
	n := &gomavlib.Node{Endpoints: []gomavlib.EndpointConf{gomavlib.EndpointTCPClient{Address: fmt.Sprintf("gcs.verif.test.:%d", port)}},
		Dialect: ardupilotmega.Dialect, OutVersion: gomavlib.V2, OutSystemID: 9, HeartbeatDisable: true, ReadTimeout: 500 * time.Millisecond}
	if err := initNode(&n); err != nil {
		return false, fmt.Errorf("BROKEN: %v", err)
	}
	rec := sim.StartRecorder(n, sim.Pacing{Kind: "fast"}, nil)
	defer func() {
		closeNode(n, bound) //nolint:errcheck
		rec.WaitClosed(bound)
	}()
	count := func(open bool) func([]sim.Rec) int {
		return func(recs []sim.Rec) int {
			k := 0
			for _, e := range lifecycle(recs) {
				if e.open == open {
					k++
				}
			}
			return k
		}
	}
	accept := func(l net.Listener) (net.Conn, error) {
		l.(*net.TCPListener).SetDeadline(time.Now().Add(bound)) //nolint:errcheck
		return l.Accept()
	}
	conn, err := accept(l)
	if err != nil {
		return false, fmt.Errorf("the client (address given as a host name) never connected to %v: %v (name server answered %d queries)", ips[cur], err, dns.queries())
	}
	if !rec.WaitFor(bound, func(r []sim.Rec) bool { return count(true)(r) >= 1 }) {
		conn.Close()
		return false, fmt.Errorf("connection accepted but no open event")
	}
	for m := 1; m <= moves; m++ {
		next := 1 - cur
		l2, err := listen(ips[next])
		if err != nil {
			conn.Close()
			return false, fmt.Errorf("BROKEN: listen on %v: %v", ips[next], err)
		}
		dns.set(ips[next])
		conn.Close()
		l.Close()
		l, cur = l2, next
		if !rec.WaitFor(bound, func(r []sim.Rec) bool { return count(false)(r) >= m }) {
			return false, fmt.Errorf("move %d: the peer closed the connection but no close event arrived", m)
		}
		conn, err = accept(l)
		if err != nil {
			return false, fmt.Errorf("move %d: the host name of the endpoint now resolves to %v, where a server is waiting (the old address %v no longer answers); the client did not connect there within %v after it had lost its connection (name server: %d queries so far)", m, ips[cur], ips[1-cur], bound, dns.queries())
		}
		if !rec.WaitFor(bound, func(r []sim.Rec) bool { return count(true)(r) >= m+1 }) {
			conn.Close()
			return false, fmt.Errorf("move %d: connection accepted at the new address but no open event", m)
		}
	}
	conn.Close()
	if err := checkBrackets(rec.Snapshot()); err != nil {
		return false, err
	}
	return true, nil
}
