package node

import (
	"fmt"
	"io"
	"net"
	"sync/atomic"
	"testing"
	"time"

	gomavlib "github.com/bluenviron/gomavlib/v3"
	"github.com/bluenviron/gomavlib/v3/pkg/dialects/ardupilotmega"
	"pgregory.net/rapid"

	"verifharness/evid"
	"verifharness/ref"
	"verifharness/sim"
)

// TestC06NodeIncoming: a node with an incoming key delivers only validly signed frames, whatever its
// outgoing version, outgoing key or dialect are.
func TestC06NodeIncoming(t *testing.T) {
	rec := evid.New(t, "C06", "node level, incoming side: nodes with an incoming key and every combination of outgoing version {1,2}, outgoing key {none, same, other} and dialect {none, ardupilotmega} receive generated sequences of v1 frames, unsigned v2 frames, frames signed under another key, frames with a damaged signature and validly signed frames: only the validly signed ones may surface as frame events, all others as parse errors; non-trivial = sequence with at least one rejected and one valid frame; distinct by hash of the sequence and configuration")
	rec.Require("out-v1", "out-v2", "no-dialect", "v1-frame", "unsigned", "other-key", "valid", "endpoint-serial", "endpoint-tcp-server", "endpoint-udp-server", "endpoint-udp-broadcast", "endpoint-tcp-client")
	evid.Check(t, rec, evid.N(150, 600), func(t *rapid.T) {
		drawNodeInit(t)
		key := [32]byte{}
		copy(key[:], rapid.SliceOfN(rapid.Byte(), 32, 32).Draw(t, "key"))
		other := key
		other[rapid.IntRange(0, 31).Draw(t, "kbyte")] ^= 0x10
		outV2 := rapid.Bool().Draw(t, "out_v2")
		outKey := rapid.SampledFrom([]string{"none", "same", "other"}).Draw(t, "out_key")
		withDialect := rapid.Bool().Draw(t, "dialect")
		kinds := rapid.SliceOfN(rapid.SampledFrom([]string{"valid", "valid", "v1-frame", "unsigned", "other-key", "badsig"}), 1, 12).Draw(t, "frames")
		desc := fmt.Sprintf("outV2=%v outKey=%s dialect=%v frames=%v", outV2, outKey, withDialect, kinds)
		// the key is the node's: it guards every kind of endpoint alike
		epKind := rapid.SampledFrom([]string{"custom", "custom", "serial", "tcp-server", "udp-server", "udp-broadcast", "tcp-client"}).Draw(t, "endpoint")
		desc += " endpoint=" + epKind
		p := sim.NewPipe()
		var ep gomavlib.EndpointConf = gomavlib.EndpointCustom{ReadWriteCloser: p}
		port := 0
		var ln net.Listener
		switch epKind {
		case "serial":
			dev := fmt.Sprintf("/dev/ttyC06_%d", atomic.AddInt64(&serialCounter, 1))
			opens := int64(0)
			serialDevices.Store(dev, func() (io.ReadWriteCloser, error) {
				if atomic.AddInt64(&opens, 1) == 1 {
					return sim.NewPipe(), nil // the endpoint opens the device once to see that it exists, and closes it
				}
				return p, nil
			})
			defer serialDevices.Delete(dev)
			ep = gomavlib.EndpointSerial{Device: dev, Baud: 57600}
		case "tcp-server":
			port = sim.FreePort()
			ep = gomavlib.EndpointTCPServer{Address: sim.Addr(port)}
		case "udp-server":
			port = sim.FreePort()
			ep = gomavlib.EndpointUDPServer{Address: sim.Addr(port)}
		case "udp-broadcast":
			port = sim.FreePort()
			ep = gomavlib.EndpointUDPBroadcast{BroadcastAddress: fmt.Sprintf("127.255.255.255:%d", sim.FreePort()), LocalAddress: sim.Addr(port)}
		case "tcp-client":
			port = sim.FreePort()
			var lerr error
			if ln, lerr = net.Listen("tcp4", sim.Addr(port)); lerr != nil {
				t.Skip("port taken")
			}
			defer ln.Close()
			ep = gomavlib.EndpointTCPClient{Address: sim.Addr(port)}
		}
		n := &gomavlib.Node{Endpoints: []gomavlib.EndpointConf{ep}, OutVersion: gomavlib.V1,
			OutSystemID: 5, HeartbeatDisable: true, InKey: keyOf(&key)}
		if outV2 {
			n.OutVersion = gomavlib.V2
			switch outKey {
			case "same":
				n.OutKey = keyOf(&key)
			case "other":
				n.OutKey = keyOf(&other)
			}
		}
		if withDialect {
			n.Dialect = ardupilotmega.Dialect
		}
		if err := initNode(&n); err != nil {
			t.Fatalf("BROKEN: %v (%s)", err, desc)
		}
		r := sim.StartRecorder(n, sim.Pacing{Kind: "fast"}, nil)
		var peer *sim.Peer
		if ln != nil {
			ln.(*net.TCPListener).SetDeadline(time.Now().Add(bound)) //nolint:errcheck
			c, aerr := ln.Accept()
			if aerr != nil {
				closeNode(n, bound) //nolint:errcheck
				t.Fatalf("%s: the client endpoint did not connect within %v: %v", desc, bound, aerr)
			}
			peer = sim.WrapConn(c)
			defer peer.Close()
		} else if port != 0 {
			var derr error
			if peer, derr = sim.Dial(map[string]string{"tcp-server": "tcp4", "udp-server": "udp4", "udp-broadcast": "udp4"}[epKind], sim.Addr(port)); derr != nil {
				t.Fatalf("BROKEN: dial: %v", derr)
			}
			defer peer.Close()
		}
		feed := func(b []byte) {
			if peer != nil {
				peer.Send(b) //nolint:errcheck
				return
			}
			p.Feed(b)
		}
		ts := uint64(7000000)
		var want []int
		for i, k := range kinds {
			ts += 10
			var f ref.Frame
			switch k {
			case "valid":
				f = tagged(1, i, "raw", true, &key, ts)
				want = append(want, i)
			case "v1-frame":
				f = tagged(1, i, "raw", false, nil, 0)
			case "unsigned":
				f = tagged(1, i, "raw", true, nil, 0)
			case "other-key":
				f = tagged(1, i, "raw", true, &other, ts)
			case "badsig":
				f = tagged(1, i, "raw", true, &key, ts)
				f.Sig[i%6] ^= 0x80
			}
			feed(f.Bytes())
		}
		ok := r.WaitFor(bound, func(recs []sim.Rec) bool {
			k := 0
			for _, e := range recs {
				switch e.Ev.(type) {
				case *gomavlib.EventFrame, *gomavlib.EventParseError:
					k++
				}
			}
			return k >= len(kinds)
		})
		time.Sleep(time.Millisecond)
		closeNode(n, bound) //nolint:errcheck
		r.WaitClosed(bound)
		var got []int
		for _, e := range r.Snapshot() {
			if fe, isF := e.Ev.(*gomavlib.EventFrame); isF {
				_, idx, okid := identify(fe.Frame)
				if !okid {
					t.Fatalf("%s: unknown frame surfaced", desc)
				}
				got = append(got, idx)
			}
		}
		if fmt.Sprint(got) != fmt.Sprint(want) {
			evid.ReplayNote("C06", "TestC06NodeIncoming", fmt.Sprintf("%s: delivered %v, validly signed %v", desc, got, want))
			t.Fatalf("%s: frame events for input positions %v, only the validly signed frames at positions %v may surface (incoming key configured)", desc, got, want)
		}
		if !ok {
			t.Fatalf("%s: not every input frame produced an event", desc)
		}
		cls := []string{"out-v1"}
		if outV2 {
			cls = []string{"out-v2"}
		}
		cls = append(cls, "endpoint-"+epKind)
		if !withDialect {
			cls = append(cls, "no-dialect")
		}
		seen := map[string]bool{}
		for _, k := range kinds {
			if !seen[k] {
				seen[k] = true
				cls = append(cls, k)
			}
		}
		rec.Case(len(want) > 0 && len(want) < len(kinds), evid.HashS(desc), cls...)
		rec.Sample("incoming", desc)
	})
}
