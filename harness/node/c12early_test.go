package node

import (
	"errors"
	"fmt"
	"io"
	"net"
	"os"
	"runtime"
	"strings"
	"sync"
	"sync/atomic"
	"syscall"
	"testing"
	"time"

	gomavlib "github.com/bluenviron/gomavlib/v3"
	"github.com/bluenviron/gomavlib/v3/pkg/dialects/ardupilotmega"
	"pgregory.net/rapid"

	"verifharness/evid"
	"verifharness/sim"
)

// TestC12CloseRightAfterInitialize: Close may come before anything the node started has had a chance to run - an
// application that initializes a node and finds a reason to stop in the next statement. Initialize only starts the
// routines that open the channels; with one processor (or a busy machine) Close gets there first. Whatever the order,
// Close returns, every custom transport has been closed exactly once when it does, no library goroutine stays.
func TestC12CloseRightAfterInitialize(t *testing.T) {
	rec := evid.New(t, "C12", "30 rounds per case of Initialize immediately followed by Close on a node with 1..4 custom transports (optionally a TCP server and a UDP server endpoint as well), with 0..3 scheduler yields in between, on 1, 2 or all processors, events not consumed or consumed by a goroutine: Close returns within the bound, each custom transport was closed exactly once at that moment, Events() is closed, no library goroutine remains, ports can be bound again; ten rounds on one processor without a yield, ten on all processors, ten as drawn; non-trivial = always; distinct by hash of the parameters")
	rec.Require("one-processor-no-yield", "all-processors")
	evid.Check(t, rec, evid.N(10, 50), func(t *rapid.T) {
		drawNodeInit(t)
		procsDrawn := rapid.SampledFrom([]int{1, 2, 4, 0}).Draw(t, "processors")
		yieldsDrawn := rapid.IntRange(0, 3).Draw(t, "yields")
		ncustom := rapid.IntRange(1, 4).Draw(t, "custom_transports")
		servers := rapid.Bool().Draw(t, "tcp_and_udp_server_too")
		consume := rapid.Bool().Draw(t, "events_consumed")
		serialToo := rapid.IntRange(0, 2).Draw(t, "serial_endpoint_too") > 0
		clientToo := rapid.IntRange(0, 2).Draw(t, "tcp_client_endpoint_too") > 0
		// what the transports' Close reports (it closes in every case): nothing, EINTR, EINTR inside a PathError, another error
		closeReports := rapid.IntRange(0, 3).Draw(t, "close_reports")
		desc0 := fmt.Sprintf("customTransports=%d servers=%v eventsConsumed=%v serialEndpointToo=%v tcpClientEndpointToo=%v closeReports=%d drawn: processors=%d yields=%d", ncustom, servers, consume, serialToo, clientToo, closeReports, procsDrawn, yieldsDrawn)
		// every case: ten rounds on one processor without a yield, ten on all processors, ten as drawn
		for round := 0; round < 30; round++ {
			procs, yields := procsDrawn, yieldsDrawn
			switch round / 10 {
			case 0:
				procs, yields = 1, 0
			case 1:
				procs = 0
			}
			desc := fmt.Sprintf("processors=%d (0 = all) yields=%d %s", procs, yields, desc0)
			restore := func() {}
			if procs > 0 {
				old := runtime.GOMAXPROCS(procs)
				restore = func() { runtime.GOMAXPROCS(old) }
			}
			pipes := make([]*sim.Pipe, ncustom)
			var endpoints []gomavlib.EndpointConf
			for i := range pipes {
				pipes[i] = sim.NewPipe()
				switch closeReports {
				case 1:
					pipes[i].FailCloseOnce(syscall.EINTR)
				case 2:
					pipes[i].FailCloseOnce(&os.PathError{Op: "close", Path: "/dev/ttyS9", Err: syscall.EINTR})
				case 3:
					pipes[i].FailCloseOnce(errors.New("final flush failed"))
				}
				endpoints = append(endpoints, gomavlib.EndpointCustom{ReadWriteCloser: pipes[i]})
			}
			// a serial endpoint as well (hooked opener): every open of the device is noted with its time - a node that
			// has been closed does not open devices any more
			var openTimes []time.Time
			var openMu sync.Mutex
			if serialToo {
				dev := fmt.Sprintf("/dev/ttyC12E_%d", atomic.AddInt64(&serialCounter, 1))
				serialDevices.Store(dev, func() (io.ReadWriteCloser, error) {
					openMu.Lock()
					openTimes = append(openTimes, time.Now())
					openMu.Unlock()
					return sim.NewPipe(), nil
				})
				defer serialDevices.Delete(dev)
				endpoints = append(endpoints, gomavlib.EndpointSerial{Device: dev, Baud: 57600})
			}
			// a TCP client endpoint towards a listener of the harness: whatever connection the node makes - also one
			// that completes while Close is under way - has ended on the listener's side once Close is done
			var cl net.Listener
			var accepted []*sim.Peer
			var accMu sync.Mutex
			accDone := make(chan struct{})
			if clientToo {
				cport := sim.FreePort()
				var lerr error
				if cl, lerr = net.Listen("tcp4", sim.Addr(cport)); lerr != nil {
					t.Fatalf("BROKEN: listen: %v", lerr)
				}
				go func() {
					defer close(accDone)
					for {
						c, aerr := cl.Accept()
						if aerr != nil {
							return
						}
						accMu.Lock()
						accepted = append(accepted, sim.WrapConn(c))
						accMu.Unlock()
					}
				}()
				endpoints = append(endpoints, gomavlib.EndpointTCPClient{Address: sim.Addr(cport)})
			} else {
				close(accDone)
			}
			var ports []int
			if servers {
				ports = []int{sim.FreePort(), sim.FreePort()}
				endpoints = append(endpoints, gomavlib.EndpointTCPServer{Address: sim.Addr(ports[0])}, gomavlib.EndpointUDPServer{Address: sim.Addr(ports[1])})
			}
			n := &gomavlib.Node{Endpoints: endpoints, Dialect: ardupilotmega.Dialect, OutVersion: gomavlib.V2, OutSystemID: nodeSys, HeartbeatDisable: round%2 == 0}
			if err := initNode(&n); err != nil {
				t.Fatalf("BROKEN: %v", err)
			}
			for y := 0; y < yields; y++ {
				runtime.Gosched()
			}
			drained := make(chan struct{})
			if consume {
				go func() {
					defer close(drained)
					for range n.Events() {
					}
				}()
			}
			fail := func(format string, a ...interface{}) {
				restore()
				msg := fmt.Sprintf("%s, round %d: ", desc, round) + fmt.Sprintf(format, a...)
				evid.ReplayNote("C12", "TestC12CloseRightAfterInitialize", msg)
				t.Fatalf("%s", msg)
			}
			if _, err := closeNode(n, bound); err != nil {
				fail("%v", err)
			}
			closedAt := time.Now()
			for i, p := range pipes {
				if c := p.CloseCount(); c != 1 {
					fail("Close was called right after Initialize and has returned: custom transport %d has been closed %d times, want exactly once", i, c)
				}
			}
			if consume {
				select {
				case <-drained:
				case <-time.After(bound):
					fail("Events() was not closed within %v after Close returned", bound)
				}
			} else {
				to := time.After(bound)
			loop:
				for {
					select {
					case _, ok := <-n.Events():
						if !ok {
							break loop
						}
					case <-to:
						fail("Events() was not closed within %v after Close returned", bound)
					}
				}
			}
			if clientToo {
				time.Sleep(3 * time.Millisecond) // connections made before Close returned get accepted
				cl.Close()
				<-accDone
				accMu.Lock()
				acc := append([]*sim.Peer(nil), accepted...)
				accMu.Unlock()
				for k, p := range acc {
					if !p.WaitRxEnd(2 * time.Second) {
						for _, q := range acc {
							q.Close()
						}
						fail("connection %d of %d that the node's TCP client endpoint made is still open on the listener's side 2 s after Close returned", k, len(acc))
					}
				}
				for _, q := range acc {
					q.Close()
				}
			}
			if serialToo {
				time.Sleep(2 * time.Millisecond)
				runtime.Gosched()
				openMu.Lock()
				for _, ot := range openTimes {
					if ot.After(closedAt) {
						openMu.Unlock()
						fail("the serial device was opened %v after Close had returned: something the node started was still running", ot.Sub(closedAt))
					}
				}
				openMu.Unlock()
			}
			if left := sim.WaitNoLibGoroutines(3 * time.Second); len(left) > 0 {
				fail("%d library goroutine(s) remain after Close:\n%s", len(left), strings.Join(left, "\n\n"))
			}
			for i, p := range pipes {
				if c := p.CloseCount(); c != 1 {
					fail("custom transport %d closed %d times once everything has ended, want exactly once", i, c)
				}
			}
			for _, port := range ports {
				ok := false
				for k := 0; k < 400 && !ok; k++ {
					if ok = sim.CanBind(port); !ok {
						time.Sleep(5 * time.Millisecond)
					}
				}
				if !ok {
					fail("port %d stays bound after Close", port)
				}
			}
			restore()
		}
		rec.Case(true, evid.HashS(desc0), "one-processor-no-yield", "all-processors")
		if rec.WantSample("early-close") {
			rec.Sample("early-close", desc0)
		}
	})
}
