package node

import (
	"fmt"
	"testing"

	gomavlib "github.com/bluenviron/gomavlib/v3"
	"github.com/bluenviron/gomavlib/v3/pkg/dialects/ardupilotmega"
	"github.com/bluenviron/gomavlib/v3/pkg/dialects/common"
	"pgregory.net/rapid"

	"verifharness/evid"
	"verifharness/ref"
	"verifharness/sim"
)

// TestC13PartialRecovery: only "items beyond the backlog" may be discarded. A link stalls until its backlog has
// overflowed, then accepts k writes and stalls again: k places of the backlog are free again. The next k-2 (or
// fewer) items fit and must all be kept, in order - however the channel got into this state.
func TestC13PartialRecovery(t *testing.T) {
	rec := evid.New(t, "C13", "2..3 custom transports; the victim's transport blocks, 70..120 items overflow its 64-item backlog (the healthy links receive all of them), then it accepts exactly k = 6..30 writes and blocks again with a writer inside; k-2-s items (s = 0..2) are written - they fit into the freed places; then the transport recovers: the victim's wire must carry every one of them, in order, after the kept items of the overflow; non-trivial = always; distinct by hash of the parameters")
	rec.Require("backlog-between-half-full-and-full-after-a-partial-recovery")
	evid.Check(t, rec, evid.N(40, 200), func(t *rapid.T) {
		drawNodeInit(t)
		nch := rapid.IntRange(2, 3).Draw(t, "nch")
		over := rapid.IntRange(70, 120).Draw(t, "items_during_the_first_stall")
		k := rapid.IntRange(6, 30).Draw(t, "writes_accepted_in_between")
		m := k - 2 - rapid.IntRange(0, 2).Draw(t, "slack")
		desc := fmt.Sprintf("channels=%d overflowItems=%d acceptedInBetween=%d thenWritten=%d", nch, over, k, m)
		if err := watchdog(scenarioLimit, func() error { return runC13Partial(nch, over, k, m) }); err != nil {
			evid.ReplayNote("C13", "TestC13PartialRecovery", desc+"\n"+err.Error())
			t.Fatalf("%s\n%v", desc, err)
		}
		rec.Case(true, evid.HashS(desc), "backlog-between-half-full-and-full-after-a-partial-recovery")
		if rec.WantSample("partial") {
			rec.Sample("partial", desc)
		}
	})
}

func runC13Partial(nch, over, k, m int) error {
	pipes := make([]*sim.Pipe, nch)
	var endpoints []gomavlib.EndpointConf
	for i := range pipes {
		pipes[i] = sim.NewPipe()
		endpoints = append(endpoints, gomavlib.EndpointCustom{ReadWriteCloser: pipes[i]})
	}
	n := &gomavlib.Node{Endpoints: endpoints, Dialect: ardupilotmega.Dialect, OutVersion: gomavlib.V2, OutSystemID: nodeSys, HeartbeatDisable: true}
	if err := initNode(&n); err != nil {
		return fmt.Errorf("BROKEN: %v", err)
	}
	rec := sim.StartRecorder(n, sim.Pacing{Kind: "fast"}, nil)
	defer func() {
		pipes[0].UnblockWrites()
		closeNode(n, bound) //nolint:errcheck
		rec.WaitClosed(bound)
	}()
	chans, ok := openCustom(n, rec, pipes)
	if !ok {
		return fmt.Errorf("BROKEN: channels did not open")
	}
	victim := pipes[0]
	victim.BlockWrites()
	counter := 0
	for i := 0; i < over; i++ {
		if err := n.WriteMessageAll(&common.MessageDebug{TimeBootMs: uint32(counter), Ind: 4}); err != nil {
			return fmt.Errorf("write refused: %v", err)
		}
		counter++
		if !pipes[1].WaitWrites(counter-20, bound) {
			return fmt.Errorf("the healthy link stopped receiving while link 0 is blocked")
		}
	}
	if !pipes[1].WaitWrites(counter, bound) || !victim.WaitParkedWriter(bound) {
		return fmt.Errorf("BROKEN: first stall not reached")
	}
	// a moment of recovery: exactly k writes pass, then a writer is inside the transport again
	victim.AllowWrites(k)
	if !victim.WaitWrites(k, bound) || !victim.WaitParkedWriter(bound) {
		return fmt.Errorf("the link accepted %d writes again, %d reached it within %v", k, victim.NumWrites(), bound)
	}
	first := counter
	for i := 0; i < m; i++ {
		if err := n.WriteMessageTo(chans[0], &common.MessageDebug{TimeBootMs: uint32(counter), Ind: 4}); err != nil {
			return fmt.Errorf("write refused: %v", err)
		}
		counter++
	}
	// full recovery; a marker behind everything tells when the backlog is out
	victim.UnblockWrites()
	drained := false
	for try := 0; try < 80 && !drained; try++ {
		n.WriteMessageTo(chans[0], &common.MessageSystemTime{TimeUnixUsec: 777}) //nolint:errcheck
		for w := 0; w < 250 && !drained; w++ {
			ws := victim.Writes()
			if len(ws) > 0 {
				if f, _, err := ref.Parse(ws[len(ws)-1]); err == nil && f.ID == 2 {
					drained = true
				}
			}
			if !drained {
				sleepShort()
			}
		}
	}
	if !drained {
		return fmt.Errorf("after the link recovered nothing written to it reached the wire")
	}
	cs, err := counters(victim)
	if err != nil {
		return err
	}
	for i := 1; i < len(cs); i++ {
		if cs[i] <= cs[i-1] {
			return fmt.Errorf("order not preserved on the recovered link: %d after %d", cs[i], cs[i-1])
		}
	}
	have := map[int]bool{}
	for _, c := range cs {
		have[c] = true
	}
	var lost []int
	for c := first; c < first+m; c++ {
		if !have[c] {
			lost = append(lost, c)
		}
	}
	if len(lost) > 0 {
		return fmt.Errorf("the link's backlog had overflowed, then %d writes went through and freed as many places; the %d items written next (%d..%d) fit into them, but %d of them never reached the link: %v (its wire: %d items, the last ones %v)", k, m, first, first+m-1, len(lost), lost, len(cs), cs[maxI(0, len(cs)-12):])
	}
	return nil
}

func maxI(a, b int) int {
	if a > b {
		return a
	}
	return b
}

// TestC13ManyStalled: isolation does not depend on how many links are in trouble. All links but one (4..6 of them)
// stall at once, each with its backlog full; the remaining one must still receive every broadcast, in order.
func TestC13ManyStalled(t *testing.T) {
	rec := evid.New(t, "C13", "5..7 custom transports of which all but one (4..6) stop accepting writes at the same time; 150..400 items are written with WriteMessageAll / WriteFrameAll / WriteMessageExcept(nil) while they are blocked (each backlog overflows); the healthy link must receive every item exactly once and in order, the writes must return promptly; afterwards the stalled links recover and each delivers an order-preserving subsequence; non-trivial = always; distinct by hash of the parameters")
	rec.Require("four-or-more-links-stalled-at-once")
	evid.Check(t, rec, evid.N(25, 120), func(t *rapid.T) {
		drawNodeInit(t)
		nch := rapid.IntRange(5, 7).Draw(t, "nch")
		items := rapid.IntRange(150, 400).Draw(t, "items")
		healthy := rapid.IntRange(0, nch-1).Draw(t, "healthy")
		desc := fmt.Sprintf("channels=%d healthy=%d items=%d", nch, healthy, items)
		if err := watchdog(scenarioLimit, func() error { return runC13ManyStalled(nch, healthy, items) }); err != nil {
			evid.ReplayNote("C13", "TestC13ManyStalled", desc+"\n"+err.Error())
			t.Fatalf("%s\n%v", desc, err)
		}
		rec.Case(true, evid.HashS(desc), "four-or-more-links-stalled-at-once")
		if rec.WantSample("many-stalled") {
			rec.Sample("many-stalled", desc)
		}
	})
}

func runC13ManyStalled(nch, healthy, items int) error {
	pipes := make([]*sim.Pipe, nch)
	var endpoints []gomavlib.EndpointConf
	for i := range pipes {
		pipes[i] = sim.NewPipe()
		endpoints = append(endpoints, gomavlib.EndpointCustom{ReadWriteCloser: pipes[i]})
	}
	n := &gomavlib.Node{Endpoints: endpoints, Dialect: ardupilotmega.Dialect, OutVersion: gomavlib.V2, OutSystemID: nodeSys, HeartbeatDisable: true}
	if err := initNode(&n); err != nil {
		return fmt.Errorf("BROKEN: %v", err)
	}
	rec := sim.StartRecorder(n, sim.Pacing{Kind: "fast"}, nil)
	defer func() {
		for _, p := range pipes {
			p.UnblockWrites()
		}
		closeNode(n, bound) //nolint:errcheck
		rec.WaitClosed(bound)
	}()
	if _, ok := openCustom(n, rec, pipes); !ok {
		return fmt.Errorf("BROKEN: channels did not open")
	}
	for i, p := range pipes {
		if i != healthy {
			p.BlockWrites()
		}
	}
	for c := 0; c < items; c++ {
		var err error
		switch c % 3 {
		case 0:
			err = n.WriteMessageAll(&common.MessageDebug{TimeBootMs: uint32(c), Ind: 5})
		case 1:
			fr, _ := fwdFrameCounter(c)
			err = n.WriteFrameAll(fr)
		case 2:
			err = n.WriteMessageExcept(nil, &common.MessageDebug{TimeBootMs: uint32(c), Ind: 5})
		}
		if err != nil {
			return fmt.Errorf("write %d refused: %v", c, err)
		}
		if !pipes[healthy].WaitWrites(c+1-20, bound) {
			cs, _ := allCounters(pipes[healthy])
			return fmt.Errorf("%d of %d links are blocked with full backlogs; the healthy link %d stopped receiving: it has %d of the %d items written so far (last ones %v)", nch-1, nch, healthy, len(cs), c+1, cs[maxI(0, len(cs)-5):])
		}
	}
	if !pipes[healthy].WaitWrites(items, bound) {
		cs, _ := allCounters(pipes[healthy])
		return fmt.Errorf("%d of %d links are blocked with full backlogs; the healthy link %d received %d of %d items", nch-1, nch, healthy, len(cs), items)
	}
	cs, err := allCounters(pipes[healthy])
	if err != nil {
		return err
	}
	if len(cs) != items {
		return fmt.Errorf("the healthy link carries %d items, %d were written", len(cs), items)
	}
	for i, c := range cs {
		if c != i {
			return fmt.Errorf("the healthy link's item %d carries counter %d", i, c)
		}
	}
	for i, p := range pipes {
		if i == healthy {
			continue
		}
		p.UnblockWrites()
		if !p.WaitWrites(60, bound) {
			return fmt.Errorf("link %d recovered but delivered %d items of its backlog within %v", i, p.NumWrites(), bound)
		}
		vs, err := allCounters(p)
		if err != nil {
			return err
		}
		for k := 1; k < len(vs); k++ {
			if vs[k] <= vs[k-1] {
				return fmt.Errorf("link %d: order not preserved after recovery: %d after %d", i, vs[k], vs[k-1])
			}
		}
	}
	return nil
}
