package node

import (
	"fmt"
	"io"
	"net"
	"os"
	"sync/atomic"
	"testing"
	"time"

	gomavlib "github.com/bluenviron/gomavlib/v3"
	"github.com/bluenviron/gomavlib/v3/pkg/dialects/ardupilotmega"
	"github.com/bluenviron/gomavlib/v3/pkg/dialects/common"
	"pgregory.net/rapid"

	"verifharness/evid"
	"verifharness/ref"
	"verifharness/sim"
)

// TestC13PartialRecovery: only "items beyond the backlog" may be discarded. A link stalls until its backlog has
// overflowed, then accepts k writes and stalls again: k places of the backlog are free again. The next k-2 (or
// fewer) items fit and must all be kept, in order - however the channel got into this state.
func TestC13PartialRecovery(t *testing.T) {
	rec := evid.New(t, "C13", "2..3 custom transports; the victim's transport blocks, 70..120 items overflow its 64-item backlog (the healthy links receive all of them), then it accepts exactly k = 6..30 writes and blocks again with a writer inside; k-2-s items (s = 0..2) are written - they fit into the freed places; then the transport recovers: the victim's wire must carry every one of them, in order, after the kept items of the overflow; non-trivial = always; distinct by hash of the parameters")
	rec.Require("backlog-between-half-full-and-full-after-a-partial-recovery", "stalled-serial-device-with-a-short-write-timeout")
	evid.Check(t, rec, evid.N(40, 200), func(t *rapid.T) {
		drawNodeInit(t)
		nch := rapid.IntRange(2, 3).Draw(t, "nch")
		over := rapid.IntRange(70, 120).Draw(t, "items_during_the_first_stall")
		k := rapid.IntRange(6, 30).Draw(t, "writes_accepted_in_between")
		m := k - 2 - rapid.IntRange(0, 2).Draw(t, "slack")
		desc := fmt.Sprintf("channels=%d overflowItems=%d acceptedInBetween=%d thenWritten=%d", nch, over, k, m)
		partialVictimSerial = rapid.IntRange(0, 2).Draw(t, "stalled_link_is_a_serial_device") == 0
		desc += fmt.Sprintf(" stalledLinkIsSerial=%v", partialVictimSerial)
		err := watchdog(scenarioLimit, func() error { return runC13Partial(nch, over, k, m, 0) })
		serial := partialVictimSerial
		partialVictimSerial = false
		if serial {
			rec.Class("stalled-serial-device-with-a-short-write-timeout", 1)
		}
		if err != nil {
			evid.ReplayNote("C13", "TestC13PartialRecovery", desc+"\n"+err.Error())
			t.Fatalf("%s\n%v", desc, err)
		}
		rec.Case(true, evid.HashS(desc), "backlog-between-half-full-and-full-after-a-partial-recovery")
		if rec.WantSample("partial") {
			rec.Sample("partial", desc)
		}
	})
}

// partialStreamRequests: the node of the next runC13Partial has stream requests enabled (nothing on the links asks for
// any; the queue of a channel is the application's all the same).
var partialStreamRequests bool

// partialVictimSerial: the link that stalls is a serial device (hooked opener) and the node has a write timeout far
// shorter than the stall - a serial port has no write deadline, the write simply takes as long as it takes.
var partialVictimSerial bool

func runC13Partial(nch, over, k, m, how int) error {
	pipes := make([]*sim.Pipe, nch)
	var endpoints []gomavlib.EndpointConf
	for i := range pipes {
		pipes[i] = sim.NewPipe()
		endpoints = append(endpoints, gomavlib.EndpointCustom{ReadWriteCloser: pipes[i]})
	}
	wto := time.Duration(0)
	if partialVictimSerial {
		dev := fmt.Sprintf("/dev/ttyC13P_%d", atomic.AddInt64(&serialCounter, 1))
		opens := int64(0)
		serialDevices.Store(dev, func() (io.ReadWriteCloser, error) {
			if atomic.AddInt64(&opens, 1) == 1 {
				return sim.NewPipe(), nil // the existence check of the endpoint
			}
			return pipes[0], nil
		})
		serialPipeOf.Store(dev, pipes[0])
		defer serialDevices.Delete(dev)
		defer serialPipeOf.Delete(dev)
		endpoints[0] = gomavlib.EndpointSerial{Device: dev, Baud: 57600}
		wto = 30 * time.Millisecond
	}
	n := &gomavlib.Node{Endpoints: endpoints, Dialect: ardupilotmega.Dialect, OutVersion: gomavlib.V2, OutSystemID: nodeSys, HeartbeatDisable: true,
		StreamRequestEnable: partialStreamRequests, WriteTimeout: wto}
	if err := initNode(&n); err != nil {
		return fmt.Errorf("BROKEN: %v", err)
	}
	rec := sim.StartRecorder(n, sim.Pacing{Kind: "fast"}, nil)
	defer func() {
		pipes[0].UnblockWrites()
		closeNode(n, bound) //nolint:errcheck
		rec.WaitClosed(bound)
	}()
	chans, ok := openCustom(n, rec, pipes)
	if !ok {
		return fmt.Errorf("BROKEN: channels did not open")
	}
	victim := pipes[0]
	victim.BlockWrites()
	counter := 0
	// (half of the runs: the application keeps one message value and updates it from write to write, as periodic
	// telemetry code does - what has been handed over is what was in it at that moment)
	reused := &common.MessageDebug{Ind: 4}
	for i := 0; i < over; i++ {
		msg := &common.MessageDebug{TimeBootMs: uint32(counter), Ind: 4}
		if over%2 == 0 {
			reused.TimeBootMs = uint32(counter)
			msg = reused
		}
		if err := n.WriteMessageAll(msg); err != nil {
			return fmt.Errorf("write refused: %v", err)
		}
		counter++
		if !pipes[1].WaitWrites(counter-20, bound) {
			return fmt.Errorf("the healthy link stopped receiving while link 0 is blocked")
		}
	}
	if !pipes[1].WaitWrites(counter, bound) || !victim.WaitParkedWriter(bound) {
		return fmt.Errorf("BROKEN: first stall not reached")
	}
	if wto > 0 {
		time.Sleep(4 * wto) // the device stays busy for several write timeouts
	}
	// a moment of recovery: exactly k writes pass, then a writer is inside the transport again
	victim.AllowWrites(k)
	if !victim.WaitWrites(k, bound) || !victim.WaitParkedWriter(bound) {
		return fmt.Errorf("the link accepted %d writes again, %d reached it within %v", k, victim.NumWrites(), bound)
	}
	first := counter
	for i := 0; i < m; i++ {
		var err error
		msg := &common.MessageDebug{TimeBootMs: uint32(counter), Ind: 4}
		switch how {
		case 0:
			err = n.WriteMessageTo(chans[0], msg)
		case 1:
			err = n.WriteMessageAll(msg)
		case 2:
			err = n.WriteMessageExcept(nil, msg)
		case 3:
			err = n.WriteMessageExcept(chans[1], msg)
		}
		if err != nil {
			return fmt.Errorf("write refused: %v", err)
		}
		counter++
	}
	// full recovery; a marker behind everything tells when the backlog is out
	victim.UnblockWrites()
	drained := false
	for try := 0; try < 80 && !drained; try++ {
		n.WriteMessageTo(chans[0], &common.MessageSystemTime{TimeUnixUsec: 777}) //nolint:errcheck
		for w := 0; w < 250 && !drained; w++ {
			ws := victim.Writes()
			if len(ws) > 0 {
				if f, _, err := ref.Parse(ws[len(ws)-1]); err == nil && f.ID == 2 {
					drained = true
				}
			}
			if !drained {
				sleepShort()
			}
		}
	}
	if !drained {
		return fmt.Errorf("after the link recovered nothing written to it reached the wire")
	}
	cs, err := counters(victim)
	if err != nil {
		return err
	}
	for i := 1; i < len(cs); i++ {
		if cs[i] <= cs[i-1] {
			return fmt.Errorf("order not preserved on the recovered link: %d after %d", cs[i], cs[i-1])
		}
	}
	have := map[int]bool{}
	for _, c := range cs {
		have[c] = true
	}
	// the first 64 items submitted while the link was blocked had room (the queue holds 64)
	var lostEarly []int
	for c := 0; c < 64; c++ {
		if !have[c] {
			lostEarly = append(lostEarly, c)
		}
	}
	if len(lostEarly) > 0 {
		return fmt.Errorf("the link was blocked from the start; of the first 64 items written to all channels meanwhile (the channel's queue holds 64) %d never reached it: %v", len(lostEarly), lostEarly)
	}
	var lost []int
	for c := first; c < first+m; c++ {
		if !have[c] {
			lost = append(lost, c)
		}
	}
	if len(lost) > 0 {
		return fmt.Errorf("the link's backlog had overflowed, then %d writes went through and freed as many places; the %d items written next (%d..%d) fit into them, but %d of them never reached the link: %v (its wire: %d items, the last ones %v)", k, m, first, first+m-1, len(lost), lost, len(cs), cs[maxI(0, len(cs)-12):])
	}
	return nil
}

func maxI(a, b int) int {
	if a > b {
		return a
	}
	return b
}

// TestC13ManyStalled: isolation does not depend on how many links are in trouble. All links but one (4..6 of them)
// stall at once, each with its backlog full; the remaining one must still receive every broadcast, in order.
func TestC13ManyStalled(t *testing.T) {
	rec := evid.New(t, "C13", "5..7 custom transports of which all but one (4..6) stop accepting writes at the same time; 150..400 items are written with WriteMessageAll / WriteFrameAll / WriteMessageExcept(nil) while they are blocked (each backlog overflows); the healthy link must receive every item exactly once and in order, the writes must return promptly; afterwards the stalled links recover and each delivers an order-preserving subsequence; non-trivial = always; distinct by hash of the parameters")
	rec.Require("four-or-more-links-stalled-at-once")
	evid.Check(t, rec, evid.N(25, 120), func(t *rapid.T) {
		drawNodeInit(t)
		nch := rapid.IntRange(5, 7).Draw(t, "nch")
		items := rapid.IntRange(150, 400).Draw(t, "items")
		healthy := rapid.IntRange(0, nch-1).Draw(t, "healthy")
		desc := fmt.Sprintf("channels=%d healthy=%d items=%d", nch, healthy, items)
		if err := watchdog(scenarioLimit, func() error { return runC13ManyStalled(nch, healthy, items) }); err != nil {
			evid.ReplayNote("C13", "TestC13ManyStalled", desc+"\n"+err.Error())
			t.Fatalf("%s\n%v", desc, err)
		}
		rec.Case(true, evid.HashS(desc), "four-or-more-links-stalled-at-once")
		if rec.WantSample("many-stalled") {
			rec.Sample("many-stalled", desc)
		}
	})
}

func runC13ManyStalled(nch, healthy, items int) error {
	pipes := make([]*sim.Pipe, nch)
	var endpoints []gomavlib.EndpointConf
	for i := range pipes {
		pipes[i] = sim.NewPipe()
		endpoints = append(endpoints, gomavlib.EndpointCustom{ReadWriteCloser: pipes[i]})
	}
	n := &gomavlib.Node{Endpoints: endpoints, Dialect: ardupilotmega.Dialect, OutVersion: gomavlib.V2, OutSystemID: nodeSys, HeartbeatDisable: true}
	if err := initNode(&n); err != nil {
		return fmt.Errorf("BROKEN: %v", err)
	}
	rec := sim.StartRecorder(n, sim.Pacing{Kind: "fast"}, nil)
	defer func() {
		for _, p := range pipes {
			p.UnblockWrites()
		}
		closeNode(n, bound) //nolint:errcheck
		rec.WaitClosed(bound)
	}()
	if _, ok := openCustom(n, rec, pipes); !ok {
		return fmt.Errorf("BROKEN: channels did not open")
	}
	for i, p := range pipes {
		if i != healthy {
			p.BlockWrites()
		}
	}
	for c := 0; c < items; c++ {
		var err error
		switch c % 3 {
		case 0:
			err = n.WriteMessageAll(&common.MessageDebug{TimeBootMs: uint32(c), Ind: 5})
		case 1:
			fr, _ := fwdFrameCounter(c)
			err = n.WriteFrameAll(fr)
		case 2:
			err = n.WriteMessageExcept(nil, &common.MessageDebug{TimeBootMs: uint32(c), Ind: 5})
		}
		if err != nil {
			return fmt.Errorf("write %d refused: %v", c, err)
		}
		if !pipes[healthy].WaitWrites(c+1-20, bound) {
			cs, _ := allCounters(pipes[healthy])
			return fmt.Errorf("%d of %d links are blocked with full backlogs; the healthy link %d stopped receiving: it has %d of the %d items written so far (last ones %v)", nch-1, nch, healthy, len(cs), c+1, cs[maxI(0, len(cs)-5):])
		}
	}
	if !pipes[healthy].WaitWrites(items, bound) {
		cs, _ := allCounters(pipes[healthy])
		return fmt.Errorf("%d of %d links are blocked with full backlogs; the healthy link %d received %d of %d items", nch-1, nch, healthy, len(cs), items)
	}
	cs, err := allCounters(pipes[healthy])
	if err != nil {
		return err
	}
	if len(cs) != items {
		return fmt.Errorf("the healthy link carries %d items, %d were written", len(cs), items)
	}
	for i, c := range cs {
		if c != i {
			return fmt.Errorf("the healthy link's item %d carries counter %d", i, c)
		}
	}
	for i, p := range pipes {
		if i == healthy {
			continue
		}
		p.UnblockWrites()
		if !p.WaitWrites(60, bound) {
			return fmt.Errorf("link %d recovered but delivered %d items of its backlog within %v", i, p.NumWrites(), bound)
		}
		vs, err := allCounters(p)
		if err != nil {
			return err
		}
		for k := 1; k < len(vs); k++ {
			if vs[k] <= vs[k-1] {
				return fmt.Errorf("link %d: order not preserved after recovery: %d after %d", i, vs[k], vs[k-1])
			}
		}
	}
	return nil
}

// TestC13PartialWritesDoNotPileUp: a congested link takes a few bytes of every write and then fails it (a write
// deadline on a slow link). Whatever the node does about the rest of such a frame, it must not collect failed
// frames behind the backlog: when the link recovers, at most backlog + 1 old items can still come out of it.
func TestC13PartialWritesDoNotPileUp(t *testing.T) {
	rec := evid.New(t, "C13", "2 custom transports; on the victim every Write takes 1..12 bytes and fails with a deadline error for 200..500 items that are written to it one at a time (each write call awaited, so its backlog stays empty); then the link recovers and 5 markers follow; the byte stream the victim carries after recovery is scanned for whole valid frames: at most 65 items of the congested period may appear, and the stream must not grow beyond what 65 + 5 frames and the torn starts account for; the other link receives every item; non-trivial = always; distinct by hash of the parameters")
	rec.Require("every-write-partly-taken-and-failed")
	evid.Check(t, rec, evid.N(20, 100), func(t *rapid.T) {
		drawNodeInit(t)
		items := rapid.IntRange(200, 500).Draw(t, "items_while_congested")
		take := rapid.IntRange(1, 12).Draw(t, "bytes_taken_per_write")
		desc := fmt.Sprintf("itemsWhileCongested=%d bytesTakenPerWrite=%d", items, take)
		if err := watchdog(scenarioLimit, func() error { return runC13PartialWrites(items, take) }); err != nil {
			evid.ReplayNote("C13", "TestC13PartialWritesDoNotPileUp", desc+"\n"+err.Error())
			t.Fatalf("%s\n%v", desc, err)
		}
		rec.Case(true, evid.HashS(desc), "every-write-partly-taken-and-failed")
		if rec.WantSample("partial-writes") {
			rec.Sample("partial-writes", desc)
		}
	})
}

func runC13PartialWrites(items, take int) error {
	pipes := []*sim.Pipe{sim.NewPipe(), sim.NewPipe()}
	n := &gomavlib.Node{Endpoints: []gomavlib.EndpointConf{gomavlib.EndpointCustom{ReadWriteCloser: pipes[0]}, gomavlib.EndpointCustom{ReadWriteCloser: pipes[1]}},
		Dialect: ardupilotmega.Dialect, OutVersion: gomavlib.V2, OutSystemID: nodeSys, HeartbeatDisable: true}
	if err := initNode(&n); err != nil {
		return fmt.Errorf("BROKEN: %v", err)
	}
	rec := sim.StartRecorder(n, sim.Pacing{Kind: "fast"}, nil)
	defer func() {
		closeNode(n, bound) //nolint:errcheck
		rec.WaitClosed(bound)
	}()
	if _, ok := openCustom(n, rec, pipes); !ok {
		return fmt.Errorf("BROKEN: channels did not open")
	}
	victim := pipes[0]
	victim.SetPartialWrites(take, &net.OpError{Op: "write", Net: "tcp", Err: os.ErrDeadlineExceeded})
	for c := 0; c < items; c++ {
		calls := victim.WriteCalls()
		if err := n.WriteMessageAll(&common.MessageDebug{TimeBootMs: uint32(c), Ind: 6}); err != nil {
			return fmt.Errorf("write refused: %v", err)
		}
		if !victim.WaitWriteCalls(calls+1, bound) || !pipes[1].WaitWrites(c+1, bound) {
			return fmt.Errorf("item %d: the congested link's writer made no write call, or the healthy link did not receive it, within %v", c, bound)
		}
	}
	if victim.NumWrites() != 0 {
		return fmt.Errorf("BROKEN: complete writes on the congested link")
	}
	victim.SetPartialWrites(0, nil)
	for k := 0; k < 5; k++ {
		if err := n.WriteMessageAll(&common.MessageDebug{TimeBootMs: uint32(1000000 + k), Ind: 6}); err != nil {
			return fmt.Errorf("write refused: %v", err)
		}
		if !pipes[1].WaitWrites(items+k+1, bound) {
			return fmt.Errorf("the healthy link did not receive marker %d", k)
		}
		sleepShort()
	}
	// give the victim time to put out whatever it holds, then look at the bytes
	stable, last := 0, -1
	for stable < 40 {
		sleepShort()
		nw := 0
		for _, w := range victim.Writes() {
			nw += len(w)
		}
		if nw == last {
			stable++
		} else {
			stable, last = 0, nw
		}
	}
	var stream []byte
	for _, w := range victim.Writes() {
		stream = append(stream, w...)
	}
	ld := lay(debugMsgID)
	stale, markers := 0, 0
	for off := 0; off < len(stream); off++ {
		if stream[off] != 0xFD {
			continue
		}
		f, nb, err := ref.Parse(stream[off:])
		if err != nil || f.ID != debugMsgID || f.Checksum != f.ChecksumFor(ld.CRCExtra) {
			continue
		}
		v, derr := ld.Decode(f.Payload, true)
		if derr != nil {
			continue
		}
		if c := int(v.(*common.MessageDebug).TimeBootMs); c >= 1000000 {
			markers++
		} else {
			stale++
		}
		off += nb - 1
	}
	if stale > 65 {
		return fmt.Errorf("every one of the %d writes made while the link was congested took %d bytes and failed; after the link recovered it put out %d whole frames of that period (%d bytes in all, %d markers): more than a backlog of 64 + 1 can hold - failed writes pile up somewhere", items, take, stale, len(stream), markers)
	}
	if markers == 0 {
		return fmt.Errorf("after the link recovered none of the 5 markers written to it came out (%d bytes, %d old frames)", len(stream), stale)
	}
	cs, err := counters(pipes[1])
	if err != nil || len(cs) != items+5 {
		return fmt.Errorf("the healthy link carries %d items (%v), %d were written", len(cs), err, items+5)
	}
	return nil
}

// TestC13RouterWritesFromItsEventLoop: the usual shape of a router - one routine takes events and, for every frame,
// writes it to the other links from that same routine. Some of those links are stalled with full backlogs; the
// node has nothing to say to the application about that which the application would have to fetch first: the
// loop keeps turning, the healthy link gets every frame.
func TestC13RouterWritesFromItsEventLoop(t *testing.T) {
	rec := evid.New(t, "C13", "a node with a source link, a healthy link and 1..3 stalled links (custom transports, blocked writes); the application is one routine that receives events and forwards every frame of the source link with WriteFrameExcept from that routine; 150..300 frames arrive on the source link in bursts of 1..6; the healthy link must carry every one of them, in order, within the bound, and the event loop must have seen every frame; non-trivial = always; distinct by hash of the parameters")
	rec.Require("application-writes-from-the-routine-that-receives-events")
	evid.Check(t, rec, evid.N(15, 80), func(t *rapid.T) {
		drawNodeInit(t)
		stalled := rapid.IntRange(1, 3).Draw(t, "stalled_links")
		frames := rapid.IntRange(150, 300).Draw(t, "frames")
		burst := rapid.IntRange(1, 6).Draw(t, "burst")
		desc := fmt.Sprintf("stalledLinks=%d frames=%d burst=%d", stalled, frames, burst)
		if err := watchdog(scenarioLimit, func() error { return runC13Router(stalled, frames, burst) }); err != nil {
			evid.ReplayNote("C13", "TestC13RouterWritesFromItsEventLoop", desc+"\n"+err.Error())
			t.Fatalf("%s\n%v", desc, err)
		}
		rec.Case(true, evid.HashS(desc), "application-writes-from-the-routine-that-receives-events")
		if rec.WantSample("router") {
			rec.Sample("router", desc)
		}
	})
}

func runC13Router(stalled, frames, burst int) error {
	pipes := make([]*sim.Pipe, 2+stalled)
	var endpoints []gomavlib.EndpointConf
	for i := range pipes {
		pipes[i] = sim.NewPipe()
		endpoints = append(endpoints, gomavlib.EndpointCustom{ReadWriteCloser: pipes[i]})
	}
	n := &gomavlib.Node{Endpoints: endpoints, Dialect: ardupilotmega.Dialect, OutVersion: gomavlib.V2, OutSystemID: nodeSys, HeartbeatDisable: true}
	if err := initNode(&n); err != nil {
		return fmt.Errorf("BROKEN: %v", err)
	}
	for i := 2; i < len(pipes); i++ {
		pipes[i].BlockWrites()
	}
	seen := make(chan int, frames+8)
	loopDone := make(chan struct{})
	go func() {
		defer close(loopDone)
		for ev := range n.Events() {
			if fe, ok := ev.(*gomavlib.EventFrame); ok && isPipeChannel(fe.Channel, pipes[0]) {
				n.WriteFrameExcept(fe.Channel, fe.Frame) //nolint:errcheck
				seen <- 1
			}
		}
	}()
	defer func() {
		for _, p := range pipes {
			p.UnblockWrites()
		}
		closeNode(n, bound) //nolint:errcheck
		<-loopDone
	}()
	for i := range pipes {
		if !waitReaderParked(pipes[i]) {
			return fmt.Errorf("BROKEN: channel reader did not start")
		}
	}
	got := 0
	for k := 0; k < frames; {
		var chunk []byte
		for b := 0; b < burst && k < frames; b++ {
			chunk = append(chunk, tagged(1, k, "debug", true, nil, 0).Bytes()...)
			k++
		}
		pipes[0].Feed(chunk)
		// the loop takes the burst before the next one arrives (so that the healthy link's backlog stays small)
		deadline := time.After(bound)
		for got < k {
			select {
			case <-seen:
				got++
			case <-deadline:
				return fmt.Errorf("%d frames have arrived on the source link, the application's event loop (which forwards each with WriteFrameExcept) has received %d of them and nothing more for %v: with %d links stalled and their backlogs full, the node no longer hands out events (healthy link: %d frames)", k, got, bound, stalled, pipes[1].NumWrites())
			}
		}
		if !pipes[1].WaitWrites(k-30, bound) {
			return fmt.Errorf("the healthy link has %d of %d forwarded frames", pipes[1].NumWrites(), k)
		}
	}
	if !pipes[1].WaitWrites(frames, bound) {
		return fmt.Errorf("the healthy link has %d of %d forwarded frames", pipes[1].NumWrites(), frames)
	}
	var cs []int
	for k, b := range pipes[1].Writes() {
		f, nb, err := ref.Parse(b)
		if err != nil || nb != len(b) {
			return fmt.Errorf("write %d on the healthy link is not one whole frame", k)
		}
		_, idx, ok := identifyFlat(f)
		if !ok {
			return fmt.Errorf("write %d on the healthy link carries something that was never fed", k)
		}
		cs = append(cs, idx)
	}
	for i, c := range cs {
		if c != i {
			return fmt.Errorf("the healthy link's frame %d carries counter %d", i, c)
		}
	}
	if len(cs) != frames {
		return fmt.Errorf("the healthy link carries %d frames, %d were forwarded", len(cs), frames)
	}
	return nil
}
