package node

import (
	"fmt"
	"net"
	"testing"
	"time"

	gomavlib "github.com/bluenviron/gomavlib/v3"
	"github.com/bluenviron/gomavlib/v3/pkg/dialects/ardupilotmega"
	"github.com/bluenviron/gomavlib/v3/pkg/dialects/common"
	"pgregory.net/rapid"

	"verifharness/evid"
	"verifharness/ref"
	"verifharness/sim"
)

// TestC11WholeFramesAcrossAStall: a TCP peer stops reading until the socket buffers are full and the channel's writer
// sits inside a Write, stays silent for longer than the node's read timeout (which has nothing to do with writes) but
// far shorter than its write timeout, then reads everything. Items may have been dropped while the backlog was full;
// what is on the wire must still be whole frames in submission order - a write is not cut short by a timeout that
// was configured for something else.
func TestC11WholeFramesAcrossAStall(t *testing.T) {
	rec := evid.New(t, "C11", "TCP server or TCP client endpoint with ReadTimeout 80..200 ms and WriteTimeout 6 s; the peer does not read while 30000..45000 255-byte-payload messages are written to its channel (socket buffers fill, the writer blocks, the 64-item backlog overflows), stays silent for 2-3 read timeouts, then drains the connection; the received byte stream must consist of whole frames only, with strictly increasing counters, and a message written after the stall must arrive; non-trivial = the peer received at least 1 MB (the buffers were full); distinct by hash of the parameters")
	rec.Require("writer-stalled-longer-than-the-read-timeout")
	evid.Check(t, rec, evid.N(3, 12), func(t *rapid.T) {
		drawNodeInit(t)
		client := rapid.Bool().Draw(t, "node_is_tcp_client")
		readTO := time.Duration(rapid.IntRange(80, 200).Draw(t, "read_timeout_ms")) * time.Millisecond
		nmsg := rapid.IntRange(30000, 45000).Draw(t, "messages")
		silent := readTO*2 + time.Duration(rapid.IntRange(0, 100).Draw(t, "extra_silence_ms"))*time.Millisecond
		desc := fmt.Sprintf("nodeIsTCPClient=%v readTimeout=%v writeTimeout=6s messages=%d peerSilentFor=%v", client, readTO, nmsg, silent)
		got, err := runC11Stall(client, readTO, nmsg, silent)
		if err != nil {
			evid.ReplayNote("C11", "TestC11WholeFramesAcrossAStall", desc+"\n"+err.Error())
			t.Fatalf("%s\n%v", desc, err)
		}
		var cls []string
		if got >= 1<<20 {
			cls = append(cls, "writer-stalled-longer-than-the-read-timeout")
		}
		rec.Case(got >= 1<<20, evid.HashS(desc), cls...)
		if rec.WantSample("stall") {
			rec.Sample("stall", map[string]interface{}{"scenario": desc, "bytes_received_by_the_peer": got})
		}
	})
}

func runC11Stall(client bool, readTO time.Duration, nmsg int, silent time.Duration) (int, error) {
	port := sim.FreePort()
	var ep gomavlib.EndpointConf = gomavlib.EndpointTCPServer{Address: sim.Addr(port)}
	var l net.Listener
	if client {
		ep = gomavlib.EndpointTCPClient{Address: sim.Addr(port)}
		var err error
		if l, err = net.Listen("tcp4", sim.Addr(port)); err != nil {
			return 0, fmt.Errorf("BROKEN: listen: %v", err)
		}
		defer l.Close()
	}
	n := &gomavlib.Node{Endpoints: []gomavlib.EndpointConf{ep}, Dialect: ardupilotmega.Dialect, OutVersion: gomavlib.V2, OutSystemID: nodeSys,
		HeartbeatDisable: true, ReadTimeout: readTO, WriteTimeout: 6 * time.Second, IdleTimeout: 30 * time.Second}
	if err := initNode(&n); err != nil {
		return 0, fmt.Errorf("BROKEN: %v", err)
	}
	rec := sim.StartRecorder(n, sim.Pacing{Kind: "fast"}, nil)
	defer func() {
		closeNode(n, bound) //nolint:errcheck
		rec.WaitClosed(bound)
	}()
	var conn net.Conn
	var err error
	if client {
		l.(*net.TCPListener).SetDeadline(time.Now().Add(bound)) //nolint:errcheck
		conn, err = l.Accept()
	} else {
		conn, err = net.DialTimeout("tcp4", sim.Addr(port), bound)
	}
	if err != nil {
		return 0, fmt.Errorf("BROKEN: no connection: %v", err)
	}
	defer conn.Close()
	var ch *gomavlib.Channel
	if !rec.WaitFor(bound, func(recs []sim.Rec) bool {
		for _, r := range recs {
			if o, ok := r.Ev.(*gomavlib.EventChannelOpen); ok {
				ch = o.Channel
				return true
			}
		}
		return false
	}) {
		return 0, fmt.Errorf("BROKEN: no channel for the connection")
	}
	// the peer does not read; the application writes
	for k := 0; k < nmsg; k++ {
		m := &common.MessageEncapsulatedData{Seqnr: uint16(k)}
		m.Data[0], m.Data[1], m.Data[2], m.Data[252] = byte(k>>16), byte(k>>8), byte(k), 0xEE
		if err := n.WriteMessageTo(ch, m); err != nil {
			return 0, fmt.Errorf("write %d: %v", k, err)
		}
	}
	time.Sleep(silent)
	// the peer wakes up and drains; a last message follows
	last := &common.MessageEncapsulatedData{Seqnr: 0xFFFF}
	last.Data[0], last.Data[1], last.Data[2], last.Data[252] = 0xFF, 0xFF, 0xFF, 0xEE
	var stream []byte
	buf := make([]byte, 1<<16)
	sentLast := false
	idle := 0
	for idle < 3 {
		conn.SetReadDeadline(time.Now().Add(150 * time.Millisecond)) //nolint:errcheck
		k, rerr := conn.Read(buf)
		stream = append(stream, buf[:k]...)
		if rerr != nil {
			if !isTimeout(rerr) {
				return len(stream), fmt.Errorf("the connection ended while the peer was draining it (%v) after %d bytes: the stalled write gave up (events: %s)", rerr, len(stream), renderLife(lifecycle(rec.Snapshot())))
			}
			idle++
			if !sentLast {
				if err := n.WriteMessageTo(ch, last); err != nil {
					return len(stream), fmt.Errorf("last write: %v", err)
				}
				sentLast = true
				idle = 0
			}
		} else {
			idle = 0
		}
	}
	// whole frames only, counters strictly increasing, the last message present
	prev, sawLast, frames := -1, false, 0
	l8 := lay(131)
	for off := 0; off < len(stream); {
		f, nb, perr := ref.Parse(stream[off:])
		if perr != nil {
			end := off + 40
			if end > len(stream) {
				end = len(stream)
			}
			return len(stream), fmt.Errorf("after %d whole frames the byte stream the peer received is not a frame at offset %d of %d: %v (%x...): a frame was cut short on the wire", frames, off, len(stream), perr, stream[off:end])
		}
		if f.ID != 131 || f.Checksum != f.ChecksumFor(l8.CRCExtra) {
			return len(stream), fmt.Errorf("frame %d at offset %d: id %d / wrong checksum: bytes of different frames are mixed", frames, off, f.ID)
		}
		v, derr := l8.Decode(f.Payload, true)
		if derr != nil {
			return len(stream), fmt.Errorf("frame %d: %v", frames, derr)
		}
		em := v.(*common.MessageEncapsulatedData)
		c := int(em.Data[0])<<16 | int(em.Data[1])<<8 | int(em.Data[2])
		if c == 0xFFFFFF {
			sawLast = true
		} else if c <= prev {
			return len(stream), fmt.Errorf("frame %d carries counter %d after %d: order not preserved or an item written twice", frames, c, prev)
		} else {
			prev = c
		}
		frames++
		off += nb
	}
	if !sawLast {
		return len(stream), fmt.Errorf("the message written after the peer resumed reading never arrived (%d frames received, events: %s)", frames, renderLife(lifecycle(rec.Snapshot())))
	}
	return len(stream), nil
}
