package node

import (
	"fmt"
	"testing"
	"time"

	gomavlib "github.com/bluenviron/gomavlib/v3"
	"github.com/bluenviron/gomavlib/v3/pkg/dialects/ardupilotmega"
	"github.com/bluenviron/gomavlib/v3/pkg/dialects/common"
	"github.com/bluenviron/gomavlib/v3/pkg/dialects/minimal"
	"pgregory.net/rapid"

	"verifharness/evid"
	"verifharness/ref"
	"verifharness/sim"
)

// TestC16LongLivedSender: "not repeated for that sender within 30 seconds" over real time. ArduPilot vehicles keep
// sending heartbeats on two channels of a node for 28 s (one of them joins after 10 s); whatever the node does in the
// background meanwhile, each (channel, system, component) gets its seven requests and its event once.
func TestC16LongLivedSender(t *testing.T) {
	rec := evid.New(t, "C16", "a node with stream requests enabled and two custom channels; ArduPilot senders (1,1) on both channels from the start and (2,1) on channel 0 from +10 s heartbeat every 200..500 ms for 28 s of real time, their sequence numbers running through 255 -> 0 several times: per (channel, system, component) exactly seven requests and one event over the whole run (the run is inconclusive when the process was held up for a second or more); non-trivial = always; distinct by hash of the parameters")
	rec.Require("sender-heartbeating-for-28s")
	hbLay, _ := ref.LayoutOf(refTypeOf(&minimal.MessageHeartbeat{}))
	evid.Check(t, rec, 1, func(t *rapid.T) {
		gap := time.Duration(rapid.IntRange(200, 500).Draw(t, "heartbeat_gap_ms")) * time.Millisecond
		seq0 := rapid.IntRange(0, 255).Draw(t, "first_sequence_number")
		seqStep := rapid.SampledFrom([]int{1, 5, 17}).Draw(t, "sequence_step") // other traffic of the sender in between
		desc := fmt.Sprintf("heartbeats every %v, sequence numbers from %d in steps of %d", gap, seq0, seqStep)
		pipes := []*sim.Pipe{sim.NewPipe(), sim.NewPipe()}
		n := &gomavlib.Node{Endpoints: []gomavlib.EndpointConf{gomavlib.EndpointCustom{ReadWriteCloser: pipes[0]}, gomavlib.EndpointCustom{ReadWriteCloser: pipes[1]}},
			Dialect: ardupilotmega.Dialect, OutVersion: gomavlib.V2, OutSystemID: nodeSys, HeartbeatDisable: true, StreamRequestEnable: true, StreamRequestFrequency: 4}
		if err := n.Initialize(); err != nil {
			t.Fatalf("BROKEN: %v", err)
		}
		r := sim.StartRecorder(n, sim.Pacing{Kind: "fast"}, nil)
		defer func() {
			closeNode(n, bound) //nolint:errcheck
			r.WaitClosed(bound)
		}()
		if _, ok := openCustom(n, r, pipes); !ok {
			t.Fatalf("BROKEN: channels did not open")
		}
		hb := func(sys byte, seq int) []byte {
			f := ref.Frame{V2: true, Seq: byte(seq), Sys: sys, Comp: 1, ID: 0}
			f.Payload = hbLay.Encode(&minimal.MessageHeartbeat{Type: 2, Autopilot: 3, SystemStatus: minimal.MAV_STATE(3 + seq%2), MavlinkVersion: 3}, true)
			f.Checksum = f.ChecksumFor(hbLay.CRCExtra)
			return f.Bytes()
		}
		start := time.Now()
		k := 0
		for time.Since(start) < 28*time.Second {
			s := seq0 + k*seqStep
			pipes[0].Feed(hb(1, s))
			pipes[1].Feed(hb(1, s+100))
			if time.Since(start) > 10*time.Second {
				pipes[0].Feed(hb(2, s+7))
			}
			k++
			time.Sleep(gap)
		}
		end := time.Now()
		for _, p := range pipes {
			p.WaitDrained(bound)
		}
		time.Sleep(20 * time.Millisecond)
		if stalls.StalledBetweenOver(start, time.Now(), time.Second) {
			// how long ago the requests were made is not known well enough: no verdict
			rec.Case(false, evid.HashS(desc), "sender-heartbeating-for-28s", "inconclusive:process-held-up-for-a-second-or-more")
			return
		}
		want := []int{14, 7}
		for i, p := range pipes {
			reqs := map[[2]byte]int{}
			for _, w := range p.Writes() {
				f, _, err := ref.Parse(w)
				if err != nil || f.ID != 66 {
					t.Fatalf("%s: channel %d carries something that is no REQUEST_DATA_STREAM: %x", desc, i, w)
				}
				v, derr := lay(66).Decode(f.Payload, true)
				if derr != nil {
					t.Fatalf("BROKEN: %v", derr)
				}
				m := v.(*common.MessageRequestDataStream)
				reqs[[2]byte{m.TargetSystem, m.TargetComponent}]++
			}
			total := 0
			for _, c := range reqs {
				total += c
			}
			if total != want[i] {
				msg := fmt.Sprintf("%s: %d heartbeats per sender over %v on channel %d: %d stream requests were sent (per target system/component: %v), exactly seven per sender are due within 30 s of the first ones", desc, k, end.Sub(start).Round(time.Millisecond), i, total, reqs)
				evid.ReplayNote("C16", "TestC16LongLivedSender", msg)
				t.Fatalf("%s", msg)
			}
		}
		evs := 0
		for _, e := range r.Snapshot() {
			if _, ok := e.Ev.(*gomavlib.EventStreamRequested); ok {
				evs++
			}
		}
		if evs != 3 {
			msg := fmt.Sprintf("%s: three senders (channel, system, component) over %v: %d stream-requested events", desc, end.Sub(start).Round(time.Millisecond), evs)
			evid.ReplayNote("C16", "TestC16LongLivedSender", msg)
			t.Fatalf("%s", msg)
		}
		rec.Case(true, evid.HashS(desc), "sender-heartbeating-for-28s")
		rec.Sample("long-lived", desc)
	})
}
