package node

import (
	"errors"
	"fmt"
	"io"
	"net"
	"testing"

	gomavlib "github.com/bluenviron/gomavlib/v3"
	"github.com/bluenviron/gomavlib/v3/pkg/dialects/ardupilotmega"
	"pgregory.net/rapid"

	"verifharness/evid"
	"verifharness/sim"
)

// TestC14CustomCause: a custom transport reports the end of its read side the way io.Reader allows - an error alone,
// an error together with the last bytes, io.EOF, a wrapped error - after 0..6 frames. Every frame delivered before or
// with the error surfaces as a frame event, then the close event carries that very error (errors.Is finds it).
func TestC14CustomCause(t *testing.T) {
	rec := evid.New(t, "C14", "a custom transport whose Read fails after 0..6 frames, the error arriving alone or in the same call as the last frame's bytes (as io.Reader permits), being a plain error, a wrapped one or io.EOF, once or twice in a row (the custom transport is handed out again after a close): every frame surfaces before the close event and errors.Is finds the injected error in EventChannelClose.Error; non-trivial = error delivered together with data; distinct by hash of the parameters")
	rec.Require("error-with-data", "error-alone", "eof", "second-failure-on-the-same-transport", "cause-is-use-of-closed-connection")
	evid.Check(t, rec, evid.N(150, 600), func(t *rapid.T) {
		drawNodeInit(t)
		rounds := rapid.IntRange(1, 2).Draw(t, "failures")
		type round struct {
			frames   int
			withData bool
			kind     string
		}
		var rs []round
		for i := 0; i < rounds; i++ {
			rs = append(rs, round{frames: rapid.IntRange(0, 6).Draw(t, "frames"), withData: rapid.Bool().Draw(t, "error_with_last_bytes"),
				kind: rapid.SampledFrom([]string{"plain", "wrapped", "eof", "closed"}).Draw(t, "error_kind")})
		}
		desc := fmt.Sprintf("%+v", rs)
		p := sim.NewPipe()
		n := &gomavlib.Node{Endpoints: []gomavlib.EndpointConf{gomavlib.EndpointCustom{ReadWriteCloser: p}}, Dialect: ardupilotmega.Dialect,
			OutVersion: gomavlib.V2, OutSystemID: nodeSys, HeartbeatDisable: true}
		if err := initNode(&n); err != nil {
			t.Fatalf("BROKEN: %v", err)
		}
		r := sim.StartRecorder(n, sim.Pacing{Kind: "fast"}, nil)
		defer func() {
			closeNode(n, bound) //nolint:errcheck
			r.WaitClosed(bound)
		}()
		fail := func(format string, a ...interface{}) {
			msg := desc + "\n" + fmt.Sprintf(format, a...) + "\nevents:" + renderLife(lifecycle(r.Snapshot()))
			evid.ReplayNote("C14", "TestC14CustomCause", msg)
			t.Fatalf("%s", msg)
		}
		var cls []string
		totalFrames := 0
		for ri, rd := range rs {
			if !r.WaitFor(bound, func(recs []sim.Rec) bool {
				k := 0
				for _, e := range lifecycle(recs) {
					if e.open {
						k++
					}
				}
				return k >= ri+1
			}) {
				fail("round %d: no channel on the custom transport", ri)
			}
			if !waitReaderParked(p) {
				t.Fatalf("BROKEN: reader not reading")
			}
			base := errors.New("injected custom transport failure")
			var injected error = base
			switch rd.kind {
			case "wrapped":
				injected = fmt.Errorf("device layer: %w", base)
			case "eof":
				base, injected = io.EOF, io.EOF
			case "closed":
				// the application's own connection underneath the custom transport was closed by somebody else:
				// "use of closed network connection" is a cause like any other
				base = net.ErrClosed
				injected = &net.OpError{Op: "read", Net: "tcp", Err: net.ErrClosed}
				cls = append(cls, "cause-is-use-of-closed-connection")
			}
			var all []byte
			for k := 0; k < rd.frames; k++ {
				all = append(all, tagged(1, totalFrames+k, "debug", true, nil, 0).Bytes()...)
			}
			if rd.withData && rd.frames > 0 {
				p.FeedWithError(all, injected)
				cls = append(cls, "error-with-data")
			} else {
				if len(all) > 0 {
					p.Feed(all)
					p.WaitDrained(bound)
				}
				p.FailNextRead(injected)
				cls = append(cls, "error-alone")
			}
			if rd.kind == "eof" {
				cls = append(cls, "eof")
			}
			if ri == 1 {
				cls = append(cls, "second-failure-on-the-same-transport")
			}
			totalFrames += rd.frames
			var closeErr error
			if !r.WaitFor(bound, func(recs []sim.Rec) bool {
				k := 0
				for _, e := range lifecycle(recs) {
					if !e.open {
						k++
						if k == ri+1 {
							closeErr = e.err
						}
					}
				}
				return k >= ri+1
			}) {
				fail("round %d: the transport's Read failed (%v, together with data: %v) but no close event within %v", ri, injected, rd.withData && rd.frames > 0, bound)
			}
			if closeErr == nil || !errors.Is(closeErr, base) {
				fail("round %d: the transport's Read failed with %v (together with the last bytes: %v), the close event says: %v", ri, injected, rd.withData && rd.frames > 0, closeErr)
			}
			// every frame of this round surfaced, and before the close event
			frames, sawClose, late := 0, 0, false
			for _, e := range r.Snapshot() {
				switch e.Ev.(type) {
				case *gomavlib.EventFrame:
					frames++
					if sawClose > ri {
						late = true
					}
				case *gomavlib.EventChannelClose:
					sawClose++
				}
			}
			if frames != totalFrames || late {
				fail("round %d: %d frames had been delivered to the node by the time its Read failed, %d frame events (one after the close event: %v)", ri, totalFrames, frames, late)
			}
		}
		if err := checkBrackets(r.Snapshot()); err != nil {
			fail("%v", err)
		}
		nt := false
		for _, c := range cls {
			nt = nt || c == "error-with-data"
		}
		rec.Case(nt, evid.HashS(desc), dedupStr(cls)...)
		if nt && rec.WantSample("custom-cause") {
			rec.Sample("custom-cause", desc)
		}
	})
}

func dedupStr(xs []string) []string {
	seen := map[string]bool{}
	var out []string
	for _, x := range xs {
		if !seen[x] {
			seen[x] = true
			out = append(out, x)
		}
	}
	return out
}
