package node

import (
	"fmt"
	"net"
	"testing"
	"time"

	gomavlib "github.com/bluenviron/gomavlib/v3"
	"github.com/bluenviron/gomavlib/v3/pkg/dialects/ardupilotmega"
	"github.com/bluenviron/gomavlib/v3/pkg/dialects/common"
	"pgregory.net/rapid"

	"verifharness/evid"
	"verifharness/ref"
	"verifharness/sim"
)

// TestC13WriteTimeoutsThenRecovery: the "failing write" of C13 on a real socket. A TCP peer stops reading until the
// node's writes run into the (short) write timeout several times, then reads again. From then on the channel
// must do one of the two things C13 allows: be closed and reported, or deliver what is written to it.
func TestC13WriteTimeoutsThenRecovery(t *testing.T) {
	rec := evid.New(t, "C13", "TCP server or client endpoint with a write timeout of 300..600 ms; the peer does not read while 255-byte-payload messages are written for 0.7 s (30,000 at least) (socket buffers fill, writes time out for 4 write timeouts), then drains the connection and keeps reading; afterwards 12 marker messages are written 20 ms apart: either a close event for the channel has been delivered, or at least one complete marker frame reaches the peer within the bound; non-trivial = always; distinct by hash of the parameters")
	rec.Require("write-timeouts-on-a-tcp-link-that-recovers")
	evid.Check(t, rec, evid.N(3, 12), func(t *rapid.T) {
		drawNodeInit(t)
		client := rapid.Bool().Draw(t, "node_is_tcp_client")
		wto := time.Duration(rapid.IntRange(300, 600).Draw(t, "write_timeout_ms")) * time.Millisecond
		desc := fmt.Sprintf("nodeIsTCPClient=%v writeTimeout=%v", client, wto)
		var outcome string
		err := watchdog(scenarioLimit, func() error {
			var e error
			outcome, e = runC13TCPRecovery(client, wto)
			return e
		})
		if err != nil {
			evid.ReplayNote("C13", "TestC13WriteTimeoutsThenRecovery", desc+"\n"+err.Error())
			t.Fatalf("%s\n%v", desc, err)
		}
		rec.Case(true, evid.HashS(desc), "write-timeouts-on-a-tcp-link-that-recovers", "outcome-"+outcome)
		if rec.WantSample("tcp-recovery") {
			rec.Sample("tcp-recovery", desc+" -> "+outcome)
		}
	})
}

func runC13TCPRecovery(client bool, wto time.Duration) (string, error) {
	port := sim.FreePort()
	var ep gomavlib.EndpointConf = gomavlib.EndpointTCPServer{Address: sim.Addr(port)}
	var l net.Listener
	if client {
		ep = gomavlib.EndpointTCPClient{Address: sim.Addr(port)}
		var err error
		if l, err = net.Listen("tcp4", sim.Addr(port)); err != nil {
			return "", fmt.Errorf("BROKEN: listen: %v", err)
		}
		defer l.Close()
	}
	n := &gomavlib.Node{Endpoints: []gomavlib.EndpointConf{ep}, Dialect: ardupilotmega.Dialect, OutVersion: gomavlib.V2, OutSystemID: nodeSys,
		HeartbeatDisable: true, WriteTimeout: wto, IdleTimeout: 60 * time.Second}
	if err := initNode(&n); err != nil {
		return "", fmt.Errorf("BROKEN: %v", err)
	}
	rec := sim.StartRecorder(n, sim.Pacing{Kind: "fast"}, nil)
	defer func() {
		closeNode(n, bound) //nolint:errcheck
		rec.WaitClosed(bound)
	}()
	var conn net.Conn
	var err error
	if client {
		l.(*net.TCPListener).SetDeadline(time.Now().Add(bound)) //nolint:errcheck
		conn, err = l.Accept()
	} else {
		conn, err = net.DialTimeout("tcp4", sim.Addr(port), bound)
	}
	if err != nil {
		return "", fmt.Errorf("BROKEN: no connection: %v", err)
	}
	defer conn.Close()
	var ch *gomavlib.Channel
	if !rec.WaitFor(bound, func(recs []sim.Rec) bool {
		for _, r := range recs {
			if o, ok := r.Ev.(*gomavlib.EventChannelOpen); ok {
				ch = o.Channel
				return true
			}
		}
		return false
	}) {
		return "", fmt.Errorf("BROKEN: no channel for the connection")
	}
	closedEvent := func() bool {
		for _, r := range rec.Snapshot() {
			if c, ok := r.Ev.(*gomavlib.EventChannelClose); ok && c.Channel == ch {
				return true
			}
		}
		return false
	}
	// (the socket buffers of a loopback connection hold several megabytes: keep writing for a while, so that the
	// writer really ends up blocked in the connection)
	floodUntil := time.Now().Add(700 * time.Millisecond)
	for k := 0; k < 30000 || time.Now().Before(floodUntil); k++ {
		m := &common.MessageEncapsulatedData{Seqnr: uint16(k)}
		m.Data[252] = 0xEE
		n.WriteMessageTo(ch, m) //nolint:errcheck
	}
	// while the node's writer is stuck in the connection (for four write timeouts), the peer goes on talking: what it
	// sends surfaces without waiting for the writer - a stalled direction does not hold up the other one
	stallEnd := time.Now().Add(4 * wto)
	for i := 0; time.Now().Before(stallEnd); i++ {
		time.Sleep(wto / 3)
		before := 0
		for _, r := range rec.Snapshot() {
			if _, ok := r.Ev.(*gomavlib.EventFrame); ok {
				before++
			}
		}
		sent := time.Now()
		if _, werr := conn.Write(tagged(1, i, "debug", true, nil, 0).Bytes()); werr != nil {
			break // the node gave the connection up already: judged below
		}
		got := rec.WaitFor(200*time.Millisecond, func(recs []sim.Rec) bool {
			k := 0
			for _, r := range recs {
				if _, ok := r.Ev.(*gomavlib.EventFrame); ok {
					k++
				}
			}
			return k > before
		})
		if !got && !closedEvent() && !stalls.StalledBetween(sent, time.Now()) {
			// give it the rest of the write timeout, to say how late it was
			late := rec.WaitFor(2*wto, func(recs []sim.Rec) bool {
				k := 0
				for _, r := range recs {
					if _, ok := r.Ev.(*gomavlib.EventFrame); ok {
						k++
					}
				}
				return k > before
			})
			if closedEvent() {
				break
			}
			return "", fmt.Errorf("the peer does not read (the node's writer is blocked in the connection, write timeout %v) but keeps sending: its frame %d had not surfaced 200 ms after it was sent (it did later: %v, %v after the send) - incoming frames wait for the blocked writer", wto, i, late, time.Since(sent).Round(time.Millisecond))
		}
	}
	// the peer reads again, for good: first whatever had piled up
	buf := make([]byte, 1<<16)
	for quiet := 0; quiet < 2; {
		conn.SetReadDeadline(time.Now().Add(150 * time.Millisecond)) //nolint:errcheck
		if _, rerr := conn.Read(buf); rerr != nil {
			if !isTimeout(rerr) {
				// the node gave the connection up: allowed, provided it says so
				if rec.WaitFor(bound, func([]sim.Rec) bool { return closedEvent() }) {
					return "closed-and-reported", nil
				}
				return "", fmt.Errorf("the connection ended (%v) but no close event for its channel arrived within %v", rerr, bound)
			}
			quiet++
		} else {
			quiet = 0
		}
	}
	if closedEvent() {
		return "closed-and-reported", nil
	}
	// markers, spaced out so that the backlog never matters
	l2 := lay(2)
	var tail []byte
	found := 0
	for k := 0; k < 12 && found == 0; k++ {
		n.WriteMessageTo(ch, &common.MessageSystemTime{TimeUnixUsec: uint64(1000000000 + k), TimeBootMs: 0xABCD0000 + uint32(k)}) //nolint:errcheck
		until := time.Now().Add(20 * time.Millisecond)
		if k == 11 {
			until = time.Now().Add(bound)
		}
		for time.Now().Before(until) && found == 0 {
			conn.SetReadDeadline(time.Now().Add(20 * time.Millisecond)) //nolint:errcheck
			nb, rerr := conn.Read(buf)
			tail = append(tail, buf[:nb]...)
			for off := 0; off+12 <= len(tail); off++ {
				if tail[off] != 0xFD {
					continue
				}
				f, _, perr := ref.Parse(tail[off:])
				if perr == nil && f.ID == 2 && f.Checksum == f.ChecksumFor(l2.CRCExtra) {
					if v, derr := l2.Decode(f.Payload, true); derr == nil && v.(*common.MessageSystemTime).TimeUnixUsec >= 1000000000 {
						found++
					}
				}
			}
			if rerr != nil && !isTimeout(rerr) {
				if rec.WaitFor(bound, func([]sim.Rec) bool { return closedEvent() }) {
					return "closed-and-reported", nil
				}
				return "", fmt.Errorf("the connection ended (%v) but no close event for its channel arrived within %v", rerr, bound)
			}
			if closedEvent() {
				return "closed-and-reported", nil
			}
		}
	}
	if found == 0 {
		return "", fmt.Errorf("writes on the link ran into the write timeout of %v while the peer was not reading; the peer has been reading again for a while, 12 further messages were written to the channel 20 ms apart and %v passed: none of them reached the peer (%d bytes received since), and no close event was delivered - the channel stays open and discards its output", wto, bound, len(tail))
	}
	return "keeps-delivering", nil
}
