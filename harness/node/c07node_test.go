package node

import (
	"fmt"
	"io"
	"net"
	"sync/atomic"
	"testing"
	"time"

	gomavlib "github.com/bluenviron/gomavlib/v3"
	"github.com/bluenviron/gomavlib/v3/pkg/dialects/ardupilotmega"
	"pgregory.net/rapid"

	"verifharness/evid"
	"verifharness/ref"
	"verifharness/sim"
)

// TestC07NodeWindow: the replay window of a link is the same whatever kind of endpoint the link is. A node with an
// incoming key receives, on one channel of a generated endpoint kind, a history of correctly signed frames whose
// timestamps go up and down (several signers behind one link, clocks a few milliseconds or seconds apart): exactly
// the frames more than 1,000,000 ticks older than the newest accepted one are refused (parse error), all others
// surface, in order.
func TestC07NodeWindow(t *testing.T) {
	rec := evid.New(t, "C07", "node with an incoming key and one endpoint of a generated kind (custom, serial, TCP server, TCP client, UDP server, UDP broadcast); 2..14 correctly signed frames with timestamps newest-1,000,003..newest+2,000,000 (also equal, 1 tick older, exactly on the boundary) in lock-step: each frame surfaces as a frame event or as a parse error exactly as the window model says; non-trivial = a frame older than the newest inside the window on an order-preserving endpoint; distinct by hash of the parameters")
	rec.Require("tcp-server", "tcp-client", "serial", "udp-server", "older-inside-window", "refused-outside-window")
	evid.Check(t, rec, evid.N(120, 600), func(t *rapid.T) {
		drawNodeInit(t)
		key := [32]byte{3, 1, 4, 1, 5}
		epKind := rapid.SampledFrom([]string{"custom", "serial", "tcp-server", "tcp-client", "udp-server", "udp-broadcast"}).Draw(t, "endpoint")
		nf := rapid.IntRange(2, 14).Draw(t, "frames")
		var hist []uint64
		newest := uint64(rapid.SampledFrom([]int64{3000000, 40000000, 1 << 40}).Draw(t, "first_timestamp"))
		hist = append(hist, newest)
		for i := 1; i < nf; i++ {
			d := rapid.OneOf(rapid.Int64Range(-3, 3), rapid.Int64Range(-1000003, -999997), rapid.Int64Range(-900000, 2000000)).Draw(t, "delta")
			ts := uint64(int64(newest) + d)
			hist = append(hist, ts)
			if ts > newest {
				newest = ts
			}
		}
		desc := fmt.Sprintf("endpoint=%s timestamps=%v", epKind, hist)
		p := sim.NewPipe()
		var ep gomavlib.EndpointConf = gomavlib.EndpointCustom{ReadWriteCloser: p}
		port := 0
		var ln net.Listener
		switch epKind {
		case "serial":
			dev := fmt.Sprintf("/dev/ttyC07_%d", atomic.AddInt64(&serialCounter, 1))
			opens := int64(0)
			serialDevices.Store(dev, func() (io.ReadWriteCloser, error) {
				if atomic.AddInt64(&opens, 1) == 1 {
					return sim.NewPipe(), nil // the endpoint opens the device once to see that it exists, and closes it
				}
				return p, nil
			})
			defer serialDevices.Delete(dev)
			ep = gomavlib.EndpointSerial{Device: dev, Baud: 57600}
		case "tcp-server":
			port = sim.FreePort()
			ep = gomavlib.EndpointTCPServer{Address: sim.Addr(port)}
		case "udp-server":
			port = sim.FreePort()
			ep = gomavlib.EndpointUDPServer{Address: sim.Addr(port)}
		case "udp-broadcast":
			port = sim.FreePort()
			ep = gomavlib.EndpointUDPBroadcast{BroadcastAddress: fmt.Sprintf("127.255.255.255:%d", sim.FreePort()), LocalAddress: sim.Addr(port)}
		case "tcp-client":
			port = sim.FreePort()
			var lerr error
			if ln, lerr = net.Listen("tcp4", sim.Addr(port)); lerr != nil {
				t.Skip("port taken")
			}
			defer ln.Close()
			ep = gomavlib.EndpointTCPClient{Address: sim.Addr(port)}
		}
		n := &gomavlib.Node{Endpoints: []gomavlib.EndpointConf{ep}, Dialect: ardupilotmega.Dialect, OutVersion: gomavlib.V2,
			OutSystemID: 5, HeartbeatDisable: true, InKey: keyOf(&key)}
		if err := initNode(&n); err != nil {
			t.Fatalf("BROKEN: %v (%s)", err, desc)
		}
		r := sim.StartRecorder(n, sim.Pacing{Kind: "fast"}, nil)
		defer func() {
			closeNode(n, bound) //nolint:errcheck
			r.WaitClosed(bound)
		}()
		var peer *sim.Peer
		if ln != nil {
			ln.(*net.TCPListener).SetDeadline(time.Now().Add(bound)) //nolint:errcheck
			c, aerr := ln.Accept()
			if aerr != nil {
				t.Fatalf("%s: the client endpoint did not connect within %v: %v", desc, bound, aerr)
			}
			peer = sim.WrapConn(c)
			defer peer.Close()
		} else if port != 0 {
			var derr error
			if peer, derr = sim.Dial(map[string]string{"tcp-server": "tcp4", "udp-server": "udp4", "udp-broadcast": "udp4"}[epKind], sim.Addr(port)); derr != nil {
				t.Fatalf("BROKEN: dial: %v", derr)
			}
			defer peer.Close()
		}
		count := func(recs []sim.Rec) (frames, errs int) {
			for _, e := range recs {
				switch e.Ev.(type) {
				case *gomavlib.EventFrame:
					frames++
				case *gomavlib.EventParseError:
					errs++
				}
			}
			return
		}
		has, top := false, uint64(0)
		olderInside, refused := false, false
		for i, ts := range hist {
			var f ref.Frame
			if i%2 == 0 {
				f = tagged(1, i, "debug", true, &key, ts)
			} else {
				f = tagged(1, i, "raw", true, &key, ts)
			}
			f.LinkID = byte(i % 3) // several signers, one link
			f.Sig = f.SignatureFor(key)
			want := !(has && top > ts && top-ts > 1000000)
			if want && has && ts < top {
				olderInside = true
			}
			if !want {
				refused = true
			}
			if want && (!has || ts > top) {
				has, top = true, ts
			}
			f0, e0 := count(r.Snapshot())
			if peer != nil {
				peer.Send(f.Bytes()) //nolint:errcheck
			} else {
				p.Feed(f.Bytes())
			}
			if !r.WaitFor(bound, func(recs []sim.Rec) bool { f1, e1 := count(recs); return f1+e1 > f0+e0 }) {
				t.Fatalf("%s: frame %d produced no event within %v", desc, i, bound)
			}
			f1, _ := count(r.Snapshot())
			if got := f1 > f0; got != want {
				verdict := map[bool]string{true: "surfaced as a frame event", false: "was refused (parse error)"}
				msg := fmt.Sprintf("%s: frame %d, correctly signed with timestamp %d (newest accepted so far on the link: %d), %s; it must be %s: only frames more than 1,000,000 ticks older than the newest accepted one are refused, on every kind of endpoint", desc, i, ts, top, verdict[got], map[bool]string{true: "accepted", false: "refused"}[want])
				msg += "\nevents:" + renderLife(lifecycle(r.Snapshot()))
				for _, e := range r.Snapshot() {
					if pe, ok := e.Ev.(*gomavlib.EventParseError); ok {
						msg += fmt.Sprintf("\nparse error: %v", pe.Error)
					}
				}
				evid.ReplayNote("C07", "TestC07NodeWindow", msg)
				t.Fatalf("%s", msg)
			}
		}
		cls := []string{epKind}
		if olderInside {
			cls = append(cls, "older-inside-window")
		}
		if refused {
			cls = append(cls, "refused-outside-window")
		}
		rec.Case(olderInside && (epKind == "tcp-server" || epKind == "tcp-client" || epKind == "serial"), evid.HashS(desc), cls...)
		if rec.WantSample("node-window") {
			rec.Sample("node-window", desc)
		}
	})
}
