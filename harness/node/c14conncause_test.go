package node

import (
	"context"
	"errors"
	"fmt"
	"io"
	"net"
	"os"
	"sync"
	"syscall"
	"testing"
	"time"

	gomavlib "github.com/bluenviron/gomavlib/v3"
	"github.com/bluenviron/gomavlib/v3/pkg/dialects/ardupilotmega"
	"github.com/bluenviron/gomavlib/v3/pkg/timednetconn"
	"pgregory.net/rapid"

	"verifharness/evid"
	"verifharness/sim"
)

// scriptConn is a net.Conn whose data and errors come from a sim.Pipe; it records the deadlines it is given.
type scriptConn struct {
	p  *sim.Pipe
	mu sync.Mutex
	rd []time.Time
	at []time.Time
}

func (c *scriptConn) Read(b []byte) (int, error)  { return c.p.Read(b) }
func (c *scriptConn) Write(b []byte) (int, error) { return c.p.Write(b) }
func (c *scriptConn) Close() error                { return c.p.Close() }
func (c *scriptConn) LocalAddr() net.Addr         { return &net.TCPAddr{IP: net.IPv4(127, 0, 0, 1), Port: 1} }
func (c *scriptConn) RemoteAddr() net.Addr        { return &net.TCPAddr{IP: net.IPv4(127, 0, 0, 1), Port: 2} }
func (c *scriptConn) SetDeadline(time.Time) error { return nil }
func (c *scriptConn) SetReadDeadline(t time.Time) error {
	c.mu.Lock()
	c.rd = append(c.rd, t)
	c.at = append(c.at, time.Now())
	c.mu.Unlock()
	return nil
}
func (c *scriptConn) SetWriteDeadline(time.Time) error { return nil }

type slowPeerError struct{}

func (slowPeerError) Error() string   { return "tls: handshake of the peer timed out" }
func (slowPeerError) Timeout() bool   { return true }
func (slowPeerError) Temporary() bool { return false }

// TestC14ConnectionCause: what TCP and UDP channels read from is a connection wrapped by pkg/timednetconn, which arms
// the idle deadline before every read. The wrapper says what the connection said: whatever error value ends the read
// side - a reset, the kernel giving up on a vanished peer (ETIMEDOUT, whose Timeout() is true although no deadline of
// ours expired), a deadline of a lower layer, EOF, a real expiry of the idle deadline - is what the close event carries.
func TestC14ConnectionCause(t *testing.T) {
	rec := evid.New(t, "C14", "a scripted net.Conn wrapped by timednetconn.New (the wrapper of every TCP/UDP channel) read directly and below a node: after 0..5 frames its Read fails with a generated error value (ECONNRESET, ETIMEDOUT as *net.OpError / os.SyscallError / bare errno, context.DeadlineExceeded, a foreign net.Error with Timeout()==true, io.EOF, os.ErrDeadlineExceeded as *net.OpError), alone or together with the last bytes: the wrapper's Read returns that very value and count, every read was preceded by a deadline of now+idle, and the node's close event carries the value (errors.Is finds it; a cause that is no deadline expiry does not turn into one); non-trivial = a cause whose Timeout() is true but that is no deadline expiry; distinct by hash of the parameters")
	rec.Require("cause-with-timeout-true-that-is-no-deadline-expiry", "cause-is-a-deadline-expiry", "cause-without-timeout", "error-with-data")
	evid.Check(t, rec, evid.N(120, 600), func(t *rapid.T) {
		drawNodeInit(t)
		kind := rapid.IntRange(0, 8).Draw(t, "cause")
		var injected error
		notDeadline, timeoutTrue := true, true
		switch kind {
		case 0:
			injected = &net.OpError{Op: "read", Net: "tcp", Err: os.NewSyscallError("read", syscall.ECONNRESET)}
			timeoutTrue = false
		case 1:
			injected = &net.OpError{Op: "read", Net: "tcp", Err: os.NewSyscallError("read", syscall.ETIMEDOUT)}
		case 2:
			injected = syscall.ETIMEDOUT
		case 3:
			injected = context.DeadlineExceeded
		case 4:
			injected = slowPeerError{}
		case 5:
			injected = io.EOF
			timeoutTrue = false
		case 6:
			injected = &net.OpError{Op: "read", Net: "tcp", Err: os.ErrDeadlineExceeded}
			notDeadline = false
		case 7:
			injected = fmt.Errorf("lower layer: %w", os.NewSyscallError("read", syscall.ETIMEDOUT))
		case 8:
			injected = &net.OpError{Op: "read", Net: "udp", Err: os.NewSyscallError("recvfrom", syscall.EHOSTUNREACH)}
			timeoutTrue = false
		}
		frames := rapid.IntRange(0, 5).Draw(t, "frames")
		withData := rapid.Bool().Draw(t, "error_with_last_bytes") && frames > 0
		idle := time.Duration(rapid.IntRange(2, 90).Draw(t, "idle_s")) * time.Second
		desc := fmt.Sprintf("cause=%T(%v) frames=%d errorWithLastBytes=%v idle=%v", injected, injected, frames, withData, idle)
		fail := func(format string, a ...interface{}) {
			msg := desc + "\n" + fmt.Sprintf(format, a...)
			evid.ReplayNote("C14", "TestC14ConnectionCause", msg)
			t.Fatalf("%s", msg)
		}
		var all []byte
		for k := 0; k < frames; k++ {
			all = append(all, tagged(1, k, "debug", true, nil, 0).Bytes()...)
		}
		// the wrapper alone
		{
			sc := &scriptConn{p: sim.NewPipe()}
			w := timednetconn.New(idle, 5*time.Second, sc)
			if withData {
				sc.p.FeedWithError(all, injected)
			} else {
				if len(all) > 0 {
					sc.p.Feed(all)
				}
			}
			buf := make([]byte, 4096)
			got := 0
			for calls := 0; ; calls++ {
				if !withData && got == len(all) {
					sc.p.FailNextRead(injected)
				}
				n, err := w.Read(buf)
				got += n
				if err != nil {
					if err != injected { //nolint:errorlint // the very value is what the caller inspects
						fail("the connection's Read returned the error %#v; the wrapper's Read returned %#v", injected, err)
					}
					break
				}
				if calls > len(all)+2 {
					fail("the wrapper's Read never returned the connection's error")
				}
			}
			if got != len(all) {
				fail("the connection delivered %d bytes before/with its error, the wrapper %d", len(all), got)
			}
			sc.mu.Lock()
			for i, d := range sc.rd {
				if lo, hi := sc.at[i].Add(idle-50*time.Millisecond), sc.at[i].Add(idle+50*time.Millisecond); d.Before(lo) || d.After(hi) {
					fail("read %d was armed with a deadline %v after the call, the idle timeout is %v", i, d.Sub(sc.at[i]), idle)
				}
			}
			nd := len(sc.rd)
			sc.mu.Unlock()
			if nd == 0 {
				fail("no read deadline was armed at all")
			}
			w.Close()
		}
		// below a node
		sc := &scriptConn{p: sim.NewPipe()}
		n := &gomavlib.Node{Endpoints: []gomavlib.EndpointConf{gomavlib.EndpointCustom{ReadWriteCloser: timednetconn.New(idle, 5*time.Second, sc)}},
			Dialect: ardupilotmega.Dialect, OutVersion: gomavlib.V2, OutSystemID: nodeSys, HeartbeatDisable: true}
		if err := initNode(&n); err != nil {
			t.Fatalf("BROKEN: %v", err)
		}
		r := sim.StartRecorder(n, sim.Pacing{Kind: "fast"}, nil)
		defer func() {
			closeNode(n, bound) //nolint:errcheck
			r.WaitClosed(bound)
		}()
		if !r.WaitFor(bound, func(recs []sim.Rec) bool { return len(lifecycle(recs)) >= 1 }) || !waitReaderParked(sc.p) {
			t.Fatalf("BROKEN: no channel")
		}
		if withData {
			sc.p.FeedWithError(all, injected)
		} else {
			if len(all) > 0 {
				sc.p.Feed(all)
				sc.p.WaitDrained(bound)
			}
			sc.p.FailNextRead(injected)
		}
		var closeErr error
		if !r.WaitFor(bound, func(recs []sim.Rec) bool {
			for _, e := range lifecycle(recs) {
				if !e.open {
					closeErr = e.err
					return true
				}
			}
			return false
		}) {
			fail("the connection's Read failed but the node reported no close within %v", bound)
		}
		if closeErr == nil || !errors.Is(closeErr, injected) {
			fail("the connection's Read failed with %#v; the close event says %#v (%v): the cause is not in it", injected, closeErr, closeErr)
		}
		if notDeadline && errors.Is(closeErr, os.ErrDeadlineExceeded) {
			fail("the connection's Read failed with %v, which is no expiry of the idle deadline (armed %v ahead); the close event says %v, which claims one", injected, idle, closeErr)
		}
		nf := 0
		for _, e := range r.Snapshot() {
			if _, ok := e.Ev.(*gomavlib.EventFrame); ok {
				nf++
			}
		}
		if nf != frames {
			fail("%d frames were delivered before/with the error, %d frame events", frames, nf)
		}
		var cls []string
		switch {
		case !notDeadline:
			cls = append(cls, "cause-is-a-deadline-expiry")
		case timeoutTrue:
			cls = append(cls, "cause-with-timeout-true-that-is-no-deadline-expiry")
		default:
			cls = append(cls, "cause-without-timeout")
		}
		if withData {
			cls = append(cls, "error-with-data")
		}
		rec.Case(notDeadline && timeoutTrue, evid.HashS(desc), cls...)
		if rec.WantSample("cause") {
			rec.Sample("cause", desc)
		}
	})
}
