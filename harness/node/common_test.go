package node

import (
	"fmt"
	"reflect"
	"strings"
	"sync"
	"testing"
	"time"

	gomavlib "github.com/bluenviron/gomavlib/v3"
	"github.com/bluenviron/gomavlib/v3/pkg/dialect"
	"github.com/bluenviron/gomavlib/v3/pkg/dialects/ardupilotmega"
	"github.com/bluenviron/gomavlib/v3/pkg/dialects/common"
	"github.com/bluenviron/gomavlib/v3/pkg/frame"
	"github.com/bluenviron/gomavlib/v3/pkg/message"
	"pgregory.net/rapid"

	"verifharness/ref"
	"verifharness/sim"
)

// generous bound for things that normally take microseconds to milliseconds
const bound = 20 * time.Second

var (
	layOnce sync.Once
	layouts map[uint32]*ref.Layout // ardupilotmega (superset of common)
)

func lay(id uint32) *ref.Layout {
	layOnce.Do(func() {
		layouts = map[uint32]*ref.Layout{}
		for _, m := range ardupilotmega.Dialect.Messages {
			l, err := ref.LayoutOf(reflect.TypeOf(m).Elem())
			if err != nil {
				panic("BROKEN: " + err.Error())
			}
			layouts[m.GetID()] = l
		}
	})
	return layouts[id]
}

func inDialect(d *dialect.Dialect, id uint32) bool {
	if d == nil {
		return false
	}
	for _, m := range d.Messages {
		if m.GetID() == id {
			return true
		}
	}
	return false
}

const (
	rawTagID   = 71000 // id outside every dialect, used for tagged raw frames
	debugMsgID = 254   // common DEBUG: time_boot_ms uint32, value float32, ind uint8
)

// tagged builds a valid incoming frame that carries (tag, idx) in its content.
// kind: "raw" (id outside the dialect, never checksum-validated), "debug" (dialect message with
// a reference checksum). v2 selects the version; key signs the frame with timestamp ts.
func tagged(tag byte, idx int, kind string, v2 bool, key *[32]byte, ts uint64) ref.Frame {
	f := ref.Frame{V2: v2, Seq: byte(idx), Sys: 50 + tag, Comp: byte(idx >> 8)}
	switch kind {
	case "raw":
		f.ID = rawTagID
		if !v2 {
			f.ID = 222 // not used by common/ardupilotmega? checked in init
		}
		f.Payload = []byte{tag, byte(idx), byte(idx >> 8), 0xFD, 0xFE, 0x77}
		f.Checksum = uint16(idx)*31 + uint16(tag)
	case "debug":
		l := lay(debugMsgID)
		f.ID = debugMsgID
		f.Payload = l.Encode(debugValue(tag, idx), v2)
		f.Checksum = f.ChecksumFor(l.CRCExtra)
	}
	if key != nil {
		f.V2 = true
		f.Incompat = 1
		f.LinkID = tag
		f.Timestamp = ts
		if kind == "debug" {
			f.Payload = lay(debugMsgID).Encode(debugValue(tag, idx), true)
			f.Checksum = f.ChecksumFor(lay(debugMsgID).CRCExtra)
		}
		if kind == "raw" {
			f.ID = rawTagID
		}
		f.Sig = f.SignatureFor(*key)
	}
	return f
}

// identify extracts (tag, idx) from a received frame event.
func identify(fr frame.Frame) (tag byte, idx int, ok bool) {
	switch m := fr.GetMessage().(type) {
	case *message.MessageRaw:
		if len(m.Payload) >= 3 && (m.ID == rawTagID || m.ID == 222) {
			return m.Payload[0], int(m.Payload[1]) | int(m.Payload[2])<<8, true
		}
	case *common.MessageDebug:
		return identifyDebug(m)
	}
	return 0, 0, false
}

// debugValue carries (tag, idx) in a DEBUG message. Every other index uses a form whose trailing fields
// are zero, so that its v2 payload is truncated and the decoder has to zero-extend it.
func debugValue(tag byte, idx int) *common.MessageDebug {
	if idx%2 == 1 {
		return &common.MessageDebug{TimeBootMs: uint32(idx&0xFFFF) | uint32(tag)<<16 | 1<<30}
	}
	return &common.MessageDebug{TimeBootMs: uint32(idx), Ind: tag, Value: 1.5}
}

func identifyDebug(m *common.MessageDebug) (byte, int, bool) {
	if m.TimeBootMs&(1<<30) != 0 {
		if m.Ind != 0 || m.Value != 0 {
			return 0, 0, false // content mixed up with another frame
		}
		return byte(m.TimeBootMs >> 16), int(m.TimeBootMs & 0xFFFF), true
	}
	if m.Value != 1.5 {
		return 0, 0, false
	}
	return m.Ind, int(m.TimeBootMs), true
}

// identifyFlat does the same for a frame parsed from an outgoing byte stream.
func identifyFlat(f ref.Frame) (tag byte, idx int, ok bool) {
	if (f.ID == rawTagID || f.ID == 222) && len(f.Payload) >= 3 {
		return f.Payload[0], int(f.Payload[1]) | int(f.Payload[2])<<8, true
	}
	if f.ID == debugMsgID {
		v, err := lay(debugMsgID).Decode(f.Payload, f.V2)
		if err != nil {
			return 0, 0, false
		}
		return identifyDebug(v.(*common.MessageDebug))
	}
	return 0, 0, false
}

// parseStream splits an outgoing byte stream into frames; it fails on any byte that is not part of a frame.
func parseStream(b []byte) ([]ref.Frame, error) {
	var out []ref.Frame
	for len(b) > 0 {
		f, n, err := ref.Parse(b)
		if err != nil {
			return out, fmt.Errorf("outgoing stream is not a sequence of whole frames at offset %d of the rest: %v (%x)", len(out), err, head(b, 40))
		}
		out = append(out, f)
		b = b[n:]
	}
	return out, nil
}

func head(b []byte, n int) []byte {
	if len(b) > n {
		return b[:n]
	}
	return b
}

// chanOfPipe finds the custom channel built on a pipe.
func isPipeChannel(ch *gomavlib.Channel, p *sim.Pipe) bool {
	if ch == nil {
		return false
	}
	if sc, isSerial := ch.Endpoint().Conf().(gomavlib.EndpointSerial); isSerial {
		v, _ := serialPipeOf.Load(sc.Device)
		return v == p
	}
	conf, ok := ch.Endpoint().Conf().(gomavlib.EndpointCustom)
	return ok && conf.ReadWriteCloser == p
}

// serialPipeOf: device name of a hooked serial endpoint -> the pipe that stands for the device.
var serialPipeOf sync.Map

// eventChannel returns the channel an event belongs to.
func eventChannel(ev gomavlib.Event) *gomavlib.Channel {
	switch e := ev.(type) {
	case *gomavlib.EventChannelOpen:
		return e.Channel
	case *gomavlib.EventChannelClose:
		return e.Channel
	case *gomavlib.EventFrame:
		return e.Channel
	case *gomavlib.EventParseError:
		return e.Channel
	case *gomavlib.EventStreamRequested:
		return e.Channel
	}
	return nil
}

// checkBrackets is the per-channel half of C10 over a whole event history: for every channel value (pointer) the
// first event is its one and only open event, and after its one close event nothing of it arrives - a connection
// that comes back is a new channel.
func checkBrackets(recs []sim.Rec) error {
	state := map[*gomavlib.Channel]int{} // 0 unseen, 1 open, 2 closed
	for i, r := range recs {
		ch := eventChannel(r.Ev)
		if ch == nil {
			return fmt.Errorf("event %d (%s) names no channel", i, evName(r.Ev))
		}
		switch r.Ev.(type) {
		case *gomavlib.EventChannelOpen:
			if state[ch] != 0 {
				return fmt.Errorf("event %d: a second open event for channel %v (%p), which had %s: a channel opens once; a connection that comes back is a new channel", i, ch, ch, map[int]string{1: "already opened and not closed", 2: "been closed"}[state[ch]])
			}
			state[ch] = 1
		case *gomavlib.EventChannelClose:
			if state[ch] != 1 {
				return fmt.Errorf("event %d: close event for channel %v (%p) in state %d (0 never opened, 2 closed before)", i, ch, ch, state[ch])
			}
			state[ch] = 2
		default:
			if state[ch] != 1 {
				return fmt.Errorf("event %d (%s) belongs to channel %v (%p), which %s", i, evName(r.Ev), ch, ch, map[int]string{0: "has not opened yet", 2: "has been closed"}[state[ch]])
			}
		}
	}
	return nil
}

func evName(ev gomavlib.Event) string {
	s := fmt.Sprintf("%T", ev)
	return strings.TrimPrefix(s, "*gomavlib.Event")
}

// closeNode closes the node and reports how long it took; it fails on a hang with goroutine dumps.
func closeNode(n *gomavlib.Node, limit time.Duration) (time.Duration, error) {
	start := time.Now()
	done := make(chan struct{})
	go func() {
		n.Close()
		close(done)
	}()
	select {
	case <-done:
		return time.Since(start), nil
	case <-time.After(limit):
		a := sim.LibGoroutines()
		time.Sleep(time.Second)
		select {
		case <-done:
			return time.Since(start), nil // slow, not stuck
		default:
		}
		b := sim.LibGoroutines()
		return time.Since(start), fmt.Errorf("Node.Close did not return within %v; %d library goroutines parked (dump 1s apart: %d):\n%s", limit, len(b), len(a), strings.Join(b, "\n\n"))
	}
}

func mustInit(t testing.TB, n *gomavlib.Node) {
	if err := initNode(&n); err != nil {
		t.Fatalf("BROKEN: node init: %v", err)
	}
}

func keyOf(k *[32]byte) *frame.V2Key {
	if k == nil {
		return nil
	}
	if k[0]&1 == 1 {
		// half of the keys are loaded the way an application does it: through NewV2Key from a buffer that is
		// wiped afterwards; the key must be the bytes it was built from, not a view of that buffer
		buf := append([]byte{}, k[:]...)
		key := frame.NewV2Key(buf)
		for i := range buf {
			buf[i] = 0
		}
		return key
	}
	kk := frame.V2Key(*k)
	return &kk
}

func init() {
	// ids used for tagged raw frames must lie outside the shipped dialects used here
	for _, id := range []uint32{rawTagID, 222} {
		if inDialect(ardupilotmega.Dialect, id) || inDialect(common.Dialect, id) {
			panic(fmt.Sprintf("BROKEN: tag id %d is used by a dialect", id))
		}
	}
}

// gen1 builds a v2 raw frame for noise writers on dialect-less nodes.
func gen1(tag byte, k int) frame.Frame {
	return &frame.V2Frame{SequenceNumber: byte(k), SystemID: 99, ComponentID: tag,
		Message: &message.MessageRaw{ID: 72000, Payload: []byte{tag, byte(k), byte(k >> 8)}}, Checksum: 0x1111}
}

func refTypeOf(m message.Message) reflect.Type { return reflect.TypeOf(m).Elem() }

// watchdog runs one scenario and turns "never finishes" into a reported failure: every scenario is a
// finite sequence of bounded waits that completes within seconds on a tree where the property holds.
func watchdog(limit time.Duration, f func() error) error {
	done := make(chan error, 1)
	go func() { done <- f() }()
	select {
	case err := <-done:
		return err
	case <-time.After(limit):
		gs := sim.LibGoroutines()
		hs := sim.HarnessGoroutines()
		// every wait of the harness is bounded; what has no bound is a call into the library. A scenario that does not
		// finish with a harness goroutine inside a library call is a library call that never returned; one without is
		// the harness's own problem ("BROKEN" maps to exit 2)
		inLib := false
		for _, h := range hs {
			if strings.Contains(h, "github.com/bluenviron/gomavlib/v3.") {
				inLib = true
			}
		}
		if inLib {
			return fmt.Errorf("the scenario did not complete within %v (normally well under a second): a call into the library never returned; %d library goroutines:\n%s\n\n%d harness goroutines:\n%s", limit, len(gs), strings.Join(gs, "\n\n"), len(hs), strings.Join(hs, "\n\n"))
		}
		return fmt.Errorf("BROKEN: the scenario did not complete within %v (normally well under a second) and no harness goroutine is inside a library call; %d library goroutines:\n%s\n\n%d harness goroutines:\n%s", limit, len(gs), strings.Join(gs, "\n\n"), len(hs), strings.Join(hs, "\n\n"))
	}
}

const scenarioLimit = 4 * time.Minute

// stalls records every moment at which this process was not scheduled for more than 60 ms; verdicts about
// "the channel stayed open while the peer kept talking" are inconclusive across such a moment (an absolute
// read deadline can expire while the node's reader is not running).
var stalls = sim.StartStallMonitor(60 * time.Millisecond)

// A node can be obtained in two ways: filling a Node and calling Initialize, or the older NewNode(NodeConf).
// Each case draws which one its nodes use, so that everything the checks establish holds for both.
var nodeViaConf bool

func drawNodeInit(t *rapid.T) {
	nodeViaConf = rapid.IntRange(0, 3).Draw(t, "node_via_NewNode") == 0
}

func initNode(pn **gomavlib.Node) error { return initNodeVia(pn, nodeViaConf) }

func initNodeVia(pn **gomavlib.Node, viaConf bool) error {
	if !viaConf {
		return (*pn).Initialize()
	}
	n := *pn
	nn, err := gomavlib.NewNode(gomavlib.NodeConf{ //nolint:staticcheck
		Endpoints: n.Endpoints, Dialect: n.Dialect, InKey: n.InKey, OutVersion: n.OutVersion, OutSystemID: n.OutSystemID,
		OutComponentID: n.OutComponentID, OutKey: n.OutKey, HeartbeatDisable: n.HeartbeatDisable, HeartbeatPeriod: n.HeartbeatPeriod,
		HeartbeatSystemType: n.HeartbeatSystemType, HeartbeatAutopilotType: n.HeartbeatAutopilotType,
		StreamRequestEnable: n.StreamRequestEnable, StreamRequestFrequency: n.StreamRequestFrequency,
		ReadTimeout: n.ReadTimeout, WriteTimeout: n.WriteTimeout, IdleTimeout: n.IdleTimeout})
	if nn != nil {
		*pn = nn
	}
	return err
}
