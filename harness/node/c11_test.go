package node

import (
	"fmt"
	"strings"
	"sync"
	"sync/atomic"
	"testing"
	"time"

	gomavlib "github.com/bluenviron/gomavlib/v3"
	"github.com/bluenviron/gomavlib/v3/pkg/dialects/ardupilotmega"
	"github.com/bluenviron/gomavlib/v3/pkg/dialects/common"
	"github.com/bluenviron/gomavlib/v3/pkg/frame"
	"github.com/bluenviron/gomavlib/v3/pkg/message"
	"pgregory.net/rapid"

	"verifharness/evid"
	"verifharness/ref"
	"verifharness/sim"
)

type wop struct {
	kind   string // MsgAll MsgTo MsgExcept FrameAll FrameTo FrameExcept
	target int    // channel index; -1 closed channel; -2 foreign channel; -3 nil
	raw    bool   // frames: raw message instead of decoded
	other  bool   // frames: the frame's version is the opposite of the node's output version
	unenc  bool   // messages: a raw message whose id the dialect does not contain; no link can encode it
	big    bool   // messages: the longest message there is (255 payload bytes, the last one non-zero)
}

func (o wop) String() string {
	if o.unenc {
		return fmt.Sprintf("%s(%d, cannot be encoded)", o.kind, o.target)
	}
	return fmt.Sprintf("%s(%d)", o.kind, o.target)
}

type c11World struct {
	nch           int
	v2            bool
	key           *[32]byte
	programs      [][]wop
	pacing        sim.Pacing
	incoming      int
	useClosed     bool
	relayedFrames int // received frames that were kept and forwarded at the end (set by the run)
	overflowFirst int // -1, or the channel that goes through a queue overflow (and recovers) before the program starts
}

func (w *c11World) describe() string {
	var b strings.Builder
	fmt.Fprintf(&b, "channels=%d v2=%v outKey=%v pacing=%+v incoming=%d overflowBeforeProgram=%d\n", w.nch, w.v2, w.key != nil, w.pacing, w.incoming, w.overflowFirst)
	for p, prog := range w.programs {
		fmt.Fprintf(&b, " producer %d:", p)
		for _, o := range prog {
			fmt.Fprintf(&b, " %s", o)
		}
		b.WriteString("\n")
	}
	return b.String()
}

// fwdFrame builds the frame a producer forwards: it keeps its own header fields.
// incomingFrame is the k-th frame arriving from outside: alternately a message the dialect does not know (it stays
// raw inside the node) and a DEBUG message (decoded, re-encoded when forwarded).
func incomingFrame(w *c11World, k int) []byte {
	kind := "raw"
	if k%2 == 1 {
		kind = "debug"
	}
	return tagged(byte(k%w.nch+1), k, kind, w.v2, nil, 0).Bytes()
}

func fwdFrame(p, i int, v2, raw bool) (frame.Frame, ref.Frame) {
	l := lay(debugMsgID)
	val := &common.MessageDebug{TimeBootMs: uint32(i), Ind: byte(p), Value: 2.5}
	f := ref.Frame{V2: v2, Seq: byte(i*7 + 3), Sys: byte(200 + p), Comp: 77, ID: debugMsgID}
	if v2 {
		f.Compat = []byte{0, 0, 1, 2, 0x80, 0xFF}[(p*5+i)%6] // the original sender's compatibility flags travel with the frame
	}
	f.Payload = l.Encode(val, v2)
	if raw && v2 && i%2 == 0 {
		// a sender that does not cut trailing zeros (allowed): a frame forwarded as raw bytes keeps every one of them
		f.Payload = l.EncodeFull(val, v2)
	}
	f.Checksum = f.ChecksumFor(l.CRCExtra)
	var m message.Message = val
	if raw {
		m = &message.MessageRaw{ID: debugMsgID, Payload: append([]byte(nil), f.Payload...)}
	}
	if v2 {
		return &frame.V2Frame{CompatibilityFlag: f.Compat, SequenceNumber: f.Seq, SystemID: f.Sys, ComponentID: f.Comp, Message: m, Checksum: f.Checksum}, f
	}
	return &frame.V1Frame{SequenceNumber: f.Seq, SystemID: f.Sys, ComponentID: f.Comp, Message: m, Checksum: f.Checksum}, f
}

func TestC11FanOut(t *testing.T) {
	rec := evid.New(t, "C11", "2..5 channels on custom transports, 1..4 producer goroutines each running a generated program of WriteMessage/WriteFrame x All/To/Except with items tagged (producer, counter), targets including a closed channel, a channel of another node and nil; flow control keeps every channel's backlog below the 64-item queue; incoming traffic and a paced consumer run concurrently; per channel every transport write must be exactly one whole frame, each addressed item appears exactly once, nothing else appears, per (producer, channel) order is submission order, forwarded frames keep their header, frames received from outside (raw and decoded) are kept by the application and forwarded after everything else and must go out as they came in, unencodable items cost no other item its place, originated messages carry the node's ids and the link's own gapless sequence; non-trivial = >=2 producers on >=3 channels with at least one Except and one To; distinct by hash of the programs")
	rec.Require("2+producers-3+channels-to-except", "closed-target", "foreign-target", "v1", "v2", "signed", "after-overflow-and-recovery", "unencodable-item-between-valid-ones", "received-frames-kept-and-forwarded-later", "longest-message-on-a-signed-link", "eight-or-more-refusals-in-a-row", "more-items-than-sequence-numbers")
	evid.Check(t, rec, evid.N(300, 800), func(t *rapid.T) {
		drawNodeInit(t)
		w := &c11World{}
		w.nch = rapid.IntRange(2, 5).Draw(t, "nch")
		w.v2 = rapid.Bool().Draw(t, "v2")
		if w.v2 && rapid.IntRange(0, 2).Draw(t, "outkey") == 0 {
			k := [32]byte{9, 9, 9}
			w.key = &k
		}
		np := rapid.IntRange(1, 4).Draw(t, "producers")
		// now and then: one producer alone, with a run of 8..12 unencodable items in a row somewhere (nothing
		// encodable reaches any link in between), or with more items than a sequence number has values
		special := rapid.SampledFrom([]string{"", "", "", "", "", "", "", "refusal-run", "long-run"}).Draw(t, "special_program")
		if special != "" {
			np = 1
		}
		for p := 0; p < np; p++ {
			n := rapid.IntRange(5, 70).Draw(t, "nops")
			if special == "long-run" {
				n = rapid.IntRange(270, 330).Draw(t, "nops_long")
			}
			runAt, runLen := -1, 0
			if special == "refusal-run" {
				runAt, runLen = rapid.IntRange(0, n-1).Draw(t, "refusal_run_at"), rapid.IntRange(8, 12).Draw(t, "refusal_run_len")
			}
			var prog []wop
			nUnenc := 0
			for i := 0; i < n; i++ {
				if i == runAt {
					for k := 0; k < runLen; k++ {
						prog = append(prog, wop{kind: rapid.SampledFrom([]string{"MsgAll", "MsgTo", "MsgExcept"}).Draw(t, "run_op"), target: rapid.IntRange(0, w.nch-1).Draw(t, "run_target"), unenc: true})
					}
				}
				o := wop{kind: rapid.SampledFrom([]string{"MsgAll", "MsgTo", "MsgExcept", "FrameAll", "FrameTo", "FrameExcept"}).Draw(t, "op")}
				o.target = rapid.IntRange(0, w.nch-1).Draw(t, "target")
				if strings.HasSuffix(o.kind, "To") || strings.HasSuffix(o.kind, "Except") {
					if rapid.IntRange(0, 9).Draw(t, "odd_target") == 0 {
						o.target = rapid.SampledFrom([]int{-1, -2, -3}).Draw(t, "odd")
					}
				}
				o.raw = rapid.Bool().Draw(t, "raw")
				o.other = rapid.IntRange(0, 3).Draw(t, "other_version") == 0
				// at most three items per producer that no link can encode: they occupy a queue slot until the
				// writer refuses them and must not cost any other item its place
				if strings.HasPrefix(o.kind, "Msg") && nUnenc < 3 && rapid.IntRange(0, 11).Draw(t, "unencodable") == 0 {
					o.unenc = true
					nUnenc++
				} else if special == "long-run" {
					if rapid.IntRange(0, 5).Draw(t, "long_run_all") > 0 {
						o.kind = "MsgAll" // most items go to every link, so that every link's counter passes 255
					}
				} else if strings.HasPrefix(o.kind, "Msg") && i < 60000 && rapid.IntRange(0, 9).Draw(t, "longest_message") == 0 {
					o.big = true
				}
				prog = append(prog, o)
			}
			w.programs = append(w.programs, prog)
		}
		switch rapid.IntRange(0, 2).Draw(t, "pacing") {
		case 0:
			w.pacing = sim.Pacing{Kind: "fast"}
		case 1:
			w.pacing = sim.Pacing{Kind: "sleep", Sleep: time.Duration(rapid.IntRange(20, 300).Draw(t, "sleep_us")) * time.Microsecond}
		case 2:
			w.pacing = sim.Pacing{Kind: "bursty", Burst: rapid.IntRange(2, 9).Draw(t, "burst"), Sleep: time.Duration(rapid.IntRange(200, 2000).Draw(t, "bsleep_us")) * time.Microsecond}
		}
		w.incoming = rapid.IntRange(0, 30).Draw(t, "incoming")
		w.overflowFirst = -1
		if rapid.IntRange(0, 2).Draw(t, "overflow_first") == 0 {
			w.overflowFirst = rapid.IntRange(0, w.nch-1).Draw(t, "overflow_channel")
		}
		for _, prog := range w.programs {
			for _, o := range prog {
				if o.target == -1 {
					w.useClosed = true
				}
			}
		}
		if err := watchdog(scenarioLimit, func() error { return runC11(w) }); err != nil {
			evid.ReplayNote("C11", "TestC11FanOut", w.describe()+err.Error())
			t.Fatalf("%s%v", w.describe(), err)
		}
		var cls []string
		hasTo, hasExcept, closedT, foreignT, unencT, bigT := false, false, false, false, false, false
		for _, prog := range w.programs {
			for _, o := range prog {
				hasTo = hasTo || strings.HasSuffix(o.kind, "To")
				hasExcept = hasExcept || strings.HasSuffix(o.kind, "Except")
				closedT = closedT || o.target == -1
				unencT = unencT || o.unenc
				bigT = bigT || (o.big && w.key != nil)
				foreignT = foreignT || o.target == -2
			}
		}
		nt := len(w.programs) >= 2 && w.nch >= 3 && hasTo && hasExcept
		if nt {
			cls = append(cls, "2+producers-3+channels-to-except")
		}
		if closedT {
			cls = append(cls, "closed-target")
		}
		if foreignT {
			cls = append(cls, "foreign-target")
		}
		if unencT {
			cls = append(cls, "unencodable-item-between-valid-ones")
		}
		if bigT {
			cls = append(cls, "longest-message-on-a-signed-link")
		}
		if w.relayedFrames >= 4 {
			cls = append(cls, "received-frames-kept-and-forwarded-later")
		}
		if w.v2 {
			cls = append(cls, "v2")
		} else {
			cls = append(cls, "v1")
		}
		if w.key != nil {
			cls = append(cls, "signed")
		}
		if w.overflowFirst >= 0 {
			cls = append(cls, "after-overflow-and-recovery")
		}
		if special == "refusal-run" {
			cls = append(cls, "eight-or-more-refusals-in-a-row")
		}
		if special == "long-run" {
			cls = append(cls, "more-items-than-sequence-numbers")
		}
		rec.Case(nt, evid.HashS(w.describe()), cls...)
		if nt && rec.WantSample("scenario") {
			d := w.describe()
			if len(d) > 1500 {
				d = d[:1500] + "..."
			}
			rec.Sample("scenario", d)
		}
	})
}

const nodeSys, nodeComp = 42, 17

func runC11(w *c11World) error {
	pipes := make([]*sim.Pipe, w.nch)
	var endpoints []gomavlib.EndpointConf
	for i := range pipes {
		pipes[i] = sim.NewPipe()
		endpoints = append(endpoints, gomavlib.EndpointCustom{ReadWriteCloser: pipes[i]})
	}
	var tcpAddr string
	if w.useClosed {
		tcpAddr = sim.Addr(sim.FreePort())
		endpoints = append(endpoints, gomavlib.EndpointTCPServer{Address: tcpAddr})
	}
	n := &gomavlib.Node{Endpoints: endpoints, Dialect: ardupilotmega.Dialect, OutVersion: gomavlib.V1, OutSystemID: nodeSys,
		OutComponentID: nodeComp, HeartbeatDisable: true, OutKey: keyOf(w.key)}
	if w.v2 {
		n.OutVersion = gomavlib.V2
	}
	if err := initNode(&n); err != nil {
		return fmt.Errorf("BROKEN: node init: %v", err)
	}
	rec := sim.StartRecorder(n, w.pacing, nil)
	defer func() {
		closeNode(n, bound) //nolint:errcheck
		rec.WaitClosed(bound)
	}()
	// wait for the custom channels
	chans := make([]*gomavlib.Channel, w.nch)
	if !rec.WaitFor(bound, func(recs []sim.Rec) bool {
		k := 0
		for _, r := range recs {
			if o, ok := r.Ev.(*gomavlib.EventChannelOpen); ok {
				for i, p := range pipes {
					if isPipeChannel(o.Channel, p) {
						chans[i] = o.Channel
					}
				}
			}
		}
		for _, c := range chans {
			if c != nil {
				k++
			}
		}
		return k == w.nch
	}) {
		return fmt.Errorf("BROKEN: custom channels did not open")
	}
	// a closed channel: a TCP peer that came and went
	var closedCh *gomavlib.Channel
	if w.useClosed {
		p, err := sim.Dial("tcp4", tcpAddr)
		if err != nil {
			return fmt.Errorf("BROKEN: dial: %v", err)
		}
		label := p.LocalLabel(false)
		if !rec.WaitFor(bound, func(recs []sim.Rec) bool {
			for _, r := range recs {
				if o, ok := r.Ev.(*gomavlib.EventChannelOpen); ok && o.Channel.String() == label {
					closedCh = o.Channel
					return true
				}
			}
			return false
		}) {
			return fmt.Errorf("BROKEN: tcp channel did not open")
		}
		p.Close()
		if !rec.WaitFor(bound, func(recs []sim.Rec) bool {
			for _, r := range recs {
				if c, ok := r.Ev.(*gomavlib.EventChannelClose); ok && c.Channel == closedCh {
					return true
				}
			}
			return false
		}) {
			return fmt.Errorf("BROKEN: tcp channel did not close")
		}
	}
	// a foreign channel: belongs to another node
	fpipe := sim.NewPipe()
	other := &gomavlib.Node{Endpoints: []gomavlib.EndpointConf{gomavlib.EndpointCustom{ReadWriteCloser: fpipe}}, Dialect: ardupilotmega.Dialect,
		OutVersion: gomavlib.V2, OutSystemID: 3, HeartbeatDisable: true}
	if err := other.Initialize(); err != nil {
		return fmt.Errorf("BROKEN: %v", err)
	}
	var foreignCh *gomavlib.Channel
	orec := sim.StartRecorder(other, sim.Pacing{Kind: "fast"}, nil)
	orec.WaitFor(bound, func(recs []sim.Rec) bool {
		for _, r := range recs {
			if o, ok := r.Ev.(*gomavlib.EventChannelOpen); ok {
				foreignCh = o.Channel
				return true
			}
		}
		return false
	})
	defer func() {
		closeNode(other, bound) //nolint:errcheck
		orec.WaitClosed(bound)
	}()
	if foreignCh == nil {
		return fmt.Errorf("BROKEN: foreign channel did not open")
	}
	// optionally one channel has been through a queue overflow before the program starts: its transport stalls,
	// more items than the queue holds are written, it recovers and drains. Afterwards the backlog stays below
	// the bound again, so nothing of the program may be dropped on it.
	preWrites := make([]int, w.nch)
	if w.overflowFirst >= 0 {
		vp := pipes[w.overflowFirst]
		vp.BlockWrites()
		for k := 0; k < 80; k++ {
			if err := n.WriteMessageAll(&common.MessageDebug{TimeBootMs: uint32(k), Ind: 99, Value: 2.5}); err != nil {
				return fmt.Errorf("BROKEN: prologue write: %v", err)
			}
			for c, p := range pipes {
				if c != w.overflowFirst && !p.WaitWrites(k-20, bound) {
					vp.UnblockWrites()
					return fmt.Errorf("channel %d stopped receiving (%d of %d items) while channel %d is stalled", c, p.NumWrites(), k+1, w.overflowFirst)
				}
			}
		}
		vp.UnblockWrites()
		// the channel has drained exactly when a marker queued behind the backlog is on its wire (the queue is
		// first-in first-out); a marker can itself be dropped while the queue is still full, so it is repeated
		drained := false
		for try := 0; try < 60 && !drained; try++ {
			if err := n.WriteMessageTo(chans[w.overflowFirst], &common.MessageDebug{TimeBootMs: uint32(try), Ind: 98, Value: 2.5}); err != nil {
				return fmt.Errorf("BROKEN: prologue marker: %v", err)
			}
			until := time.Now().Add(250 * time.Millisecond)
			for !drained && time.Now().Before(until) {
				ws := vp.Writes()
				for k := len(ws) - 1; k >= 0 && !drained; k-- {
					if f, _, err := ref.Parse(ws[k]); err == nil && f.ID == debugMsgID {
						if v, derr := lay(debugMsgID).Decode(f.Payload, f.V2); derr == nil {
							dm := v.(*common.MessageDebug)
							drained = dm.Ind == 98 && int(dm.TimeBootMs) == try
						}
					}
				}
				if !drained {
					time.Sleep(time.Millisecond)
				}
			}
		}
		if !drained {
			return fmt.Errorf("channel %d: after its transport stalled and recovered, nothing written to it reached the wire for %v", w.overflowFirst, 60*250*time.Millisecond)
		}
		for c, p := range pipes {
			if c != w.overflowFirst && !p.WaitWrites(80, bound) {
				return fmt.Errorf("channel %d received %d of 80 items while channel %d was stalled", c, p.NumWrites(), w.overflowFirst)
			}
			preWrites[c] = p.NumWrites()
		}
	}
	// expectations
	exp := make([]int64, w.nch) // items addressed to channel c so far (for flow control)
	type item struct {
		p, i  int
		frame bool
	}
	want := make([][]item, w.nch)
	var wantMu sync.Mutex
	targets := func(o wop) []int {
		var ts []int
		all := func(except int) {
			for c := 0; c < w.nch; c++ {
				if c != except {
					ts = append(ts, c)
				}
			}
		}
		switch {
		case strings.HasSuffix(o.kind, "All"):
			all(-9)
		case strings.HasSuffix(o.kind, "To"):
			if o.target >= 0 {
				ts = append(ts, o.target)
			}
		case strings.HasSuffix(o.kind, "Except"):
			if o.target >= 0 {
				all(o.target)
			} else {
				all(-9) // excluding a closed / foreign / nil channel excludes nobody
			}
		}
		return ts
	}
	handle := func(t int) *gomavlib.Channel {
		switch t {
		case -1:
			return closedCh
		case -2:
			return foreignCh
		case -3:
			return nil
		}
		return chans[t]
	}
	// incoming traffic (kept by the application and forwarded at the end, see below)
	fed := make([][][]byte, w.nch) // per channel: the frames fed to its transport, in order
	var fedMu sync.Mutex
	stopIn := make(chan struct{})
	var inWG sync.WaitGroup
	inWG.Add(1)
	go func() {
		defer inWG.Done()
		for k := 0; k < w.incoming; k++ {
			select {
			case <-stopIn:
				return
			default:
			}
			b := incomingFrame(w, k)
			fedMu.Lock()
			fed[k%w.nch] = append(fed[k%w.nch], b)
			fedMu.Unlock()
			pipes[k%w.nch].Feed(b)
			time.Sleep(100 * time.Microsecond)
		}
	}()
	var failure atomic.Value
	var pwg sync.WaitGroup
	for p, prog := range w.programs {
		pwg.Add(1)
		go func(p int, prog []wop) {
			defer pwg.Done()
			defer func() {
				if r := recover(); r != nil {
					failure.Store(fmt.Sprintf("producer %d panicked: %v", p, r))
				}
			}()
			for i, o := range prog {
				ts := targets(o)
				// flow control: never let a channel's backlog approach the queue bound
				deadline := time.Now().Add(bound)
				for {
					ok := true
					for _, c := range ts {
						if atomic.LoadInt64(&exp[c])-int64(pipes[c].NumWrites()-preWrites[c]) >= 24 {
							ok = false
						}
					}
					if ok {
						break
					}
					if time.Now().After(deadline) {
						failure.Store(fmt.Sprintf("producer %d op %d: a healthy channel did not put 24 pending items on the wire within %v (its backlog never reached the 64-item bound): items are being dropped or the channel is stuck", p, i, bound))
						return
					}
					if failure.Load() != nil {
						return
					}
					time.Sleep(50 * time.Microsecond)
				}
				isFrame := strings.HasPrefix(o.kind, "Frame")
				wantMu.Lock()
				if o.unenc {
					ts = nil // nothing of it may reach any wire; it is not counted for flow control either
				}
				for _, c := range ts {
					atomic.AddInt64(&exp[c], 1)
					want[c] = append(want[c], item{p, i, isFrame})
				}
				wantMu.Unlock()
				var err error
				done := make(chan struct{})
				go func() {
					defer close(done)
					defer func() {
						if r := recover(); r != nil {
							failure.Store(fmt.Sprintf("producer %d op %d %s panicked: %v", p, i, o, r))
						}
					}()
					if isFrame {
						fr, _ := fwdFrame(p, i, w.v2 != o.other, o.raw)
						switch o.kind {
						case "FrameAll":
							err = n.WriteFrameAll(fr)
						case "FrameTo":
							err = n.WriteFrameTo(handle(o.target), fr)
						case "FrameExcept":
							err = n.WriteFrameExcept(handle(o.target), fr)
						}
					} else {
						dbg := &common.MessageDebug{TimeBootMs: uint32(i), Ind: byte(p), Value: 2.5}
						var m message.Message = dbg
						var bigMsg *common.MessageEncapsulatedData
						if o.unenc {
							m = &message.MessageRaw{ID: []uint32{999999, 0x0100FE, 0x020083}[i%3], Payload: []byte{byte(p), byte(i), 3}} // unknown ids, two of them sharing the low byte of DEBUG (254) / ENCAPSULATED_DATA (131)
						} else if o.big {
							bigMsg = &common.MessageEncapsulatedData{Seqnr: uint16(i)}
							bigMsg.Data[0], bigMsg.Data[252] = byte(p), 0xEE
							m = bigMsg
						}
						switch o.kind {
						case "MsgAll":
							err = n.WriteMessageAll(m)
						case "MsgTo":
							err = n.WriteMessageTo(handle(o.target), m)
						case "MsgExcept":
							err = n.WriteMessageExcept(handle(o.target), m)
						}
						// the call has returned: the value is the application's again, and it reuses it
						dbg.TimeBootMs, dbg.Ind, dbg.Value = 0xDEAD0000|uint32(i&0xFFFF), 251, -1
						if bigMsg != nil {
							bigMsg.Seqnr, bigMsg.Data[0], bigMsg.Data[252] = 0xDEAD, 251, 0
						}
					}
				}()
				select {
				case <-done:
				case <-time.After(bound):
					failure.Store(fmt.Sprintf("producer %d op %d %s did not return within %v", p, i, o, bound))
					return
				}
				if err != nil && !o.unenc { // an item no link can encode may be refused in the caller
					failure.Store(fmt.Sprintf("producer %d op %d %s returned %v", p, i, o, err))
					return
				}
			}
		}(p, prog)
	}
	pwg.Wait()
	close(stopIn)
	inWG.Wait()
	if f := failure.Load(); f != nil {
		return fmt.Errorf("%s", f.(string))
	}
	// wait for delivery
	for c := 0; c < w.nch; c++ {
		if !pipes[c].WaitWrites(preWrites[c]+len(want[c]), bound) {
			return fmt.Errorf("channel %d: %d of %d addressed items reached the wire within %v (dropped although the backlog never exceeded 24)", c, pipes[c].NumWrites()-preWrites[c], len(want[c]), bound)
		}
	}
	// store-and-forward: the application kept every frame it received and forwards them only now, each to all
	// channels but the one it came from. What goes out must be what came in, long after the transports that
	// delivered them have moved on to other data.
	relayed := make([][][]byte, w.nch)
	{
		nfed := 0
		fedMu.Lock()
		for _, f := range fed {
			nfed += len(f)
		}
		fedMu.Unlock()
		frameEvents := func(recs []sim.Rec) []*gomavlib.EventFrame {
			var out []*gomavlib.EventFrame
			for _, r := range recs {
				if ef, ok := r.Ev.(*gomavlib.EventFrame); ok {
					out = append(out, ef)
				}
			}
			return out
		}
		if !rec.WaitFor(bound, func(recs []sim.Rec) bool { return len(frameEvents(recs)) >= nfed }) {
			return fmt.Errorf("%d frames were fed to the transports but only %d frame events arrived within %v", nfed, len(frameEvents(rec.Snapshot())), bound)
		}
		seenOn := make([]int, w.nch)
		total := make([]int, w.nch)
		for c := range total {
			total[c] = preWrites[c] + len(want[c])
		}
		for _, ef := range frameEvents(rec.Snapshot()) {
			src := -1
			for c, ch := range chans {
				if ch == ef.Channel {
					src = c
				}
			}
			if src < 0 || seenOn[src] >= len(fed[src]) {
				return fmt.Errorf("a frame event that matches nothing fed to the transports (channel %v)", ef.Channel)
			}
			orig := fed[src][seenOn[src]]
			seenOn[src]++
			if err := n.WriteFrameExcept(ef.Channel, ef.Frame); err != nil {
				return fmt.Errorf("forwarding a received frame failed: %v", err)
			}
			for c := 0; c < w.nch; c++ {
				if c != src {
					relayed[c] = append(relayed[c], orig)
					total[c]++
				}
			}
			for c := 0; c < w.nch; c++ {
				if !pipes[c].WaitWrites(total[c]-20, bound) {
					return fmt.Errorf("channel %d: forwarded received frames do not reach the wire (%d of %d writes)", c, pipes[c].NumWrites(), total[c])
				}
			}
		}
		w.relayedFrames = nfed
		for c := 0; c < w.nch; c++ {
			if !pipes[c].WaitWrites(total[c], bound) {
				return fmt.Errorf("channel %d: %d of %d forwarded received frames reached the wire within %v", c, pipes[c].NumWrites()-preWrites[c]-len(want[c]), len(relayed[c]), bound)
			}
		}
	}
	time.Sleep(3 * time.Millisecond) // anything extra would show up now
	if fpipe.NumWrites() != 0 {
		return fmt.Errorf("a write naming a foreign channel reached the other node's transport")
	}
	for c := 0; c < w.nch; c++ {
		writes := pipes[c].Writes()[preWrites[c]:]
		type pos struct{ p, i int }
		seen := map[item]int{}
		last := map[int]int{}
		originated := preWrites[c] // the prologue consisted of originated messages only
		relayIdx := 0
		for k, b := range writes {
			f, nbytes, err := ref.Parse(b)
			if err != nil || nbytes != len(b) {
				return fmt.Errorf("channel %d: transport write %d is not exactly one whole frame: %x", c, k, b)
			}
			if f.V2 != w.v2 && f.Sys == nodeSys {
				return fmt.Errorf("channel %d write %d: originated message in a version that differs from the configured one", c, k)
			}
			if f.Sys > 50 && int(f.Sys) <= 50+w.nch {
				// a received frame forwarded by the store-and-forward phase
				if relayIdx >= len(relayed[c]) {
					return fmt.Errorf("channel %d write %d: a forwarded received frame that was not addressed to this channel: %x", c, k, b)
				}
				if string(b) != string(relayed[c][relayIdx]) {
					return fmt.Errorf("channel %d write %d: a frame received earlier and forwarded later went out as %x, it arrived as %x", c, k, b, relayed[c][relayIdx])
				}
				relayIdx++
				continue
			}
			if f.ID != debugMsgID && !(f.ID == 131 && f.Sys == nodeSys) {
				return fmt.Errorf("channel %d write %d: unexpected message id %d", c, k, f.ID)
			}
			v, derr := lay(f.ID).Decode(f.Payload, f.V2)
			if derr != nil {
				return fmt.Errorf("channel %d write %d: %v", c, k, derr)
			}
			var it item
			if f.ID == 131 {
				em := v.(*common.MessageEncapsulatedData)
				it = item{p: int(em.Data[0]), i: int(em.Seqnr)}
				if len(f.Payload) != 255 || em.Data[252] != 0xEE {
					return fmt.Errorf("channel %d write %d: the 255-byte message (producer %d, #%d) went out with %d payload bytes, last data byte %#x (submitted 0xEE)", c, k, it.p, it.i, len(f.Payload), em.Data[252])
				}
			} else {
				dm := v.(*common.MessageDebug)
				it = item{p: int(dm.Ind), i: int(dm.TimeBootMs)}
			}
			if f.Checksum != f.ChecksumFor(lay(f.ID).CRCExtra) {
				return fmt.Errorf("channel %d write %d: wrong checksum", c, k)
			}
			if f.Sys == nodeSys {
				// originated
				if f.Comp != nodeComp {
					return fmt.Errorf("channel %d write %d: originated message with component %d", c, k, f.Comp)
				}
				if f.Seq != byte(originated) {
					return fmt.Errorf("channel %d write %d: originated message has sequence %d, the link's %d-th originated frame must carry %d", c, k, f.Seq, originated, byte(originated))
				}
				originated++
				if w.key != nil {
					if !f.Signed() || f.Sig != f.SignatureFor(*w.key) {
						return fmt.Errorf("channel %d write %d: originated message not validly signed", c, k)
					}
				} else if f.V2 && f.Incompat != 0 {
					return fmt.Errorf("channel %d write %d: unexpected incompat flags", c, k)
				}
			} else {
				it.frame = true
				_, wantF := fwdFrame(it.p, it.i, f.V2, w.programs[it.p][it.i].raw)
				if w.programs[it.p][it.i].other != (f.V2 != w.v2) {
					return fmt.Errorf("channel %d write %d: forwarded frame changed version (v2=%v)", c, k, f.V2)
				}
				if string(f.Payload) != string(wantF.Payload) {
					return fmt.Errorf("channel %d write %d: forwarded %s frame carries payload %x, its version's encoding is %x", c, k, map[bool]string{true: "v2", false: "v1"}[f.V2], f.Payload, wantF.Payload)
				}
				if f.Sys != wantF.Sys || f.Comp != wantF.Comp || f.Seq != wantF.Seq || f.Compat != wantF.Compat || f.Incompat != wantF.Incompat || f.Checksum != wantF.Checksum {
					return fmt.Errorf("channel %d write %d: forwarded frame header changed: seq/sys/comp %d/%d/%d flags %#x/%#x checksum %#04x, submitted %d/%d/%d flags %#x/%#x checksum %#04x", c, k, f.Seq, f.Sys, f.Comp, f.Incompat, f.Compat, f.Checksum, wantF.Seq, wantF.Sys, wantF.Comp, wantF.Incompat, wantF.Compat, wantF.Checksum)
				}
			}
			seen[it]++
			if seen[it] > 1 {
				return fmt.Errorf("channel %d: item (producer %d, #%d, frame=%v) written %d times", c, it.p, it.i, it.frame, seen[it])
			}
			if prev, ok := last[it.p]; ok && it.i < prev {
				return fmt.Errorf("channel %d: producer %d's items out of submission order (#%d after #%d)", c, it.p, it.i, prev)
			}
			last[it.p] = it.i
			_ = pos{}
		}
		if relayIdx != len(relayed[c]) {
			return fmt.Errorf("channel %d: %d of %d forwarded received frames on the wire", c, relayIdx, len(relayed[c]))
		}
		wantSet := map[item]bool{}
		for _, it := range want[c] {
			wantSet[it] = true
		}
		for it := range seen {
			if !wantSet[it] {
				return fmt.Errorf("channel %d received item (producer %d, #%d, frame=%v) that was not addressed to it", c, it.p, it.i, it.frame)
			}
		}
		for it := range wantSet {
			if seen[it] == 0 {
				return fmt.Errorf("channel %d never received item (producer %d, #%d, frame=%v) addressed to it", c, it.p, it.i, it.frame)
			}
		}
	}
	return nil
}

// TestC11SingleWriterPerTransport: while messages and frames flow to slow custom transports, the read
// side of a transport fails now and then (the channel is replaced by a fresh one on the same transport).
// At no time may two Write calls be in progress on one transport, and every completed write must be one whole frame.
func TestC11SingleWriterPerTransport(t *testing.T) {
	rec := evid.New(t, "C11", "2..3 slow custom transports (each Write stays in progress 50-400us) under a steady load of WriteMessageAll/WriteFrameAll while read errors are injected at generated moments so that channels are replaced on the same transport; oracle: no Write call ever begins while another one is in progress on the same transport (frames would interleave on a byte stream), every completed write is exactly one whole frame; non-trivial = at least one channel was replaced while writes were in flight; distinct by hash of the parameters")
	rec.Require("channel-replaced-under-load", "stream-requests-written-under-load")
	evid.Check(t, rec, evid.N(40, 200), func(t *rapid.T) {
		drawNodeInit(t)
		nch := rapid.IntRange(2, 3).Draw(t, "nch")
		delay := time.Duration(rapid.IntRange(50, 400).Draw(t, "write_delay_us")) * time.Microsecond
		flaps := rapid.IntRange(1, 5).Draw(t, "flaps")
		gap := time.Duration(rapid.IntRange(200, 3000).Draw(t, "gap_us")) * time.Microsecond
		// with stream requests enabled, heartbeats of ArduPilot vehicles the node has not heard before keep arriving:
		// what the node sends them on its own is one more source of writes for the same link
		streamReq := rapid.Bool().Draw(t, "stream_requests_to_new_vehicles")
		desc := fmt.Sprintf("transports=%d writeDelay=%v readFaults=%d gap=%v streamRequestsToNewVehicles=%v", nch, delay, flaps, gap, streamReq)
		pipes := make([]*sim.Pipe, nch)
		var endpoints []gomavlib.EndpointConf
		for i := range pipes {
			pipes[i] = sim.NewPipe()
			pipes[i].SetWriteDelay(delay)
			endpoints = append(endpoints, gomavlib.EndpointCustom{ReadWriteCloser: pipes[i]})
		}
		n := &gomavlib.Node{Endpoints: endpoints, Dialect: ardupilotmega.Dialect, OutVersion: gomavlib.V2, OutSystemID: nodeSys, HeartbeatDisable: true,
			StreamRequestEnable: streamReq}
		if err := initNode(&n); err != nil {
			t.Fatalf("BROKEN: %v", err)
		}
		r := sim.StartRecorder(n, sim.Pacing{Kind: "fast"}, nil)
		stop := make(chan struct{})
		var wg sync.WaitGroup
		if streamReq {
			wg.Add(1)
			go func() {
				defer wg.Done()
				hl := lay(0)
				for k := 0; ; k++ {
					select {
					case <-stop:
						return
					default:
					}
					f := ref.Frame{V2: true, Seq: byte(k), Sys: byte(1 + k%250), Comp: byte(1 + (k/250)%250), ID: 0}
					if f.Sys == nodeSys {
						f.Sys = 251
					}
					f.Payload = hl.Encode(&ardupilotmega.MessageHeartbeat{Type: 2, Autopilot: 3, MavlinkVersion: 3}, true)
					f.Checksum = f.ChecksumFor(hl.CRCExtra)
					pipes[k%nch].Feed(f.Bytes())
					time.Sleep(150 * time.Microsecond)
				}
			}()
		}
		wg.Add(1)
		go func() {
			defer wg.Done()
			for k := 0; ; k++ {
				select {
				case <-stop:
					return
				default:
				}
				if k%2 == 0 {
					n.WriteMessageAll(&common.MessageDebug{TimeBootMs: uint32(k), Ind: 1}) //nolint:errcheck
				} else {
					fr, _ := fwdFrame(1, k, true, k%4 == 1)
					n.WriteFrameAll(fr) //nolint:errcheck
				}
				time.Sleep(30 * time.Microsecond)
			}
		}()
		for k := 0; k < flaps; k++ {
			time.Sleep(gap)
			p := pipes[k%nch]
			p.FailReads(fmt.Errorf("injected read error %d", k))
			time.Sleep(300 * time.Microsecond)
			p.ClearReadError()
		}
		time.Sleep(gap)
		close(stop)
		wg.Wait()
		closeNode(n, bound) //nolint:errcheck
		r.WaitClosed(bound)
		replaced := 0
		for _, e := range r.Snapshot() {
			if _, ok := e.Ev.(*gomavlib.EventChannelClose); ok {
				replaced++
			}
		}
		for i, p := range pipes {
			if o := p.Overlaps(); o > 0 {
				evid.ReplayNote("C11", "TestC11SingleWriterPerTransport", fmt.Sprintf("%s: %d overlapping writes on transport %d", desc, o, i))
				t.Fatalf("%s: on transport %d a Write call began %d time(s) while another Write was still in progress: two writers on one link, frames can interleave", desc, i, o)
			}
			for k, b := range p.Writes() {
				if _, nb, err := ref.Parse(b); err != nil || nb != len(b) {
					t.Fatalf("%s: transport %d write %d is not one whole frame: %x", desc, i, k, b)
				}
			}
		}
		var cls []string
		if replaced > 0 {
			cls = append(cls, "channel-replaced-under-load")
		}
		if streamReq {
			nreq := 0
			for _, p := range pipes {
				for _, b := range p.Writes() {
					if f, _, err := ref.Parse(b); err == nil && f.ID == 66 && f.Sys == nodeSys {
						nreq++
					}
				}
			}
			if nreq >= 7 {
				cls = append(cls, "stream-requests-written-under-load")
			}
		}
		rec.Case(replaced > 0, evid.HashS(desc), cls...)
		rec.Sample("flap", desc)
	})
}
