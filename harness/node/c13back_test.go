package node

import (
	"errors"
	"fmt"
	"io"
	"testing"
	"time"

	gomavlib "github.com/bluenviron/gomavlib/v3"
	"github.com/bluenviron/gomavlib/v3/pkg/dialects/ardupilotmega"
	"github.com/bluenviron/gomavlib/v3/pkg/dialects/common"
	"github.com/bluenviron/gomavlib/v3/pkg/message"
	"pgregory.net/rapid"

	"verifharness/evid"
	"verifharness/sim"
)

// TestC13ChannelThatComesBackStillWrites: a channel is either closed (and says so) or it writes. A custom transport
// whose Read fails once is handed out again as a new channel; nothing is wrong with its write side. Whatever is written
// to the new channel - directed, to all, heartbeats aside - reaches the transport, life after life; a channel that
// stays open, reports nothing and lets nothing through is the state the property excludes.
func TestC13ChannelThatComesBackStillWrites(t *testing.T) {
	rec := evid.New(t, "C13", "1..2 custom transports; the first one fails 1..4 times in its Read (generated error values, also together with the last bytes) and is handed out again each time; in every life 1..12 items are written (to the channel, to all, with an exclusion): each must reach that transport in order within the bound unless the channel has reported its close; the other transport receives everything written to all; non-trivial = items written in a life after the first; distinct by hash of the parameters")
	rec.Require("items-written-to-a-channel-that-came-back", "three-or-more-lives")
	evid.Check(t, rec, evid.N(60, 300), func(t *rapid.T) {
		drawNodeInit(t)
		lives := rapid.IntRange(2, 5).Draw(t, "lives")
		two := rapid.Bool().Draw(t, "second_transport")
		items := make([]int, lives)
		how := make([]int, lives)
		for i := range items {
			items[i] = rapid.IntRange(1, 12).Draw(t, "items")
			how[i] = rapid.IntRange(0, 2).Draw(t, "flavour")
		}
		errKind := rapid.IntRange(0, 2).Draw(t, "read_error")
		desc := fmt.Sprintf("lives=%d itemsPerLife=%v flavours=%v secondTransport=%v readError=%d", lives, items, how, two, errKind)
		err := watchdog(scenarioLimit, func() error {
			p := sim.NewPipe()
			pipes := []*sim.Pipe{p}
			endpoints := []gomavlib.EndpointConf{gomavlib.EndpointCustom{ReadWriteCloser: p}}
			if two {
				q := sim.NewPipe()
				pipes = append(pipes, q)
				endpoints = append(endpoints, gomavlib.EndpointCustom{ReadWriteCloser: q})
			}
			n := &gomavlib.Node{Endpoints: endpoints, Dialect: ardupilotmega.Dialect, OutVersion: gomavlib.V2, OutSystemID: nodeSys, HeartbeatDisable: true}
			if err := initNode(&n); err != nil {
				return fmt.Errorf("BROKEN: %v", err)
			}
			r := sim.StartRecorder(n, sim.Pacing{Kind: "fast"}, nil)
			defer func() {
				closeNode(n, bound) //nolint:errcheck
				r.WaitClosed(bound)
			}()
			if _, ok := openCustom(n, r, pipes); !ok {
				return fmt.Errorf("BROKEN: channels did not open")
			}
			counter := 0
			toAll := 0
			for li := 0; li < lives; li++ {
				// the li-th channel on the first transport
				var ch *gomavlib.Channel
				if !r.WaitFor(bound, func(recs []sim.Rec) bool {
					k := 0
					ch = nil
					for _, e := range recs {
						if o, ok := e.Ev.(*gomavlib.EventChannelOpen); ok && isPipeChannel(o.Channel, p) {
							k++
							ch = o.Channel
						}
					}
					return k >= li+1
				}) {
					return fmt.Errorf("life %d: no channel on the custom transport after its read error", li)
				}
				before := p.NumWrites()
				for i := 0; i < items[li]; i++ {
					msg := &common.MessageDebug{TimeBootMs: uint32(counter), Ind: 4}
					var werr error
					switch how[li] {
					case 0:
						werr = n.WriteMessageTo(ch, msg)
					case 1:
						werr = n.WriteMessageAll(msg)
						toAll++
					case 2:
						werr = n.WriteMessageExcept(nil, msg)
						toAll++
					}
					if werr != nil {
						return fmt.Errorf("life %d: write refused: %v", li, werr)
					}
					counter++
				}
				if !p.WaitWrites(before+items[li], bound) {
					closed := false
					for _, e := range r.Snapshot() {
						if c, ok := e.Ev.(*gomavlib.EventChannelClose); ok && c.Channel == ch {
							closed = true
						}
					}
					if !closed {
						return fmt.Errorf("life %d of the custom transport (handed out again after %d read errors; its write side never failed): %d items were written to the open channel, %d reached the transport within %v and the channel has not reported a close - it stays open and lets nothing through", li, li, items[li], p.NumWrites()-before, bound)
					}
					return fmt.Errorf("life %d: the channel reported a close although only earlier channels of the transport had failed", li)
				}
				if li == lives-1 {
					break
				}
				injected := []error{errors.New("injected custom transport failure"), io.ErrUnexpectedEOF, io.ErrClosedPipe}[errKind]
				if li%2 == 1 {
					p.FeedWithError(tagged(1, li, "debug", true, nil, 0).Bytes(), injected)
				} else {
					p.FailNextRead(injected)
				}
			}
			cs, err := counters(p)
			if err != nil {
				return err
			}
			if len(cs) != counter {
				return fmt.Errorf("%d items written over %d lives, the transport carries %d: %v", counter, lives, len(cs), cs)
			}
			for i, c := range cs {
				if c != i {
					return fmt.Errorf("the transport carries item %d at position %d: %v", c, i, cs)
				}
			}
			if two {
				if !pipes[1].WaitWrites(toAll, bound) {
					return fmt.Errorf("the second transport received %d of the %d items written to all", pipes[1].NumWrites(), toAll)
				}
			}
			return nil
		})
		if err != nil {
			evid.ReplayNote("C13", "TestC13ChannelThatComesBackStillWrites", desc+"\n"+err.Error())
			t.Fatalf("%s\n%v", desc, err)
		}
		cls := []string{"items-written-to-a-channel-that-came-back"}
		if lives >= 3 {
			cls = append(cls, "three-or-more-lives")
		}
		rec.Case(true, evid.HashS(desc), cls...)
		if rec.WantSample("back") {
			rec.Sample("back", desc)
		}
	})
}

// TestC13SameValueWrittenAgain: what the application writes ten times goes out ten times - also when it hands over the
// very same frame or raw message value each time (a beacon, a keep-alive built once) and the link is busy: every write
// below the backlog bound is an item of its own.
func TestC13SameValueWrittenAgain(t *testing.T) {
	rec := evid.New(t, "C13", "2 custom transports, the first one blocked; the same frame value (WriteFrameAll) or the same raw message value (WriteMessageAll) is written 3..40 times (below the 64-item backlog), then the transport recovers: both links carry as many frames as were written, identical for the frame, with consecutive sequence numbers for the message; non-trivial = always; distinct by hash of the parameters")
	rec.Require("same-frame-value", "same-raw-message-value")
	evid.Check(t, rec, evid.N(40, 200), func(t *rapid.T) {
		drawNodeInit(t)
		times := rapid.IntRange(3, 40).Draw(t, "times")
		asFrame := rapid.Bool().Draw(t, "as_frame")
		desc := fmt.Sprintf("times=%d sameFrameValue=%v", times, asFrame)
		err := watchdog(scenarioLimit, func() error {
			pipes := []*sim.Pipe{sim.NewPipe(), sim.NewPipe()}
			n := &gomavlib.Node{Endpoints: []gomavlib.EndpointConf{gomavlib.EndpointCustom{ReadWriteCloser: pipes[0]}, gomavlib.EndpointCustom{ReadWriteCloser: pipes[1]}},
				Dialect: ardupilotmega.Dialect, OutVersion: gomavlib.V2, OutSystemID: nodeSys, HeartbeatDisable: true}
			if err := initNode(&n); err != nil {
				return fmt.Errorf("BROKEN: %v", err)
			}
			r := sim.StartRecorder(n, sim.Pacing{Kind: "fast"}, nil)
			defer func() {
				pipes[0].UnblockWrites()
				closeNode(n, bound) //nolint:errcheck
				r.WaitClosed(bound)
			}()
			if _, ok := openCustom(n, r, pipes); !ok {
				return fmt.Errorf("BROKEN: channels did not open")
			}
			pipes[0].BlockWrites()
			fr, _ := fwdFrame(2, 5, true, true)
			raw := &message.MessageRaw{ID: debugMsgID, Payload: lay(debugMsgID).Encode(&common.MessageDebug{TimeBootMs: 77, Ind: 1, Value: 1.5}, true)}
			for i := 0; i < times; i++ {
				var err error
				if asFrame {
					err = n.WriteFrameAll(fr)
				} else {
					err = n.WriteMessageAll(raw)
				}
				if err != nil {
					return fmt.Errorf("write refused: %v", err)
				}
			}
			if !pipes[1].WaitWrites(times, bound) {
				return fmt.Errorf("the healthy link carries %d of the %d writes", pipes[1].NumWrites(), times)
			}
			pipes[0].UnblockWrites()
			if !pipes[0].WaitWrites(times, bound) {
				return fmt.Errorf("the same value was written %d times while the link was busy (64 items fit its backlog); after the link recovered %d frames reached it", times, pipes[0].NumWrites())
			}
			sleepShort()
			for i, p := range pipes {
				if p.NumWrites() != times {
					return fmt.Errorf("link %d carries %d frames for %d writes", i, p.NumWrites(), times)
				}
			}
			return nil
		})
		if err != nil {
			evid.ReplayNote("C13", "TestC13SameValueWrittenAgain", desc+"\n"+err.Error())
			t.Fatalf("%s\n%v", desc, err)
		}
		cls := []string{"same-raw-message-value"}
		if asFrame {
			cls = []string{"same-frame-value"}
		}
		rec.Case(true, evid.HashS(desc), cls...)
		if rec.WantSample("same-value") {
			rec.Sample("same-value", desc)
		}
	})
}

// TestC13RefusedItemsDoNotSilenceALink: an item no link can encode (a raw message whose id the dialect does not
// contain) is discarded; it is no reason for the link to fall silent. After a run of such items the valid ones written
// next are on the wire at once - not seconds later, with everything written meanwhile piling up behind a pause.
func TestC13RefusedItemsDoNotSilenceALink(t *testing.T) {
	rec := evid.New(t, "C13", "1..2 healthy custom transports; 12..40 raw messages with ids outside the dialect are written (refused at the caller or discarded by the link), then 5 valid messages: all five must be on every wire within 1.5 s (normally microseconds; inconclusive when the process was held up for 300 ms or more), in order, and nothing else; non-trivial = always; distinct by hash of the parameters")
	rec.Require("valid-items-right-after-a-run-of-12-or-more-refused-ones")
	evid.Check(t, rec, evid.N(30, 150), func(t *rapid.T) {
		drawNodeInit(t)
		nch := rapid.IntRange(1, 2).Draw(t, "links")
		refused := rapid.IntRange(12, 40).Draw(t, "refused_items")
		desc := fmt.Sprintf("links=%d refusedItems=%d", nch, refused)
		err := watchdog(scenarioLimit, func() error {
			pipes := make([]*sim.Pipe, nch)
			var endpoints []gomavlib.EndpointConf
			for i := range pipes {
				pipes[i] = sim.NewPipe()
				endpoints = append(endpoints, gomavlib.EndpointCustom{ReadWriteCloser: pipes[i]})
			}
			n := &gomavlib.Node{Endpoints: endpoints, Dialect: ardupilotmega.Dialect, OutVersion: gomavlib.V2, OutSystemID: nodeSys, HeartbeatDisable: true}
			if err := initNode(&n); err != nil {
				return fmt.Errorf("BROKEN: %v", err)
			}
			r := sim.StartRecorder(n, sim.Pacing{Kind: "fast"}, nil)
			defer func() {
				closeNode(n, bound) //nolint:errcheck
				r.WaitClosed(bound)
			}()
			if _, ok := openCustom(n, r, pipes); !ok {
				return fmt.Errorf("BROKEN: channels did not open")
			}
			for i := 0; i < refused; i++ {
				n.WriteMessageAll(&message.MessageRaw{ID: []uint32{999999, 0x0100FE, 0x020083}[i%3], Payload: []byte{byte(i), 3}}) //nolint:errcheck
				if i%8 == 7 {
					sleepShort() // the items are discarded one by one, not as a block
				}
			}
			start := time.Now()
			for i := 0; i < 5; i++ {
				if err := n.WriteMessageAll(&common.MessageDebug{TimeBootMs: uint32(i), Ind: 4}); err != nil {
					return fmt.Errorf("valid write refused: %v", err)
				}
			}
			for c, p := range pipes {
				if !p.WaitWrites(5, 1500*time.Millisecond) {
					got := p.NumWrites()
					if stalls.StalledBetweenOver(start, time.Now(), 300*time.Millisecond) {
						p.WaitWrites(5, bound)
						return nil // inconclusive: the process was held up
					}
					p.WaitWrites(5, bound)
					return fmt.Errorf("%d items no link can encode were written to healthy links, then 5 valid messages: after 1.5 s link %d carried %d of them (all five %v after they were written) - the link is open, its transport is fine, and it keeps quiet", refused, c, got, time.Since(start).Round(time.Millisecond))
				}
				cs, err := counters(p)
				if err != nil || fmt.Sprint(cs) != "[0 1 2 3 4]" {
					return fmt.Errorf("link %d carries %v (%v), want the five valid messages 0..4 and nothing else", c, cs, err)
				}
			}
			return nil
		})
		if err != nil {
			evid.ReplayNote("C13", "TestC13RefusedItemsDoNotSilenceALink", desc+"\n"+err.Error())
			t.Fatalf("%s\n%v", desc, err)
		}
		rec.Case(true, evid.HashS(desc), "valid-items-right-after-a-run-of-12-or-more-refused-ones")
		if rec.WantSample("refused-run") {
			rec.Sample("refused-run", desc)
		}
	})
}
