package node

import (
	"errors"
	"fmt"
	"testing"
	"time"

	gomavlib "github.com/bluenviron/gomavlib/v3"
	"github.com/bluenviron/gomavlib/v3/pkg/dialects/ardupilotmega"
	"github.com/bluenviron/gomavlib/v3/pkg/dialects/common"
	"github.com/bluenviron/gomavlib/v3/pkg/frame"
	"github.com/bluenviron/gomavlib/v3/pkg/message"
	"pgregory.net/rapid"

	"verifharness/evid"
	"verifharness/ref"
	"verifharness/sim"
)

// TestC11FanOutAcrossReplacedChannels: which channels are "every open channel" changes while a node runs. Here
// links drop and come back (a fresh channel on the same transport, the number of channels unchanged) between
// writes; each All / Except / To write must reach exactly the channels that are open when it is made - the new
// ones included, the excluded one excluded - whatever the previous write looked like.
func TestC11FanOutAcrossReplacedChannels(t *testing.T) {
	rec := evid.New(t, "C11", "1..4 custom transports; a generated sequence of 10..40 steps: WriteMessageAll, WriteMessageExcept(channel of link x) (often the same x several times in a row), WriteMessageTo(channel of link x), WriteFrameExcept, and 'link j drops and comes back' (one read error; the step waits for the fresh channel); each item must appear exactly once and in order on exactly the links whose current channel is addressed; an Except naming a channel that no longer exists reaches every link; non-trivial = two Except writes with the same exclusion around a replacement of another link; distinct by hash of the steps")
	rec.Require("same-exclusion-before-and-after-another-link-was-replaced", "exclusion-naming-no-open-channel-on-a-node-with-one-link")
	evid.Check(t, rec, evid.N(60, 300), func(t *rapid.T) {
		drawNodeInit(t)
		nl := rapid.SampledFrom([]int{1, 2, 3, 3, 4, 4}).Draw(t, "links")
		type step struct {
			op   string
			link int
		}
		var steps []step
		ns := rapid.IntRange(10, 40).Draw(t, "steps")
		lastEx := -1
		for i := 0; i < ns; i++ {
			s := step{op: rapid.SampledFrom([]string{"all", "except", "except", "except", "frame-except", "to", "flap", "flap", "except-closed", "except-nil", "to-closed"}).Draw(t, "op"), link: rapid.IntRange(0, nl-1).Draw(t, "link")}
			if (s.op == "except" || s.op == "frame-except") && lastEx >= 0 && rapid.IntRange(0, 2).Draw(t, "same_exclusion_again") > 0 {
				s.link = lastEx
			}
			if s.op == "except" || s.op == "frame-except" {
				lastEx = s.link
			}
			steps = append(steps, s)
		}
		desc := fmt.Sprintf("links=%d steps=%v", nl, steps)
		pipes := make([]*sim.Pipe, nl)
		var endpoints []gomavlib.EndpointConf
		for i := range pipes {
			pipes[i] = sim.NewPipe()
			endpoints = append(endpoints, gomavlib.EndpointCustom{ReadWriteCloser: pipes[i]})
		}
		n := &gomavlib.Node{Endpoints: endpoints, Dialect: ardupilotmega.Dialect, OutVersion: gomavlib.V2, OutSystemID: nodeSys, HeartbeatDisable: true}
		if err := initNode(&n); err != nil {
			t.Fatalf("BROKEN: %v", err)
		}
		r := sim.StartRecorder(n, sim.Pacing{Kind: "fast"}, nil)
		defer func() {
			closeNode(n, bound) //nolint:errcheck
			r.WaitClosed(bound)
		}()
		fail := func(format string, a ...interface{}) {
			msg := desc + "\n" + fmt.Sprintf(format, a...)
			evid.ReplayNote("C11", "TestC11FanOutAcrossReplacedChannels", msg)
			t.Fatalf("%s", msg)
		}
		cur, ok := openCustom(n, r, pipes)
		if !ok {
			t.Fatalf("BROKEN: channels did not open")
		}
		var gone []*gomavlib.Channel
		want := make([][]int, nl)
		counter := 0
		lastExcept, flappedSince, covered := -1, false, false
		oneLeft := false
		toClosed := false
		for si, s := range steps {
			switch s.op {
			case "flap":
				old := cur[s.link]
				if !waitReaderParked(pipes[s.link]) {
					t.Fatalf("BROKEN: reader not reading")
				}
				pipes[s.link].FailNextRead(errors.New("injected read error"))
				// the fresh channel of this link: an open event for a channel value on this pipe other than the old one
				var fresh *gomavlib.Channel
				if !r.WaitFor(bound, func(recs []sim.Rec) bool {
					for _, e := range recs {
						if o, ok := e.Ev.(*gomavlib.EventChannelOpen); ok && isPipeChannel(o.Channel, pipes[s.link]) && o.Channel != old {
							known := false
							for _, g := range gone {
								known = known || g == o.Channel
							}
							if !known {
								fresh = o.Channel
							}
						}
					}
					return fresh != nil
				}) {
					fail("step %d: link %d dropped (read error) and did not come back within %v", si, s.link, bound)
				}
				gone = append(gone, old)
				cur[s.link] = fresh
				if lastExcept >= 0 && lastExcept != s.link {
					flappedSince = true
				}
				continue
			}
			item := counter
			counter++
			m := &common.MessageDebug{TimeBootMs: uint32(item), Ind: 3}
			_ = toClosed
			var err error
			var targets []int
			switch s.op {
			case "all":
				err = n.WriteMessageAll(m)
				for i := range pipes {
					targets = append(targets, i)
				}
			case "except", "frame-except":
				if s.op == "except" {
					err = n.WriteMessageExcept(cur[s.link], m)
				} else {
					fr, _ := fwdFrameCounter(item)
					err = n.WriteFrameExcept(cur[s.link], fr)
				}
				for i := range pipes {
					if i != s.link {
						targets = append(targets, i)
					}
				}
				if lastExcept == s.link && flappedSince {
					covered = true
				}
				lastExcept, flappedSince = s.link, false
			case "except-closed":
				if len(gone) == 0 {
					counter--
					continue
				}
				err = n.WriteMessageExcept(gone[len(gone)-1], m)
				for i := range pipes {
					targets = append(targets, i)
				}
				oneLeft = oneLeft || nl == 1
			case "to-closed":
				// a write that names a channel which has ended reaches nothing - not the channel that replaced it either
				if len(gone) == 0 {
					counter--
					continue
				}
				err = n.WriteMessageTo(gone[len(gone)-1], m)
				targets = nil
				toClosed = true
			case "except-nil":
				// an exclusion that names no channel excludes none
				err = n.WriteMessageExcept(nil, m)
				for i := range pipes {
					targets = append(targets, i)
				}
				oneLeft = oneLeft || nl == 1
			case "to":
				err = n.WriteMessageTo(cur[s.link], m)
				targets = []int{s.link}
			}
			if err != nil {
				fail("step %d (%v): write refused: %v", si, s, err)
			}
			for _, i := range targets {
				want[i] = append(want[i], item)
			}
			// one item at a time: wait until it is on every wire it is meant for
			for _, i := range targets {
				i := i
				okw := false
				for try := 0; try < 4000 && !okw; try++ {
					cs, _ := allCounters(pipes[i])
					okw = len(cs) >= len(want[i])
					if !okw {
						sleepShort()
					}
				}
				if !okw {
					cs, _ := allCounters(pipes[i])
					fail("step %d (%v): item %d did not reach link %d (its wire so far: %v, expected %v)", si, s, item, i, cs, want[i])
				}
			}
		}
		// one last item to all: whatever was queued before it (rightly or wrongly) is on the wires when it is
		{
			if err := n.WriteMessageAll(&common.MessageDebug{TimeBootMs: uint32(counter), Ind: 3}); err != nil {
				fail("last write refused: %v", err)
			}
			for i := range pipes {
				want[i] = append(want[i], counter)
				okw := false
				for try := 0; try < 4000 && !okw; try++ {
					cs, _ := allCounters(pipes[i])
					okw = len(cs) > 0 && cs[len(cs)-1] == counter
					if !okw {
						sleepShort()
					}
				}
				if !okw {
					fail("the last item (written to all) did not reach link %d", i)
				}
			}
		}
		for i, p := range pipes {
			cs, err := allCounters(p)
			if err != nil {
				fail("link %d: %v", i, err)
			}
			if fmt.Sprint(cs) != fmt.Sprint(want[i]) {
				fail("link %d carries the items %v, addressed to it were %v (a write that names a channel which has ended reaches nothing)", i, cs, want[i])
			}
		}
		var cls []string
		if toClosed {
			cls = append(cls, "write-naming-a-channel-that-has-ended")
		}
		if covered {
			cls = append(cls, "same-exclusion-before-and-after-another-link-was-replaced")
		}
		if oneLeft {
			cls = append(cls, "exclusion-naming-no-open-channel-on-a-node-with-one-link")
		}
		rec.Case(covered, evid.HashS(desc), cls...)
		if covered && rec.WantSample("replaced") {
			rec.Sample("replaced", desc)
		}
	})
}

func sleepShort() { time.Sleep(500 * time.Microsecond) }

// TestC11BacklogBelowQueueAfterOverflow: "nothing is dropped while the channel's backlog stays below its bounded
// queue" holds whatever happened to the channel before. A link's queue overflows once (allowed to drop), k writes go
// through and the link stalls again with 64-k items queued; fewer than k items are then written with every flavour of
// Write*: they fit, and all of them reach the wire in order once the link recovers.
func TestC11BacklogBelowQueueAfterOverflow(t *testing.T) {
	rec := evid.New(t, "C11", "2..3 custom transports; one transport blocks until its 64-item queue has overflowed (70..120 items, the other links receive all of them), accepts exactly k = 6..40 writes and blocks again (64-k items queued); k-2-s items (s = 0..2) are written with WriteMessageTo / All / Except(nil) / Except(another channel): the backlog stays below the queue size, so after the recovery the wire must carry every one of them in order; non-trivial = always; distinct by hash of the parameters")
	rec.Require("items-written-while-the-backlog-is-between-half-full-and-full-after-an-overflow", "written-to-all", "written-with-an-exclusion", "backlog-of-58-or-more-with-stream-requests-enabled")
	evid.Check(t, rec, evid.N(30, 150), func(t *rapid.T) {
		drawNodeInit(t)
		nch := rapid.IntRange(2, 3).Draw(t, "nch")
		over := rapid.IntRange(70, 120).Draw(t, "items_during_the_first_stall")
		k := rapid.IntRange(6, 40).Draw(t, "writes_accepted_in_between")
		m := k - 2 - rapid.IntRange(0, 2).Draw(t, "slack")
		how := rapid.IntRange(0, 3).Draw(t, "write_flavour")
		sr := rapid.Bool().Draw(t, "stream_requests_enabled")
		if rapid.IntRange(0, 2).Draw(t, "nearly_full") > 0 {
			// the backlog ends between 58 and 63 items: nearly full is not full - whatever else the node is set up to do
			k = rapid.IntRange(3, 6).Draw(t, "writes_accepted_in_between_few")
			m = k - 1 - rapid.IntRange(0, 1).Draw(t, "slack_few")
			sr = true
			how = rapid.IntRange(1, 3).Draw(t, "fan_out_flavour")
		}
		desc := fmt.Sprintf("channels=%d overflowItems=%d acceptedInBetween=%d thenWritten=%d flavour=%s streamRequestsEnabled=%v", nch, over, k, m, []string{"to", "all", "except-nil", "except-other"}[how], sr)
		partialStreamRequests = sr
		err := watchdog(scenarioLimit, func() error { return runC13Partial(nch, over, k, m, how) })
		partialStreamRequests = false
		if err != nil {
			evid.ReplayNote("C11", "TestC11BacklogBelowQueueAfterOverflow", desc+"\n"+err.Error())
			t.Fatalf("%s\n%v", desc, err)
		}
		cls := []string{"items-written-while-the-backlog-is-between-half-full-and-full-after-an-overflow"}
		if sr && how > 0 && 64-k+m >= 59 {
			cls = append(cls, "backlog-of-58-or-more-with-stream-requests-enabled")
		}
		switch how {
		case 1:
			cls = append(cls, "written-to-all")
		case 2, 3:
			cls = append(cls, "written-with-an-exclusion")
		}
		rec.Case(true, evid.HashS(desc), cls...)
		if rec.WantSample("backlog") {
			rec.Sample("backlog", desc)
		}
	})
}

// TestC11ForwardedFramesOfANamesake: a frame handed to WriteFrame* goes out as it is, whoever its header says wrote it -
// also when that is a station with the node's own system and component id (a second ground station left at the same
// ids, the node's own frames coming back through a loop). Messages the node originates in between keep their own
// gapless sequence per link.
func TestC11ForwardedFramesOfANamesake(t *testing.T) {
	rec := evid.New(t, "C11", "a node (system 42, component 17) on 2..3 custom links writes 10..40 items in generated order: its own messages (WriteMessageAll) and frames to forward (WriteFrameAll / WriteFrameExcept(nil)) whose headers name generated authors - among them (42,17), (42,18), (41,17) - with their own sequence numbers, flags and checksums; every link must carry the forwarded frames byte for byte and the originated messages with sequence numbers 0,1,2,...; non-trivial = a forwarded frame whose author has the node's ids between two originated messages; distinct by hash of the parameters")
	rec.Require("forwarded-frame-whose-author-has-the-node's-ids")
	evid.Check(t, rec, evid.N(60, 300), func(t *rapid.T) {
		drawNodeInit(t)
		nch := rapid.IntRange(2, 3).Draw(t, "nch")
		v2 := rapid.Bool().Draw(t, "v2")
		n0 := rapid.IntRange(10, 40).Draw(t, "items")
		kinds := rapid.SliceOfN(rapid.IntRange(0, 5), n0, n0).Draw(t, "kinds") // 0,1: own message; 2: namesake; 3: same system; 4: stranger; 5: raw frame with an id at the end of its range
		desc := fmt.Sprintf("links=%d v2=%v items=%v", nch, v2, kinds)
		pipes := make([]*sim.Pipe, nch)
		var endpoints []gomavlib.EndpointConf
		for i := range pipes {
			pipes[i] = sim.NewPipe()
			endpoints = append(endpoints, gomavlib.EndpointCustom{ReadWriteCloser: pipes[i]})
		}
		n := &gomavlib.Node{Endpoints: endpoints, Dialect: ardupilotmega.Dialect, OutVersion: gomavlib.V1, OutSystemID: nodeSys, OutComponentID: nodeComp, HeartbeatDisable: true}
		if v2 {
			n.OutVersion = gomavlib.V2
		}
		if err := initNode(&n); err != nil {
			t.Fatalf("BROKEN: %v", err)
		}
		r := sim.StartRecorder(n, sim.Pacing{Kind: "fast"}, nil)
		defer func() {
			closeNode(n, bound) //nolint:errcheck
			r.WaitClosed(bound)
		}()
		if _, ok := openCustom(n, r, pipes); !ok {
			t.Fatalf("BROKEN: channels did not open")
		}
		var want [][]byte // nil = an originated message
		namesake := false
		for i, k := range kinds {
			if k <= 1 {
				if err := n.WriteMessageAll(&common.MessageDebug{TimeBootMs: uint32(i), Ind: 9}); err != nil {
					t.Fatalf("write refused: %v", err)
				}
				want = append(want, nil)
				continue
			}
			if k == 5 {
				// the largest ids a frame of either version can carry (and their neighbours), as raw frames of a sender
				// the node knows nothing about: forwarded like any other
				f := ref.Frame{V2: i%2 == 0, Seq: byte(i), Sys: 77, Comp: 88, Payload: []byte{byte(i), 2, 3}, Checksum: 0x5151}
				var fr frame.Frame
				if f.V2 {
					f.ID = []uint32{0xFFFFFF, 0xFFFFFE, 65536, 65535, 255}[i/2%5]
					fr = &frame.V2Frame{SequenceNumber: f.Seq, SystemID: 77, ComponentID: 88, Message: &message.MessageRaw{ID: f.ID, Payload: f.Payload}, Checksum: f.Checksum}
				} else {
					f.ID = []uint32{255, 253, 255}[i/2%3]
					fr = &frame.V1Frame{SequenceNumber: f.Seq, SystemID: 77, ComponentID: 88, Message: &message.MessageRaw{ID: f.ID, Payload: f.Payload}, Checksum: f.Checksum}
				}
				if err := n.WriteFrameAll(fr); err != nil {
					t.Fatalf("forwarding refused: %v", err)
				}
				want = append(want, f.Bytes())
				continue
			}
			fr, f := fwdFrame(1, i, v2, i%3 == 0)
			author := [][2]byte{{nodeSys, nodeComp}, {nodeSys, nodeComp + 1}, {nodeSys - 1, nodeComp}}[k-2]
			f.Sys, f.Comp = author[0], author[1]
			f.Checksum = f.ChecksumFor(lay(debugMsgID).CRCExtra)
			switch ff := fr.(type) {
			case *frame.V2Frame:
				ff.SystemID, ff.ComponentID, ff.Checksum = f.Sys, f.Comp, f.Checksum
			case *frame.V1Frame:
				ff.SystemID, ff.ComponentID, ff.Checksum = f.Sys, f.Comp, f.Checksum
			}
			var err error
			if i%2 == 0 {
				err = n.WriteFrameAll(fr)
			} else {
				err = n.WriteFrameExcept(nil, fr)
			}
			if err != nil {
				t.Fatalf("forwarding refused: %v", err)
			}
			want = append(want, f.Bytes())
			if k == 2 && i > 0 && i+1 < len(kinds) {
				namesake = true
			}
		}
		for c, p := range pipes {
			if !p.WaitWrites(len(want), bound) {
				t.Fatalf("%s: link %d carries %d of %d items", desc, c, p.NumWrites(), len(want))
			}
			seq := 0
			for i, b := range p.Writes()[:len(want)] {
				if want[i] != nil {
					if string(b) != string(want[i]) {
						msg := fmt.Sprintf("%s\nlink %d item %d: a frame handed to WriteFrame* (author %d/%d, its own sequence number, flags and checksum) went out as %x, it was %x", desc, c, i, want[i][3+4*b2i(v2)], want[i][4+4*b2i(v2)], b, want[i])
						evid.ReplayNote("C11", "TestC11ForwardedFramesOfANamesake", msg)
						t.Fatalf("%s", msg)
					}
					continue
				}
				f, _, err := ref.Parse(b)
				if err != nil || f.Sys != nodeSys || f.Comp != nodeComp || int(f.Seq) != seq%256 {
					msg := fmt.Sprintf("%s\nlink %d item %d: originated message went out as %x (parse error %v): want system %d component %d sequence number %d", desc, c, i, b, err, nodeSys, nodeComp, seq%256)
					evid.ReplayNote("C11", "TestC11ForwardedFramesOfANamesake", msg)
					t.Fatalf("%s", msg)
				}
				seq++
			}
		}
		var cls []string
		if namesake {
			cls = append(cls, "forwarded-frame-whose-author-has-the-node's-ids")
		}
		rec.Case(namesake, evid.HashS(desc), cls...)
		if rec.WantSample("namesake") {
			rec.Sample("namesake", desc)
		}
	})
}

func b2i(b bool) int {
	if b {
		return 1
	}
	return 0
}
