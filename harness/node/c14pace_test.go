package node

import (
	"fmt"
	"net"
	"strings"
	"testing"
	"time"

	gomavlib "github.com/bluenviron/gomavlib/v3"
	"github.com/bluenviron/gomavlib/v3/pkg/dialects/ardupilotmega"
	"pgregory.net/rapid"

	"verifharness/evid"
	"verifharness/sim"
)

// TestC14FailedAttemptsPaced: failed TCP connection attempts cannot be seen from outside (nothing listens), so the
// pacing of a client endpoint is observed where it happens: the node's goroutines are sampled while nothing
// listens. Between two attempts the endpoint waits for the reconnect delay, an attempt against a closed loopback
// port takes well under a millisecond, so a sample finds the endpoint inside a connection attempt only rarely;
// an endpoint that retries without the delay is found there nearly every time. This covers attempts that fail
// before the endpoint has ever connected and attempts that fail after a connection was lost.
func TestC14FailedAttemptsPaced(t *testing.T) {
	rec := evid.New(t, "C14", "a TCP client endpoint against a loopback port on which nothing listens for a generated time, first from node start (no connection has ever succeeded), then again after a connection was accepted and dropped by the peer; the library goroutines are sampled every few milliseconds and a sample counts as 'attempting' when a stack is inside net.(*Dialer).DialContext; with the reconnect delay (60 ms here) honoured at most a small share of samples can be attempting (limit: half); non-trivial = both windows sampled at least 10 times; distinct by hash of the window lengths")
	rec.Require("failed-attempts-before-first-connection", "failed-attempts-after-lost-connection")
	c14Hook()
	evid.Check(t, rec, evid.N(6, 20), func(t *rapid.T) {
		drawNodeInit(t)
		d1 := time.Duration(rapid.IntRange(150, 400).Draw(t, "down_before_first_connection_ms")) * time.Millisecond
		d2 := time.Duration(rapid.IntRange(150, 400).Draw(t, "down_after_lost_connection_ms")) * time.Millisecond
		desc := fmt.Sprintf("nothing listens for %v from node start, then one connection is accepted and dropped, then nothing listens for %v", d1, d2)
		s1, s2, err := runC14Pace(d1, d2)
		if err != nil {
			evid.ReplayNote("C14", "TestC14FailedAttemptsPaced", desc+"\n"+err.Error())
			t.Fatalf("%s\n%v", desc, err)
		}
		var cls []string
		if s1 >= 10 {
			cls = append(cls, "failed-attempts-before-first-connection")
		}
		if s2 >= 10 {
			cls = append(cls, "failed-attempts-after-lost-connection")
		}
		rec.Case(len(cls) == 2, evid.HashS(desc), cls...)
		if rec.WantSample("pacing") {
			rec.Sample("pacing", map[string]interface{}{"scenario": desc, "samples_window_1": s1, "samples_window_2": s2})
		}
	})
}

// sampleAttempts samples the library goroutines for d and returns (samples, samples inside a connection attempt).
func sampleAttempts(d time.Duration) (int, int, string) {
	n, in := 0, 0
	last := ""
	for end := time.Now().Add(d); time.Now().Before(end); {
		gs := sim.LibGoroutines()
		n++
		for _, g := range gs {
			if strings.Contains(g, "net.(*Dialer).DialContext") {
				in++
				last = g
				break
			}
		}
		time.Sleep(3 * time.Millisecond)
	}
	return n, in, last
}

func runC14Pace(d1, d2 time.Duration) (int, int, error) {
	port := sim.FreePort()
	n := &gomavlib.Node{Endpoints: []gomavlib.EndpointConf{gomavlib.EndpointTCPClient{Address: sim.Addr(port)}},
		Dialect: ardupilotmega.Dialect, OutVersion: gomavlib.V2, OutSystemID: 9, HeartbeatDisable: true,
		ReadTimeout: 100 * time.Millisecond} // shorter than either outage: each attempt has its own time budget
	if err := initNode(&n); err != nil {
		return 0, 0, fmt.Errorf("BROKEN: %v", err)
	}
	rec := sim.StartRecorder(n, sim.Pacing{Kind: "fast"}, nil)
	defer func() {
		closeNode(n, bound) //nolint:errcheck
		rec.WaitClosed(bound)
	}()
	verdict := func(window string, samples, in int, stack string) error {
		if samples >= 10 && in*2 > samples {
			return fmt.Errorf("%s: %d of %d samples found the endpoint inside a connection attempt; with the reconnect delay of %v between failed attempts (an attempt against a closed loopback port takes far less than a millisecond) that share must be small: the endpoint retries without waiting. Last such stack:\n%s", window, in, samples, c14Reconnect, stack)
		}
		return nil
	}
	s1, in1, st1 := sampleAttempts(d1)
	if err := verdict("nothing has ever listened", s1, in1, st1); err != nil {
		return s1, 0, err
	}
	// one connection, dropped by the peer
	l, err := net.Listen("tcp4", sim.Addr(port))
	if err != nil {
		return s1, 0, fmt.Errorf("BROKEN: listen: %v", err)
	}
	// a connection that became a channel (an attempt whose time budget ran out after the handshake is dropped
	// by the client and does not count), then dropped by the peer
	deadline := time.Now().Add(bound)
	opened := false
	for !opened {
		l.(*net.TCPListener).SetDeadline(deadline) //nolint:errcheck
		conn, err := l.Accept()
		if err != nil {
			l.Close()
			return s1, 0, fmt.Errorf("the client never connected within %v after a listener appeared", bound)
		}
		opened = rec.WaitFor(400*time.Millisecond, func(recs []sim.Rec) bool {
			for _, e := range lifecycle(recs) {
				if e.open {
					return true
				}
			}
			return false
		})
		conn.Close()
	}
	l.Close()
	if !rec.WaitFor(bound, func(recs []sim.Rec) bool {
		for _, e := range lifecycle(recs) {
			if !e.open {
				return true
			}
		}
		return false
	}) {
		return s1, 0, fmt.Errorf("no close event after the peer dropped the connection")
	}
	s2, in2, st2 := sampleAttempts(d2)
	if err := verdict("after the connection was lost", s2, in2, st2); err != nil {
		return s1, s2, err
	}
	// however long the attempts have been failing, the next one succeeds once somebody listens
	l2, err := net.Listen("tcp4", sim.Addr(port))
	if err != nil {
		return s1, s2, fmt.Errorf("BROKEN: listen: %v", err)
	}
	deadline2 := time.Now().Add(bound)
	for opened2 := false; !opened2; {
		l2.(*net.TCPListener).SetDeadline(deadline2) //nolint:errcheck
		conn2, err := l2.Accept()
		if err != nil {
			l2.Close()
			return s1, s2, fmt.Errorf("after %v of failed attempts (connect timeout %v) the client never got a connection again within %v of a listener appearing", d2, n.ReadTimeout, bound)
		}
		opened2 = rec.WaitFor(400*time.Millisecond, func(recs []sim.Rec) bool {
			k := 0
			for _, e := range lifecycle(recs) {
				if e.open {
					k++
				}
			}
			return k >= 2
		})
		conn2.Close()
	}
	l2.Close()
	return s1, s2, nil
}
