package node

import (
	"fmt"
	"testing"
	"time"

	gomavlib "github.com/bluenviron/gomavlib/v3"
	"github.com/bluenviron/gomavlib/v3/pkg/dialects/ardupilotmega"
	"github.com/bluenviron/gomavlib/v3/pkg/dialects/common"
	"pgregory.net/rapid"

	"verifharness/evid"
	"verifharness/sim"
)

// TestC13DirectedWritesToAStalledChannel: "cannot delay ... writes on other channels" measured, not only counted.
// The same series of directed writes - one to channel A, one to channel B, B's delivery awaited with a small
// window - is timed twice on one node: first with both transports healthy, then with A's transport blocked and A's
// backlog full. Everything addressed to A in the second series is discarded, which costs nothing; the series must
// not take much longer than the first (limit: ten times as long plus a second, skipped when the process was stalled).
func TestC13DirectedWritesToAStalledChannel(t *testing.T) {
	rec := evid.New(t, "C13", "2..3 custom transports; K=250..350 rounds of {WriteMessageTo/WriteFrameTo(A), WriteMessageTo(B)} with B's delivery awaited (window 30), timed once while A is healthy and once while A's transport is blocked and its 64-item backlog is full; the blocked series may take at most 10x the healthy one + 1 s; B must receive every item of both series in order; non-trivial = always; distinct by hash of the parameters")
	rec.Require("directed-writes-to-a-channel-with-a-full-backlog")
	evid.Check(t, rec, evid.N(6, 30), func(t *rapid.T) {
		drawNodeInit(t)
		nch := rapid.IntRange(2, 3).Draw(t, "nch")
		k := rapid.IntRange(250, 350).Draw(t, "rounds")
		frames := rapid.Bool().Draw(t, "WriteFrameTo")
		desc := fmt.Sprintf("channels=%d rounds=%d toStalledWithWriteFrameTo=%v", nch, k, frames)
		var t0, t1 time.Duration
		err := watchdog(scenarioLimit, func() error {
			var e error
			t0, t1, e = runC13Directed(nch, k, frames)
			return e
		})
		if err != nil {
			evid.ReplayNote("C13", "TestC13DirectedWritesToAStalledChannel", desc+"\n"+err.Error())
			t.Fatalf("%s\n%v", desc, err)
		}
		rec.Case(true, evid.HashS(desc), "directed-writes-to-a-channel-with-a-full-backlog")
		if rec.WantSample("directed") {
			rec.Sample("directed", map[string]interface{}{"scenario": desc, "healthy_series": t0.String(), "blocked_series": t1.String()})
		}
	})
}

func runC13Directed(nch, k int, frames bool) (time.Duration, time.Duration, error) {
	pipes := make([]*sim.Pipe, nch)
	var endpoints []gomavlib.EndpointConf
	for i := range pipes {
		pipes[i] = sim.NewPipe()
		endpoints = append(endpoints, gomavlib.EndpointCustom{ReadWriteCloser: pipes[i]})
	}
	n := &gomavlib.Node{Endpoints: endpoints, Dialect: ardupilotmega.Dialect, OutVersion: gomavlib.V2, OutSystemID: nodeSys, HeartbeatDisable: true}
	if err := initNode(&n); err != nil {
		return 0, 0, fmt.Errorf("BROKEN: %v", err)
	}
	rec := sim.StartRecorder(n, sim.Pacing{Kind: "fast"}, nil)
	defer func() {
		pipes[0].UnblockWrites()
		closeNode(n, bound) //nolint:errcheck
		rec.WaitClosed(bound)
	}()
	chans, ok := openCustom(n, rec, pipes)
	if !ok {
		return 0, 0, fmt.Errorf("BROKEN: channels did not open")
	}
	a, b := chans[0], chans[1]
	counter := 0
	series := func() (time.Duration, error) {
		start := time.Now()
		base := pipes[1].NumWrites()
		for i := 0; i < k; i++ {
			if frames {
				fr, _ := fwdFrameCounter(900000 + counter)
				n.WriteFrameTo(a, fr) //nolint:errcheck
			} else {
				n.WriteMessageTo(a, &common.MessageSystemTime{TimeUnixUsec: uint64(counter)}) //nolint:errcheck
			}
			if err := n.WriteMessageTo(b, &common.MessageDebug{TimeBootMs: uint32(counter), Ind: 2}); err != nil {
				return 0, fmt.Errorf("write to the healthy channel refused: %v", err)
			}
			counter++
			if !pipes[1].WaitWrites(base+i+1-30, bound) {
				return 0, fmt.Errorf("the healthy channel received %d of %d items within %v", pipes[1].NumWrites()-base, i+1, bound)
			}
		}
		if !pipes[1].WaitWrites(base+k, bound) {
			return 0, fmt.Errorf("the healthy channel received %d of %d items within %v", pipes[1].NumWrites()-base, k, bound)
		}
		return time.Since(start), nil
	}
	t0, err := series()
	if err != nil {
		return 0, 0, fmt.Errorf("both transports healthy: %v", err)
	}
	// A's transport stops accepting writes; its backlog is filled to the brim
	pipes[0].BlockWrites()
	for i := 0; i < 90; i++ {
		n.WriteMessageTo(a, &common.MessageSystemTime{TimeUnixUsec: 1}) //nolint:errcheck
	}
	if !pipes[0].WaitParkedWriter(bound) {
		return 0, 0, fmt.Errorf("BROKEN: the writer of the blocked channel did not reach its transport")
	}
	from := time.Now()
	t1, err := series()
	if err != nil {
		return t0, 0, fmt.Errorf("channel 0 blocked with a full backlog: %v", err)
	}
	if t1 > 10*t0+time.Second && !stalls.StalledBetween(from, time.Now()) {
		return t0, t1, fmt.Errorf("%d rounds of {write to channel 0, write to channel 1} took %v while both transports were healthy and %v while the transport of channel 0 accepted no writes and its backlog was full (%.1f ms per round instead of %.2f ms): writes addressed to the stalled channel hold up the node and with it the writes to the healthy one", k, t0, t1, float64(t1)/float64(k)/1e6, float64(t0)/float64(k)/1e6)
	}
	cs, err := counters(pipes[1])
	if err != nil {
		return t0, t1, err
	}
	if len(cs) != 2*k {
		return t0, t1, fmt.Errorf("the healthy channel carries %d items, %d were written to it", len(cs), 2*k)
	}
	for i := range cs {
		if cs[i] != i {
			return t0, t1, fmt.Errorf("the healthy channel's item %d carries counter %d", i, cs[i])
		}
	}
	return t0, t1, nil
}
