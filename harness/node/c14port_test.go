package node

import (
	"fmt"
	"net"
	"testing"
	"time"

	gomavlib "github.com/bluenviron/gomavlib/v3"
	"github.com/bluenviron/gomavlib/v3/pkg/dialects/ardupilotmega"
	"pgregory.net/rapid"

	"verifharness/evid"
	"verifharness/sim"
)

// TestC14UDPClientWhoseOldPortIsTaken: a UDP client endpoint opens a fresh channel after every death of the previous
// one, whatever has become of the resources of the dead one. Between the death of a channel and the next connection
// attempt, the source port that the dead channel used is bound by somebody else (here: the harness; in the field: the
// operating system hands a released ephemeral port to the next program). The next channel must still come, after the
// reconnect delay, from whatever port is free.
func TestC14UDPClientWhoseOldPortIsTaken(t *testing.T) {
	rec := evid.New(t, "C14", "a UDP client endpoint (heartbeats every 15 ms, idle timeout 300 ms, reconnect delay 250 ms) towards a UDP socket of the harness that answers 0..6 datagrams and then falls silent or vanishes, 3..5 times in a row (each at least once); after drawn deaths the harness binds the source port the dead channel used before the next connection attempt and keeps it: every death is followed by a close event and then, within 12 reconnect delays, by an open event and datagrams from a socket of the client, never two channels at once; non-trivial = the old port was bound by the harness before the next open event; distinct by hash of the plan")
	rec.Require("old-port-taken-before-the-reconnection", "death-by-silence", "death-by-vanished-peer")
	evid.Check(t, rec, evid.N(6, 40), func(t *rapid.T) {
		drawNodeInit(t)
		c14Hook()
		restore := gomavlib.VerifSetReconnectPeriod(250 * time.Millisecond)
		defer restore()
		const reconnect = 250 * time.Millisecond
		rounds := rapid.IntRange(3, 5).Draw(t, "deaths")
		type round struct {
			answers int
			vanish  bool
			take    bool
		}
		plan := make([]round, rounds)
		anyTake := false
		for i := range plan {
			plan[i] = round{answers: rapid.IntRange(0, 6).Draw(t, "answers"), vanish: rapid.Bool().Draw(t, "vanish"), take: rapid.IntRange(0, 2).Draw(t, "take") > 0}
			anyTake = anyTake || plan[i].take
		}
		if !anyTake {
			plan[rapid.IntRange(0, rounds-1).Draw(t, "take_at")].take = true
		}
		// both ways of dying in every case
		nv := 0
		for _, p := range plan {
			if p.vanish {
				nv++
			}
		}
		if nv == 0 {
			plan[0].vanish = true
		} else if nv == rounds {
			plan[rounds-1].vanish = false
		}
		port := sim.FreePort()
		pc, err := net.ListenPacket("udp4", sim.Addr(port))
		if err != nil {
			t.Fatalf("BROKEN: listen udp: %v", err)
		}
		defer func() { pc.Close() }()
		n := &gomavlib.Node{Endpoints: []gomavlib.EndpointConf{gomavlib.EndpointUDPClient{Address: sim.Addr(port)}},
			Dialect: ardupilotmega.Dialect, OutVersion: gomavlib.V2, OutSystemID: 9, HeartbeatPeriod: 15 * time.Millisecond,
			IdleTimeout: c14Idle}
		if err := initNode(&n); err != nil {
			t.Fatalf("BROKEN: %v", err)
		}
		r := sim.StartRecorder(n, sim.Pacing{Kind: "fast"}, nil)
		var held []net.PacketConn
		closed := false
		defer func() {
			if !closed {
				closeNode(n, bound) //nolint:errcheck
				r.WaitClosed(bound)
			}
			for _, h := range held {
				h.Close()
			}
		}()
		var story []string
		fail := func(format string, a ...interface{}) {
			msg := fmt.Sprintf(format, a...)
			full := fmt.Sprintf("UDP client endpoint, idle timeout %v, reconnect delay %v, plan %+v\n%s\nwhat happened:\n  %s\nevents:%s", c14Idle, reconnect, plan, msg, joinLines(story), renderLife(lifecycle(r.Snapshot())))
			evid.ReplayNote("C14", "TestC14UDPClientWhoseOldPortIsTaken", full)
			t.Fatalf("%s", full)
		}
		count := func(recs []sim.Rec, open bool) int {
			c := 0
			for _, e := range lifecycle(recs) {
				if e.open == open {
					c++
				}
			}
			return c
		}
		taken := map[string]bool{}
		buf := make([]byte, 2048)
		cls := map[string]bool{}
		tookBefore := false
		// round i: a channel is expected (the first one, or the one after death i-1); then it dies
		for i := 0; i <= rounds; i++ {
			// a datagram of the client from a socket that is not one of those the harness holds
			start := time.Now()
			limit := 12 * reconnect
			var src net.Addr
			for {
				pc.SetReadDeadline(time.Now().Add(50 * time.Millisecond)) //nolint:errcheck
				_, addr, rerr := pc.ReadFrom(buf)
				if rerr == nil && !taken[addr.String()] {
					src = addr
					break
				}
				if time.Since(start) > limit {
					if stalls.StalledBetween(start, time.Now()) && limit < 30*reconnect {
						limit += 12 * reconnect
						continue
					}
					break
				}
			}
			if src == nil {
				if i == 0 {
					fail("the client sent nothing within %v of Initialize", limit)
				}
				fail("after death %d of its channel the client sent nothing for %v (%d reconnect delays): no fresh channel, although the peer is there and ports are free (the port of the dead channel, %s, is held by another program: %v)",
					i, limit, int(limit/reconnect), story[len(story)-1], plan[i-1].take)
			}
			if !r.WaitFor(bound, func(recs []sim.Rec) bool { return count(recs, true) == count(recs, false)+1 }) {
				fail("datagrams arrive from %v but no channel is open: %d open events, %d close events", src, count(r.Snapshot(), true), count(r.Snapshot(), false))
			}
			story = append(story, fmt.Sprintf("channel %d sends from %v", i, src))
			if i == rounds {
				break
			}
			ph := plan[i]
			for a := 0; a < ph.answers; a++ {
				pc.WriteTo(tagged(1, i, "debug", true, nil, 0).Bytes(), src) //nolint:errcheck
				time.Sleep(20 * time.Millisecond)
			}
			if ph.vanish {
				pc.Close()
				cls["death-by-vanished-peer"] = true
			} else {
				cls["death-by-silence"] = true
			}
			closesBefore := count(r.Snapshot(), false)
			if !r.WaitFor(bound, func(recs []sim.Rec) bool { return count(recs, false) > closesBefore }) {
				fail("the peer %s but channel %d was not closed within %v", map[bool]string{true: "vanished", false: "fell silent"}[ph.vanish], i, bound)
			}
			var closedAt time.Time
			c := 0
			for _, e := range lifecycle(r.Snapshot()) {
				if !e.open {
					c++
					if c == closesBefore+1 {
						closedAt = e.t
					}
				}
			}
			if ph.take {
				// somebody else gets the port of the dead socket
				deadline := time.Now().Add(reconnect / 2)
				for {
					h, lerr := net.ListenPacket("udp4", src.String())
					if lerr == nil {
						held = append(held, h)
						taken[src.String()] = true
						took := time.Now()
						before := took.Sub(closedAt) < reconnect*8/10
						for _, e := range lifecycle(r.Snapshot()) {
							if e.open && e.t.After(closedAt) && e.t.Before(took) {
								before = false
							}
						}
						tookBefore = tookBefore || before
						story = append(story, fmt.Sprintf("channel %d is closed; %v now belongs to another program", i, src))
						break
					}
					if time.Now().After(deadline) {
						story = append(story, fmt.Sprintf("channel %d is closed; %v could not be bound (%v)", i, src, lerr))
						break
					}
					time.Sleep(2 * time.Millisecond)
				}
			} else {
				story = append(story, fmt.Sprintf("channel %d is closed", i))
			}
			if !ph.vanish {
				// what the dead channel had sent and nobody read
				for {
					pc.SetReadDeadline(time.Now().Add(time.Millisecond)) //nolint:errcheck
					if _, _, rerr := pc.ReadFrom(buf); rerr != nil {
						break
					}
				}
			}
			if ph.vanish {
				time.Sleep(time.Duration(rapid.IntRange(0, 400).Draw(t, "away_ms")) * time.Millisecond)
				pc, err = net.ListenPacket("udp4", sim.Addr(port))
				if err != nil {
					t.Fatalf("BROKEN: listen udp again: %v", err)
				}
			}
		}
		closed = true
		closeNode(n, bound) //nolint:errcheck
		r.WaitClosed(bound)
		if err := checkBrackets(r.Snapshot()); err != nil {
			fail("%v", err)
		}
		for k, e := range lifecycle(r.Snapshot()) {
			if e.open != (k%2 == 0) {
				fail("open and close events of the only endpoint do not alternate (two channels at once, or a close without an open)")
			}
		}
		var cs []string
		for c := range cls {
			cs = append(cs, c)
		}
		if rounds >= 4 {
			cs = append(cs, "four-deaths-or-more")
		}
		if tookBefore {
			cs = append(cs, "old-port-taken-before-the-reconnection")
		}
		rec.Case(tookBefore, evid.HashS(fmt.Sprintf("%+v", plan)), cs...)
		if rec.WantSample("udp-client-old-port") {
			rec.Sample("udp-client-old-port", map[string]interface{}{"plan": fmt.Sprintf("%+v", plan), "story": story})
		}
	})
}

func joinLines(s []string) string {
	out := ""
	for i, l := range s {
		if i > 0 {
			out += "\n  "
		}
		out += l
	}
	return out
}
