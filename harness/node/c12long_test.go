package node

import (
	"fmt"
	"strings"
	"testing"
	"time"

	gomavlib "github.com/bluenviron/gomavlib/v3"
	"github.com/bluenviron/gomavlib/v3/pkg/dialects/ardupilotmega"
	"github.com/bluenviron/gomavlib/v3/pkg/dialects/minimal"
	"pgregory.net/rapid"

	"verifharness/evid"
	"verifharness/ref"
	"verifharness/sim"
)

// TestC12LongLived: nodes that have been running for more than half a minute (the period of the stream-request
// module's own housekeeping, which cannot be shortened) before anything else happens. Several differently configured
// nodes live side by side for 31..34 s; then an ArduPilot heartbeat arrives on each (its requests must go out: the
// node is still functional), traffic flows, and Close must return and release everything as for a young node.
// This runs as its own process next to the other C12 tests (the driver starts the parts of a check concurrently).
func TestC12LongLived(t *testing.T) {
	rec := evid.New(t, "C12", "4 nodes (stream requests on/off, heartbeats on/off, with and without a sender tracked before the wait, consumer running or absent) stay alive for 31..34 s of real time, then receive an ArduPilot heartbeat from a new sender (seven requests must follow when stream requests are enabled), then are closed: Close returns within the bound, Events() is closed, no library goroutine is left; non-trivial = always; distinct by hash of the configuration")
	rec.Require("alive-longer-than-30s+stream-requests", "alive-longer-than-30s+no-sender-tracked")
	evid.Check(t, rec, 1, func(t *rapid.T) {
		wait := time.Duration(rapid.IntRange(31000, 34000).Draw(t, "alive_ms")) * time.Millisecond
		type nd struct {
			n        *gomavlib.Node
			p        *sim.Pipe
			r        *sim.Recorder
			sr, hb   bool
			tracked  bool
			consumer bool
		}
		hbLay, _ := ref.LayoutOf(refTypeOf(&minimal.MessageHeartbeat{}))
		hbFrom := func(sys byte) []byte {
			f := ref.Frame{V2: true, Sys: sys, Comp: 1, ID: 0}
			f.Payload = hbLay.Encode(&minimal.MessageHeartbeat{Type: 2, Autopilot: 3, SystemStatus: 4, MavlinkVersion: 3}, true)
			f.Checksum = f.ChecksumFor(hbLay.CRCExtra)
			return f.Bytes()
		}
		var nodes []*nd
		for i := 0; i < 4; i++ {
			x := &nd{p: sim.NewPipe(), sr: i != 3, hb: rapid.Bool().Draw(t, "heartbeats"), tracked: i == 1, consumer: i != 2}
			x.n = &gomavlib.Node{Endpoints: []gomavlib.EndpointConf{gomavlib.EndpointCustom{ReadWriteCloser: x.p}}, Dialect: ardupilotmega.Dialect,
				OutVersion: gomavlib.V2, OutSystemID: 7, HeartbeatDisable: !x.hb, HeartbeatPeriod: 2 * time.Second, StreamRequestEnable: x.sr}
			if err := x.n.Initialize(); err != nil {
				t.Fatalf("BROKEN: %v", err)
			}
			if x.consumer {
				x.r = sim.StartRecorder(x.n, sim.Pacing{Kind: "fast"}, nil)
			}
			nodes = append(nodes, x)
		}
		for _, x := range nodes {
			if x.tracked {
				x.p.Feed(hbFrom(20))
			}
		}
		time.Sleep(wait)
		desc := fmt.Sprintf("alive for %v", wait)
		fail := func(i int, format string, a ...interface{}) {
			x := nodes[i]
			msg := fmt.Sprintf("node %d (streamRequests=%v heartbeats=%v senderTrackedBeforeTheWait=%v consumer=%v), %s: ", i, x.sr, x.hb, x.tracked, x.consumer, desc) + fmt.Sprintf(format, a...)
			evid.ReplayNote("C12", "TestC12LongLived", msg)
			t.Fatalf("%s", msg)
		}
		reqs := func(p *sim.Pipe) int {
			k := 0
			for _, b := range p.Writes() {
				if f, _, err := ref.Parse(b); err == nil && f.ID == 66 {
					k++
				}
			}
			return k
		}
		for i, x := range nodes {
			before := reqs(x.p)
			x.p.Feed(hbFrom(30))
			if x.sr && x.consumer {
				deadline := time.Now().Add(bound)
				for reqs(x.p) < before+7 {
					if time.Now().After(deadline) {
						fail(i, "an ArduPilot heartbeat from a new sender produced %d of 7 stream requests within %v", reqs(x.p)-before, bound)
					}
					time.Sleep(2 * time.Millisecond)
				}
			}
		}
		time.Sleep(5 * time.Millisecond)
		for i, x := range nodes {
			if _, cerr := closeNode(x.n, bound); cerr != nil {
				fail(i, "%v", cerr)
			}
			if x.r != nil {
				if !x.r.WaitClosed(bound) {
					fail(i, "ranging over Events() did not end after Close")
				}
			} else {
				ended := make(chan struct{})
				go func() {
					for range x.n.Events() {
					}
					close(ended)
				}()
				select {
				case <-ended:
				case <-time.After(bound):
					fail(i, "Events() is not closed after Close")
				}
			}
		}
		if left := sim.WaitNoLibGoroutines(3 * time.Second); len(left) > 0 {
			fail(0, "%d goroutine(s) started by the library are still alive after every node was closed:\n%s", len(left), strings.Join(left, "\n\n"))
		}
		rec.Case(true, evid.HashS(desc), "alive-longer-than-30s+stream-requests", "alive-longer-than-30s+no-sender-tracked")
		rec.Sample("long-lived", desc)
	})
}
