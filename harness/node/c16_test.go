package node

import (
	"fmt"
	"sort"
	"strings"
	"sync"
	"testing"
	"time"

	gomavlib "github.com/bluenviron/gomavlib/v3"
	"github.com/bluenviron/gomavlib/v3/pkg/dialect"
	"github.com/bluenviron/gomavlib/v3/pkg/dialects/ardupilotmega"
	"github.com/bluenviron/gomavlib/v3/pkg/dialects/common"
	"github.com/bluenviron/gomavlib/v3/pkg/dialects/minimal"
	"github.com/bluenviron/gomavlib/v3/pkg/message"
	"pgregory.net/rapid"

	"verifharness/evid"
	"verifharness/ref"
	"verifharness/sim"
)

// MessageNotHeartbeat occupies id 0 without being the standard heartbeat.
type MessageNotHeartbeat struct {
	Type           uint8
	Autopilot      uint8
	BaseMode       uint8
	CustomMode     uint16 // the standard message has a uint32 here: different layout and CRC_EXTRA
	SystemStatus   uint8
	MavlinkVersion uint8
}

func (*MessageNotHeartbeat) GetID() uint32 { return 0 }

// MessageHeartbeat is the standard heartbeat written by hand, its fields declared in wire order (largest first)
// instead of the order of the XML definition: same name, same field names and types, hence the same wire format
// and CRC_EXTRA 50.
type MessageHeartbeat struct {
	CustomMode     uint32
	Type           uint8
	Autopilot      uint8
	BaseMode       uint8
	SystemStatus   uint8
	MavlinkVersion uint8
}

func (*MessageHeartbeat) GetID() uint32 { return 0 }

// MessageNotRequestDataStream occupies id 66 without being the standard message.
type MessageNotRequestDataStream struct {
	TargetSystem uint8
	Other        uint32
}

func (*MessageNotRequestDataStream) GetID() uint32 { return 66 }

type hbSource struct {
	ch        int
	sys, comp byte
	autopilot byte
	v2        bool
	repeat    int
}

type c16World struct {
	dialectKind string // common ardupilotmega minimal user user-own-hb user-no-hb user-fake-hb user-no-rds user-fake-rds nil
	version     int
	hbEnabled   bool
	period      time.Duration
	sysType     int
	apType      int
	srEnabled   bool
	freq        int
	nch         int
	outV2       bool
	sources     []hbSource
	others      int    // non-heartbeat frames interleaved
	tcpPeers    int    // peers on one TCP server endpoint, all announcing the same ArduPilot (system 1, component 1)
	timeouts    string // default | idle<=period | all-short: the node's timeout fields, which have nothing to do with heartbeats
	rotate      int    // user dialects: how far the message list is rotated (0: heartbeat first)
	neighbours  bool   // two ArduPilot senders (s,255) and (s+1,0) on one channel
	manySenders int    // ArduPilot senders (distinct ids, channel 0) heard before everything else
	flapping    bool   // an extra custom link whose read side fails four times per heartbeat period
	seqStart    int    // sequence number of the first frame of the history ...
	seqStep     int    // ... and how it moves from frame to frame (mod 256): a sender's counter wraps every 256 frames
	busyApp     bool   // the application keeps the node busy with writes (to nobody) for a dozen periods
}

func (w *c16World) describe() string {
	var s []string
	for _, h := range w.sources {
		s = append(s, fmt.Sprintf("(ch%d sys%d comp%d ap%d v2=%v x%d)", h.ch, h.sys, h.comp, h.autopilot, h.v2, h.repeat))
	}
	return fmt.Sprintf("dialect=%s version=%d heartbeat=%v period=%v type=%d autopilot=%d streamreq=%v freq=%d channels=%d outV2=%v others=%d tcpPeersOnOneEndpoint=%d timeouts=%s arduPilotSendersHeardFirst=%d applicationBusyWriting=%v firstSequenceNumber=%d sequenceStep=%d oneMoreLinkThatKeepsDropping=%v sources=%s",
		w.dialectKind, w.version, w.hbEnabled, w.period, w.sysType, w.apType, w.srEnabled, w.freq, w.nch, w.outV2, w.others, w.tcpPeers, w.timeouts, w.manySenders, w.busyApp, w.seqStart, w.seqStep, w.flapping, strings.Join(s, " "))
}

func (w *c16World) dialect() *dialect.Dialect {
	hb, rds := message.Message(&minimal.MessageHeartbeat{}), message.Message(&common.MessageRequestDataStream{})
	extra := []message.Message{&common.MessageDebug{}, &common.MessageSysStatus{}}
	// a dialect is a set of messages: where in the list the heartbeat stands is nobody's business
	mk := func(first []message.Message) *dialect.Dialect {
		msgs := append(first, extra...)
		if k := w.rotate % len(msgs); k > 0 {
			msgs = append(append([]message.Message{}, msgs[k:]...), msgs[:k]...)
		}
		return &dialect.Dialect{Version: w.version, Messages: msgs}
	}
	switch w.dialectKind {
	case "common":
		return common.Dialect
	case "ardupilotmega":
		return ardupilotmega.Dialect
	case "minimal":
		return minimal.Dialect
	case "nil":
		return nil
	case "user":
		return mk([]message.Message{hb, rds})
	case "user-own-hb":
		return mk([]message.Message{&MessageHeartbeat{}, rds})
	case "user-no-hb":
		return mk([]message.Message{rds})
	case "user-fake-hb":
		return mk([]message.Message{&MessageNotHeartbeat{}, rds})
	case "user-no-rds":
		return mk([]message.Message{hb})
	case "user-fake-rds":
		return mk([]message.Message{hb, &MessageNotRequestDataStream{}})
	}
	panic("BROKEN: dialect kind")
}

func hasStd(d *dialect.Dialect, id uint32, std message.Message) bool {
	if d == nil {
		return false
	}
	for _, m := range d.Messages {
		if m.GetID() == id {
			if _, own := m.(*MessageHeartbeat); own && id == 0 {
				return true // hand-written, wire-compatible
			}
			return fmt.Sprintf("%T", m) == fmt.Sprintf("%T", std)
		}
	}
	return false
}

func TestC16Automatic(t *testing.T) {
	rec := evid.New(t, "C16", "generated node configurations (heartbeat on/off, period 20-80ms, system/autopilot type, dialect in {common, ardupilotmega, minimal, user dialects with version 0..255 with / without / with a fake HEARTBEAT or REQUEST_DATA_STREAM, none}, stream requests on/off, frequency 1..65535 (mostly 1..50), 1..3 channels, v1/v2 output) and histories of incoming heartbeats from generated (channel, system, component, autopilot) sources repeated several times and interleaved with other messages; oracles: heartbeats on every channel with the configured fields, status 4, dialect version, at most elapsed/period+1 of them and at least 2, none when disabled or the dialect lacks the standard message; for each distinct ArduPilot sender exactly the seven data-stream requests (1,2,3,6,10,11,12) at the configured rate addressed to it on its channel only plus one stream-requested event, nothing for other autopilots, other messages or when disabled; non-trivial = >=2 ArduPilot senders on >=2 channels plus a non-ArduPilot sender; distinct by hash of the scenario")
	rec.Require("hb-enabled", "hb-disabled-or-missing", "sr-enabled-with-ardupilot", "sr-not-applicable", "multi-sender-multi-channel", "user-dialect", "v1-output", "several-channels-one-endpoint", "dialect-version-0", "ardupilot-sender-with-the-node's-own-ids", "more-than-1024-senders", "heartbeats-with-short-node-timeouts", "non-heartbeat-message-naming-ardupilot", "heartbeats-while-the-application-writes", "sibling-connection-of-the-same-endpoint-closed", "senders-(s,255)-and-(s+1,0)-on-one-channel", "hand-written-heartbeat-declared-in-wire-order", "heartbeat-sequence-numbers-going-down-with-stream-requests-enabled", "heartbeats-while-another-link-keeps-dropping")
	evid.Check(t, rec, evid.N(200, 600), func(t *rapid.T) {
		drawNodeInit(t)
		w := &c16World{}
		w.dialectKind = rapid.SampledFrom([]string{"common", "common", "ardupilotmega", "ardupilotmega", "ardupilotmega", "minimal", "user", "user", "user", "user-own-hb", "user-own-hb", "user-no-hb", "user-fake-hb", "user-no-rds", "user-fake-rds", "nil"}).Draw(t, "dialect")
		w.version = rapid.OneOf(rapid.Just(0), rapid.SampledFrom([]int{0, 1, 3, 255, 256, 300}), rapid.IntRange(0, 255)).Draw(t, "version")
		w.rotate = rapid.IntRange(0, 3).Draw(t, "user_dialect_rotated_by")
		w.hbEnabled = rapid.IntRange(0, 3).Draw(t, "hb") > 0
		w.period = time.Duration(rapid.IntRange(20, 80).Draw(t, "period_ms")) * time.Millisecond
		w.sysType = rapid.IntRange(1, 255).Draw(t, "systype")
		w.apType = rapid.IntRange(0, 255).Draw(t, "aptype")
		w.srEnabled = rapid.IntRange(0, 3).Draw(t, "sr") > 0
		w.freq = rapid.OneOf(rapid.IntRange(1, 50), rapid.IntRange(1, 50), rapid.SampledFrom([]int{200, 255, 256, 257, 300, 512, 1000, 4000, 65535}), rapid.IntRange(51, 65535)).Draw(t, "freq") // the field of the request is 16 bits wide
		w.nch = rapid.SampledFrom([]int{1, 2, 2, 3, 3}).Draw(t, "nch")
		w.outV2 = rapid.Bool().Draw(t, "outv2")
		ns := rapid.OneOf(rapid.IntRange(0, 7), rapid.IntRange(4, 9)).Draw(t, "nsources")
		for i := 0; i < ns; i++ {
			h := hbSource{ch: rapid.IntRange(0, w.nch-1).Draw(t, "src_ch"),
				sys:       byte(rapid.OneOf(rapid.IntRange(1, 6), rapid.IntRange(1, 6), rapid.SampledFrom([]int{nodeSys, 0, 255})).Draw(t, "src_sys")),
				comp:      byte(rapid.OneOf(rapid.IntRange(1, 3), rapid.IntRange(1, 3), rapid.SampledFrom([]int{nodeComp, 0, 255})).Draw(t, "src_comp")),
				autopilot: rapid.SampledFrom([]byte{3, 3, 3, 0, 12, 8, 4, 2}).Draw(t, "src_ap"),
				v2:        rapid.Bool().Draw(t, "src_v2"),
				repeat:    rapid.IntRange(1, 4).Draw(t, "repeat")}
			// a vehicle configured with the very ids this node uses is a sender like any other
			if rapid.IntRange(0, 9).Draw(t, "same_ids_as_node") == 0 {
				h.sys, h.comp = nodeSys, nodeComp
			}
			w.sources = append(w.sources, h)
		}
		// senders whose ids sit next to each other across a byte boundary: component 255 of one system and
		// component 0 of the next, on one channel - two senders, whatever a table key makes of them
		if rapid.IntRange(0, 3).Draw(t, "neighbouring_ids") == 0 {
			c, sy := rapid.IntRange(0, w.nch-1).Draw(t, "nb_ch"), byte(rapid.IntRange(1, 200).Draw(t, "nb_sys"))
			v2 := rapid.Bool().Draw(t, "nb_v2")
			first := []hbSource{{ch: c, sys: sy, comp: 255, autopilot: 3, v2: v2, repeat: 1}, {ch: c, sys: sy + 1, comp: 0, autopilot: 3, v2: v2, repeat: 1}}
			if rapid.Bool().Draw(t, "nb_order") {
				first[0], first[1] = first[1], first[0]
			}
			w.sources = append(w.sources, first...)
			w.neighbours = true
		}
		w.others = rapid.IntRange(0, 10).Draw(t, "others")
		if rapid.IntRange(0, 2).Draw(t, "tcp") == 0 {
			w.tcpPeers = rapid.IntRange(2, 3).Draw(t, "tcp_peers")
		}
		w.timeouts = "default"
		if w.tcpPeers == 0 {
			w.timeouts = rapid.SampledFrom([]string{"default", "default", "idle<=period", "all-short"}).Draw(t, "timeouts")
		}
		w.busyApp = w.hbEnabled && rapid.IntRange(0, 7).Draw(t, "busy_application") == 0
		if w.srEnabled && rapid.IntRange(0, 11).Draw(t, "many_senders") == 0 {
			w.manySenders = rapid.IntRange(1025, 1100).Draw(t, "n_senders")
		}
		w.flapping = w.hbEnabled && rapid.IntRange(0, 3).Draw(t, "one_more_link_that_keeps_dropping") == 0
		w.seqStart, w.seqStep = 0, 1
		if rapid.Bool().Draw(t, "sequence_numbers_around_the_wrap") {
			w.seqStart = rapid.SampledFrom([]int{250, 253, 255, 128, 1}).Draw(t, "seq_start")
			w.seqStep = rapid.SampledFrom([]int{1, 1, 2, 255, 254, 129, 0}).Draw(t, "seq_step")
		}
		var cls []string
		err := watchdog(scenarioLimit, func() error {
			var e error
			cls, e = runC16(w)
			return e
		})
		if err != nil {
			evid.ReplayNote("C16", "TestC16Automatic", w.describe()+"\n"+err.Error())
			t.Fatalf("%s\n%v", w.describe(), err)
		}
		nt := false
		for _, c := range cls {
			if c == "multi-sender-multi-channel" {
				nt = true
			}
		}
		if w.flapping {
			cls = append(cls, "heartbeats-while-another-link-keeps-dropping")
		}
		if w.srEnabled && w.seqStep >= 128 {
			cls = append(cls, "heartbeat-sequence-numbers-going-down-with-stream-requests-enabled")
		}
		rec.Case(nt, evid.HashS(w.describe()), cls...)
		if nt && rec.WantSample("scenario") {
			rec.Sample("scenario", w.describe())
		}
	})
}

func runC16(w *c16World) ([]string, error) {
	d := w.dialect()
	pipes := make([]*sim.Pipe, w.nch)
	var endpoints []gomavlib.EndpointConf
	for i := range pipes {
		pipes[i] = sim.NewPipe()
		endpoints = append(endpoints, gomavlib.EndpointCustom{ReadWriteCloser: pipes[i]})
	}
	tcpAddr := ""
	if w.tcpPeers > 0 {
		tcpAddr = sim.Addr(sim.FreePort())
		endpoints = append(endpoints, gomavlib.EndpointTCPServer{Address: tcpAddr})
	}
	// one more link that keeps dropping and coming back (its read side fails several times per heartbeat period): what
	// happens to that link is no reason for anything off schedule on the others
	var flapPipe *sim.Pipe
	if w.flapping {
		flapPipe = sim.NewPipe()
		endpoints = append(endpoints, gomavlib.EndpointCustom{ReadWriteCloser: flapPipe})
	}
	n := &gomavlib.Node{Endpoints: endpoints, Dialect: d, OutVersion: gomavlib.V1, OutSystemID: nodeSys, OutComponentID: nodeComp,
		HeartbeatDisable: !w.hbEnabled, HeartbeatPeriod: w.period, HeartbeatSystemType: w.sysType, HeartbeatAutopilotType: w.apType,
		StreamRequestEnable: w.srEnabled, StreamRequestFrequency: w.freq}
	if w.outV2 {
		n.OutVersion = gomavlib.V2
	}
	switch w.timeouts {
	case "idle<=period":
		n.IdleTimeout = w.period / 2
	case "all-short":
		n.IdleTimeout, n.ReadTimeout, n.WriteTimeout = w.period, w.period/2, w.period/3
	}
	t0 := time.Now()
	if err := initNode(&n); err != nil {
		return nil, fmt.Errorf("BROKEN: %v", err)
	}
	if flapPipe != nil {
		stopFlap := make(chan struct{})
		defer close(stopFlap)
		go func() {
			for k := 0; ; k++ {
				select {
				case <-stopFlap:
					return
				case <-time.After(w.period / 4):
					flapPipe.FailNextRead(fmt.Errorf("injected link drop %d", k))
				}
			}
		}()
	}
	rec := sim.StartRecorder(n, sim.Pacing{Kind: "fast"}, nil)
	closed := false
	defer func() {
		if !closed {
			closeNode(n, bound) //nolint:errcheck
			rec.WaitClosed(bound)
		}
	}()
	chans, ok := openCustom(n, rec, pipes)
	if !ok {
		return nil, fmt.Errorf("BROKEN: channels did not open")
	}
	hbStd := hasStd(d, 0, &minimal.MessageHeartbeat{})
	rdsStd := hasStd(d, 66, &common.MessageRequestDataStream{})
	hbExpected := w.hbEnabled && hbStd
	srActive := w.srEnabled && hbStd && rdsStd
	hbLay, _ := ref.LayoutOf(refTypeOf(&minimal.MessageHeartbeat{}))
	rdsLay, _ := ref.LayoutOf(refTypeOf(&common.MessageRequestDataStream{}))
	// feed the history
	type key struct {
		ch        int
		sys, comp byte
	}
	siblingClosed := false
	ardu := map[key]bool{}
	otherAutopilotMsgs := 0
	k := 0
	maxRepeat := 0
	for _, h := range w.sources {
		if h.repeat > maxRepeat {
			maxRepeat = h.repeat
		}
	}
	// a large fleet heard first (distinct ids outside the ranges used below): every one of them is a sender like
	// any other, and so is whoever speaks up after them
	for j := 0; j < w.manySenders; j++ {
		sys, comp := byte(10+j/100), byte(100+j%100)
		hb := &minimal.MessageHeartbeat{Type: 2, Autopilot: 3, SystemStatus: 4, MavlinkVersion: 3}
		f := ref.Frame{V2: true, Seq: byte(j), Sys: sys, Comp: comp, ID: 0}
		f.Payload = hbLay.Encode(hb, true)
		f.Checksum = f.ChecksumFor(hbLay.CRCExtra)
		pipes[0].Feed(f.Bytes())
		ardu[key{0, sys, comp}] = true
		// the answers (seven per sender) go through the channel's bounded queue: let them reach the wire
		// before the next senders speak, a queue overflow is not what this is about
		if srActive && j%4 == 3 {
			pipes[0].WaitWrites(7*(j+1)-14, bound)
		}
	}
	if srActive && w.manySenders > 0 {
		pipes[0].WaitWrites(7*w.manySenders, bound) // the fleet's answers are out before the next senders speak
	}
	dueReq := make([]int, len(pipes))
	dueReq[0] = 7 * w.manySenders
	for r := 0; r < maxRepeat; r++ {
		for _, h := range w.sources {
			if r >= h.repeat {
				continue
			}
			// the vehicle's reported state changes from heartbeat to heartbeat (boot, calibrating, standby, active, ...): it is
			// the same sender all along
			hb := &minimal.MessageHeartbeat{Type: 2, Autopilot: minimal.MAV_AUTOPILOT(h.autopilot), SystemStatus: minimal.MAV_STATE((int(h.sys) + int(h.comp) + 3*r + 4) % 9), MavlinkVersion: 3}
			f := ref.Frame{V2: h.v2, Seq: byte(w.seqStart + k*w.seqStep), Sys: h.sys, Comp: h.comp, ID: 0}
			f.Payload = hbLay.Encode(hb, h.v2)
			f.Checksum = f.ChecksumFor(hbLay.CRCExtra)
			pipes[h.ch].Feed(f.Bytes())
			if h.autopilot == 3 {
				if !ardu[key{h.ch, h.sys, h.comp}] && srActive {
					// seven answers per new sender go through the channel's 64-place queue: at most three senders'
					// worth are outstanding at any time, however slowly the machine lets the writer run
					dueReq[h.ch] += 7
					pipes[h.ch].WaitWrites(dueReq[h.ch]-21, bound)
				}
				ardu[key{h.ch, h.sys, h.comp}] = true
			}
			if k < w.others {
				// other traffic from the same sender: must trigger nothing
				pipes[h.ch].Feed(tagged(h.sys, k, "debug", h.v2, nil, 0).Bytes())
				if w.dialectKind == "common" || w.dialectKind == "ardupilotmega" {
					// HIGH_LATENCY2 is the other standard message that names an autopilot; coming from an ArduPilot
					// vehicle (a sender of its own, never heard otherwise) it is still not a heartbeat
					hl := lay(235)
					f := ref.Frame{V2: true, Seq: byte(k), Sys: byte(200 + k%40), Comp: 190, ID: 235}
					f.Payload = hl.Encode(&common.MessageHighLatency2{Timestamp: uint32(k), Type: 2, Autopilot: 3}, true)
					f.Checksum = f.ChecksumFor(hl.CRCExtra)
					pipes[h.ch].Feed(f.Bytes())
					otherAutopilotMsgs++
				}
			}
			k++
		}
	}
	for _, p := range pipes {
		p.WaitDrained(bound)
	}
	// several channels of ONE endpoint, all carrying the same ArduPilot (system 1, component 1):
	// each channel is a separate (channel, system, component) and must get its own requests and event
	var peers []*sim.Peer
	defer func() {
		for _, p := range peers {
			p.Close()
		}
	}()
	for i := 0; i < w.tcpPeers; i++ {
		p, err := sim.Dial("tcp4", tcpAddr)
		if err != nil {
			return nil, fmt.Errorf("BROKEN: dial: %v", err)
		}
		peers = append(peers, p)
		hb := &minimal.MessageHeartbeat{Type: 2, Autopilot: 3, SystemStatus: 4, MavlinkVersion: 3}
		for r := 0; r < 2; r++ {
			f := ref.Frame{V2: true, Seq: byte(r), Sys: 1, Comp: 1, ID: 0}
			f.Payload = hbLay.Encode(hb, true)
			f.Checksum = f.ChecksumFor(hbLay.CRCExtra)
			p.Send(f.Bytes()) //nolint:errcheck
		}
	}
	if w.tcpPeers > 0 {
		deadline := time.Now().Add(bound)
		for srActive && time.Now().Before(deadline) {
			ok := true
			for _, p := range peers {
				fs, _ := parseStreamLoose(p.Received())
				nreq := 0
				for _, f := range fs {
					if f.ID == 66 {
						nreq++
					}
				}
				if nreq < 7 {
					ok = false
				}
			}
			if ok {
				break
			}
			time.Sleep(2 * time.Millisecond)
		}
		if !srActive {
			time.Sleep(10 * time.Millisecond)
		}
		// one of the connections of that endpoint ends; the vehicles on its sibling connections are the senders
		// they were, a further heartbeat from them is not a first one
		if srActive && len(peers) >= 2 {
			closesBefore := 0
			for _, e := range rec.Snapshot() {
				if _, ok := e.Ev.(*gomavlib.EventChannelClose); ok {
					closesBefore++
				}
			}
			peers[0].Conn.Close()
			rec.WaitFor(bound, func(recs []sim.Rec) bool {
				k := 0
				for _, e := range recs {
					if _, ok := e.Ev.(*gomavlib.EventChannelClose); ok {
						k++
					}
				}
				return k > closesBefore
			})
			hb := &minimal.MessageHeartbeat{Type: 2, Autopilot: 3, SystemStatus: 4, MavlinkVersion: 3}
			for _, p := range peers[1:] {
				f := ref.Frame{V2: true, Seq: 9, Sys: 1, Comp: 1, ID: 0}
				f.Payload = hbLay.Encode(hb, true)
				f.Checksum = f.ChecksumFor(hbLay.CRCExtra)
				p.Send(f.Bytes()) //nolint:errcheck
			}
			time.Sleep(15 * time.Millisecond)
			siblingClosed = true
		}
	}
	// wait for the expected stream requests and heartbeats
	wantReq := make([]int, w.nch)
	if srActive {
		for kk := range ardu {
			wantReq[kk.ch] += 7
		}
	}
	count := func(p *sim.Pipe) (hbs []ref.Frame, reqs []ref.Frame, others int, err error) {
		for i, b := range p.Writes() {
			f, nb, perr := ref.Parse(b)
			if perr != nil || nb != len(b) {
				return nil, nil, 0, fmt.Errorf("write %d is not one whole frame: %x", i, b)
			}
			switch f.ID {
			case 0:
				hbs = append(hbs, f)
			case 66:
				reqs = append(reqs, f)
			default:
				others++
			}
		}
		return
	}
	deadline := time.Now().Add(bound)
	for {
		done := true
		for c, p := range pipes {
			hbs, reqs, _, err := count(p)
			if err != nil {
				return nil, fmt.Errorf("channel %d: %v", c, err)
			}
			if len(reqs) < wantReq[c] {
				done = false
			}
			if hbExpected && len(hbs) < 2 {
				done = false
			}
		}
		if done || time.Now().After(deadline) {
			break
		}
		time.Sleep(2 * time.Millisecond)
	}
	if !hbExpected {
		time.Sleep(3 * w.period) // give wrong heartbeats a chance to show up
	} else {
		time.Sleep(5 * time.Millisecond)
	}
	// heartbeats are due on every open channel whatever else the node is doing: four goroutines keep it busy with
	// writes addressed to no channel (nothing of them reaches a wire) for a dozen periods
	busyFrom, busyBeats := time.Now(), make([]int, len(pipes))
	if w.busyApp && hbExpected {
		for c, p := range pipes {
			hbs, _, _, _ := count(p)
			busyBeats[c] = len(hbs)
		}
		stopBusy := make(chan struct{})
		var bw sync.WaitGroup
		for g := 0; g < 4; g++ {
			bw.Add(1)
			go func() {
				defer bw.Done()
				for {
					select {
					case <-stopBusy:
						return
					default:
					}
					n.WriteMessageTo(nil, &common.MessageDebug{}) //nolint:errcheck
				}
			}()
		}
		// a control that does what the heartbeat module has to do - wake up every period, hand one write to the node and
		// wait until it is taken: on a machine too busy for that, too few heartbeats mean nothing
		control := 0
		bw.Add(1)
		go func() {
			defer bw.Done()
			tk := time.NewTicker(w.period)
			defer tk.Stop()
			for {
				select {
				case <-stopBusy:
					return
				case <-tk.C:
					n.WriteMessageTo(nil, &common.MessageDebug{}) //nolint:errcheck
					control++
				}
			}
		}()
		time.Sleep(12 * w.period)
		close(stopBusy)
		bw.Wait()
		busyFor := time.Since(busyFrom)
		// what was handed to the node during the busy phase may still be on its way to the wire (one more goroutine
		// per channel has to get its turn): give it two periods before counting - the beats of that extra time only
		// make the verdict milder
		time.Sleep(2*w.period + 20*time.Millisecond)
		for c, p := range pipes {
			hbs, _, _, _ := count(p)
			got := len(hbs) - busyBeats[c]
			due := int(busyFor / w.period)
			// far fewer than were due AND far fewer than the control managed in the same time on the same machine
			if got < due/2-1 && got < control/3 && control >= due*3/4 && !stalls.StalledBetweenOver(busyFrom, time.Now(), w.period/2) {
				return nil, fmt.Errorf("channel %d: %d heartbeats in %v while the application was writing (period %v, %d were due; a control goroutine doing one write per period completed %d rounds): beats are skipped when the node is busy", c, got, busyFor, w.period, due, control)
			}
		}
	}
	// snapshot before closing
	type snap struct {
		hbs, reqs []ref.Frame
		others    int
	}
	snaps := make([]snap, w.nch)
	for c, p := range pipes {
		hbs, reqs, others, err := count(p)
		if err != nil {
			return nil, fmt.Errorf("channel %d: %v", c, err)
		}
		snaps[c] = snap{hbs, reqs, others}
	}
	// taken after the snapshots: everything in them was written before this instant, however long the
	// harness took to collect them (an upper bound on the time gives a sound upper bound on the count)
	elapsed := time.Since(t0)
	peerRx := make([][]byte, len(peers))
	for i, p := range peers {
		peerRx[i] = p.Received()
	}
	if srActive {
		// each event follows its seven requests; give it the same bound the requests had, not a fixed delay
		rec.WaitFor(bound, func(recs []sim.Rec) bool {
			k := 0
			for _, e := range recs {
				if _, ok := e.Ev.(*gomavlib.EventStreamRequested); ok {
					k++
				}
			}
			return k >= len(ardu)+len(peers)
		})
	}
	recs := rec.Snapshot()
	closeNode(n, bound) //nolint:errcheck
	rec.WaitClosed(bound)
	closed = true

	wantVersion := byte(0)
	if d != nil {
		wantVersion = byte(d.Version)
	}
	for c, s := range snaps {
		if s.others != 0 {
			return nil, fmt.Errorf("channel %d: %d unsolicited frames that are neither heartbeats nor stream requests", c, s.others)
		}
		// heartbeats
		if !hbExpected && len(s.hbs) > 0 {
			return nil, fmt.Errorf("channel %d: %d heartbeats although heartbeats are disabled or the dialect lacks the standard HEARTBEAT", c, len(s.hbs))
		}
		if hbExpected {
			if len(s.hbs) < 2 {
				return nil, fmt.Errorf("channel %d: %d heartbeats within %v (period %v)", c, len(s.hbs), elapsed, w.period)
			}
			if max := int(elapsed/w.period) + 1; len(s.hbs) > max {
				return nil, fmt.Errorf("channel %d: %d heartbeats in %v, more than one per period of %v allows (%d)", c, len(s.hbs), elapsed, w.period, max)
			}
			for _, f := range s.hbs {
				v, err := hbLay.Decode(f.Payload, f.V2)
				if err != nil {
					return nil, fmt.Errorf("channel %d: heartbeat does not decode: %v", c, err)
				}
				hb := v.(*minimal.MessageHeartbeat)
				if int(hb.Type) != w.sysType%256 || int(hb.Autopilot) != w.apType || hb.BaseMode != 0 || hb.CustomMode != 0 || hb.SystemStatus != 4 || hb.MavlinkVersion != wantVersion {
					return nil, fmt.Errorf("channel %d: heartbeat %+v, configured type %d autopilot %d, expected status 4 and mavlink_version %d", c, *hb, w.sysType, w.apType, wantVersion)
				}
				if f.Sys != nodeSys || f.Comp != nodeComp || f.V2 != w.outV2 || f.Checksum != f.ChecksumFor(50) {
					return nil, fmt.Errorf("channel %d: heartbeat frame header/checksum wrong: sys %d comp %d v2 %v", c, f.Sys, f.Comp, f.V2)
				}
			}
		}
		// stream requests
		got := map[key][]int{}
		for _, f := range s.reqs {
			v, err := rdsLay.Decode(f.Payload, f.V2)
			if err != nil {
				return nil, fmt.Errorf("channel %d: stream request does not decode: %v", c, err)
			}
			r := v.(*common.MessageRequestDataStream)
			kk := key{c, r.TargetSystem, r.TargetComponent}
			if !srActive || !ardu[kk] {
				return nil, fmt.Errorf("channel %d: stream request addressed to system %d component %d, which sent no ArduPilot heartbeat on this channel (stream requests active=%v)", c, r.TargetSystem, r.TargetComponent, srActive)
			}
			if int(r.ReqMessageRate) != w.freq || r.StartStop != 1 {
				return nil, fmt.Errorf("channel %d: stream request rate %d start_stop %d, configured frequency %d", c, r.ReqMessageRate, r.StartStop, w.freq)
			}
			if f.Sys != nodeSys || f.Checksum != f.ChecksumFor(148) {
				return nil, fmt.Errorf("channel %d: stream request frame header/checksum wrong", c)
			}
			got[kk] = append(got[kk], int(r.ReqStreamId))
		}
		for kk := range ardu {
			if kk.ch != c || !srActive {
				continue
			}
			ids := append([]int(nil), got[kk]...)
			sort.Ints(ids)
			if fmt.Sprint(ids) != fmt.Sprint([]int{1, 2, 3, 6, 10, 11, 12}) {
				return nil, fmt.Errorf("channel %d: ArduPilot system %d component %d got stream requests %v (as sent: %v), want exactly 1,2,3,6,10,11,12 once", c, kk.sys, kk.comp, ids, got[kk])
			}
		}
	}
	// the TCP peers: each must have got exactly the seven requests (or nothing when not applicable)
	peerLabels := map[string]bool{}
	for i, p := range peers {
		peerLabels[p.LocalLabel(false)] = true
		fs, _ := parseStreamLoose(peerRx[i])
		var ids []int
		for _, f := range fs {
			if f.ID != 66 {
				continue
			}
			v, err := rdsLay.Decode(f.Payload, f.V2)
			if err != nil {
				return nil, fmt.Errorf("tcp peer %d: stream request does not decode: %v", i, err)
			}
			r := v.(*common.MessageRequestDataStream)
			if r.TargetSystem != 1 || r.TargetComponent != 1 || int(r.ReqMessageRate) != w.freq || r.StartStop != 1 {
				return nil, fmt.Errorf("tcp peer %d: stream request %+v, expected target 1/1 rate %d", i, *r, w.freq)
			}
			ids = append(ids, int(r.ReqStreamId))
		}
		sort.Ints(ids)
		want := "[1 2 3 6 10 11 12]"
		if !srActive {
			want = "[]"
		}
		if fmt.Sprint(ids) != want {
			return nil, fmt.Errorf("tcp peer %d of %d on the same endpoint (each announcing ArduPilot system 1 component 1 on its own channel) got stream requests %v, want %s", i, len(peers), ids, want)
		}
	}
	// events
	evs := map[key]int{}
	peerEvents := map[*gomavlib.Channel]int{}
	for _, r := range recs {
		if e, ok := r.Ev.(*gomavlib.EventStreamRequested); ok {
			ci := -1
			for i, ch := range chans {
				if ch == e.Channel {
					ci = i
				}
			}
			if ci < 0 && peerLabelsHas(peers, e.Channel.String()) {
				if e.SystemID != 1 || e.ComponentID != 1 {
					return nil, fmt.Errorf("stream-requested event for system %d component %d on a tcp peer channel", e.SystemID, e.ComponentID)
				}
				peerEvents[e.Channel]++
				continue
			}
			evs[key{ci, e.SystemID, e.ComponentID}]++
		}
	}
	for kk, c := range evs {
		if !srActive || !ardu[kk] || c != 1 {
			return nil, fmt.Errorf("%d stream-requested event(s) for channel %d system %d component %d (ArduPilot sender there: %v, stream requests active: %v)", c, kk.ch, kk.sys, kk.comp, ardu[kk], srActive)
		}
	}
	if srActive {
		for kk := range ardu {
			if evs[kk] != 1 {
				return nil, fmt.Errorf("no stream-requested event for ArduPilot sender channel %d system %d component %d", kk.ch, kk.sys, kk.comp)
			}
		}
	}
	wantPeerEvents := 0
	if srActive {
		wantPeerEvents = len(peers)
	}
	if len(peerEvents) != wantPeerEvents {
		return nil, fmt.Errorf("%d tcp peer channels got a stream-requested event, want %d (one per channel)", len(peerEvents), wantPeerEvents)
	}
	for _, c := range peerEvents {
		if c != 1 {
			return nil, fmt.Errorf("%d stream-requested events for one tcp peer channel", c)
		}
	}
	// classes
	var cls []string
	if len(peers) > 0 && srActive {
		cls = append(cls, "several-channels-one-endpoint")
	}
	if hbExpected {
		cls = append(cls, "hb-enabled")
	} else {
		cls = append(cls, "hb-disabled-or-missing")
	}
	if srActive && len(ardu) > 0 {
		cls = append(cls, "sr-enabled-with-ardupilot")
	}
	if !srActive && len(w.sources) > 0 {
		cls = append(cls, "sr-not-applicable")
	}
	chs := map[int]bool{}
	for kk := range ardu {
		chs[kk.ch] = true
	}
	nonArdu := false
	for _, h := range w.sources {
		if h.autopilot != 3 {
			nonArdu = true
		}
	}
	if srActive && len(ardu) >= 2 && len(chs) >= 2 && nonArdu {
		cls = append(cls, "multi-sender-multi-channel")
	}
	if strings.HasPrefix(w.dialectKind, "user") {
		cls = append(cls, "user-dialect")
		if w.version == 0 && hbExpected {
			cls = append(cls, "dialect-version-0")
		}
	}
	if !w.outV2 {
		cls = append(cls, "v1-output")
	}
	if w.manySenders > 0 && srActive {
		cls = append(cls, "more-than-1024-senders")
	}
	if w.neighbours && srActive {
		cls = append(cls, "senders-(s,255)-and-(s+1,0)-on-one-channel")
	}
	if w.dialectKind == "user-own-hb" && hbExpected {
		cls = append(cls, "hand-written-heartbeat-declared-in-wire-order")
	}
	if w.timeouts != "default" && hbExpected {
		cls = append(cls, "heartbeats-with-short-node-timeouts")
	}
	if w.busyApp && hbExpected {
		cls = append(cls, "heartbeats-while-the-application-writes")
	}
	if siblingClosed {
		cls = append(cls, "sibling-connection-of-the-same-endpoint-closed")
	}
	if otherAutopilotMsgs > 0 && srActive {
		cls = append(cls, "non-heartbeat-message-naming-ardupilot")
	}
	for kk := range ardu {
		if srActive && kk.sys == nodeSys && kk.comp == nodeComp {
			cls = append(cls, "ardupilot-sender-with-the-node's-own-ids")
			break
		}
	}
	return cls, nil
}

func peerLabelsHas(peers []*sim.Peer, label string) bool {
	for _, p := range peers {
		if p.LocalLabel(false) == label {
			return true
		}
	}
	return false
}

// parseStreamLoose parses as many whole frames as the (possibly still growing) stream holds.
func parseStreamLoose(b []byte) ([]ref.Frame, []byte) {
	var out []ref.Frame
	for len(b) > 0 {
		f, n, err := ref.Parse(b)
		if err != nil {
			break
		}
		out = append(out, f)
		b = b[n:]
	}
	return out, b
}
