package node

import (
	"fmt"
	"net"
	"os"
	"syscall"
	"testing"
	"time"

	gomavlib "github.com/bluenviron/gomavlib/v3"
	"github.com/bluenviron/gomavlib/v3/pkg/dialects/ardupilotmega"
	"pgregory.net/rapid"

	"verifharness/evid"
	"verifharness/sim"
)

// TestC14AttemptsThatTimeOut: a connection attempt can fail in two ways - it is refused at once (nothing listens),
// or nobody answers and the attempt's time budget runs out (host down, packets dropped, accept queue of the peer
// full). The second kind is produced here with a listening socket whose accept queue is kept full, so the kernel
// drops the SYNs of the node's attempts; after a generated number of such attempts the peer starts accepting and
// the endpoint must come up like after any other failure.
func TestC14AttemptsThatTimeOut(t *testing.T) {
	rec := evid.New(t, "C14", "a TCP client endpoint whose connection attempts are not answered at all (listening socket with a full accept queue: the kernel drops the SYNs) for a generated multiple (2..5) of attempt budget (ReadTimeout 80..250 ms) + reconnect delay; no channel may open meanwhile; then the peer starts accepting and a channel-open event must follow within the bound; non-trivial = at least two attempts timed out; distinct by hash of the parameters")
	rec.Require("connection-attempts-timed-out")
	c14Hook()
	evid.Check(t, rec, evid.N(4, 16), func(t *rapid.T) {
		drawNodeInit(t)
		rt := time.Duration(rapid.IntRange(80, 250).Draw(t, "attempt_budget_ms")) * time.Millisecond
		k := rapid.IntRange(2, 5).Draw(t, "attempts_unanswered")
		desc := fmt.Sprintf("attempt budget (ReadTimeout) %v, unanswered for %d x (budget + reconnect delay %v)", rt, k, c14Reconnect)
		var hung bool
		err := watchdog(scenarioLimit, func() error {
			var e error
			hung, e = runC14Hang(rt, k)
			return e
		})
		if err != nil {
			evid.ReplayNote("C14", "TestC14AttemptsThatTimeOut", desc+"\n"+err.Error())
			t.Fatalf("%s\n%v", desc, err)
		}
		var cls []string
		if hung {
			cls = append(cls, "connection-attempts-timed-out")
		}
		rec.Case(hung, evid.HashS(desc), cls...)
		if rec.WantSample("unanswered") {
			rec.Sample("unanswered", desc)
		}
	})
}

func runC14Hang(rt time.Duration, k int) (bool, error) {
	port := sim.FreePort()
	ln, release, err := hangingListener(port)
	if err != nil {
		return false, err
	}
	defer release()
	n := &gomavlib.Node{Endpoints: []gomavlib.EndpointConf{gomavlib.EndpointTCPClient{Address: sim.Addr(port)}},
		Dialect: ardupilotmega.Dialect, OutVersion: gomavlib.V2, OutSystemID: 9, HeartbeatDisable: true, ReadTimeout: rt}
	if err := initNode(&n); err != nil {
		return false, fmt.Errorf("BROKEN: %v", err)
	}
	rec := sim.StartRecorder(n, sim.Pacing{Kind: "fast"}, nil)
	defer func() {
		closeNode(n, bound) //nolint:errcheck
		rec.WaitClosed(bound)
	}()
	opened := func(recs []sim.Rec) bool {
		for _, e := range lifecycle(recs) {
			if e.open {
				return true
			}
		}
		return false
	}
	time.Sleep(time.Duration(k) * (rt + c14Reconnect))
	if opened(rec.Snapshot()) {
		return false, fmt.Errorf("a channel opened although nobody accepted the connection")
	}
	// the peer starts accepting: first the connections that filled the queue, then whatever the node sends
	stop := make(chan struct{})
	done := make(chan struct{})
	go func() {
		defer close(done)
		var held []net.Conn
		defer func() {
			for _, c := range held {
				c.Close()
			}
		}()
		for {
			select {
			case <-stop:
				return
			default:
			}
			ln.(*net.TCPListener).SetDeadline(time.Now().Add(50 * time.Millisecond)) //nolint:errcheck
			c, err := ln.Accept()
			if err == nil {
				held = append(held, c)
			}
		}
	}()
	ok := rec.WaitFor(bound, opened)
	close(stop)
	<-done
	if !ok {
		return true, fmt.Errorf("connection attempts of the client went unanswered for %v (each attempt ran out of its time budget of %v); then the peer accepted connections for %v, but no channel opened: the endpoint stopped trying", time.Duration(k)*(rt+c14Reconnect), rt, bound)
	}
	return true, nil
}

// hangingListener listens on the loopback port with an accept queue that is already full: the kernel drops the
// SYNs of further connection attempts, which therefore stay unanswered until somebody accepts from ln.
func hangingListener(port int) (net.Listener, func(), error) {
	fd, err := syscall.Socket(syscall.AF_INET, syscall.SOCK_STREAM, 0)
	if err != nil {
		return nil, nil, fmt.Errorf("BROKEN: socket: %v", err)
	}
	syscall.SetsockoptInt(fd, syscall.SOL_SOCKET, syscall.SO_REUSEADDR, 1) //nolint:errcheck
	if err := syscall.Bind(fd, &syscall.SockaddrInet4{Port: port, Addr: [4]byte{127, 0, 0, 1}}); err != nil {
		syscall.Close(fd)
		return nil, nil, fmt.Errorf("BROKEN: bind: %v", err)
	}
	if err := syscall.Listen(fd, 0); err != nil {
		syscall.Close(fd)
		return nil, nil, fmt.Errorf("BROKEN: listen: %v", err)
	}
	f := os.NewFile(uintptr(fd), "listener")
	ln, err := net.FileListener(f)
	f.Close()
	if err != nil {
		return nil, nil, fmt.Errorf("BROKEN: file listener: %v", err)
	}
	var fill []net.Conn
	release := func() {
		ln.Close()
		for _, c := range fill {
			c.Close()
		}
	}
	for i := 0; i < 8; i++ {
		c, err := net.DialTimeout("tcp4", sim.Addr(port), 150*time.Millisecond)
		if err != nil {
			if ne, ok := err.(net.Error); ok && ne.Timeout() {
				return ln, release, nil
			}
			release()
			return nil, nil, fmt.Errorf("BROKEN: filling the accept queue: %v", err)
		}
		fill = append(fill, c)
	}
	release()
	return nil, nil, fmt.Errorf("BROKEN: the accept queue never filled up (%d connections established)", len(fill))
}
