package node

import (
	"fmt"
	"strings"
	"testing"
	"time"

	gomavlib "github.com/bluenviron/gomavlib/v3"
	"github.com/bluenviron/gomavlib/v3/pkg/dialects/ardupilotmega"
	"pgregory.net/rapid"

	"verifharness/evid"
	"verifharness/sim"
)

// TestC12CloseWithManyChannels: Close ends every channel there is, however many. A TCP server (and optionally a
// UDP server) with 1..130 connected peers - more than any internal queue has places - is closed with or without
// a consumer; Close returns, every peer sees its connection end, nothing is left behind.
func TestC12CloseWithManyChannels(t *testing.T) {
	rec := evid.New(t, "C12", "a TCP server endpoint with 1..130 connected peers (sizes around 63..66 and 127..130 over-represented), each of which has sent one frame; consumer running or absent; Close must return within the bound, every accepted connection must be closed, the port must be free again, no library goroutine may remain and Events() must be closed; non-trivial = more than 64 channels; distinct by hash of the parameters")
	rec.Require("more-than-64-channels")
	evid.Check(t, rec, evid.N(12, 60), func(t *rapid.T) {
		drawNodeInit(t)
		peers := rapid.OneOf(rapid.IntRange(1, 130), rapid.SampledFrom([]int{63, 64, 65, 66, 100, 127, 128, 129, 130})).Draw(t, "peers")
		consumer := rapid.Bool().Draw(t, "consumer")
		desc := fmt.Sprintf("tcpPeers=%d consumer=%v", peers, consumer)
		port := sim.FreePort()
		n := &gomavlib.Node{Endpoints: []gomavlib.EndpointConf{gomavlib.EndpointTCPServer{Address: sim.Addr(port)}},
			Dialect: ardupilotmega.Dialect, OutVersion: gomavlib.V2, OutSystemID: 7, HeartbeatPeriod: 20 * time.Millisecond}
		if err := initNode(&n); err != nil {
			t.Fatalf("BROKEN: %v", err)
		}
		fail := func(format string, a ...interface{}) {
			msg := desc + "\n" + fmt.Sprintf(format, a...)
			evid.ReplayNote("C12", "TestC12CloseWithManyChannels", msg)
			t.Fatalf("%s", msg)
		}
		var r *sim.Recorder
		if consumer {
			r = sim.StartRecorder(n, sim.Pacing{Kind: "fast"}, nil)
		}
		var conns []*sim.Peer
		for i := 0; i < peers; i++ {
			p, err := sim.Dial("tcp4", sim.Addr(port))
			if err != nil {
				fail("peer %d: the TCP server does not accept connections: %v", i, err)
			}
			conns = append(conns, p)
			p.Send(tagged(byte(1+i%200), i, "debug", true, nil, 0).Bytes()) //nolint:errcheck
		}
		if consumer {
			// all of them are channels before the node is closed
			if !r.WaitFor(bound, func(recs []sim.Rec) bool {
				k := 0
				for _, e := range recs {
					if _, ok := e.Ev.(*gomavlib.EventChannelOpen); ok {
						k++
					}
				}
				return k >= peers
			}) {
				fail("%d peers connected, fewer channels opened within %v", peers, bound)
			}
		} else {
			time.Sleep(30 * time.Millisecond)
		}
		if _, err := closeNode(n, bound); err != nil {
			fail("%v", err)
		}
		if consumer {
			if !r.WaitClosed(bound) {
				fail("ranging over Events() did not end after Close")
			}
		} else {
			done := make(chan struct{})
			go func() {
				for range n.Events() {
				}
				close(done)
			}()
			select {
			case <-done:
			case <-time.After(bound):
				fail("Events() was not closed by Close")
			}
		}
		for i, p := range conns {
			if !p.WaitRxEnd(bound) {
				fail("accepted connection of peer %d still open after Close", i)
			}
			p.Close()
		}
		if left := sim.WaitNoLibGoroutines(3 * time.Second); len(left) > 0 {
			fail("%d goroutine(s) started by the library are still alive after Close returned:\n%s", len(left), strings.Join(left, "\n\n"))
		}
		okBind := false
		for k := 0; k < 400 && !okBind; k++ {
			okBind = sim.CanBind(port)
			if !okBind {
				time.Sleep(5 * time.Millisecond)
			}
		}
		if !okBind {
			fail("port %d cannot be bound again after Close", port)
		}
		var cls []string
		if peers > 64 {
			cls = append(cls, "more-than-64-channels")
		}
		rec.Case(peers > 64, evid.HashS(desc), cls...)
		if peers > 64 && rec.WantSample("many") {
			rec.Sample("many", desc)
		}
	})
}
