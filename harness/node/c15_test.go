package node

import (
	"fmt"
	"net"
	"os"
	"sync"
	"sync/atomic"
	"testing"
	"time"

	gomavlib "github.com/bluenviron/gomavlib/v3"
	"github.com/bluenviron/gomavlib/v3/pkg/dialects/ardupilotmega"
	"github.com/bluenviron/gomavlib/v3/pkg/dialects/common"
	"github.com/bluenviron/gomavlib/v3/pkg/dialects/minimal"
	"github.com/bluenviron/gomavlib/v3/pkg/frame"
	"github.com/bluenviron/gomavlib/v3/pkg/message"
	"pgregory.net/rapid"

	"verifharness/evid"
	"verifharness/ref"
	"verifharness/sim"
)

// TestC15Race drives a node as concurrently as the API allows; the oracle is the Go race detector
// (the binary is built with -race by the driver; a report makes the test fail).
func TestC15Race(t *testing.T) {
	rec := evid.New(t, "C15", "maximally concurrent scenarios under the Go race detector: 3..6 channels (custom transports, TCP-server and UDP-server peers, in a third of the cases a UDP broadcast endpoint that a station sends to), 3..6 API goroutines mixing all six Write* calls, a router goroutine that edits received frames, calls FixFrame and forwards them with WriteFrameExcept, a consumer, heartbeats every 2-5 ms, stream requests triggered by ArduPilot heartbeats from several senders on several channels, peers connecting and leaving (also while Close is under way), rejected input producing parse-error events, a consumer that keeps the last events and reads them again later, a second node created on the same dialect object in mid-run, and Close racing with all of it; any DATA RACE report whose stack includes a gomavlib package is a violation; non-trivial = >=2 API goroutines and >=2 channel readers active in overlapping intervals (measured from the harness timeline); distinct by hash of the scenario parameters")
	rec.Require("overlapping-api-and-readers", "close-racing", "tcp-peer-connecting-during-close", "kept-events-read-again", "incoming-key-with-signed-traffic-on-several-links", "read-side-fails-while-a-slow-write-is-in-progress", "listen-only-peers-expiring-while-the-node-writes", "broadcast-endpoint-read-and-written-at-once")
	hbLay, _ := ref.LayoutOf(refTypeOf(&minimal.MessageHeartbeat{}))
	evid.Check(t, rec, evid.N(60, 250), func(t *rapid.T) {
		drawNodeInit(t)
		slowLink := false
		ncustom := rapid.IntRange(2, 3).Draw(t, "ncustom")
		ntcp := rapid.IntRange(0, 2).Draw(t, "ntcp")
		nudp := rapid.IntRange(0, 1).Draw(t, "nudp")
		napi := rapid.IntRange(3, 6).Draw(t, "napi")
		hbPeriod := time.Duration(rapid.IntRange(2, 5).Draw(t, "hb_ms")) * time.Millisecond
		runFor := time.Duration(rapid.IntRange(15, 60).Draw(t, "run_ms")) * time.Millisecond
		closeRacing := rapid.Bool().Draw(t, "close_racing")
		keyed := rapid.IntRange(0, 1).Draw(t, "keyed") == 0
		slowConsumer := rapid.IntRange(0, 2).Draw(t, "slow_consumer") == 0
		leaveBeforeClose := rapid.Bool().Draw(t, "leave_before_close")
		lateDials := rapid.SliceOfN(rapid.IntRange(0, 1500), 0, 3).Draw(t, "late_tcp_dials_us") // TCP peers that connect while Close is under way
		rejectedInput := rapid.Bool().Draw(t, "rejected_input")                                 // frames with a wrong checksum between the valid ones: parse-error events
		// an incoming key: every reader authenticates what it receives (all links share the key object)
		var inKey *[32]byte
		if rapid.IntRange(0, 2).Draw(t, "incoming_key") == 0 {
			inKey = &[32]byte{9, 8, 7, 6}
		}
		desc := fmt.Sprintf("custom=%d tcpPeers=%d udpPeers=%d apiGoroutines=%d heartbeat=%v run=%v closeRacing=%v keyed=%v slowConsumer=%v peersLeaveBeforeClose=%v tcpDialsDuringClose(us)=%v rejectedInput=%v incomingKey=%v", ncustom, ntcp, nudp, napi, hbPeriod, runFor, closeRacing, keyed, slowConsumer, leaveBeforeClose, lateDials, rejectedInput, inKey != nil)

		pipes := make([]*sim.Pipe, ncustom)
		var endpoints []gomavlib.EndpointConf
		for i := range pipes {
			pipes[i] = sim.NewPipe()
			endpoints = append(endpoints, gomavlib.EndpointCustom{ReadWriteCloser: pipes[i]})
		}
		tcpAddr, udpAddr := sim.Addr(sim.FreePort()), sim.Addr(sim.FreePort())
		endpoints = append(endpoints, gomavlib.EndpointTCPServer{Address: tcpAddr}, gomavlib.EndpointUDPServer{Address: udpAddr})
		// a broadcast endpoint: one socket that the node's writer sends heartbeats and fan-out traffic through while
		// its reader takes in the datagrams of a station
		bcast := rapid.IntRange(0, 2).Draw(t, "broadcast_endpoint") == 0
		bcastLocal := sim.Addr(sim.FreePort())
		desc += fmt.Sprintf(" broadcastEndpoint=%v", bcast)
		if bcast {
			endpoints = append(endpoints, gomavlib.EndpointUDPBroadcast{BroadcastAddress: fmt.Sprintf("127.255.255.255:%d", sim.FreePort()), LocalAddress: bcastLocal})
		}
		var key *[32]byte
		if keyed {
			key = &[32]byte{4, 5, 6}
		}
		var tsCounter uint64 = 9000000
		if inKey != nil && rapid.Bool().Draw(t, "peer_clocks_an_hour_ahead") {
			tsCounter = since2015(time.Now()) + 360000000 // the peers' clocks run an hour ahead of this machine's
		}
		signIn := func(f ref.Frame, link byte) ref.Frame {
			if inKey == nil || !f.V2 {
				return f
			}
			f.Incompat, f.LinkID, f.Timestamp = 1, link, atomic.AddUint64(&tsCounter, 3)
			if l := lay(f.ID); l != nil {
				f.Checksum = f.ChecksumFor(l.CRCExtra)
			}
			f.Sig = f.SignatureFor(*inKey)
			return f
		}
		n := &gomavlib.Node{Endpoints: endpoints, Dialect: ardupilotmega.Dialect, OutVersion: gomavlib.V2, OutSystemID: nodeSys,
			HeartbeatPeriod: hbPeriod, StreamRequestEnable: true, OutKey: keyOf(key), InKey: keyOf(inKey), WriteTimeout: 500 * time.Millisecond}
		// a short idle timeout and peers that only listen (a logger, a display): their channels expire over and over while
		// the node keeps writing heartbeats and fan-out traffic to them
		listenOnly := rapid.IntRange(0, 2).Draw(t, "listen_only_peers_and_short_idle_timeout") == 0
		if listenOnly {
			n.IdleTimeout = time.Duration(rapid.IntRange(8, 25).Draw(t, "idle_ms")) * time.Millisecond
		}
		if err := initNode(&n); err != nil {
			t.Fatalf("BROKEN: %v", err)
		}
		var readersActive, apiActive, overlap, routed, lookedAgain int32
		// consumer + router
		var chMu sync.Mutex
		var chans []*gomavlib.Channel
		consumerDone := make(chan struct{})
		go func() {
			defer close(consumerDone)
			// the application keeps the last events it received and looks at them again later, as any
			// application that logs or batches events does
			var kept [8]gomavlib.Event
			nkept := 0
			for ev := range n.Events() {
				if old := kept[nkept%len(kept)]; old != nil {
					switch o := old.(type) {
					case *gomavlib.EventParseError:
						if o.Error != nil && o.Channel != nil {
							atomic.AddInt32(&lookedAgain, int32(len(o.Error.Error())&1)+1)
						}
					case *gomavlib.EventChannelClose:
						if o.Error != nil {
							atomic.AddInt32(&lookedAgain, int32(len(o.Error.Error())&1)+1)
						}
						// a channel value the application was given stays what it was: its description is read again
						// long after the channel has ended (a log line, a map key)
						atomic.AddInt32(&lookedAgain, int32(len(o.Channel.String())&1)+1)
					case *gomavlib.EventChannelOpen:
						atomic.AddInt32(&lookedAgain, int32(len(o.Channel.String())&1)+1)
					case *gomavlib.EventStreamRequested:
						atomic.AddInt32(&lookedAgain, int32(o.SystemID&1)+1)
					case *gomavlib.EventFrame:
						// a frame that stayed raw (its id is not in the dialect): its payload belongs to the application
						if raw, ok := o.Message().(*message.MessageRaw); ok {
							sum := 0
							for _, b := range raw.Payload {
								sum += int(b)
							}
							atomic.AddInt32(&lookedAgain, int32(sum&1)+1)
						}
					}
				}
				kept[nkept%len(kept)] = ev
				nkept++
				if slowConsumer {
					time.Sleep(500 * time.Microsecond) // events stay pending: channels linger in every intermediate state
				}
				switch e := ev.(type) {
				case *gomavlib.EventChannelClose:
					_ = e.Channel.String()
				case *gomavlib.EventChannelOpen:
					_ = e.Channel.String()
					chMu.Lock()
					chans = append(chans, e.Channel)
					chMu.Unlock()
				case *gomavlib.EventFrame:
					atomic.AddInt32(&readersActive, 1)
					if atomic.LoadInt32(&apiActive) >= 2 {
						atomic.StoreInt32(&overlap, 1)
					}
					// route: edit, fix, forward to everybody else
					if ff, isV2 := e.Frame.(*frame.V2Frame); isV2 && atomic.LoadInt32(&routed)%5 == 4 {
						// pass the frame on as it is, then re-stamp a copy of it (another origin) and send that
						// back: two frame values, the second one fixed while the first is on its way out
						atomic.AddInt32(&routed, 1)
						n.WriteFrameExcept(e.Channel, e.Frame) //nolint:errcheck
						cp := *ff
						cp.SystemID ^= 0x40
						if err := n.FixFrame(&cp); err == nil {
							n.WriteFrameTo(e.Channel, &cp) //nolint:errcheck
						}
					} else if m, ok := e.Message().(*common.MessageDebug); ok && atomic.AddInt32(&routed, 1)%2 == 0 {
						m.Value += 1
						if err := n.FixFrame(e.Frame); err == nil {
							n.WriteFrameExcept(e.Channel, e.Frame) //nolint:errcheck
						}
					} else if ok {
						// route the decoded frame to each other channel individually, then look at it again
						chMu.Lock()
						targets := append([]*gomavlib.Channel(nil), chans...)
						chMu.Unlock()
						for _, c := range targets {
							if c != e.Channel {
								n.WriteFrameTo(c, e.Frame) //nolint:errcheck
							}
						}
						_ = e.Frame.GetMessage().GetID()
						m.Value += 2
					} else {
						n.WriteFrameExcept(e.Channel, e.Frame) //nolint:errcheck
					}
				}
			}
		}()
		stop := make(chan struct{})
		var wg sync.WaitGroup
		// a link in trouble: now and then a write on the first custom transport runs into its deadline, and a moment
		// later its read side fails too (the channel ends and the transport is handed out again) - all of it while
		// writers, readers and the router are busy
		if ncustom > 0 && rapid.Bool().Draw(t, "first_custom_link_in_trouble") {
			// the link may be a slow one as well: its writer is inside the transport for a while, so the read side
			// fails while a write is in progress
			if d := rapid.SampledFrom([]int{0, 0, 1, 3}).Draw(t, "slow_writes_ms"); d > 0 {
				pipes[0].SetWriteDelay(time.Duration(d) * time.Millisecond)
				slowLink = true
			}
			wg.Add(1)
			go func() {
				defer wg.Done()
				for k := 0; ; k++ {
					select {
					case <-stop:
						return
					default:
					}
					time.Sleep(3 * time.Millisecond)
					pipes[0].FailNextWrite(&net.OpError{Op: "write", Net: "tcp", Err: os.ErrDeadlineExceeded})
					time.Sleep(time.Millisecond)
					pipes[0].FailNextRead(fmt.Errorf("injected read error %d", k))
				}
			}()
		}
		// feeders: every custom channel gets ArduPilot heartbeats from several senders plus DEBUG frames
		for i, p := range pipes {
			wg.Add(1)
			go func(i int, p *sim.Pipe) {
				defer wg.Done()
				for k := 0; ; k++ {
					select {
					case <-stop:
						return
					default:
					}
					hb := &minimal.MessageHeartbeat{Type: 2, Autopilot: 3, SystemStatus: 4, MavlinkVersion: 3}
					f := ref.Frame{V2: k%2 == 0, Seq: byte(k), Sys: byte(1 + k%3), Comp: byte(1 + i), ID: 0}
					f.Payload = hbLay.Encode(hb, f.V2)
					f.Checksum = f.ChecksumFor(hbLay.CRCExtra)
					p.Feed(signIn(f, byte(i)).Bytes())
					p.Feed(signIn(tagged(byte(i+1), k, "debug", true, nil, 0), byte(i)).Bytes())
					p.Feed(signIn(tagged(byte(i+1), k, "raw", true, nil, 0), byte(i)).Bytes()) // unknown to the dialect: delivered and forwarded raw
					{
						// messages with text fields, the text changing from frame to frame and from channel to channel
						st := ref.Frame{V2: k%3 != 0, Seq: byte(k), Sys: byte(60 + i), Comp: 1, ID: 253}
						st.Payload = lay(253).Encode(&common.MessageStatustext{Severity: 6, Text: fmt.Sprintf("channel %d item %d", i, k)}, st.V2)
						st.Checksum = st.ChecksumFor(lay(253).CRCExtra)
						p.Feed(signIn(st, byte(i)).Bytes())
						pv := ref.Frame{V2: true, Seq: byte(k), Sys: byte(60 + i), Comp: 1, ID: 22}
						pv.Payload = lay(22).Encode(&common.MessageParamValue{ParamId: fmt.Sprintf("P%d_%d", i, k%97), ParamValue: float32(k), ParamCount: 100, ParamIndex: uint16(k % 100)}, true)
						pv.Checksum = pv.ChecksumFor(lay(22).CRCExtra)
						p.Feed(signIn(pv, byte(i)).Bytes())
					}
					{
						// a message whose fields are all zero, sent the way senders do (one zero byte): the router edits
						// what it receives in place, every received message is the application's own
						z := ref.Frame{V2: true, Seq: byte(k), Sys: byte(90 + i), Comp: 1, ID: debugMsgID, Payload: []byte{0}}
						z.Checksum = z.ChecksumFor(lay(debugMsgID).CRCExtra)
						p.Feed(signIn(z, byte(i)).Bytes())
					}
					if rejectedInput {
						bad := tagged(byte(i+1), k, "debug", true, nil, 0)
						bad.Checksum ^= 0x0101
						p.Feed(bad.Bytes())
						// stray bytes between frames: the same values on every link at about the same moment, other
						// values two milliseconds later (0xFD / 0xFE left out: they would start a frame)
						jb := byte(3 + (time.Now().UnixNano()/2000000)%248)
						p.Feed([]byte{jb, jb ^ 1})
					}
					time.Sleep(300 * time.Microsecond)
				}
			}(i, p)
		}
		var peers []*sim.Peer
		var peersMu sync.Mutex
		dialPeer := func(network, addr string, id int) {
			defer wg.Done()
			p, err := sim.Dial(network, addr)
			if err != nil {
				return
			}
			peersMu.Lock()
			peers = append(peers, p)
			peersMu.Unlock()
			for k := 0; ; k++ {
				select {
				case <-stop:
					return
				default:
				}
				if p.Send(signIn(tagged(byte(10+id), k, "debug", true, nil, 0), byte(40+id)).Bytes()) != nil {
					return
				}
				st := ref.Frame{V2: true, Seq: byte(k), Sys: byte(80 + id), Comp: 1, ID: 253}
				st.Payload = lay(253).Encode(&common.MessageStatustext{Severity: 4, Text: fmt.Sprintf("peer %d says %d", id, k)}, true)
				st.Checksum = st.ChecksumFor(lay(253).CRCExtra)
				if p.Send(signIn(st, byte(40+id)).Bytes()) != nil {
					return
				}
				if k == 20 && id%2 == 1 {
					p.Close() // a peer leaving mid-run
					return
				}
				time.Sleep(400 * time.Microsecond)
			}
		}
		for i := 0; i < ntcp; i++ {
			wg.Add(1)
			go dialPeer("tcp4", tcpAddr, i)
		}
		if listenOnly {
			for _, nw := range []string{"tcp4", "udp4"} {
				if nw == "udp4" && nudp == 0 {
					continue // (the known finding about new UDP peers at Close is kept out by construction where UDP peers exist)
				}
				wg.Add(1)
				go func(nw string) {
					defer wg.Done()
					addr := tcpAddr
					if nw == "udp4" {
						addr = udpAddr
					}
					for {
						p, err := sim.Dial(nw, addr)
						if err != nil {
							return
						}
						peersMu.Lock()
						peers = append(peers, p)
						peersMu.Unlock()
						p.Send(signIn(tagged(70, 0, "debug", true, nil, 0), 70).Bytes()) //nolint:errcheck // says hello once, then only listens
						if nw == "udp4" {
							<-stop // one UDP peer: it expires once and stays away
							return
						}
						select {
						case <-stop:
							return
						case <-time.After(3 * n.IdleTimeout): // expired by now: come back
						}
					}
				}(nw)
			}
		}
		for i := 0; i < nudp; i++ {
			wg.Add(1)
			go dialPeer("udp4", udpAddr, 5+i)
		}
		if bcast {
			wg.Add(1)
			go dialPeer("udp4", bcastLocal, 8)
		}
		// API goroutines
		for g := 0; g < napi; g++ {
			wg.Add(1)
			go func(g int) {
				defer wg.Done()
				for k := 0; ; k++ {
					select {
					case <-stop:
						return
					default:
					}
					atomic.AddInt32(&apiActive, 1)
					chMu.Lock()
					var target *gomavlib.Channel
					if len(chans) > 0 {
						target = chans[(k+g)%len(chans)]
					}
					chMu.Unlock()
					var m message.Message = &common.MessageDebug{TimeBootMs: uint32(k), Ind: byte(g)}
					if (k+g)%5 == 0 {
						// an already encoded message whose payload ends in zero bytes, shared by all channels it goes to
						m = &message.MessageRaw{ID: debugMsgID, Payload: []byte{byte(k), byte(k >> 8), 1, 0, 0, 0, 0, 0, 0}}
					}
					var fr frame.Frame = &frame.V2Frame{SequenceNumber: byte(k), SystemID: byte(100 + g), ComponentID: 1, Message: &common.MessageDebug{TimeBootMs: uint32(k), Ind: byte(g)}}
					switch (k + g) % 6 {
					case 0:
						n.WriteMessageAll(m) //nolint:errcheck
					case 1:
						n.WriteMessageTo(target, m) //nolint:errcheck
					case 2:
						n.WriteMessageExcept(target, m) //nolint:errcheck
					case 3:
						// a forwarding goroutine re-stamps its own frame before sending it on (several of these
						// goroutines do so at once; FixFrame works on the caller's frame)
						if k%2 == 0 {
							n.FixFrame(fr) //nolint:errcheck
						}
						n.WriteFrameAll(fr) //nolint:errcheck
					case 4:
						n.WriteFrameTo(target, fr)  //nolint:errcheck
						n.WriteFrameTo(target, fr)  //nolint:errcheck
						_ = fr.GetMessage().GetID() // the application still owns its frame after the call
					case 5:
						n.WriteFrameExcept(target, fr) //nolint:errcheck
					}
					atomic.AddInt32(&apiActive, -1)
					if k%4 == 0 {
						time.Sleep(100 * time.Microsecond)
					}
				}
			}(g)
		}
		// a second node of the same process, created while the first is in full swing: it uses the same dialect
		// object (dialects are shared package-level values) with other heartbeat settings
		time.Sleep(runFor / 3)
		p2 := sim.NewPipe()
		n2 := &gomavlib.Node{Endpoints: []gomavlib.EndpointConf{gomavlib.EndpointCustom{ReadWriteCloser: p2}}, Dialect: ardupilotmega.Dialect,
			OutVersion: gomavlib.V2, OutSystemID: nodeSys + 1, HeartbeatPeriod: hbPeriod, HeartbeatSystemType: 13, HeartbeatAutopilotType: 8, StreamRequestEnable: true}
		if err := n2.Initialize(); err != nil {
			t.Fatalf("BROKEN: second node: %v", err)
		}
		n2done := make(chan struct{})
		go func() {
			defer close(n2done)
			for range n2.Events() {
			}
		}()
		defer func() {
			closeNode(n2, bound) //nolint:errcheck
			<-n2done
		}()
		time.Sleep(runFor - runFor/3)
		if nudp > 0 && knownFinding("pion-udp-accept-close-race") {
			// known finding (see known_findings.txt): Close while a new UDP peer's first datagram is pending
			// acceptance trips a WaitGroup misuse inside pion/transport. Excluded by construction while listed:
			// every UDP peer gets time to be accepted before Close.
			time.Sleep(30 * time.Millisecond)
			rec.Class("excluded:new-udp-peer-pending-at-close(known finding)", 1)
		}
		if leaveBeforeClose {
			// peers vanish right before Close: their channels are terminating by themselves while the node terminates
			peersMu.Lock()
			for _, p := range peers {
				p.Conn.Close()
			}
			peersMu.Unlock()
			time.Sleep(time.Duration(rapid.IntRange(0, 3000).Draw(t, "leave_gap_us")) * time.Microsecond)
		}
		for i, us := range lateDials {
			wg.Add(1)
			go func(i, us int) {
				defer wg.Done()
				time.Sleep(time.Duration(us) * time.Microsecond)
				p, err := sim.Dial("tcp4", tcpAddr)
				if err != nil {
					return // the listener is already gone
				}
				peersMu.Lock()
				peers = append(peers, p)
				peersMu.Unlock()
				p.Send(tagged(byte(30+i), 0, "debug", true, nil, 0).Bytes()) //nolint:errcheck
			}(i, us)
		}
		if closeRacing {
			// Close while everything is still running
			if _, err := closeNode(n, bound); err != nil {
				close(stop)
				t.Fatalf("%s\n%v", desc, err)
			}
			close(stop)
		} else {
			close(stop)
			wg.Wait()
			if _, err := closeNode(n, bound); err != nil {
				t.Fatalf("%s\n%v", desc, err)
			}
		}
		wg.Wait()
		<-consumerDone
		peersMu.Lock()
		for _, p := range peers {
			p.Close()
		}
		peersMu.Unlock()
		// a transport handed to the node belongs to one writer at a time: two of the node's goroutines inside the same
		// transport's Write at once are conflicting accesses to whatever that transport keeps (its buffers, its device)
		for i, p := range pipes {
			if o := p.Overlaps(); o > 0 {
				msg := fmt.Sprintf("%s\ncustom transport %d: %d times a Write call of a node goroutine began while another goroutine of the node was still inside Write of the same transport (the transport was handed out again after a read error while the previous channel's writer was still using it)", desc, i, o)
				evid.ReplayNote("C15", "TestC15Race", msg)
				t.Fatalf("%s", msg)
			}
		}
		var cls []string
		if slowLink {
			cls = append(cls, "read-side-fails-while-a-slow-write-is-in-progress")
		}
		if bcast {
			cls = append(cls, "broadcast-endpoint-read-and-written-at-once")
		}
		if listenOnly {
			cls = append(cls, "listen-only-peers-expiring-while-the-node-writes")
		}
		nt := atomic.LoadInt32(&overlap) == 1 && atomic.LoadInt32(&readersActive) > 1
		if nt {
			cls = append(cls, "overlapping-api-and-readers")
		}
		if closeRacing {
			cls = append(cls, "close-racing")
		}
		if inKey != nil && ncustom+ntcp+nudp >= 2 {
			cls = append(cls, "incoming-key-with-signed-traffic-on-several-links")
		}
		if len(lateDials) > 0 {
			cls = append(cls, "tcp-peer-connecting-during-close")
		}
		if rejectedInput && atomic.LoadInt32(&lookedAgain) > 0 {
			cls = append(cls, "kept-events-read-again")
		}
		rec.Case(nt, evid.HashS(desc), cls...)
		if nt && rec.WantSample("scenario") {
			rec.Sample("scenario", desc)
		}
	})
}
