package node

import (
	"fmt"
	"reflect"
	"sort"
	"testing"

	gomavlib "github.com/bluenviron/gomavlib/v3"
	"github.com/bluenviron/gomavlib/v3/pkg/dialect"
	"github.com/bluenviron/gomavlib/v3/pkg/message"
	"pgregory.net/rapid"

	"verifharness/evid"
	"verifharness/gen"
	"verifharness/ref"
	"verifharness/sim"
)

// A dialect of the application: shapes that no shipped dialect has (one-element arrays, enum fields of signed wire
// types in the base part, ids beyond 16 bits, strings only among the extensions, a small-element array declared before
// wider scalars, a 255-byte message). A node configured with it is a peer like any other: what a conforming sender
// built from the same definitions puts on the wire comes out as frame events.

type userEnum uint64

type MessageUserOne struct {
	Values [1]uint16
	Id     uint8
	Tag    string `mavlen:"1"`
	Scale  [1]float32
}

func (*MessageUserOne) GetID() uint32 { return 0x2345 }

type MessageUserWide struct {
	Values [2]uint16
	Id     uint8
}

func (*MessageUserWide) GetID() uint32 { return 0x012345 }

type MessageUserEnums struct {
	Mode    userEnum `mavenum:"int8"`
	Cmd     userEnum `mavenum:"int32"`
	Flags   userEnum `mavenum:"uint16"`
	Counter uint8
	Later   userEnum `mavenum:"int8" mavext:"true"`
}

func (*MessageUserEnums) GetID() uint32 { return 180 }

type MessageUserVect struct {
	Name [10]uint8
	Time uint64
	X    float32
	Y    uint16
	Note string `mavext:"true" mavlen:"12"`
}

func (*MessageUserVect) GetID() uint32 { return 0xFFFFFE }

type MessageUserFull struct {
	Data [251]uint8
	Seq  uint32
}

func (*MessageUserFull) GetID() uint32 { return 65535 }

var userDialect = &dialect.Dialect{Version: 3, Messages: []message.Message{
	&MessageUserOne{}, &MessageUserWide{}, &MessageUserEnums{}, &MessageUserVect{}, &MessageUserFull{},
}}

// TestC10UserDialect: frames of the application's own dialect, encoded and checksummed by the reference from the struct
// definitions, arrive on a node that has this dialect (with and without an incoming key); frames carrying the checksum
// of another message of the dialect are mixed in. One frame event per valid frame, decoded to the value sent, in
// order; one parse error per other frame; nothing else.
func TestC10UserDialect(t *testing.T) {
	rec := evid.New(t, "C10", "a node whose dialect is the application's own (one-element arrays, signed enum fields in the base part, ids 0x2345 / 0x012345 / 0xFFFFFE / 65535, strings among the extensions only, a 255-byte message) receives 4..40 v1/v2 (optionally signed) frames that the reference encoder built from the struct definitions, some carrying the checksum of another message of the dialect: exactly one frame event per valid frame with the value sent, in order, one parse error per other frame; non-trivial = a refused frame between valid ones; distinct by hash of the stream")
	rec.Require("one-element-array-message", "signed-enum-message", "id-beyond-16-bits", "255-byte-message", "refused-between-valid", "signed-frames")
	lays := map[uint32]*ref.Layout{}
	var ids []uint32
	for _, m := range userDialect.Messages {
		l, err := ref.LayoutOf(reflect.TypeOf(m).Elem())
		if err != nil {
			t.Fatalf("BROKEN: %v", err)
		}
		lays[m.GetID()] = l
		ids = append(ids, m.GetID())
	}
	evid.Check(t, rec, evid.N(150, 800), func(t *rapid.T) {
		drawNodeInit(t)
		key := [32]byte{9, 1, 7}
		keyed := rapid.Bool().Draw(t, "incoming_key")
		p := sim.NewPipe()
		n := &gomavlib.Node{Endpoints: []gomavlib.EndpointConf{gomavlib.EndpointCustom{ReadWriteCloser: p}}, Dialect: userDialect,
			OutVersion: gomavlib.V2, OutSystemID: 5, HeartbeatDisable: true}
		if keyed {
			n.InKey = keyOf(&key)
		}
		if err := initNode(&n); err != nil {
			t.Fatalf("a dialect of well-formed message structs is refused by the node: %v", err)
		}
		r := sim.StartRecorder(n, sim.Pacing{Kind: "fast"}, nil)
		nf := rapid.IntRange(4, 40).Draw(t, "frames")
		type sent struct {
			f     ref.Frame
			lay   *ref.Layout
			valid bool
		}
		var all []sent
		var stream []byte
		cls := map[string]bool{}
		ts := uint64(5000000)
		for i := 0; i < nf; i++ {
			id := ids[rapid.IntRange(0, len(ids)-1).Draw(t, "msg")]
			l := lays[id]
			f := ref.Frame{V2: keyed || id > 255 || rapid.Bool().Draw(t, "v2"), Seq: byte(i), Sys: 40, Comp: byte(1 + i%3), ID: id}
			f.Payload = l.Encode(gen.Value(t, l), f.V2)
			if keyed {
				ts += 7
				f.Incompat, f.LinkID, f.Timestamp = 1, 3, ts
			}
			f.Checksum = f.ChecksumFor(l.CRCExtra)
			s := sent{f: f, lay: l, valid: true}
			if rapid.IntRange(0, 6).Draw(t, "foreign_checksum") == 0 {
				o := lays[ids[rapid.IntRange(0, len(ids)-1).Draw(t, "other")]]
				if o.CRCExtra != l.CRCExtra {
					s.f.Checksum = f.ChecksumFor(o.CRCExtra)
					s.valid = false
				}
			}
			if keyed {
				s.f.Sig = s.f.SignatureFor(key)
				cls["signed-frames"] = true
			}
			all = append(all, s)
			stream = append(stream, s.f.Bytes()...)
			switch id {
			case 0x2345:
				cls["one-element-array-message"] = true
			case 180:
				cls["signed-enum-message"] = true
			case 65535:
				cls["255-byte-message"] = true
			}
			if id > 65535 {
				cls["id-beyond-16-bits"] = true
			}
		}
		p.Feed(stream)
		count := func(recs []sim.Rec) int {
			k := 0
			for _, e := range recs {
				switch e.Ev.(type) {
				case *gomavlib.EventFrame, *gomavlib.EventParseError:
					k++
				}
			}
			return k
		}
		done := r.WaitFor(bound, func(recs []sim.Rec) bool { return count(recs) >= nf })
		sleepShort()
		closeNode(n, bound) //nolint:errcheck
		r.WaitClosed(bound)
		fail := func(format string, a ...interface{}) {
			msg := fmt.Sprintf(format, a...)
			evid.ReplayNote("C10", "TestC10UserDialect", fmt.Sprintf("incoming key=%v stream %x\n%s", keyed, stream, msg))
			t.Fatalf("node with the application's own dialect, incoming key=%v, %d frames built by the reference from the struct definitions: %s", keyed, nf, msg)
		}
		k := 0
		sawValid, refusedBetween := false, false
		for _, e := range r.Snapshot() {
			switch ev := e.Ev.(type) {
			case *gomavlib.EventFrame:
				if k >= nf {
					fail("more events than frames: extra frame event %+v", ev.Message())
				}
				s := all[k]
				if !s.valid {
					fail("frame %d (%s, id %#x) carries the checksum of another message and surfaced as a frame event", k, s.lay.MsgName, s.f.ID)
				}
				want, derr := s.lay.Decode(s.f.Payload, s.f.V2)
				if derr != nil {
					t.Fatalf("BROKEN: %v", derr)
				}
				if reflect.TypeOf(ev.Message()) != reflect.PtrTo(s.lay.Type) || !ref.EqualMsg(ev.Message(), want) {
					fail("frame %d (%s, id %#x, v2=%v, payload %x) surfaced as %T %+v, sent %+v", k, s.lay.MsgName, s.f.ID, s.f.V2, s.f.Payload, ev.Message(), ev.Message(), want)
				}
				if ev.SystemID() != 40 || ev.Frame.GetSequenceNumber() != byte(k) {
					fail("frame %d surfaced with system id %d, sequence number %d", k, ev.SystemID(), ev.Frame.GetSequenceNumber())
				}
				sawValid = true
				k++
			case *gomavlib.EventParseError:
				if k >= nf {
					fail("more events than frames: extra parse error %v", ev.Error)
				}
				s := all[k]
				if s.valid {
					fail("frame %d (%s, id %#x, v2=%v, %d payload bytes, CRC_EXTRA %d by the specification, bytes %x) is valid and was reported as a parse error: %v", k, s.lay.MsgName, s.f.ID, s.f.V2, len(s.f.Payload), s.lay.CRCExtra, s.f.Bytes(), ev.Error)
				}
				if sawValid && k+1 < nf {
					refusedBetween = true
				}
				k++
			}
		}
		if k != nf || !done {
			fail("%d of %d frames produced an event", k, nf)
		}
		var cs []string
		for c := range cls {
			cs = append(cs, c)
		}
		sort.Strings(cs)
		if refusedBetween {
			cs = append(cs, "refused-between-valid")
		}
		rec.Case(refusedBetween, evid.Hash(stream, []byte{b2iNode(keyed)}), cs...)
		if rec.WantSample("user-dialect") {
			rec.Sample("user-dialect", map[string]interface{}{"frames": nf, "incoming_key": keyed, "bytes": len(stream)})
		}
	})
}
