package node

import (
	"fmt"
	"sync/atomic"
	"testing"
	"time"

	"bou.ke/monkey"
	gomavlib "github.com/bluenviron/gomavlib/v3"
	"github.com/bluenviron/gomavlib/v3/pkg/dialects/ardupilotmega"
	"github.com/bluenviron/gomavlib/v3/pkg/dialects/minimal"
	"pgregory.net/rapid"

	"verifharness/evid"
	"verifharness/ref"
	"verifharness/sim"
)

// TestC16RepeatInterval moves the wall clock seen through time.Now (patched for the duration of the
// test, as the repository's own tests do) to check the 30-second clause: requests for a sender are not
// repeated within 30 seconds of the last ones, whatever happened before.
func TestC16RepeatInterval(t *testing.T) {
	rec := evid.New(t, "C16", "time.Now is patched to add a generated offset: an ArduPilot sender is first seen at T, heartbeats follow at generated offsets below 30 s (nothing may be sent), then beyond 30 s (either nothing or exactly one more set of seven requests and one event), then again shortly after (nothing more, because the last requests are less than 30 s old); non-trivial = history with a jump beyond 30 s followed by further heartbeats; distinct by hash of the offsets")
	rec.Require("heartbeat-of-another-autopilot-from-served-ids-beyond-30s", "rejected-input-between-served-sender's-heartbeats")
	base := time.Now()
	var offset int64
	// nobody else may be inside time.Now while its code is rewritten, and the stall monitor has no use for a clock
	// that jumps: it rests for the duration of this test
	stalls.Pause()
	defer stalls.Resume()
	guard := monkey.Patch(time.Now, func() time.Time {
		return base.Add(time.Since(base) + time.Duration(atomic.LoadInt64(&offset)))
	})
	defer guard.Unpatch()
	hbLay, _ := ref.LayoutOf(refTypeOf(&minimal.MessageHeartbeat{}))
	evid.Check(t, rec, evid.N(40, 200), func(t *rapid.T) {
		drawNodeInit(t)
		atomic.StoreInt64(&offset, 0)
		within := rapid.SliceOfN(rapid.IntRange(1, 29900), 1, 3).Draw(t, "within_ms")
		jump := rapid.IntRange(30100, 90000).Draw(t, "jump_ms")
		after := rapid.SliceOfN(rapid.IntRange(1, 29000), 1, 4).Draw(t, "after_ms")
		// what else happens on the link: bytes that are no frame and a frame with a wrong checksum before the
		// heartbeats within the 30 s; and the heartbeat beyond 30 s may name another autopilot (the same ids, a
		// reflashed or replaced device): only an ArduPilot heartbeat may renew the requests
		noise := rapid.Bool().Draw(t, "rejected_input_on_the_link")
		jumpAP := rapid.SampledFrom([]int{3, 3, 12, 0, 8}).Draw(t, "autopilot_of_the_heartbeat_beyond_30s")
		desc := fmt.Sprintf("heartbeats at +%vms (within 30s, rejected input before them: %v), +%dms (autopilot %d), then +%vms after that", within, noise, jump, jumpAP, after)
		p := sim.NewPipe()
		n := &gomavlib.Node{Endpoints: []gomavlib.EndpointConf{gomavlib.EndpointCustom{ReadWriteCloser: p}}, Dialect: ardupilotmega.Dialect,
			OutVersion: gomavlib.V2, OutSystemID: nodeSys, HeartbeatDisable: true, StreamRequestEnable: true}
		if err := initNode(&n); err != nil {
			t.Fatalf("BROKEN: %v", err)
		}
		r := sim.StartRecorder(n, sim.Pacing{Kind: "fast"}, nil)
		defer func() {
			closeNode(n, bound) //nolint:errcheck
			r.WaitClosed(bound)
		}()
		seq := 0
		ap := 3
		hb := func() {
			f := ref.Frame{V2: true, Seq: byte(seq), Sys: 1, Comp: 1, ID: 0}
			seq++
			f.Payload = hbLay.Encode(&minimal.MessageHeartbeat{Type: 2, Autopilot: minimal.MAV_AUTOPILOT(ap), SystemStatus: 4, MavlinkVersion: 3}, true)
			f.Checksum = f.ChecksumFor(50)
			frames := 0
			for _, e := range r.Snapshot() {
				if _, ok := e.Ev.(*gomavlib.EventFrame); ok {
					frames++
				}
			}
			p.Feed(f.Bytes())
			r.WaitFor(bound, func(recs []sim.Rec) bool {
				k := 0
				for _, e := range recs {
					if _, ok := e.Ev.(*gomavlib.EventFrame); ok {
						k++
					}
				}
				return k > frames
			})
			time.Sleep(2 * time.Millisecond) // requests are written after the frame event was queued
		}
		counts := func() (int, int) {
			evs := 0
			for _, e := range r.Snapshot() {
				if _, ok := e.Ev.(*gomavlib.EventStreamRequested); ok {
					evs++
				}
			}
			return p.NumWrites(), evs
		}
		hb()
		if !p.WaitWrites(7, bound) {
			t.Fatalf("%s: first ArduPilot heartbeat did not trigger seven requests", desc)
		}
		waitEvents := func(n int) {
			r.WaitFor(bound, func(recs []sim.Rec) bool {
				k := 0
				for _, e := range recs {
					if _, ok := e.Ev.(*gomavlib.EventStreamRequested); ok {
						k++
					}
				}
				return k >= n
			})
		}
		waitEvents(1) // the event follows the requests; on a busy machine not within any fixed delay
		time.Sleep(2 * time.Millisecond)
		if w, e := counts(); w != 7 || e != 1 {
			t.Fatalf("%s: first contact: %d requests, %d events", desc, w, e)
		}
		if noise {
			bad := ref.Frame{V2: true, Seq: 200, Sys: 1, Comp: 1, ID: 0}
			bad.Payload = hbLay.Encode(&minimal.MessageHeartbeat{Type: 2, Autopilot: 3, SystemStatus: 4, MavlinkVersion: 3}, true)
			bad.Checksum = bad.ChecksumFor(50) ^ 0x0101
			p.Feed(append([]byte{0x55, 0x03}, bad.Bytes()...))
			r.WaitFor(bound, func(recs []sim.Rec) bool {
				k := 0
				for _, e := range recs {
					if _, ok := e.Ev.(*gomavlib.EventParseError); ok {
						k++
					}
				}
				return k >= 3
			})
		}
		for _, ms := range within {
			atomic.StoreInt64(&offset, int64(time.Duration(ms)*time.Millisecond))
			hb()
			if w, e := counts(); w != 7 || e != 1 {
				t.Fatalf("%s: heartbeat %d ms after the requests triggered more: %d requests, %d events (not to be repeated within 30 s)", desc, ms, w, e)
			}
		}
		atomic.StoreInt64(&offset, int64(time.Duration(jump)*time.Millisecond))
		ap = jumpAP
		hb()
		ap = 3
		if jumpAP != 3 {
			p.WaitWrites(8, 100*time.Millisecond)
			time.Sleep(2 * time.Millisecond)
			if w, e := counts(); w != 7 || e != 1 {
				evid.ReplayNote("C16", "TestC16RepeatInterval", fmt.Sprintf("%s: %d requests, %d events after the heartbeat of autopilot %d", desc, w, e, jumpAP))
				t.Fatalf("%s: a heartbeat naming autopilot %d (not ArduPilot) from ids that were served as ArduPilot %d ms earlier triggered requests: %d requests, %d events in all (heartbeats of other autopilots trigger nothing)", desc, jumpAP, jump, w, e)
			}
			rec.Class("heartbeat-of-another-autopilot-from-served-ids-beyond-30s", 1)
			// an ArduPilot heartbeat right after it may renew (the last requests are more than 30 s old), once
			atomic.StoreInt64(&offset, int64(time.Duration(jump+1)*time.Millisecond))
			hb()
		}
		p.WaitWrites(8, 100*time.Millisecond)
		if p.NumWrites() > 7 { // a second set has begun: let it complete before counting
			p.WaitWrites(14, bound)
			waitEvents(2)
		}
		time.Sleep(2 * time.Millisecond)
		w1, e1 := counts()
		if !((w1 == 7 && e1 == 1) || (w1 == 14 && e1 == 2)) {
			t.Fatalf("%s: after %d ms: %d requests, %d events (expected nothing more or exactly one more set)", desc, jump, w1, e1)
		}
		for _, ms := range after {
			atomic.StoreInt64(&offset, int64(time.Duration(jump+ms)*time.Millisecond))
			hb()
			if w, e := counts(); w != w1 || e != e1 {
				evid.ReplayNote("C16", "TestC16RepeatInterval", fmt.Sprintf("%s: %d -> %d requests", desc, w1, w))
				t.Fatalf("%s: a heartbeat %d ms after the last requests triggered them again: %d -> %d requests, %d -> %d events (not to be repeated within 30 s)", desc, ms, w1, w, e1, e)
			}
		}
		if noise {
			rec.Class("rejected-input-between-served-sender's-heartbeats", 1)
		}
		rec.Case(true, evid.HashS(desc), "jump-beyond-30s-then-heartbeats")
		rec.Sample("interval", desc)
	})
}
