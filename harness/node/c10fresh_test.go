package node

import (
	"errors"
	"fmt"
	"io"
	"net"
	"testing"
	"time"

	gomavlib "github.com/bluenviron/gomavlib/v3"
	"github.com/bluenviron/gomavlib/v3/pkg/dialects/ardupilotmega"
	"pgregory.net/rapid"

	"verifharness/evid"
	"verifharness/sim"
)

// TestC10ChannelsThatComeBack: the open/close bracket is per channel. An endpoint that serves one connection at a
// time (custom transport here) loses its connection 1..4 times and gets it back; every connection is a channel of
// its own: one open event first, its frames (exactly those fed while it lived, in order), one close event, nothing
// afterwards - and never the channel value of an earlier connection again.
func TestC10ChannelsThatComeBack(t *testing.T) {
	rec := evid.New(t, "C10", "a custom transport that fails 1..4 times (one read error each, alone or together with the last bytes) and is handed out again, 0..8 tagged frames per life and a last life that ends with the node's Close; per channel value: exactly one open event before anything else, the frames of that life in order, one close event, nothing after it; the lives' channel values are pairwise distinct; non-trivial = at least two lives with frames; distinct by hash of the parameters")
	rec.Require("three-or-more-lives", "error-together-with-the-last-bytes")
	evid.Check(t, rec, evid.N(150, 600), func(t *rapid.T) {
		drawNodeInit(t)
		lives := rapid.IntRange(2, 5).Draw(t, "lives")
		frames := make([]int, lives)
		withData := make([]bool, lives)
		for i := range frames {
			frames[i] = rapid.IntRange(0, 8).Draw(t, "frames")
			withData[i] = rapid.Bool().Draw(t, "error_with_last_bytes")
		}
		desc := fmt.Sprintf("lives=%d frames=%v errorWithLastBytes=%v", lives, frames, withData)
		p := sim.NewPipe()
		n := &gomavlib.Node{Endpoints: []gomavlib.EndpointConf{gomavlib.EndpointCustom{ReadWriteCloser: p}}, Dialect: ardupilotmega.Dialect,
			OutVersion: gomavlib.V2, OutSystemID: nodeSys, HeartbeatDisable: true}
		if err := initNode(&n); err != nil {
			t.Fatalf("BROKEN: %v", err)
		}
		r := sim.StartRecorder(n, sim.Pacing{Kind: "fast"}, nil)
		closed := false
		defer func() {
			if !closed {
				closeNode(n, bound) //nolint:errcheck
				r.WaitClosed(bound)
			}
		}()
		fail := func(format string, a ...interface{}) {
			msg := desc + "\n" + fmt.Sprintf(format, a...) + "\nevents:" + renderLife(lifecycle(r.Snapshot()))
			evid.ReplayNote("C10", "TestC10ChannelsThatComeBack", msg)
			t.Fatalf("%s", msg)
		}
		counter := 0
		var cls []string
		for li := 0; li < lives; li++ {
			if !r.WaitFor(bound, func(recs []sim.Rec) bool {
				k := 0
				for _, e := range lifecycle(recs) {
					if e.open {
						k++
					}
				}
				return k >= li+1
			}) {
				fail("life %d: no channel on the custom transport", li)
			}
			if !waitReaderParked(p) {
				t.Fatalf("BROKEN: reader not reading")
			}
			var all []byte
			for k := 0; k < frames[li]; k++ {
				all = append(all, tagged(1, counter, "debug", true, nil, 0).Bytes()...)
				counter++
			}
			if li == lives-1 {
				if len(all) > 0 {
					p.Feed(all)
				}
				break
			}
			injected := errors.New("injected custom transport failure")
			if li%2 == 1 {
				injected = io.ErrUnexpectedEOF
			}
			if withData[li] && len(all) > 0 {
				p.FeedWithError(all, injected)
				cls = append(cls, "error-together-with-the-last-bytes")
			} else {
				if len(all) > 0 {
					p.Feed(all)
					p.WaitDrained(bound)
				}
				p.FailNextRead(injected)
			}
			if !r.WaitFor(bound, func(recs []sim.Rec) bool {
				k := 0
				for _, e := range lifecycle(recs) {
					if !e.open {
						k++
					}
				}
				return k >= li+1
			}) {
				fail("life %d: the transport's Read failed but no close event within %v", li, bound)
			}
		}
		// the last life's frames surface, then the node is closed
		if !r.WaitFor(bound, func(recs []sim.Rec) bool {
			k := 0
			for _, e := range recs {
				if _, ok := e.Ev.(*gomavlib.EventFrame); ok {
					k++
				}
			}
			return k >= counter
		}) {
			fail("%d frames were fed, fewer frame events arrived within %v", counter, bound)
		}
		closeNode(n, bound) //nolint:errcheck
		r.WaitClosed(bound)
		closed = true
		recs := r.Snapshot()
		if err := checkBrackets(recs); err != nil {
			fail("%v", err)
		}
		// attribution: the k-th channel value carries exactly the frames of the k-th life, in order
		var order []*gomavlib.Channel
		got := map[*gomavlib.Channel][]int{}
		for _, e := range recs {
			switch ev := e.Ev.(type) {
			case *gomavlib.EventChannelOpen:
				order = append(order, ev.Channel)
			case *gomavlib.EventFrame:
				_, idx, ok := identify(ev.Frame)
				if !ok {
					fail("a frame event with content that was never fed")
				}
				got[ev.Channel] = append(got[ev.Channel], idx)
			}
		}
		if len(order) != lives {
			fail("%d lives of the transport, %d channels opened", lives, len(order))
		}
		next := 0
		withFrames := 0
		for li, ch := range order {
			var want []int
			for k := 0; k < frames[li]; k++ {
				want = append(want, next)
				next++
			}
			if fmt.Sprint(got[ch]) != fmt.Sprint(want) {
				fail("life %d: its channel delivered the frames %v, the transport was fed %v while it lived", li, got[ch], want)
			}
			if frames[li] > 0 {
				withFrames++
			}
		}
		if lives >= 3 {
			cls = append(cls, "three-or-more-lives")
		}
		rec.Case(withFrames >= 2, evid.HashS(desc), dedupStr(cls)...)
		if withFrames >= 2 && rec.WantSample("lives") {
			rec.Sample("lives", desc)
		}
	})
}

// TestC10BroadcastEndpointHearsEveryone: a broadcast endpoint is one channel for everybody on the segment. Frames
// reach it from other programs on the same host (same address, other ports) and from another address; each valid
// frame is one frame event on that channel, per sender in the order sent, whoever sent it.
func TestC10BroadcastEndpointHearsEveryone(t *testing.T) {
	broadcastHearsEveryone(t, "C10", "TestC10BroadcastEndpointHearsEveryone")
}

// TestC02BroadcastEndpointDeliversEveryWellFormedFrame: the checksum gate is the only gate - a well-formed frame with
// the right checksum is delivered whoever sent it, also on a broadcast endpoint and also when the sender is a station
// configured with the same system and component id as the node.
func TestC02BroadcastEndpointDeliversEveryWellFormedFrame(t *testing.T) {
	broadcastHearsEveryone(t, "C02", "TestC02BroadcastEndpointDeliversEveryWellFormedFrame")
}

func broadcastHearsEveryone(t *testing.T, pid, testName string) {
	rec := evid.New(t, pid, "an EndpointUDPBroadcast bound to 127.0.0.1:port (or :port) receives 5..40 tagged frames each from 2..4 senders: UDP sockets on 127.0.0.1 (the endpoint's own address, other ports) and on 127.0.0.2, the first of them a station that uses the node's own system and component id, sending in generated interleavings; one open event, then exactly one frame event per frame on that one channel, per sender in the order sent, none lost; non-trivial = a sender on the endpoint's own address; distinct by hash of the parameters")
	rec.Require("sender-on-the-endpoint's-own-address")
	evid.Check(t, rec, evid.N(40, 200), func(t *rapid.T) {
		drawNodeInit(t)
		ns := rapid.IntRange(2, 4).Draw(t, "senders")
		per := rapid.IntRange(5, 40).Draw(t, "frames_per_sender")
		anyAddr := rapid.Bool().Draw(t, "endpoint_bound_to_all_addresses")
		desc := fmt.Sprintf("senders=%d framesPerSender=%d endpointBoundToAllAddresses=%v", ns, per, anyAddr)
		port := sim.FreePort()
		local := sim.Addr(port)
		if anyAddr {
			local = fmt.Sprintf(":%d", port)
		}
		n := &gomavlib.Node{Endpoints: []gomavlib.EndpointConf{gomavlib.EndpointUDPBroadcast{BroadcastAddress: fmt.Sprintf("127.255.255.255:%d", sim.FreePort()), LocalAddress: local}},
			Dialect: ardupilotmega.Dialect, OutVersion: gomavlib.V2, OutSystemID: nodeSys, OutComponentID: nodeComp, HeartbeatDisable: true}
		if rapid.Bool().Draw(t, "component_id_left_at_its_default") {
			n.OutComponentID = 0 // the node then sends as component 1
		}
		ownComp := byte(nodeComp)
		if n.OutComponentID == 0 {
			ownComp = 1
		}
		if err := initNode(&n); err != nil {
			t.Fatalf("BROKEN: %v", err)
		}
		r := sim.StartRecorder(n, sim.Pacing{Kind: "fast"}, nil)
		defer func() {
			closeNode(n, bound) //nolint:errcheck
			r.WaitClosed(bound)
		}()
		fail := func(format string, a ...interface{}) {
			msg := desc + "\n" + fmt.Sprintf(format, a...)
			evid.ReplayNote(pid, testName, msg)
			t.Fatalf("%s", msg)
		}
		var socks []net.PacketConn
		defer func() {
			for _, s := range socks {
				s.Close()
			}
		}()
		dst, _ := net.ResolveUDPAddr("udp4", sim.Addr(port))
		for i := 0; i < ns; i++ {
			ip := "127.0.0.1"
			if i == ns-1 && ns > 2 {
				ip = "127.0.0.2"
			}
			pc, err := net.ListenPacket("udp4", ip+":0")
			if err != nil {
				t.Fatalf("BROKEN: sender socket on %s: %v", ip, err)
			}
			socks = append(socks, pc)
		}
		sent := make([]int, ns)
		total := ns * per
		for k := 0; k < total; k++ {
			i := rapid.IntRange(0, ns-1).Draw(t, "next_sender")
			for sent[i] >= per {
				i = (i + 1) % ns
			}
			f := tagged(byte(i+1), sent[i], "debug", true, nil, 0)
			if i == 0 {
				// another station with the ids this node sends under
				f.Sys, f.Comp = nodeSys, ownComp
				f.Checksum = f.ChecksumFor(lay(debugMsgID).CRCExtra)
			}
			if _, err := socks[i].WriteTo(f.Bytes(), dst); err != nil {
				t.Fatalf("BROKEN: send: %v", err)
			}
			sent[i]++
			if k%8 == 7 {
				// loopback datagrams are not lost as long as the receiver's socket buffer has room: stay below it
				r.WaitFor(bound, func(recs []sim.Rec) bool {
					c := 0
					for _, e := range recs {
						if _, ok := e.Ev.(*gomavlib.EventFrame); ok {
							c++
						}
					}
					return c >= k-16
				})
			}
		}
		r.WaitFor(3*time.Second, func(recs []sim.Rec) bool {
			c := 0
			for _, e := range recs {
				if _, ok := e.Ev.(*gomavlib.EventFrame); ok {
					c++
				}
			}
			return c >= total
		})
		recs := r.Snapshot()
		if err := checkBrackets(recs); err != nil {
			fail("%v", err)
		}
		got := make([][]int, ns)
		var chans []*gomavlib.Channel
		for _, e := range recs {
			switch ev := e.Ev.(type) {
			case *gomavlib.EventChannelOpen:
				chans = append(chans, ev.Channel)
			case *gomavlib.EventFrame:
				tag, idx, ok := identify(ev.Frame)
				if !ok || int(tag) < 1 || int(tag) > ns {
					fail("a frame event with content nobody sent")
				}
				got[tag-1] = append(got[tag-1], idx)
			case *gomavlib.EventParseError:
				fail("parse error although only valid frames were sent: %v", ev.Error)
			}
		}
		if len(chans) != 1 {
			fail("%d channels opened on one broadcast endpoint", len(chans))
		}
		for i := range got {
			var want []int
			for k := 0; k < per; k++ {
				want = append(want, k)
			}
			if fmt.Sprint(got[i]) != fmt.Sprint(want) {
				fail("sender %d (%s) sent the frames 0..%d to the endpoint; frame events arrived for %v", i, socks[i].LocalAddr(), per-1, got[i])
			}
		}
		rec.Case(true, evid.HashS(desc+fmt.Sprint(sent)), "sender-on-the-endpoint's-own-address")
		if rec.WantSample("broadcast") {
			rec.Sample("broadcast", desc)
		}
	})
}
