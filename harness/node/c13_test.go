package node

import (
	"errors"
	"fmt"
	"io"
	"net"
	"os"
	"strings"
	"syscall"
	"testing"
	"time"

	gomavlib "github.com/bluenviron/gomavlib/v3"
	"github.com/bluenviron/gomavlib/v3/pkg/dialects/ardupilotmega"
	"github.com/bluenviron/gomavlib/v3/pkg/dialects/common"
	"github.com/bluenviron/gomavlib/v3/pkg/dialects/minimal"
	"github.com/bluenviron/gomavlib/v3/pkg/frame"
	"github.com/bluenviron/gomavlib/v3/pkg/message"
	"pgregory.net/rapid"

	"verifharness/evid"
	"verifharness/ref"
	"verifharness/sim"
)

// counters decodes the DEBUG counters seen on a pipe, in wire order.
func counters(p *sim.Pipe) ([]int, error) {
	var out []int
	for k, b := range p.Writes() {
		f, n, err := ref.Parse(b)
		if err != nil || n != len(b) {
			return nil, fmt.Errorf("write %d is not one whole frame: %x", k, b)
		}
		if f.ID != debugMsgID {
			continue
		}
		v, derr := lay(debugMsgID).Decode(f.Payload, f.V2)
		if derr != nil {
			return nil, derr
		}
		out = append(out, int(v.(*common.MessageDebug).TimeBootMs))
	}
	return out, nil
}

func openCustom(n *gomavlib.Node, rec *sim.Recorder, pipes []*sim.Pipe) ([]*gomavlib.Channel, bool) {
	chans := make([]*gomavlib.Channel, len(pipes))
	ok := rec.WaitFor(bound, func(recs []sim.Rec) bool {
		k := 0
		for _, r := range recs {
			if o, ok := r.Ev.(*gomavlib.EventChannelOpen); ok {
				for i, p := range pipes {
					if isPipeChannel(o.Channel, p) {
						chans[i] = o.Channel
					}
				}
			}
		}
		for _, c := range chans {
			if c != nil {
				k++
			}
		}
		return k == len(pipes)
	})
	return chans, ok
}

func TestC13Stall(t *testing.T) {
	rec := evid.New(t, "C13", "2..4 channels on custom transports; one transport stops accepting writes (gate) after a warm-up, 70..300 tagged items are written to all channels while it is blocked (more than the 64-item queue), then the gate opens and more items follow; oracles: every Write call returns promptly, every other channel receives every item in order while the victim is blocked and their incoming frame events keep flowing, the victim's stream is an order-preserving duplicate-free subsequence, nothing submitted before or after the blocked interval is missing, at most queue+1 items of the blocked interval are delivered late; non-trivial = more than 64 items submitted during the block; distinct by hash of the parameters")
	rec.Require("blocked>64", "incoming-during-block", "writes-mixed", "writes-heartbeats", "writes-mixed+heartbeats", "stall-longer-than-the-node's-write-timeout")
	evid.Check(t, rec, evid.N(120, 400), func(t *rapid.T) {
		drawNodeInit(t)
		nch := rapid.IntRange(2, 4).Draw(t, "nch")
		victim := rapid.IntRange(0, nch-1).Draw(t, "victim")
		n1 := rapid.IntRange(0, 40).Draw(t, "warmup")
		n2 := rapid.IntRange(70, 300).Draw(t, "during_block")
		n3 := rapid.IntRange(1, 40).Draw(t, "after")
		incoming := rapid.IntRange(0, 20).Draw(t, "incoming")
		mode := rapid.SampledFrom([]string{"messages", "frames", "mixed", "mixed", "heartbeats", "mixed+heartbeats"}).Draw(t, "mode")
		c13WriteTimeout = time.Duration(rapid.SampledFrom([]int{0, 0, 40, 120}).Draw(t, "node_write_timeout_ms")) * time.Millisecond
		desc := fmt.Sprintf("channels=%d victim=%d warmup=%d blocked=%d after=%d incoming=%d writes=%s nodeWriteTimeout=%v", nch, victim, n1, n2, n3, incoming, mode, c13WriteTimeout)
		if err := watchdog(scenarioLimit, func() error { return runC13Stall(nch, victim, n1, n2, n3, incoming, mode) }); err != nil {
			evid.ReplayNote("C13", "TestC13Stall", desc+"\n"+err.Error())
			t.Fatalf("%s\n%v", desc, err)
		}
		cls := []string{"blocked>64", "writes-" + mode}
		if c13WriteTimeout > 0 {
			cls = append(cls, "stall-longer-than-the-node's-write-timeout")
		}
		if incoming > 0 {
			cls = append(cls, "incoming-during-block")
		}
		rec.Case(true, evid.HashS(desc), cls...)
		rec.Sample("stall", desc)
	})
}

// c13WriteTimeout is the node's write timeout in runC13Stall (0: default); with a short one the stall outlasts it.
var c13WriteTimeout time.Duration

func runC13Stall(nch, victim, n1, n2, n3, incoming int, mode string) error {
	pipes := make([]*sim.Pipe, nch)
	var endpoints []gomavlib.EndpointConf
	for i := range pipes {
		pipes[i] = sim.NewPipe()
		endpoints = append(endpoints, gomavlib.EndpointCustom{ReadWriteCloser: pipes[i]})
	}
	n := &gomavlib.Node{Endpoints: endpoints, Dialect: ardupilotmega.Dialect, OutVersion: gomavlib.V2, OutSystemID: nodeSys, HeartbeatDisable: true,
		StreamRequestEnable: true, WriteTimeout: c13WriteTimeout}
	if err := initNode(&n); err != nil {
		return fmt.Errorf("BROKEN: %v", err)
	}
	rec := sim.StartRecorder(n, sim.Pacing{Kind: "fast"}, nil)
	defer func() {
		pipes[victim].UnblockWrites()
		closeNode(n, bound) //nolint:errcheck
		rec.WaitClosed(bound)
	}()
	stallChans, ok := openCustom(n, rec, pipes)
	if !ok {
		return fmt.Errorf("BROKEN: channels did not open")
	}
	counter := 0
	write := func() error {
		c := counter
		counter++
		done := make(chan error, 1)
		go func() {
			if mode == "heartbeats" || (mode == "mixed+heartbeats" && c%2 == 0) {
				// the application announces itself on its own: heartbeats are items like all others
				done <- n.WriteMessageAll(&common.MessageHeartbeat{Type: 6, Autopilot: 8, CustomMode: uint32(c), SystemStatus: 4, MavlinkVersion: 3})
			} else if mode == "frames" || (mode == "mixed" && c%3 != 0) {
				fr, _ := fwdFrameCounter(c)
				done <- n.WriteFrameAll(fr)
			} else {
				done <- n.WriteMessageAll(&common.MessageDebug{TimeBootMs: uint32(c), Ind: 1})
			}
		}()
		select {
		case err := <-done:
			if err != nil {
				return fmt.Errorf("write %d returned %v", c, err)
			}
			return nil
		case <-time.After(bound / 2):
			return fmt.Errorf("write %d did not return within %v while channel %d is blocked: the stalled channel stalls the node (its backlog is not bounded / not dropping)", c, bound/2, victim)
		}
	}
	others := func(f func(i int, p *sim.Pipe) error) error {
		for i, p := range pipes {
			if i != victim {
				if err := f(i, p); err != nil {
					return err
				}
			}
		}
		return nil
	}
	// phase 1: warm-up with flow control
	for k := 0; k < n1; k++ {
		if err := write(); err != nil {
			return err
		}
		for _, p := range pipes {
			if !p.WaitWrites(counter-20, bound) {
				return fmt.Errorf("warm-up item not delivered within %v", bound)
			}
		}
	}
	for i, p := range pipes {
		if !p.WaitWrites(n1, bound) {
			return fmt.Errorf("channel %d: warm-up items missing", i)
		}
	}
	// phase 2: victim blocked
	pipes[victim].BlockWrites()
	frameEventsBefore := 0
	for _, r := range rec.Snapshot() {
		if _, ok := r.Ev.(*gomavlib.EventFrame); ok {
			frameEventsBefore++
		}
	}
	fed := 0
	for k := 0; k < n2; k++ {
		if err := write(); err != nil {
			return err
		}
		if fed < incoming && k%3 == 0 {
			src := (victim + 1 + fed) % len(pipes)
			if src == victim {
				src = (src + 1) % len(pipes)
			}
			pipes[src].Feed(tagged(byte(src+1), fed, "debug", true, nil, 0).Bytes())
			fed++
		}
		// flow control on the healthy channels only
		if err := others(func(i int, p *sim.Pipe) error {
			if !p.WaitWrites(counter-20, bound) {
				return fmt.Errorf("channel %d stopped receiving while channel %d is blocked (has %d of %d)", i, victim, p.NumWrites(), counter)
			}
			return nil
		}); err != nil {
			return err
		}
	}
	if err := others(func(i int, p *sim.Pipe) error {
		if !p.WaitWrites(n1+n2, bound) {
			return fmt.Errorf("channel %d received %d of %d items while channel %d was blocked", i, p.NumWrites(), n1+n2, victim)
		}
		return nil
	}); err != nil {
		return err
	}
	if fed > 0 && !rec.WaitFor(bound, func(recs []sim.Rec) bool {
		k := 0
		for _, r := range recs {
			if _, ok := r.Ev.(*gomavlib.EventFrame); ok {
				k++
			}
		}
		return k >= frameEventsBefore+fed
	}) {
		return fmt.Errorf("incoming frames on healthy channels did not surface as events while channel %d was blocked", victim)
	}
	if got := pipes[victim].NumWrites(); got != n1 {
		return fmt.Errorf("BROKEN: victim accepted writes while gated (%d vs %d)", got, n1)
	}
	// the blocked channel's own read side is healthy: what arrives on it (an ArduPilot heartbeat that makes the node
	// want to answer on this very channel, and two other frames) must surface as events although its backlog is full
	{
		before := 0
		for _, r := range rec.Snapshot() {
			if _, ok := r.Ev.(*gomavlib.EventFrame); ok {
				before++
			}
		}
		hbl := lay(0)
		hb := ref.Frame{V2: true, Seq: 1, Sys: 77, Comp: byte(1 + n2%200), ID: 0}
		hb.Payload = hbl.Encode(&minimal.MessageHeartbeat{Type: 2, Autopilot: 3, SystemStatus: 4, MavlinkVersion: 3}, true)
		hb.Checksum = hb.ChecksumFor(hbl.CRCExtra)
		pipes[victim].Feed(tagged(byte(victim+1), 9000, "debug", true, nil, 0).Bytes())
		pipes[victim].Feed(hb.Bytes())
		pipes[victim].Feed(tagged(byte(victim+1), 9001, "debug", true, nil, 0).Bytes())
		if !rec.WaitFor(bound, func(recs []sim.Rec) bool {
			k := 0
			for _, r := range recs {
				if _, ok := r.Ev.(*gomavlib.EventFrame); ok {
					k++
				}
			}
			return k >= before+3
		}) {
			return fmt.Errorf("three frames arrived on channel %d (one of them an ArduPilot heartbeat, stream requests enabled) while its transport accepts no writes and its backlog is full: their events did not surface within %v; a channel that cannot write must not hold back event delivery", victim, bound)
		}
	}
	// phase 3: unblock, let the backlog drain, then write more with flow control
	if c13WriteTimeout > 0 {
		time.Sleep(2*c13WriteTimeout + 20*time.Millisecond) // the stall outlasts the node's write timeout: the backlog is still the backlog
	}
	pipes[victim].UnblockWrites()
	// the backlog has drained exactly when a marker queued behind it is on the wire (first-in first-out); a
	// marker is dropped like anything else while the queue is still full, so it is repeated until one arrives.
	// (A write counter that stands still for a few milliseconds says nothing on a busy machine.)
	drained := false
	for try := 0; try < 80 && !drained; try++ {
		if err := n.WriteMessageTo(stallChans[victim], &common.MessageSystemTime{TimeUnixUsec: uint64(try) + 1}); err != nil {
			return fmt.Errorf("BROKEN: marker write: %v", err)
		}
		until := time.Now().Add(250 * time.Millisecond)
		for !drained && time.Now().Before(until) {
			ws := pipes[victim].Writes()
			for k := len(ws) - 1; k >= n1 && !drained; k-- {
				if f, _, err := ref.Parse(ws[k]); err == nil && f.ID == 2 {
					if v, derr := lay(2).Decode(f.Payload, f.V2); derr == nil {
						drained = v.(*common.MessageSystemTime).TimeUnixUsec == uint64(try)+1
					}
				}
			}
			if !drained {
				time.Sleep(time.Millisecond)
			}
		}
	}
	if !drained {
		return fmt.Errorf("channel %d: after its transport accepted writes again nothing written to it reached the wire for %v", victim, 80*250*time.Millisecond)
	}
	late := pipes[victim].NumWrites() - n1
	base3 := counter
	for k := 0; k < n3; k++ {
		if err := write(); err != nil {
			return err
		}
		for _, p := range pipes {
			_ = p
		}
		if !pipes[victim].WaitWrites(n1+late+k+1, bound) {
			return fmt.Errorf("after the gate reopened, item %d was not delivered on the formerly blocked channel within %v", counter-1, bound)
		}
	}
	if err := others(func(i int, p *sim.Pipe) error {
		if !p.WaitWrites(n1+n2+n3, bound) {
			return fmt.Errorf("channel %d: final items missing", i)
		}
		return nil
	}); err != nil {
		return err
	}
	// verify streams
	for i, p := range pipes {
		cs, err := allCounters(p)
		if err != nil {
			return fmt.Errorf("channel %d: %v", i, err)
		}
		for k := 1; k < len(cs); k++ {
			if cs[k] <= cs[k-1] {
				return fmt.Errorf("channel %d: order not preserved / duplicate: %d after %d", i, cs[k], cs[k-1])
			}
		}
		if i != victim {
			if len(cs) != n1+n2+n3 {
				return fmt.Errorf("channel %d: %d items, want %d", i, len(cs), n1+n2+n3)
			}
			continue
		}
		have := map[int]bool{}
		for _, c := range cs {
			have[c] = true
		}
		for c := 0; c < n1; c++ {
			if !have[c] {
				return fmt.Errorf("blocked channel lost item %d submitted before the block", c)
			}
		}
		for c := base3; c < base3+n3; c++ {
			if !have[c] {
				return fmt.Errorf("blocked channel lost item %d submitted after the block ended and the backlog drained", c)
			}
		}
		lateN := 0
		for c := n1; c < n1+n2; c++ {
			if have[c] {
				lateN++
			}
		}
		if lateN > 64+1 {
			return fmt.Errorf("blocked channel delivered %d items of the blocked interval late: backlog is not bounded by the 64-item queue (+1 in flight)", lateN)
		}
		// ... and what was within the bound is kept: the first 64 items submitted while the link was blocked had a
		// place in the backlog (the healthy links took each item before the next was written, so the victim's
		// writer had all the time to pick up the first one)
		for c := n1; c < n1+64 && c < n1+n2; c++ {
			if !have[c] {
				return fmt.Errorf("blocked channel: item %d, the %d-th submitted while the link was blocked (write timeout of the node: %v, 0 = default), never came out after the link recovered although the backlog had room for it; %d items of the blocked interval were delivered", c, c-n1+1, c13WriteTimeout, lateN)
			}
		}
	}
	return nil
}

// fwdFrameCounter builds a forwarded frame carrying a counter.
func fwdFrameCounter(c int) (frame.Frame, int) {
	f := tagged(1, c, "raw", true, nil, 0)
	return genToLib(f), c
}

func genToLib(f ref.Frame) frame.Frame {
	msg := &message.MessageRaw{ID: f.ID, Payload: f.Payload}
	if !f.V2 {
		return &frame.V1Frame{SequenceNumber: f.Seq, SystemID: f.Sys, ComponentID: f.Comp, Message: msg, Checksum: f.Checksum}
	}
	return &frame.V2Frame{IncompatibilityFlag: f.Incompat, CompatibilityFlag: f.Compat, SequenceNumber: f.Seq, SystemID: f.Sys,
		ComponentID: f.Comp, Message: msg, Checksum: f.Checksum}
}

// rawCounters / frameCounters decode the counters of tagged raw frames seen on a pipe.
func rawCounters(p *sim.Pipe) ([]int, error) {
	var out []int
	for k, b := range p.Writes() {
		f, n, err := ref.Parse(b)
		if err != nil || n != len(b) {
			return nil, fmt.Errorf("write %d is not one whole frame: %x", k, b)
		}
		if _, idx, ok := identifyFlat(f); ok {
			out = append(out, idx)
		}
	}
	return out, nil
}

func frameCounters(p *sim.Pipe) ([]int, error) { return rawCounters(p) }

var errInjectedWrite = errors.New("injected transport write error")

// injectedWriteError varies the kind of error a transport write fails with: a plain error, a timeout (what a write
// deadline produces), a broken pipe, a short write, the "closed" family, a reset, an end-of-file.
func injectedWriteError(k int) error {
	switch k % 9 {
	case 4: // what a transport reports that considers itself closed while its read side still blocks
		return &net.OpError{Op: "write", Net: "tcp", Err: net.ErrClosed}
	case 5:
		return os.ErrClosed
	case 6:
		return io.ErrClosedPipe
	case 7:
		return &net.OpError{Op: "write", Net: "tcp", Err: syscall.ECONNRESET}
	case 8:
		return io.EOF
	case 1:
		return &net.OpError{Op: "write", Net: "tcp", Err: os.ErrDeadlineExceeded}
	case 2:
		return &net.OpError{Op: "write", Net: "tcp", Err: syscall.EPIPE}
	case 3:
		return io.ErrShortWrite
	}
	return errInjectedWrite
}

func TestC13WriteFailure(t *testing.T) {
	rec := evid.New(t, "C13", "2..4 channels; after a warm-up a write fails on one channel - the transport returns an error at a generated call, or an item that cannot be encoded for the link is written (raw message with an id outside the dialect, raw message on a dialect-less node, message id > 255 on a v1 node) at a generated position - then valid items follow; within the bound each affected channel must either be reported closed or deliver a later valid item; healthy channels keep receiving everything; non-trivial = later valid writes follow the failure; distinct by hash of the parameters")
	rec.Require("transport-error", "raw-outside-dialect", "id>255-on-v1", "raw-on-dialectless", "more-failures-than-queue-places")
	evid.Check(t, rec, evid.N(200, 600), func(t *rapid.T) {
		drawNodeInit(t)
		nch := rapid.IntRange(2, 4).Draw(t, "nch")
		kind := rapid.SampledFrom([]string{"transport-error", "transport-error", "raw-outside-dialect", "id>255-on-v1", "raw-on-dialectless"}).Draw(t, "kind")
		victim := rapid.IntRange(0, nch-1).Draw(t, "victim")
		before := rapid.IntRange(0, 12).Draw(t, "before")
		after := rapid.IntRange(1, 30).Draw(t, "after")
		// a few failures, or more of them than the channel's queue has places
		repeat := rapid.OneOf(rapid.IntRange(1, 3), rapid.IntRange(1, 3), rapid.IntRange(65, 90)).Draw(t, "repeat")
		desc := fmt.Sprintf("channels=%d kind=%s victim=%d before=%d after=%d faults=%d", nch, kind, victim, before, after, repeat)
		if err := watchdog(scenarioLimit, func() error { return runC13Failure(nch, kind, victim, before, after, repeat) }); err != nil {
			evid.ReplayNote("C13", "TestC13WriteFailure", desc+"\n"+err.Error())
			t.Fatalf("%s\n%v", desc, err)
		}
		cls := []string{kind}
		if repeat > 64 {
			cls = append(cls, "more-failures-than-queue-places")
		}
		rec.Case(true, evid.HashS(desc), cls...)
		rec.Sample(kind, desc)
	})
}

func runC13Failure(nch int, kind string, victim, before, after, repeat int) error {
	pipes := make([]*sim.Pipe, nch)
	var endpoints []gomavlib.EndpointConf
	for i := range pipes {
		pipes[i] = sim.NewPipe()
		endpoints = append(endpoints, gomavlib.EndpointCustom{ReadWriteCloser: pipes[i]})
	}
	n := &gomavlib.Node{Endpoints: endpoints, Dialect: ardupilotmega.Dialect, OutVersion: gomavlib.V2, OutSystemID: nodeSys, HeartbeatDisable: true}
	if kind == "id>255-on-v1" {
		n.OutVersion = gomavlib.V1
	}
	if kind == "raw-on-dialectless" {
		n.Dialect = nil
	}
	if err := initNode(&n); err != nil {
		return fmt.Errorf("BROKEN: %v", err)
	}
	rec := sim.StartRecorder(n, sim.Pacing{Kind: "fast"}, nil)
	defer func() {
		closeNode(n, bound) //nolint:errcheck
		rec.WaitClosed(bound)
	}()
	if _, ok := openCustom(n, rec, pipes); !ok {
		return fmt.Errorf("BROKEN: channels did not open")
	}
	v2 := n.OutVersion == gomavlib.V2
	counter := 0
	valid := func() error {
		var err error
		if n.Dialect == nil {
			// on a dialect-less node only frames with raw messages can be written
			f := tagged(1, counter, "raw", v2, nil, 0)
			err = n.WriteFrameAll(genToLib(f))
		} else {
			err = n.WriteMessageAll(&common.MessageDebug{TimeBootMs: uint32(counter), Ind: 1})
		}
		counter++
		return err
	}
	for k := 0; k < before; k++ {
		if err := valid(); err != nil {
			return fmt.Errorf("valid write refused: %v", err)
		}
	}
	for i, p := range pipes {
		if !p.WaitWrites(before, bound) {
			return fmt.Errorf("channel %d: warm-up items missing", i)
		}
	}
	affected := map[int]bool{}
	// in half of the scenarios the victim's transport is slow and the valid items follow without a pause, so that
	// items are queued behind the one that fails
	backlog := (before+after)%2 == 1
	if backlog {
		pipes[victim].SetWriteDelay(400 * time.Microsecond)
	}
	// never let the victim's backlog approach the queue bound: this scenario is about failures, not about overflow
	callsAtStart := pipes[victim].WriteCalls()
	issued := 0
	flow := func() error {
		if !pipes[victim].WaitWriteCalls(callsAtStart+issued-30, bound) {
			return fmt.Errorf("channel %d: its writer has made %d transport calls for %d items submitted since the failures began (within %v)", victim, pipes[victim].WriteCalls()-callsAtStart, issued, bound)
		}
		return nil
	}
	for r := 0; r < repeat; r++ {
		if kind == "transport-error" {
			issued++
			if err := flow(); err != nil {
				return err
			}
		}
		switch kind {
		case "transport-error":
			pipes[victim].FailNextWrite(injectedWriteError(r + before + after))
			affected[victim] = true
			if err := valid(); err != nil { // this one hits the failing call on the victim
				return fmt.Errorf("valid write refused: %v", err)
			}
		case "raw-outside-dialect":
			// ids the dialect does not have; every other one shares its low byte with DEBUG (254), the message the valid
			// items use: what was refused says nothing about other ids
			unknownID := uint32(999999)
			if r%2 == 0 {
				unknownID = 0x0100FE
			}
			if err := n.WriteMessageAll(&message.MessageRaw{ID: unknownID, Payload: []byte{1, 2, 3}}); err != nil {
				return nil // refused in the caller: nothing reached the channels, property not engaged
			}
			for i := range pipes {
				affected[i] = true
			}
		case "id>255-on-v1":
			if err := n.WriteMessageAll(&ardupilotmega.MessageDeviceOpRead{}); err != nil { // id 11000
				return nil
			}
			for i := range pipes {
				affected[i] = true
			}
		case "raw-on-dialectless":
			if err := n.WriteMessageAll(&message.MessageRaw{ID: 5, Payload: []byte{1, 2, 3}}); err != nil {
				return nil
			}
			for i := range pipes {
				affected[i] = true
			}
		}
		if repeat <= 3 {
			time.Sleep(time.Duration(r) * time.Millisecond)
		} else {
			time.Sleep(300 * time.Microsecond) // let the writer get rid of the item: this is not about a full queue
		}
	}
	firstAfter := counter
	marks := make([]int, nch)
	for i, p := range pipes {
		marks[i] = p.NumWrites()
	}
	_ = marks
	if repeat > 3 && kind != "transport-error" {
		// many items went through the queues in a short time; on a busy machine a writer may be behind. The valid items
		// that follow must not be lost to a full queue (that would be C13's other clause, not this one): give each
		// writer the time to catch up by feeding valid items slowly until something comes out or the channel is closed
		for try := 0; try < 200; try++ {
			behind := false
			for i, p := range pipes {
				closed := false
				for _, r := range rec.Snapshot() {
					if c, ok := r.Ev.(*gomavlib.EventChannelClose); ok && isPipeChannel(c.Channel, p) {
						closed = true
					}
				}
				if !closed && p.NumWrites() == marks[i] {
					behind = true
				}
			}
			if !behind {
				break
			}
			if err := valid(); err != nil {
				return fmt.Errorf("valid write refused: %v", err)
			}
			time.Sleep(5 * time.Millisecond)
		}
	}
	for k := 0; k < after; k++ {
		if kind == "transport-error" {
			issued++
			if err := flow(); err != nil {
				return err
			}
		}
		if err := valid(); err != nil {
			return fmt.Errorf("valid write refused: %v", err)
		}
		if !backlog {
			time.Sleep(200 * time.Microsecond)
		}
	}
	// each channel: either a close event, or a later valid item delivered
	deadline := time.Now().Add(bound)
	for i, p := range pipes {
		for {
			closed := false
			for _, r := range rec.Snapshot() {
				if c, ok := r.Ev.(*gomavlib.EventChannelClose); ok && isPipeChannel(c.Channel, p) {
					closed = true
				}
			}
			delivered := false
			var cs []int
			var err error
			if n.Dialect == nil {
				cs, err = rawCounters(p)
			} else {
				cs, err = counters(p)
			}
			if err != nil {
				return fmt.Errorf("channel %d: %v", i, err)
			}
			for _, c := range cs {
				if c >= firstAfter {
					delivered = true
				}
			}
			if !affected[i] {
				// healthy channel: must have everything
				want := counter
				if kind == "id>255-on-v1" {
					want = counter
				}
				if len(cs) >= want {
					break
				}
			} else if closed || delivered {
				break
			}
			if time.Now().After(deadline) {
				if !affected[i] {
					return fmt.Errorf("healthy channel %d received %d of %d items", i, len(cs), counter)
				}
				return fmt.Errorf("channel %d: after a failed write (%s) the channel was neither reported closed nor did it deliver any of the %d valid items written afterwards within %v: it stays open and discards everything (events: %s)", i, kind, after, bound, strings.TrimSpace(renderEvents(rec.Snapshot(), nil)))
			}
			time.Sleep(2 * time.Millisecond)
		}
	}
	// whatever the failure was, nothing may reappear later or overtake: every stream stays in submission order
	time.Sleep(5 * time.Millisecond)
	for i, p := range pipes {
		var cs []int
		var err error
		if n.Dialect == nil {
			cs, err = rawCounters(p)
		} else {
			cs, err = counters(p)
		}
		if err != nil {
			return fmt.Errorf("channel %d: %v", i, err)
		}
		for k := 1; k < len(cs); k++ {
			if cs[k] <= cs[k-1] {
				return fmt.Errorf("channel %d after a failed write (%s): item %d is on the wire after item %d (an item reappeared or overtook others): %v", i, kind, cs[k], cs[k-1], cs)
			}
		}
	}
	return nil
}

// allCounters decodes, in wire order, the counters of both originated DEBUG messages and forwarded tagged raw frames.
func allCounters(p *sim.Pipe) ([]int, error) {
	var out []int
	for k, b := range p.Writes() {
		f, n, err := ref.Parse(b)
		if err != nil || n != len(b) {
			return nil, fmt.Errorf("write %d is not one whole frame: %x", k, b)
		}
		if f.ID == debugMsgID {
			v, derr := lay(debugMsgID).Decode(f.Payload, f.V2)
			if derr != nil {
				return nil, derr
			}
			out = append(out, int(v.(*common.MessageDebug).TimeBootMs))
		} else if f.ID == 0 && f.Sys == nodeSys {
			v, derr := lay(0).Decode(f.Payload, f.V2)
			if derr != nil {
				return nil, derr
			}
			out = append(out, int(v.(*common.MessageHeartbeat).CustomMode))
		} else if _, idx, ok := identifyFlat(f); ok {
			out = append(out, idx)
		}
	}
	return out, nil
}
